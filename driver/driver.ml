(* driver.ml — reads cases and implementation observations (one s-expression
   per line each), runs the extracted model, prints one s-expression per line.
   Format: "(" ")" , atoms "x<hex>" (byte strings), decimal integers. *)

let ascii_of_char (c : char) : Model.ascii =
  let n = Char.code c in
  let b i = (n lsr i) land 1 = 1 in
  Model.Ascii (b 0, b 1, b 2, b 3, b 4, b 5, b 6, b 7)

let char_of_ascii (a : Model.ascii) : char =
  match a with
  | Model.Ascii (b0, b1, b2, b3, b4, b5, b6, b7) ->
    let v b i = if b then 1 lsl i else 0 in
    Char.chr (v b0 0 + v b1 1 + v b2 2 + v b3 3 + v b4 4 + v b5 5 + v b6 6 + v b7 7)

let rec pos_of_int (n : int) : Model.positive =
  if n = 1 then Model.XH
  else if n land 1 = 1 then Model.XI (pos_of_int (n lsr 1))
  else Model.XO (pos_of_int (n lsr 1))

let z_of_int (n : int) : Model.z =
  if n = 0 then Model.Z0 else if n > 0 then Model.Zpos (pos_of_int n) else Model.Zneg (pos_of_int (-n))

let rec int_of_pos (p : Model.positive) : int =
  match p with Model.XH -> 1 | Model.XO q -> 2 * int_of_pos q | Model.XI q -> 2 * int_of_pos q + 1

let int_of_z (z : Model.z) : int =
  match z with Model.Z0 -> 0 | Model.Zpos p -> int_of_pos p | Model.Zneg p -> - (int_of_pos p)

let hexval c =
  match c with
  | '0' .. '9' -> Char.code c - 48
  | 'a' .. 'f' -> Char.code c - 87
  | 'A' .. 'F' -> Char.code c - 55
  | _ -> failwith "bad hex"

let str_of_hex (h : string) : Model.ascii list =
  let n = String.length h / 2 in
  List.init n (fun i -> ascii_of_char (Char.chr (hexval h.[2*i] * 16 + hexval h.[2*i+1])))

let hex_of_str (s : Model.ascii list) : string =
  let b = Buffer.create 16 in
  List.iter (fun a -> Buffer.add_string b (Printf.sprintf "%02x" (Char.code (char_of_ascii a)))) s;
  Buffer.contents b

(* parser *)
let parse (line : string) : Model.sexp =
  let n = String.length line in
  let pos = ref 0 in
  let rec skip () = if !pos < n && (line.[!pos] = ' ' || line.[!pos] = '\t' || line.[!pos] = '\r') then (incr pos; skip ()) in
  let rec item () : Model.sexp =
    skip ();
    if !pos >= n then failwith "unexpected end";
    if line.[!pos] = '(' then begin
      incr pos;
      let acc = ref [] in
      let rec loop () =
        skip ();
        if !pos >= n then failwith "unclosed";
        if line.[!pos] = ')' then incr pos
        else begin acc := item () :: !acc; loop () end in
      loop ();
      Model.Lst (List.rev !acc)
    end else begin
      let st = !pos in
      while !pos < n && line.[!pos] <> ' ' && line.[!pos] <> ')' && line.[!pos] <> '(' do incr pos done;
      let tok = String.sub line st (!pos - st) in
      if String.length tok > 0 && tok.[0] = 'x' then Model.A (str_of_hex (String.sub tok 1 (String.length tok - 1)))
      else Model.I (z_of_int (int_of_string tok))
    end in
  item ()

let rec print (b : Buffer.t) (s : Model.sexp) : unit =
  match s with
  | Model.A s -> Buffer.add_char b 'x'; Buffer.add_string b (hex_of_str s)
  | Model.I z -> Buffer.add_string b (string_of_int (int_of_z z))
  | Model.Lst l ->
    Buffer.add_char b '(';
    List.iteri (fun i x -> if i > 0 then Buffer.add_char b ' '; print b x) l;
    Buffer.add_char b ')'

let () =
  let cases = open_in Sys.argv.(1) in
  let impl = open_in Sys.argv.(2) in
  let out = if Array.length Sys.argv > 3 then open_out Sys.argv.(3) else stdout in
  (try
     while true do
       let c = input_line cases in
       let i = (try input_line impl with End_of_file -> "()") in
       let b = Buffer.create 256 in
       (try print b (Model.run_case (parse c) (parse i))
        with e -> Buffer.add_string b ("(xERR " ^ String.escaped (Printexc.to_string e) ^ ")"));
       output_string out (Buffer.contents b); output_char out '\n'
     done
   with End_of_file -> ());
  close_out out

#!/bin/sh
# builds the extracted model + driver into /verif/driver/_build/driver
set -e
cd "$(dirname "$0")"
mkdir -p _build
( cd ../coq/extract && timeout 600 coqc -Q ../model Model -Q ../spec Spec Extract.v >/dev/null && mv model.ml model.mli ../../driver/_build/ )
cp driver.ml _build/
cd _build
ocamlfind ocamlopt -O3 -w -a -package str model.mli model.ml driver.ml -o driver 2>/dev/null || ocamlfind ocamlopt -w -a model.mli model.ml driver.ml -o driver

package main

import (
	"bufio"
	"bytes"
	"compress/gzip"
	"compress/zlib"
	"context"
	"encoding/json"
	"fmt"
	"io"
	"io/ioutil"
	"net"
	"net/http"
	"net/http/httptest"
	"regexp"
	"runtime"
	"strconv"
	"strings"
	"sync"
	"testing/iotest"
	"time"

	restful "github.com/emicklei/go-restful/v3"
)

// ---- domain "disp" (C06 C07 C10 C19): filter chain, encoding, panics, histories ----
// raw case = (cfg history mode)
// cfg     = (table cfilters sfilters rfilters handlers encoding recover recover-script provider capacity)
// fscript = (id pre pass post fresh)     action = (kind a b)
// history = ((entry request preset-content-encoding) ...)   entry: 0 Dispatch, 1 ServeHTTP
// mode    = 0 sequential only, k>0: additionally the whole history issued from k goroutines at once

type Action struct {
	Kind int
	A, B string
}
type FScript struct {
	ID    string
	Pre   []Action
	Pass  bool
	Post  []Action
	Fresh bool
	MW    int  // 0 a FilterFunction; 1 / 2 an http middleware (HttpMiddlewareHandlerToFilter) passing on the same / a derived request
	Wrap  bool // passes on restful.NewResponse(w), w an upper-casing writer around the response it was given
}

func actionsSx(l []Action) Sx {
	out := Ls{}
	for _, a := range l {
		out = append(out, L(a.Kind, A(a.A), A(a.B)))
	}
	return out
}
func (f FScript) Sx() Sx {
	return L(A(f.ID), actionsSx(f.Pre), B(f.Pass), actionsSx(f.Post), B(f.Fresh), f.MW, B(f.Wrap))
}
func fscriptsSx(l []FScript) Sx {
	out := Ls{}
	for _, f := range l {
		out = append(out, f.Sx())
	}
	return out
}
func actionsFromSx(s Sx) []Action {
	out := []Action{}
	for _, a := range sxList(s) {
		out = append(out, Action{Kind: sxInt(sxNth(a, 0)), A: sxStr(sxNth(a, 1)), B: sxStr(sxNth(a, 2))})
	}
	return out
}
func fscriptsFromSx(s Sx) []FScript {
	out := []FScript{}
	for _, f := range sxList(s) {
		out = append(out, FScript{ID: sxStr(sxNth(f, 0)), Pre: actionsFromSx(sxNth(f, 1)), Pass: sxBool(sxNth(f, 2)),
			Post: actionsFromSx(sxNth(f, 3)), Fresh: sxBool(sxNth(f, 4)), MW: sxInt(sxNth(f, 5)), Wrap: sxBool(sxNth(f, 6))})
	}
	return out
}

// ---------- generators ----------
var payloadPool = []string{"<a>", "<bb>", "", "<payload-with-some-length-to-compress-compress-compress>", "<é>", "<\x00\x01\xff>"}

func genPayload(r *Rng) string {
	if r.Pct(8) {
		n := 200 + r.Intn(3000)
		b := make([]byte, n)
		for i := range b {
			b[i] = byte('A' + r.Intn(26)) // no digits: error messages are recognised by their digits
		}
		return "<" + string(b) + ">"
	}
	return r.Pick(payloadPool)
}

func genActions(r *Rng, n int, panicPct int) []Action {
	out := []Action{}
	for i := 0; i < n; i++ {
		switch p := r.Intn(100); {
		case p < 1:
			out = append(out, Action{7, r.Pick([]string{"0", "1", "0"}), ""}) // resp.PrettyPrint(b)
		case p < 4:
			out = append(out, Action{8, entityCompact, entityPretty}) // resp.WriteAsJson(value)
		case p < 6:
			// user code drops a header (net/http's own 304 path drops Content-Encoding from under the compressor)
			out = append(out, Action{6, r.Pick([]string{"X-A", "Content-Encoding", "Content-Encoding", "X-B"}), ""})
		case p < 25:
			out = append(out, Action{0, r.Pick([]string{"X-A", "X-B", "X-A"}), r.Pick([]string{"1", "2", "x"})})
		case p < 35:
			out = append(out, Action{1, itoa([]int{200, 201, 202, 400, 500, 204, 304}[r.Intn(7)]), ""})
		case p < 65:
			out = append(out, Action{2, genPayload(r), ""})
		case p < 80:
			out = append(out, Action{3, r.Pick([]string{"k1", "k2"}), r.Pick([]string{"u", "v", "w"})})
		case p < 95:
			out = append(out, Action{4, r.Pick([]string{"k1", "k2"}), ""})
		default:
			if r.Pct(panicPct) {
				// (third field: where the panic starts - in the script itself, or inside Request.ReadEntity of a plain /
				// gzip-encoded body; scripts without a *Request just panic)
				out = append(out, Action{5, r.Pick([]string{"boom", "bang", "boom", abortText}), r.Pick([]string{"", "", "", "entity", "entity-gzip", "handle-dup", "entity-write"})})
			}
		}
	}
	return out
}

func genFScripts(r *Rng, prefix string, max int, panicPct int) []FScript {
	n := r.Intn(max + 1)
	out := []FScript{}
	for i := 0; i < n; i++ {
		f := FScript{ID: prefix + itoa(i), Pre: genActions(r, r.Intn(3), panicPct), Pass: r.Pct(85),
			Post: genActions(r, r.Intn(3), panicPct), Fresh: r.Pct(12), Wrap: r.Pct(8)}
		if r.Pct(15) {
			// an http middleware: it only has the ResponseWriter and the *http.Request
			f.MW, f.Fresh, f.Wrap = 1+r.Intn(3), false, false
			keep := func(l []Action) []Action {
				out := []Action{}
				for _, a := range l {
					if a.Kind <= 2 || a.Kind == 5 || a.Kind == 6 {
						out = append(out, a)
					}
				}
				return out
			}
			f.Pre, f.Post = keep(f.Pre), keep(f.Post)
		}
		out = append(out, f)
	}
	return out
}

func genDisp(r *Rng) Sx {
	router := 0
	if r.Pct(25) {
		router = 1
	}
	t, routes := genSimpleTable(r, router)
	// make sure "/" is served so that ServeHTTP reaches dispatch for every path
	hasRoot := false
	for _, s := range t.Services {
		if s.Root == "/" || s.Root == "" {
			hasRoot = true
		}
	}
	if !hasRoot {
		t.Services = append([]ServiceSpec{{Root: "/", Routes: []RouteSpec{{ID: 900, Method: "GET", Rel: "/zz"}}}}, t.Services...)
	}
	{
		// a root ending in "/" makes the mux redirect root-without-slash requests (301): not this domain's subject
		seen := map[string]bool{}
		keep := []ServiceSpec{}
		for _, s := range t.Services {
			if s.Root != "/" && s.Root != "" {
				s.Root = strings.TrimRight(s.Root, "/")
			}
			if !seen[s.Root] {
				seen[s.Root] = true
				keep = append(keep, s)
			}
		}
		t.Services = keep
	}
	panicPct := []int{0, 0, 30, 100}[r.Intn(4)]
	sf, rf, hs := Ls{}, Ls{}, Ls{}
	for si := range t.Services {
		sf = append(sf, L(A(t.Services[si].Root), fscriptsSx(genFScripts(r, "s"+itoa(si)+"_", 2, panicPct))))
		for ri := range t.Services[si].Routes {
			rt := &t.Services[si].Routes[ri]
			if r.Pct(40) {
				rt.Enc = []bool{r.Bool()}
			}
			rf = append(rf, L(rt.ID, fscriptsSx(genFScripts(r, "r"+itoa(rt.ID)+"_", 2, panicPct))))
			hs = append(hs, L(rt.ID, actionsSx(genActions(r, 1+r.Intn(4), panicPct))))
		}
	}
	cf := genFScripts(r, "c", []int{3, 3, 3, 3, 7}[r.Intn(5)], panicPct)
	recoverScript := []Action{{1, "500", ""}, {2, "<recovered>", ""}}
	if r.Pct(25) {
		recoverScript = []Action{}
		for _, a := range genActions(r, 1+r.Intn(4), 0) {
			if a.Kind <= 2 || a.Kind == 6 { // the recover handler only has the writer
				recoverScript = append(recoverScript, a)
			}
		}
	} else if r.Pct(25) {
		// no RecoverHandler call: go-restful's own handler, which answers 500 with a report (reason and stack)
		recoverScript = []Action{{1, "500", ""}, {2, defaultReport, ""}}
	}
	condPanic := Ls{}
	if r.Pct(20) {
		for _, gr := range routes {
			if r.Pct(40) {
				condPanic = append(condPanic, gr.spec.ID)
			}
		}
	}
	// plain http handlers registered with Handle / HandleWithFilter (reached through ServeHTTP only)
	plain := Ls{}
	plainPaths := []string{}
	if r.Pct(30) {
		for k := 0; k < 1+r.Intn(2); k++ {
			pth := "/plain-" + itoa(k)
			acts := []Action{}
			for _, a := range genActions(r, 1+r.Intn(3), panicPct) {
				if a.Kind <= 2 || a.Kind == 5 || a.Kind == 6 {
					acts = append(acts, a)
				}
			}
			// 0 Handle, 1 HandleWithFilter, 2 HandleWithFilter of ANOTHER container (same encoding switch) whose one
			// route runs the script: nested containers must not encode twice
			plain = append(plain, L(A(pth), []int{0, 1, 1, 2}[r.Intn(4)], actionsSx(acts)))
			plainPaths = append(plainPaths, pth)
		}
	}
	nested := false
	for _, ph := range plain {
		if sxInt(sxNth(ph, 1)) == 2 {
			nested = true
		}
	}
	if nested {
		// a nested container decides by the label whether the response is encoded already: dropping it there makes the
		// user's set-up encode twice, which is not the framework's doing
		keepLabel := func(x Sx) Sx { return sxReplaceStr(x, "Content-Encoding", "X-A") }
		cf2 := fscriptsFromSx(keepLabel(fscriptsSx(cf)))
		cf = cf2
		sf, rf, hs, plain = keepLabel(sf).(Ls), keepLabel(rf).(Ls), keepLabel(hs).(Ls), keepLabel(plain).(Ls)
		recoverScript = actionsFromSx(keepLabel(actionsSx(recoverScript)))
	}
	cfg := L(t.Sx(), fscriptsSx(cf), sf, rf, hs, B(r.Pct(55)), B(r.Pct(60)), actionsSx(recoverScript), r.Intn(2), []int{0, 1, 2, 8}[r.Intn(4)], condPanic,
		plain, B(r.Pct(30)))
	n := 1 + r.Intn(4)
	if r.Pct(10) || forceConc {
		n = 5 + r.Intn(12)
	}
	hist := Ls{}
	for i := 0; i < n; i++ {
		q := genSimpleRequest(r, routes)
		q.Path = "/" + strings.Join(nonEmpty(strings.Split(q.Path, "/")), "/") // clean path: the mux must not redirect
		if len(routes) > 0 && r.Pct(70) {
			q.Method = routes[r.Intn(len(routes))].spec.Method
		}
		if r.Pct(70) {
			q.Set("Accept-Encoding", r.Pick([]string{"gzip", "deflate", "gzip, deflate", "deflate, gzip", "xgzipx", "GZIP", "gzip;q=0", "identity", "br", "x-gzip", "x-gzip, gzip", "x-deflate;q=0.5"}))
		}
		if len(condPanic) > 0 && r.Pct(50) {
			q.Set("X-Cond-Panic", "1")
		}
		if r.Pct(6) {
			q.Set("X-Verif-Cancelled", "1") // the request arrives with a context that is already done
		}
		if q.Get("Accept-Encoding") == "" && r.Pct(8) {
			q.Set("X-Verif-Gone", "1") // the client is gone: every Write to the underlying writer reports an error
		}
		if r.Pct(10) {
			q.Set("X-Verif-Hijack", "1") // the route function tries to hijack first; the server refuses
		}
		preset := ""
		if r.Pct(8) {
			preset = r.Pick([]string{"br", "gzip", "identity"})
		}
		entry := r.Intn(2)
		if len(plainPaths) > 0 && r.Pct(35) {
			q.Path, q.Method, entry = r.Pick(plainPaths), "GET", 1
		}
		hist = append(hist, L(entry, q.Sx(), A(preset)))
	}
	mode := 0
	if r.Pct(25) || forceConc {
		mode = 2 + r.Intn(7)
	}
	return L(cfg, hist, mode)
}

func nonEmpty(l []string) []string {
	out := []string{}
	for _, s := range l {
		if s != "" {
			out = append(out, s)
		}
	}
	return out
}

// ---------- ledger: an instrumenting CompressorProvider around the real ones ----------
type ledger struct {
	mu                 sync.Mutex
	inner              restful.CompressorProvider
	held               map[interface{}]bool
	acq, rel, dbl, unk int
	writersOnly        bool            // count acquisitions and releases of writers only (readers are still watched for double use)
	nested             map[string]bool // goroutines that are inside the provider's AcquireGzipReader
}

func newLedger(inner restful.CompressorProvider) *ledger {
	return &ledger{inner: inner, held: map[interface{}]bool{}}
}
func (l *ledger) take(x interface{}) {
	g := ""
	if l.writersOnly {
		g = goroutineID()
	}
	l.mu.Lock()
	if l.held[x] {
		l.dbl++ // handed out while still held
	}
	l.held[x] = true
	if !l.nested[g] {
		l.acq++
	}
	l.mu.Unlock()
}
func (l *ledger) give(x interface{}) {
	g := ""
	if l.writersOnly {
		g = goroutineID()
	}
	l.mu.Lock()
	if !l.held[x] {
		l.unk++ // released twice or never acquired
	}
	delete(l.held, x)
	if !l.nested[g] {
		l.rel++
	}
	l.mu.Unlock()
}
func (l *ledger) AcquireGzipWriter() *gzip.Writer {
	w := l.inner.AcquireGzipWriter()
	l.take(w)
	return w
}
func (l *ledger) ReleaseGzipWriter(w *gzip.Writer) { l.give(w); l.inner.ReleaseGzipWriter(w) }
func (l *ledger) AcquireGzipReader() *gzip.Reader {
	if l.writersOnly {
		// making a new reader, the providers borrow a WRITER from the current provider for a moment (newGzipReader):
		// that one is the provider's own business, not a response's
		g := goroutineID()
		l.mu.Lock()
		if l.nested == nil {
			l.nested = map[string]bool{}
		}
		l.nested[g] = true
		l.mu.Unlock()
		defer func() {
			l.mu.Lock()
			delete(l.nested, g)
			l.mu.Unlock()
		}()
	}
	w := l.inner.AcquireGzipReader()
	l.take(w) // (not counted in writers-only mode: this goroutine is marked)
	return w
}

func goroutineID() string {
	var buf [64]byte
	n := runtime.Stack(buf[:], false)
	f := strings.Fields(string(buf[:n])) // "goroutine 123 [running]:"
	if len(f) > 1 {
		return f[1]
	}
	return ""
}
func (l *ledger) ReleaseGzipReader(w *gzip.Reader) {
	l.give(w)
	if l.writersOnly {
		l.mu.Lock()
		l.rel--
		l.mu.Unlock()
	}
	l.inner.ReleaseGzipReader(w)
}
func (l *ledger) AcquireZlibWriter() *zlib.Writer {
	w := l.inner.AcquireZlibWriter()
	l.take(w)
	return w
}
func (l *ledger) ReleaseZlibWriter(w *zlib.Writer) { l.give(w); l.inner.ReleaseZlibWriter(w) }

// ---------- building ----------
type reqLog struct {
	mu        sync.Mutex
	events    []string
	recovered int
}

func (l *reqLog) add(e string) { l.mu.Lock(); l.events = append(l.events, e); l.mu.Unlock() }

type dispEnv struct {
	logs []*reqLog          // one per request of the history, found through the X-Verif-Id header
	c    *restful.Container // the container these requests are served by (scripts may call it)
}

func (e *dispEnv) logOf(r *http.Request) *reqLog {
	i, _ := strconv.Atoi(r.Header.Get("X-Verif-Id"))
	if i < len(e.logs) {
		return e.logs[i]
	}
	return &reqLog{}
}

func runActions(env *dispEnv, l []Action, rq *restful.Request, rp *restful.Response, lg *reqLog) {
	for _, a := range l {
		switch a.Kind {
		case 0:
			rp.AddHeader(a.A, a.B)
		case 1:
			n, _ := strconv.Atoi(a.A)
			rp.WriteHeader(n)
		case 2:
			rp.Write([]byte(a.A))
		case 3:
			rq.SetAttribute(a.A, a.B)
		case 4:
			v := ""
			if x := rq.Attribute(a.A); x != nil {
				v = fmt.Sprint(x)
			}
			lg.add("see:" + a.A + "=" + v)
		case 5:
			switch {
			case a.B == "handle-dup" && env != nil && env.c != nil:
				// the script registers a plain handler on a pattern that is taken: the mux panics inside
				// Container.Handle; the panic leaves the script with the script's own value
				func() {
					defer func() {
						if recover() != nil {
							panicWith(a.A)
						}
					}()
					env.c.Handle(dupPattern, http.NotFoundHandler())
				}()
				panicWith(a.A)
			case a.B == "entity-write":
				// the panic starts inside the entity WRITER (a value whose MarshalJSON panics), before anything is sent
				rp.PrettyPrint(true)
				rp.SetRequestAccepts(restful.MIME_JSON)
				rp.WriteEntity(panickyOut{a.A})
			case a.B != "" && a.B != "handle-dup":
				readPanickingEntity(rq, a.A, a.B == "entity-gzip") // panics from inside ReadEntity - if all is well
			default:
				panicWith(a.A)
			}
		case 6:
			rp.Header().Del(a.A)
		case 7:
			rp.PrettyPrint(a.A == "1")
		case 8:
			rp.WriteAsJson(entityValue)
		}
	}
}

// a pattern every container of this domain has a plain handler on (no request ever asks for it)
const dupPattern = "/zz-taken-pattern"

// user code whose panic starts inside Request.ReadEntity: the handler gives the request a JSON body (gzip-encoded and
// declared so, or plain) and reads it into a value whose UnmarshalJSON panics. For the framework this is a panic of
// the route function like any other.
type panicky struct{ msg string }

func (p *panicky) UnmarshalJSON([]byte) error { panicWith(p.msg); return nil }

type panickyOut struct{ msg string }

func (p panickyOut) MarshalJSON() ([]byte, error) { panicWith(p.msg); return nil, nil }

func readPanickingEntity(rq *restful.Request, msg string, gz bool) {
	body := []byte(`{"a":1}`)
	if gz {
		var b bytes.Buffer
		zw := gzip.NewWriter(&b)
		zw.Write(body)
		zw.Close()
		body = b.Bytes()
		rq.Request.Header.Set("Content-Encoding", "gzip")
	} else {
		rq.Request.Header.Del("Content-Encoding")
	}
	rq.Request.Header.Set("Content-Type", "application/json")
	rq.Request.Body = ioutil.NopCloser(bytes.NewReader(body))
	rq.ReadEntity(&panicky{msg})
}

// the one value scripts write as an entity, and its two renderings (computed with encoding/json here: what a Response
// makes of it depends on its pretty-print switch only)
type entityT struct {
	A int    `json:"a"`
	S string `json:"s"`
}

var entityValue = entityT{7, "x"}
var entityCompact, entityPretty = func() (string, string) {
	var b bytes.Buffer
	json.NewEncoder(&b).Encode(entityValue)
	p, _ := json.MarshalIndent(entityValue, "", " ")
	return b.String(), string(p)
}()

// a writer that upper-cases (ASCII) whatever is written through it
type upperWriter struct{ inner http.ResponseWriter }

func (u upperWriter) Header() http.Header { return u.inner.Header() }
func (u upperWriter) WriteHeader(n int)   { u.inner.WriteHeader(n) }
func (u upperWriter) Write(p []byte) (int, error) {
	q := make([]byte, len(p))
	for i, c := range p {
		if c >= 'a' && c <= 'z' {
			c -= 32
		}
		q[i] = c
	}
	return u.inner.Write(q)
}

// panic values are strings, except one: net/http's own sentinel error (its text is what fmt prints for it, so the
// model, which knows panic values as text, needs no special case)
var abortText = http.ErrAbortHandler.Error()

func panicWith(text string) {
	if text == abortText {
		panic(http.ErrAbortHandler)
	}
	panic(text)
}

type ctxKey string

// streamTo hands every chunk the reader yields to the writer. It prefers the writer's ReadFrom as io.Copy does, but unlike io.Copy it goes on after a failed Write (the
// scripts of the model write all they have whether the client is still there or not).
func streamTo(w io.Writer, r io.Reader) {
	if rf, ok := w.(io.ReaderFrom); ok { // as io.Copy prefers it
		rf.ReadFrom(r)
		return
	}
	buf := make([]byte, 1024)
	for {
		n, err := r.Read(buf)
		if n > 0 {
			w.Write(buf[:n])
		}
		if err != nil {
			return
		}
	}
}

func runHTTPActions(l []Action, w http.ResponseWriter) {
	for _, a := range l {
		switch a.Kind {
		case 0:
			w.Header().Add(a.A, a.B)
		case 1:
			n, _ := strconv.Atoi(a.A)
			w.WriteHeader(n)
		case 2:
			if len(a.A)%3 == 1 {
				// the same bytes streamed from a reader that hands over its last bytes together with io.EOF
				streamTo(w, iotest.DataErrReader(strings.NewReader(a.A)))
			} else {
				w.Write([]byte(a.A))
			}
		case 5:
			panicWith(a.A)
		case 6:
			w.Header().Del(a.A)
		}
	}
}

func mkFilter(f FScript, env *dispEnv) restful.FilterFunction {
	if f.MW > 0 {
		return restful.HttpMiddlewareHandlerToFilter(func(next http.Handler) http.Handler {
			return http.HandlerFunc(func(w http.ResponseWriter, r *http.Request) {
				lg := env.logOf(r)
				lg.add("pre:" + f.ID)
				runHTTPActions(f.Pre, w)
				if f.Pass {
					if f.MW == 2 {
						r = r.WithContext(context.WithValue(r.Context(), ctxKey("mw"), f.ID))
					}
					if f.MW == 3 {
						// a request of the middleware's own making: the same content, a context that is NOT derived
						// from the one it was given
						r = r.Clone(context.WithValue(context.Background(), ctxKey("mw"), f.ID))
					}
					next.ServeHTTP(w, r)
				}
				runHTTPActions(f.Post, w)
				lg.add("post:" + f.ID)
			})
		})
	}
	return func(rq *restful.Request, rp *restful.Response, ch *restful.FilterChain) {
		lg := env.logOf(rq.Request)
		lg.add("pre:" + f.ID)
		runActions(env, f.Pre, rq, rp, lg)
		if f.Pass {
			rq2, rp2 := rq, rp
			if f.Fresh {
				rq2 = restful.NewRequest(rq.Request)
			}
			if f.Wrap {
				rp2 = restful.NewResponse(upperWriter{rp})
			}
			ch.ProcessFilter(rq2, rp2)
		}
		runActions(env, f.Post, rq, rp, lg)
		lg.add("post:" + f.ID)
	}
}

func buildDisp(cfg Sx, env *dispEnv) *restful.Container {
	t := tableFromSx(sxNth(cfg, 0))
	c := restful.NewContainer()
	setRouter(c, t.Router, len(t.Services)+len(sxList(sxNth(cfg, 1))))
	env.c = c
	c.Handle(dupPattern, http.NotFoundHandler())
	// set-up order: container filters registered before everything else, or (odd number of them) after the services
	// and handlers; an equivalent hand-written ServiceErrorHandler on every third configuration
	cfs := fscriptsFromSx(sxNth(cfg, 1))
	lateContainerFilters := len(cfs)%2 == 1
	if !lateContainerFilters {
		for _, f := range cfs {
			c.Filter(mkFilter(f, env))
		}
	}
	if len(t.Services)%3 == 1 {
		c.ServiceErrorHandler(equivalentServiceErrorHandler)
	}
	sf := map[string][]FScript{}
	for _, x := range sxList(sxNth(cfg, 2)) {
		sf[sxStr(sxNth(x, 0))] = fscriptsFromSx(sxNth(x, 1))
	}
	rf := map[int][]FScript{}
	for _, x := range sxList(sxNth(cfg, 3)) {
		rf[sxInt(sxNth(x, 0))] = fscriptsFromSx(sxNth(x, 1))
	}
	hs := map[int][]Action{}
	for _, x := range sxList(sxNth(cfg, 4)) {
		hs[sxInt(sxNth(x, 0))] = actionsFromSx(sxNth(x, 1))
	}
	condPanic := map[int]bool{}
	for _, x := range sxList(sxNth(cfg, 10)) {
		condPanic[sxInt(x)] = true
	}
	// set-up order: half of the configurations first set the switch the other way and flip it after everything
	// is registered; the value at serving time is what counts
	flipLate := len(t.Services)%2 == 0
	c.EnableContentEncoding(sxBool(sxNth(cfg, 5)) != flipLate)
	rscript := actionsFromSx(sxNth(cfg, 7))
	// set-up order: recovery switched on before or after the recover handler is configured
	switchLate := len(rscript)%2 == 1
	if !switchLate {
		c.DoNotRecover(!sxBool(sxNth(cfg, 6)))
	} else {
		defer c.DoNotRecover(!sxBool(sxNth(cfg, 6)))
	}
	if !isDefaultReport(rscript) {
		c.RecoverHandler(func(reason interface{}, w http.ResponseWriter) {
			// the request is not passed to the handler: the log is found through a header the harness sets on the writer
			id, _ := strconv.Atoi(w.Header().Get("X-Verif-Rid"))
			lg := &reqLog{}
			if id < len(env.logs) {
				lg = env.logs[id]
			}
			lg.mu.Lock()
			lg.recovered++
			lg.events = append(lg.events, "recover:"+fmt.Sprint(reason))
			lg.mu.Unlock()
			rp := restful.NewResponse(w)
			runActions(env, rscript, restful.NewRequest(&http.Request{Header: http.Header{}}), rp, lg)
		})
	}
	for _, ph := range sxList(sxNth(cfg, 11)) {
		acts := actionsFromSx(sxNth(ph, 2))
		var h http.Handler = http.HandlerFunc(func(w http.ResponseWriter, r *http.Request) { runHTTPActions(acts, w) })
		if sxInt(sxNth(ph, 1)) == 2 {
			inner := restful.NewContainer()
			inner.EnableContentEncoding(sxBool(sxNth(cfg, 5)))
			iws := new(restful.WebService)
			iws.Path(sxStr(sxNth(ph, 0)))
			iws.Route(iws.GET("").Produces("*/*").Consumes("*/*").To(func(rq *restful.Request, rp *restful.Response) { runHTTPActions(acts, rp) }))
			inner.Add(iws)
			h = inner
		}
		if sxBool(sxNth(ph, 1)) {
			c.HandleWithFilter(sxStr(sxNth(ph, 0)), h)
		} else {
			c.Handle(sxStr(sxNth(ph, 0)), h)
		}
	}
	for _, sv := range t.Services {
		ws := new(restful.WebService)
		ws.Path(sv.Root)
		lateFilters := len(sv.Routes)%2 == 1 // set-up order: service filters registered after the routes
		if !lateFilters {
			for _, f := range sf[sv.Root] {
				ws.Filter(mkFilter(f, env))
			}
		}
		for _, rs := range sv.Routes {
			rs := rs
			b := ws.Method(rs.Method).Path(rs.Rel)
			if len(rs.Consumes) > 0 {
				b.Consumes(rs.Consumes...)
			}
			if len(rs.Produces) > 0 {
				b.Produces(rs.Produces...)
			}
			if len(rs.Enc) > 0 {
				b.ContentEncodingEnabled(rs.Enc[0])
			}
			if condPanic[rs.ID] {
				// an If-condition that panics on marked requests (it runs inside route selection, under the read lock)
				b.If(func(hr *http.Request) bool {
					if hr.Header.Get("X-Cond-Panic") == "1" {
						panic("cond")
					}
					return true
				})
			}
			for _, f := range rf[rs.ID] {
				b.Filter(mkFilter(f, env))
			}
			full := strings.TrimRight(ws.RootPath(), "/") + "/" + strings.TrimLeft(rs.Rel, "/")
			b.Metadata("limits", map[string]interface{}{"max": 10})
			b.To(func(rq *restful.Request, rp *restful.Response) {
				lg := env.logOf(rq.Request)
				// the metadata a handler is given is a copy ("Returns a copy"): what it does to it stays with this request
				if sr := rq.SelectedRoute(); sr == nil {
					// (a filter passed on a new Request wrapper: no selected route on it)
				} else if md := sr.Metadata(); md != nil {
					if lim, ok := md["limits"].(map[string]interface{}); ok {
						if lim["max"] != 10 {
							lg.add("metadata-of-the-route-was-changed-by-another-request")
						}
						lim["max"] = 99
					}
					md["extra"] = "x"
				}
				ks := []string{}
				for k := range rq.PathParameters() {
					ks = append(ks, k)
				}
				sortStrings(ks)
				ps := []string{}
				for _, k := range ks {
					ps = append(ps, k+"="+rq.PathParameter(k))
				}
				_ = full
				lg.add("H:" + itoa(rs.ID))
				lg.add("saw:" + rq.SelectedRoutePath() + " " + strings.Join(ps, ";"))
				// user code may write into the map it is handed; that must stay within this request (C19)
				rq.PathParameters()["zz-left-behind"] = itoa(rs.ID)
				if rq.Request.Header.Get("X-Verif-Hijack") == "1" {
					// user code that tries to take the connection over, is refused by the server and goes on to answer
					// in the ordinary way: the refused attempt changes nothing
					rp.Hijack()
				}
				runActions(env, hs[rs.ID], rq, rp, lg)
			})
			ws.Route(b)
		}
		if lateFilters {
			for _, f := range sf[sv.Root] {
				ws.Filter(mkFilter(f, env))
			}
		}
		func() {
			defer func() { recover() }()
			c.Add(ws)
		}()
		// user code fiddling with the COPIES of the routes it is handed: the registered routes are not its to change
		for _, rt := range ws.Routes() {
			flip := true
			for _, rs := range sv.Routes {
				if concatPathGo(sv.Root, rs.Rel) == rt.Path && rs.Method == rt.Method && len(rs.Enc) > 0 {
					flip = !rs.Enc[0]
				}
			}
			rt.EnableContentEncoding(flip)
			rt.Method, rt.Path = "ZZ", "/zz-not-this"
		}
	}
	if lateContainerFilters {
		for _, f := range cfs {
			c.Filter(mkFilter(f, env))
		}
	}
	c.EnableContentEncoding(sxBool(sxNth(cfg, 5)))
	return c
}

// the body go-restful's own recover handler writes stands in the scripts as this marker; the real report (reason,
// then one line per stack frame) is recognised in the response and replaced by it
const defaultReport = "<default-recover-report>"

var reportRe = regexp.MustCompile(`recover from panic situation: - ([^\r\n]*)\r\n(?:    [^\r\n]*:[0-9]+\r\n)*`)

func isDefaultReport(l []Action) bool {
	return len(l) == 2 && l[1].Kind == 2 && l[1].A == defaultReport
}

// the client is gone: what is written is recorded all the same, every Write reports an error
type goneWriter struct{ *httptest.ResponseRecorder }

func (g goneWriter) Write(p []byte) (int, error) {
	g.ResponseRecorder.Write(p)
	return 0, errGone
}

// a server that can hand over connections in principle but refuses this one
type noHijackWriter struct{ http.ResponseWriter }

func (noHijackWriter) Hijack() (net.Conn, *bufio.ReadWriter, error) {
	return nil, nil, fmt.Errorf("hijack refused")
}

var errGone = fmt.Errorf("write: broken pipe")

func sortStrings(l []string) {
	for i := 1; i < len(l); i++ {
		for j := i; j > 0 && l[j] < l[j-1]; j-- {
			l[j], l[j-1] = l[j-1], l[j]
		}
	}
}

var errMsgRe = regexp.MustCompile(`(?i)40[46]: (Page Not Found|Not Found|Not Acceptable\n\nAvailable representations: [A-Za-z0-9/+.*,;= -]*)|405: Method Not Allowed|415: Unsupported Media Type(\n\nAvailable representations: [A-Za-z0-9/+.*,;= -]*)?`)

// serveOne runs request i of the history and returns its observation
func serveOne(c *restful.Container, env *dispEnv, i int, h Sx) Sx {
	entry := sxInt(sxNth(h, 0))
	q := sxReq(sxNth(h, 1))
	preset := sxStr(sxNth(h, 2))
	hr := q.HTTP()
	hr.Header.Set("X-Verif-Id", itoa(i))
	rec := httptest.NewRecorder()
	rec.Header().Set("X-Verif-Rid", itoa(i))
	if preset != "" {
		rec.Header().Set("Content-Encoding", preset)
	}
	if hr.Header.Get("X-Verif-Cancelled") == "1" {
		ctx, cancel := context.WithCancel(hr.Context())
		cancel()
		hr = hr.WithContext(ctx)
	}
	var w http.ResponseWriter = rec
	if hr.Header.Get("X-Verif-Gone") == "1" {
		w = goneWriter{rec}
	}
	if hr.Header.Get("X-Verif-Hijack") == "1" {
		w = noHijackWriter{w}
	}
	panicMsg := Ls{}
	done := make(chan struct{})
	go func() {
		defer close(done)
		defer func() {
			if r := recover(); r != nil {
				panicMsg = L(A(fmt.Sprint(r)))
			}
		}()
		if entry == 0 {
			c.Dispatch(w, hr)
		} else {
			c.ServeHTTP(w, hr)
		}
	}()
	select {
	case <-done:
	case <-time.After(20 * time.Second):
		// the request never came back (a lock left held by an earlier request): no further case in this process
		poisoned = true
		return L(L(A("request-blocked")), 0, Ls{}, A(""), 0, Ls{}, 0)
	}
	// the coding the client is told: the header as it was when the status line went out (the recorder's snapshot), not
	// the handler's live map - a label taken back after WriteHeader is still what the client decodes by
	ce := rec.Result().Header.Get("Content-Encoding")
	body := rec.Body.Bytes()
	ok := 1
	if ce != preset || preset == "" {
		var dec []byte
		var err error
		switch ce {
		case "gzip":
			var zr *gzip.Reader
			zr, err = gzip.NewReader(bytes.NewReader(body))
			if err == nil {
				dec, err = ioutil.ReadAll(zr)
			}
		case "deflate":
			var zr interface{ Read([]byte) (int, error) }
			src := bytes.NewReader(body)
			zr, err = zlib.NewReader(src)
			if err == nil {
				dec, err = ioutil.ReadAll(zr)
			}
			if err == nil && src.Len() > 0 {
				// (compress/zlib stops at the end of the stream; compress/gzip reports what follows by itself)
				err = fmt.Errorf("%d bytes after the end of the deflate stream", src.Len())
			}
		default:
			dec = body
			// a script may have dropped the label from under an installed compressor: the payloads of the scripts
			// never start with a gzip or zlib header, so a body that does and decodes completely is decoded
			if ce == "" && len(body) >= 2 && body[0] == 0x1f && body[1] == 0x8b {
				if zr, e := gzip.NewReader(bytes.NewReader(body)); e == nil {
					if d, e := ioutil.ReadAll(zr); e == nil {
						dec = d
					}
				}
			} else if ce == "" && len(body) >= 2 && body[0] == 0x78 {
				if zr, e := zlib.NewReader(bytes.NewReader(body)); e == nil {
					if d, e := ioutil.ReadAll(zr); e == nil {
						dec = d
					}
				}
			}
		}
		if err != nil {
			ok = 0
		}
		body = dec
	}
	// reports of go-restful's own recover handler: each one is a call of it
	reports := reportRe.FindAllSubmatch(body, -1)
	body = reportRe.ReplaceAll(body, []byte(defaultReport))
	body = errMsgRe.ReplaceAll(body, nil)
	hdr := rec.Header()
	hdr.Del("X-Verif-Rid")
	hdr.Del("Content-Type") // sniffed by the recorder, never set by go-restful or the scripts here
	lg := env.logs[i]
	lg.mu.Lock()
	events := append([]string{}, lg.events...)
	rc := lg.recovered
	lg.mu.Unlock()
	for _, m := range reports {
		events = append(events, "recover:"+string(m[1]))
		rc++
	}
	ev := Strs(events)
	return L(panicMsg, rec.Code, headerSx(hdr, func(string) bool { return true }), A(string(body)), ok, ev, rc)
}

func newEnv(n int) *dispEnv {
	e := &dispEnv{}
	for i := 0; i < n; i++ {
		e.logs = append(e.logs, &reqLog{})
	}
	return e
}

func runDisp(raw Sx) (Sx, Sx) {
	cfg, hist, mode := sxNth(raw, 0), sxList(sxNth(raw, 1)), sxInt(sxNth(raw, 2))
	var inner restful.CompressorProvider
	if sxInt(sxNth(cfg, 8)) == 0 {
		inner = restful.NewSyncPoolCompessors()
	} else {
		capn := sxInt(sxNth(cfg, 9))
		inner = restful.NewBoundedCachedCompressors(capn, capn)
	}
	ld := newLedger(inner)
	ld.writersOnly = true
	old := restful.CurrentCompressorProvider()
	restful.SetCompressorProvider(ld)
	defer restful.SetCompressorProvider(old)
	if sxBool(sxNth(cfg, 12)) {
		restful.EnableTracing(true) // trace logging on (to a discarding logger): must not change any answer
		defer restful.EnableTracing(false)
	}

	// (1) the history, sequentially, on one container
	env := newEnv(len(hist))
	c := buildDisp(cfg, env)
	seq := Ls{}
	for i, h := range hist {
		seq = append(seq, serveOne(c, env, i, h))
	}
	// after the history the container must still accept registrations: a read lock left held would block Add
	usable := 1
	{
		var wg sync.WaitGroup
		wg.Add(1)
		go func() {
			defer wg.Done()
			defer func() { recover() }()
			ws := new(restful.WebService)
			ws.Path("/zz-usable-probe")
			c.Add(ws)
		}()
		if b, d := waitOrDump(&wg, 2*time.Second, "sync.RWMutex", "(*Container).Add"); b {
			usable, lastDump = 0, d
		}
	}
	// (2) every request alone on a fresh container
	fresh := Ls{}
	for i, h := range hist {
		e2 := newEnv(len(hist))
		c2 := buildDisp(cfg, e2)
		fresh = append(fresh, serveOne(c2, e2, i, h))
	}
	// (3) the whole history at once from several goroutines on one container
	conc := Ls{}
	if mode > 0 {
		e3 := newEnv(len(hist))
		c3 := buildDisp(cfg, e3)
		out := make([]Sx, len(hist))
		var wg sync.WaitGroup
		sem := make(chan struct{}, mode)
		for i, h := range hist {
			wg.Add(1)
			go func(i int, h Sx) {
				defer wg.Done()
				sem <- struct{}{}
				out[i] = serveOne(c3, e3, i, h)
				<-sem
			}(i, h)
		}
		wg.Wait()
		conc = Ls(out)
	}
	ld.mu.Lock()
	led := L(ld.acq, ld.rel, ld.dbl, ld.unk, len(ld.held))
	ld.mu.Unlock()
	t := tableFromSx(sxNth(cfg, 0))
	o := NewOracles()
	for _, h := range hist {
		tabulateRouting(o, t, sxReq(sxNth(h, 1)).Path)
	}
	return L(o.Sx(), cfg, Ls(hist), mode), L(seq, fresh, conc, led, usable)
}

func init() { domains["disp"] = domain{gen: genDisp, run: runDisp} }

// every string atom equal to from replaced by to
func sxReplaceStr(x Sx, from, to string) Sx {
	if l, ok := x.(Ls); ok {
		out := Ls{}
		for _, e := range l {
			out = append(out, sxReplaceStr(e, from, to))
		}
		return out
	}
	switch v := x.(type) {
	case A:
		if string(v) == from {
			return A(to)
		}
	case string:
		if v == from {
			return A(to)
		}
	}
	return x
}

package main

import (
	"bytes"
	"compress/gzip"
	"encoding/json"
	"encoding/xml"
	"errors"
	"io"
	"io/ioutil"
	"net/http"
	"strings"

	restful "github.com/emicklei/go-restful/v3"
)

// ---- domain "resp" (C15): status / length bookkeeping of restful.Response ----
// raw case = (script comp pretty via ops)
//   script = ((accept err) ...)  behaviour of the k-th Write call of the underlying writer
//   comp   = 1: a CompressingResponseWriter (gzip) sits between Response and the writer
//   via    = 0: restful.NewResponse(writer) driven directly
//            1: the calls are made by a route function inside a container (Dispatch); StatusCode()/ContentLength()
//               are read by a container filter after the handler returned
//            3: as 1, with an http middleware (HttpMiddlewareHandlerToFilter) between the observing filter and the route
//            2: the calls (Write / WriteHeader only) are made by a plain http.Handler registered with HandleWithFilter,
//               reached through ServeHTTP; the numbers are read by a container filter after the handler returned
//   op     = (0 bytes) Write | (1 status) WriteHeader | (2 status reason api) WriteErrorString/WriteError
//          | (3 status found vnil marshal accept value api) entity writers | (4 pretty) PrettyPrint
// The harness fills in `found` (asked from the implementation: Response.EntityWriter) and `marshal` (the Write
// calls encoding/json / encoding/xml make for the value: a dry run against the standard library).

type failingWriter struct {
	hdr      http.Header
	status   int
	body     bytes.Buffer
	script   [][2]int
	calls    int
	fails    int
	accepted int
}

func (w *failingWriter) Header() http.Header { return w.hdr }

// ReadFrom as net/http's own response writer offers it (io.ReaderFrom): everything the reader has, in one Write
func (w *failingWriter) ReadFrom(r io.Reader) (int64, error) {
	b, _ := ioutil.ReadAll(r)
	n, err := w.Write(b)
	return int64(n), err
}
func (w *failingWriter) WriteHeader(n int) {
	if w.status == 0 {
		w.status = n
	}
}
func (w *failingWriter) Write(b []byte) (int, error) {
	if w.status == 0 {
		w.status = 200
	}
	k := w.calls
	w.calls++
	if k >= len(w.script) {
		w.body.Write(b)
		w.accepted += len(b)
		return len(b), nil
	}
	a, e := w.script[k][0], w.script[k][1] == 1
	n := len(b)
	if a < n {
		n = a
	}
	w.body.Write(b[:n])
	w.accepted += n
	if e || n < len(b) {
		w.fails++
		// whatever the error is (net/http's own sentinels included: a body after 204 / 304, a timed-out handler),
		// the failing call must hand it back
		return n, []error{errors.New("underlying writer failed"), http.ErrBodyNotAllowed, io.ErrShortWrite,
			http.ErrHandlerTimeout}[(w.fails+len(b))%4]
	}
	return n, nil
}

type sampleValue struct {
	XMLName xml.Name `json:"-" xml:"sample"`
	ID      int64    `json:"id" xml:"id"`
	Name    string   `json:"name" xml:"name"`
}
type badValue struct {
	XMLName xml.Name    `json:"-" xml:"bad"`
	F       func() bool `json:"f" xml:"f"`
}

func valueOf(spec Sx) interface{} {
	switch sxInt(sxNth(spec, 0)) {
	case 0:
		return sampleValue{ID: int64(sxInt(sxNth(spec, 1))), Name: sxStr(sxNth(spec, 2))}
	case 1:
		return &sampleValue{ID: 7, Name: strings.Repeat(sxStr(sxNth(spec, 2)), sxInt(sxNth(spec, 1)))}
	case 2:
		return badValue{F: func() bool { return true }}
	case 3:
		return []sampleValue{{ID: 1, Name: "a"}, {ID: 2, Name: sxStr(sxNth(spec, 2))}}
	default:
		return nil
	}
}

type recWriter struct{ chunks []string }

func (r *recWriter) Write(b []byte) (int, error) {
	r.chunks = append(r.chunks, string(b))
	return len(b), nil
}

// the Write calls the marshaller makes for v (nil = it fails)
func dryRun(isXML, pretty bool, v interface{}) []string {
	rec := &recWriter{}
	if isXML {
		if pretty {
			out, err := xml.MarshalIndent(v, " ", " ")
			if err != nil {
				return nil
			}
			return []string{xml.Header, string(out)}
		}
		if err := xml.NewEncoder(rec).Encode(v); err != nil {
			return nil
		}
		return append([]string{}, rec.chunks...)
	}
	if pretty {
		out, err := json.MarshalIndent(v, "", " ")
		if err != nil {
			return nil
		}
		return []string{string(out)}
	}
	if err := json.NewEncoder(rec).Encode(v); err != nil {
		return nil
	}
	return append([]string{}, rec.chunks...)
}

var respAccepts = []string{"application/json", "application/xml", "text/none", "", "*/*", "application/xml; charset=utf-8"} // one registered type at most: the substring fallback over a map is C05's subject

func genRespOps(r *Rng) Ls {
	pay := func() string {
		if r.Pct(10) {
			return strings.Repeat("z", 100+r.Intn(5000))
		}
		return r.Pick([]string{"", "a", "hello", "<x>", "0123456789", "é"})
	}
	status := func() int { return []int{200, 201, 204, 400, 404, 500, 100, 599}[r.Intn(8)] }
	value := func() Sx {
		switch p := r.Intn(20); {
		case p < 8:
			return L(0, r.Intn(1000)-3, A(r.Pick([]string{"n", "é<&>", "", "a b"})))
		case p < 12:
			return L(1, 50+r.Intn(900), A(r.Pick([]string{"abcdefgh", "é"})))
		case p < 14:
			return L(2, 0, A(""))
		case p < 17:
			return L(3, 0, A(r.Pick([]string{"x", "yy"})))
		default:
			return L(4, 0, A(""))
		}
	}
	setter := func() Sx {
		switch p := r.Intn(10); {
		case p < 2:
			return L(1, status())
		case p < 4:
			return L(2, status(), A(r.Pick([]string{"", "boom", "not found: é"})), r.Intn(3))
		default:
			return L(3, status(), 0, 0, Ls{}, A(r.Pick(respAccepts)), value(), r.Intn(8))
		}
	}
	ops := Ls{}
	switch p := r.Intn(100); {
	case p < 65:
		if r.Pct(30) {
			ops = append(ops, L(4, B(r.Bool())))
		}
		ops = append(ops, setter())
		for k := r.Intn(4); k > 0; k-- {
			if r.Pct(15) {
				ops = append(ops, L(4, B(r.Bool())))
			} else {
				ops = append(ops, L(0, A(pay())))
			}
		}
	case p < 80:
		for k := 1 + r.Intn(4); k > 0; k-- {
			ops = append(ops, L(0, A(pay())))
		}
	default:
		for k := r.Intn(6); k > 0; k-- {
			switch r.Intn(4) {
			case 0:
				ops = append(ops, L(0, A(pay())))
			case 1:
				ops = append(ops, L(4, B(r.Bool())))
			default:
				ops = append(ops, setter())
			}
		}
	}
	return ops
}

func genResp(r *Rng) Sx {
	comp := r.Pct(25)
	script := Ls{}
	if !comp && r.Pct(55) {
		n := 1 + r.Intn(5)
		for i := 0; i < n; i++ {
			if r.Pct(60) {
				script = append(script, L(1<<30, 0))
			} else {
				script = append(script, L([]int{0, 1, 3, 10, 4096, 1 << 30}[r.Intn(6)], B(r.Pct(50))))
			}
		}
	}
	pretty, via, ops := r.Bool(), r.Intn(2), genRespOps(r)
	if r.Pct(10) {
		via = 3 // route function behind an http middleware adapted with HttpMiddlewareHandlerToFilter; read by an EARLIER filter
	} else if r.Pct(15) {
		// a plain http.Handler registered with HandleWithFilter: it can only Write and WriteHeader
		via = 2
		kept := Ls{}
		for _, op := range ops {
			if k := sxInt(sxNth(op, 0)); k == 0 || k == 1 {
				kept = append(kept, op)
			}
		}
		ops = kept
	}
	if via <= 1 && r.Pct(10) {
		// the route function writes through a Response of its own around the one it was handed (NewResponse(resp)), as
		// code does that delegates to another container; the filter reads the one it passed on. Write, WriteHeader and
		// the error writers only (an entity needs what the framework told the handed-over Response)
		via = 4
		kept := Ls{}
		for _, op := range ops {
			if k := sxInt(sxNth(op, 0)); k <= 2 {
				kept = append(kept, op)
			}
		}
		ops = kept
	}
	presetLen := ""
	if r.Pct(12) {
		presetLen = r.Pick([]string{"37", "0", "1048576"}) // a Content-Length announced on the response before anything is written
	}
	return L(script, B(comp), B(pretty), via, ops, A(presetLen))
}

type respObs struct {
	errs  Ls // per op: (error-returned fails-after)
	code  int
	clen  int
	found []int
	chunk []Sx
}

// runs the calls on resp; fills in found / marshal of entity ops
func runRespOps(resp *restful.Response, ops []Sx, pretty bool, w *failingWriter) (Ls, Ls) {
	errs := Ls{}
	full := Ls{}
	for _, op := range ops {
		var err error
		switch sxInt(sxNth(op, 0)) {
		case 0:
			if data := sxStr(sxNth(op, 1)); len(data)%4 == 3 {
				// the same bytes streamed onto the Response with io.Copy from a source without a WriteTo of its own (a
				// file, a pipe): one Write of the same bytes today; the server's writer below offers ReadFrom
				_, err = io.Copy(resp, io.LimitReader(strings.NewReader(data), int64(len(data))))
			} else {
				_, err = resp.Write([]byte(data))
			}
			full = append(full, op)
		case 1:
			resp.WriteHeader(sxInt(sxNth(op, 1)))
			full = append(full, op)
		case 2:
			st, reason := sxInt(sxNth(op, 1)), sxStr(sxNth(op, 2))
			switch sxInt(sxNth(op, 3)) {
			case 0:
				err = resp.WriteErrorString(st, reason)
			case 1:
				err = resp.WriteError(st, errors.New(reason))
			default:
				if reason == "" {
					err = resp.WriteError(st, nil)
				} else {
					err = resp.WriteError(st, errors.New(reason))
				}
			}
			full = append(full, op)
		case 3:
			st := sxInt(sxNth(op, 1))
			accept := sxStr(sxNth(op, 5))
			vspec := sxNth(op, 6)
			api := sxInt(sxNth(op, 7))
			v := valueOf(vspec)
			resp.SetRequestAccepts(accept)
			found, isXML := true, false
			switch api {
			case 0, 1, 4:
				ew, ok := resp.EntityWriter()
				found = ok
				if ok {
					// which codec: ask the writer's own type through the public constructors
					isXML = ew == restful.NewEntityAccessorXML(restful.MIME_XML)
				}
			case 3, 6:
				isXML = true
			}
			if api == 0 || api == 2 || api == 3 || api == 7 {
				st = 200
			}
			var val interface{} = v
			if api == 4 {
				val = restful.ServiceError{Code: st, Message: sxStr(sxNth(vspec, 2))}
			}
			marshal := Ls{}
			if found && val != nil {
				if ch := dryRun(isXML, pretty, val); ch != nil {
					marshal = L(Strs(ch))
				}
			}
			switch api {
			case 0:
				err = resp.WriteEntity(v)
			case 1:
				err = resp.WriteHeaderAndEntity(st, v)
			case 2:
				err = resp.WriteAsJson(v)
			case 3:
				err = resp.WriteAsXml(v)
			case 4:
				err = resp.WriteServiceError(st, val.(restful.ServiceError))
			case 5:
				err = resp.WriteHeaderAndJson(st, v, restful.MIME_JSON)
			case 6:
				err = resp.WriteHeaderAndXml(st, v)
			default:
				err = resp.WriteJson(v, "application/vnd.x+json")
			}
			full = append(full, L(3, st, B(found), B(val == nil), marshal, A(accept), vspec, api))
		default:
			pretty = sxBool(sxNth(op, 1))
			resp.PrettyPrint(pretty)
			full = append(full, op)
		}
		errs = append(errs, L(B(err != nil), w.fails))
	}
	return errs, full
}

func runResp(raw Sx) (Sx, Sx) {
	script, comp, pretty, via, ops := sxNth(raw, 0), sxBool(sxNth(raw, 1)), sxBool(sxNth(raw, 2)), sxInt(sxNth(raw, 3)), sxList(sxNth(raw, 4))
	presetLen := ""
	if len(sxList(raw)) > 5 {
		presetLen = sxStr(sxNth(raw, 5))
	}
	w := &failingWriter{hdr: http.Header{}}
	if presetLen != "" {
		w.hdr.Set("Content-Length", presetLen)
	}
	for _, s := range sxList(script) {
		w.script = append(w.script, [2]int{sxInt(sxNth(s, 0)), B(sxBool(sxNth(s, 1)))})
	}
	oldPretty := restful.PrettyPrintResponses
	restful.PrettyPrintResponses = pretty
	defer func() { restful.PrettyPrintResponses = oldPretty }()
	var errs, full Ls
	code, clen := 0, 0
	panicked := 0
	func() {
		defer func() {
			if r := recover(); r != nil {
				panicked = 1
			}
		}()
		if via == 0 {
			var under http.ResponseWriter = w
			var cw *restful.CompressingResponseWriter
			if comp {
				cw, _ = restful.NewCompressingResponseWriter(w, "gzip")
				under = cw
			}
			resp := restful.NewResponse(under)
			errs, full = runRespOps(resp, ops, pretty, w)
			code, clen = resp.StatusCode(), resp.ContentLength()
			if cw != nil {
				cw.Close()
			}
		} else if via == 2 {
			c := restful.NewContainer()
			c.EnableContentEncoding(comp)
			c.Filter(func(rq *restful.Request, rp *restful.Response, ch *restful.FilterChain) {
				ch.ProcessFilter(rq, rp)
				code, clen = rp.StatusCode(), rp.ContentLength()
			})
			c.HandleWithFilter("/p", http.HandlerFunc(func(rw http.ResponseWriter, _ *http.Request) {
				for _, op := range ops {
					var err error
					if sxInt(sxNth(op, 0)) == 0 {
						_, err = rw.Write([]byte(sxStr(sxNth(op, 1))))
					} else {
						rw.WriteHeader(sxInt(sxNth(op, 1)))
					}
					full = append(full, op)
					errs = append(errs, L(B(err != nil), w.fails))
				}
			}))
			hr, _ := http.NewRequest("GET", "http://h/p", nil)
			if comp {
				hr.Header.Set("Accept-Encoding", "gzip")
			}
			c.ServeHTTP(w, hr)
		} else {
			c := restful.NewContainer()
			c.EnableContentEncoding(comp)
			c.Filter(func(rq *restful.Request, rp *restful.Response, ch *restful.FilterChain) {
				ch.ProcessFilter(rq, rp)
				code, clen = rp.StatusCode(), rp.ContentLength()
			})
			if via == 3 {
				c.Filter(restful.HttpMiddlewareHandlerToFilter(func(next http.Handler) http.Handler {
					return http.HandlerFunc(func(rw http.ResponseWriter, rq *http.Request) { next.ServeHTTP(rw, rq) })
				}))
			}
			ws := new(restful.WebService)
			ws.Path("/r")
			ws.Route(ws.GET("/x").To(func(rq *restful.Request, rp *restful.Response) {
				if via == 4 {
					errs, full = runRespOps(restful.NewResponse(rp), ops, pretty, w)
					return
				}
				errs, full = runRespOps(rp, ops, pretty, w)
			}))
			c.Add(ws)
			hr, _ := http.NewRequest("GET", "http://h/r/x", nil)
			if comp {
				hr.Header.Set("Accept-Encoding", "gzip")
			}
			c.Dispatch(w, hr)
		}
	}()
	accepted := w.accepted
	if comp && panicked == 0 {
		accepted = -1
		if zr, err := gzip.NewReader(bytes.NewReader(w.body.Bytes())); err == nil {
			if dec, err := ioutil.ReadAll(zr); err == nil {
				accepted = len(dec)
			}
		} else if w.body.Len() == 0 {
			accepted = 0 // nothing was ever written through the compressor and it was never closed onto the writer
		}
	}
	st := w.status
	if st == 0 {
		st = 200
	}
	if full == nil {
		full = Ls(ops)
	}
	return L(Ls{}, script, B(comp), B(pretty), via, full, A(presetLen)), L(errs, code, clen, st, accepted, panicked)
}

func init() { domains["resp"] = domain{gen: genResp, run: runResp} }

package main

import (
	"net/http/httptest"
	"sort"
	"strings"

	restful "github.com/emicklei/go-restful/v3"
)

// ---- tables of the fragment both matching engines support: literal and plain
// variable segments, literal root paths (nested), no conditions ----
var simpleLits = []string{"a", "b", "x", "ab", "é", "a,b"}

func genSimpleTable(r *Rng, router int) (TableSpec, []genRoute) {
	t := TableSpec{Router: router}
	all := []genRoute{}
	roots := r.Shuffle([]string{"/", "/a", "/a/b", "/b", "/a/", "/x/a"})
	nws := 1 + r.Intn(3)
	id := 1
	for w := 0; w < nws; w++ {
		root := roots[w]
		if r.Pct(8) {
			root = "/{r" + itoa(w) + "}"
		}
		if root == "/" && r.Pct(30) {
			root = "" // the WebService never calls Path
		}
		rootToks := []tplTok{}
		for _, s := range strings.Split(strings.Trim(root, "/"), "/") {
			if s == "" {
				continue
			}
			if strings.HasPrefix(s, "{") {
				rootToks = append(rootToks, tplTok{kind: 1, name: s[1 : len(s)-1]})
			} else {
				rootToks = append(rootToks, tplTok{kind: 0, text: s})
			}
		}
		sv := ServiceSpec{Root: root}
		nr := 1 + r.Intn(5)
		for i := 0; i < nr; i++ {
			n := []int{0, 1, 1, 2, 2, 3}[r.Intn(6)]
			toks := []tplTok{}
			for k := 0; k < n; k++ {
				if r.Pct(60) {
					toks = append(toks, tplTok{kind: 0, text: r.Pick(simpleLits)})
				} else {
					toks = append(toks, tplTok{kind: 1, name: "v" + itoa(k)})
				}
			}
			method := r.Pick(methodPool[:4+r.Intn(9)])
			if i > 0 && r.Pct(30) {
				// a sibling of the previous route: same method, same length, literal and variable positions flipped
				// at random (crossed shapes such as /a/{v} and /{v}/b, or literal-over-variable pairs)
				prev := all[len(all)-1]
				method = prev.spec.Method
				toks = []tplTok{}
				for k, pt := range prev.toks[len(rootToks):] {
					switch {
					case r.Pct(50):
						toks = append(toks, pt)
					case pt.kind == 0:
						toks = append(toks, tplTok{kind: 1, name: "w" + itoa(k)})
					default:
						toks = append(toks, tplTok{kind: 0, text: r.Pick(simpleLits)})
					}
				}
			}
			rel := renderPath(toks, r)
			rs := RouteSpec{ID: id, Method: method, Rel: rel}
			if r.Pct(20) {
				rs.Consumes = []string{"application/json"}
			}
			if r.Pct(20) {
				rs.Produces = []string{"application/json"}
			}
			id++
			sv.Routes = append(sv.Routes, rs)
			all = append(all, genRoute{spec: rs, toks: append(append([]tplTok{}, rootToks...), toks...)})
		}
		t.Services = append(t.Services, sv)
	}
	return t, all
}

// another route that a single URL can satisfy together with gr: same method, same number of plain tokens, no
// position where both have (different) literals; nil when there is none (or 60% of the time)
func overlapPartner(r *Rng, routes []genRoute, gr genRoute) *genRoute {
	if !r.Pct(40) {
		return nil
	}
	cands := []int{}
	for i, o := range routes {
		if o.spec.ID == gr.spec.ID || o.spec.Method != gr.spec.Method || len(o.toks) != len(gr.toks) {
			continue
		}
		ok := true
		for k := range o.toks {
			a, b := o.toks[k], gr.toks[k]
			rxVar := func(x, v tplTok) bool { return x.kind == 2 && v.kind == 1 } // a constrained and a plain variable
			sufOK := func(v, l tplTok) bool { return v.kind == 3 && l.kind == 0 && strings.HasSuffix(l.text, v.suf) }
			if a.verb != "" || b.verb != "" || (a.kind == 0 && b.kind == 0 && a.text != b.text) ||
				((a.kind > 1 || b.kind > 1) && !sufOK(a, b) && !sufOK(b, a) && !rxVar(a, b) && !rxVar(b, a)) {
				ok = false
				break
			}
		}
		if ok {
			cands = append(cands, i)
		}
	}
	if len(cands) == 0 {
		return nil
	}
	return &routes[cands[r.Intn(len(cands))]]
}

func genSimpleRequest(r *Rng, routes []genRoute) *Req {
	q := &Req{Method: r.Pick(methodPool)}
	if len(routes) > 0 && r.Pct(85) {
		gr := routes[r.Intn(len(routes))]
		partner := overlapPartner(r, routes, gr)
		segs := []string{}
		for k, t := range gr.toks {
			if t.kind == 0 {
				segs = append(segs, t.text)
			} else if partner != nil && partner.toks[k].kind == 0 {
				segs = append(segs, partner.toks[k].text) // aimed at both routes
			} else {
				segs = append(segs, r.Pick([]string{"x", "a", "b", "12", "ab", "a", "b", "%41b", "a%2Fb", "team:blue", "a:b1"}))
			}
		}
		if partner != nil {
			q.Method = gr.spec.Method
		}
		switch r.Intn(12) {
		case 0:
			segs = append(segs, r.Pick(simpleLits))
		case 1:
			if len(segs) > 0 {
				segs = segs[:len(segs)-1]
			}
		case 2:
			if len(segs) > 0 {
				segs[r.Intn(len(segs))] = r.Pick(simpleLits)
			}
		case 3:
			k := r.Intn(len(segs) + 1)
			segs = append(segs[:k], append([]string{""}, segs[k:]...)...) // empty segment
		}
		q.Path = "/" + strings.Join(segs, "/")
		if r.Pct(12) {
			q.Path += "/"
		}
	} else {
		n := r.Intn(4)
		segs := []string{}
		for i := 0; i < n; i++ {
			segs = append(segs, r.Pick(simpleLits))
		}
		q.Path = "/" + strings.Join(segs, "/")
	}
	if n := strings.Count(q.Path, "/"); n >= 2 && r.Pct(5) {
		q.EncSlash = 1 + r.Intn(n-1) // one separator arrives as %2F: URL.Path is unchanged, URL.RawPath differs
	}
	if r.Pct(25) {
		q.Set("Content-Type", r.Pick([]string{"application/json", "text/plain"}))
	}
	if r.Pct(25) {
		q.Set("Accept", r.Pick([]string{"application/json", "text/html", "*/*"}))
	}
	if r.Pct(30) {
		q.CLen = 3
		q.Set("Content-Length", "3")
	}
	return q
}

// ---- domain "allow" (C17): raw case = (table request) ----
// obs = (probes options)   probes: ((method status allow-set) ...) one per method of the universe,
//
//	options: (status allow-list acam-list invoked-count)
func genAllow(r *Rng) Sx {
	router := 0
	if r.Pct(45) {
		router = 1
	}
	t, routes := genSimpleTable(r, router)
	if r.Pct(15) {
		// If-conditions on some routes: a route whose condition fails is not routable, whatever lists its method
		for i := range t.Services {
			for j := range t.Services[i].Routes {
				if r.Pct(35) {
					t.Services[i].Routes[j].Conds = []bool{r.Pct(40)}
				}
			}
		}
	}
	q := genSimpleRequest(r, routes)
	if r.Pct(30) {
		q.Set("Origin", "http://a.example")
	}
	if len(t.Services) > 1 && r.Pct(15) {
		// a registration history behind the table: one more service was there, the OPTIONS filter was asked, then the
		// service was removed. What is listed afterwards is what the remaining table lists
		return L(t.Sx(), q.Sx(), L(r.Intn(len(t.Services))))
	}
	return L(t.Sx(), q.Sx())
}

func methodUniverse(t TableSpec) []string {
	set := map[string]bool{}
	for _, m := range methodPool {
		set[m] = true
	}
	for _, s := range t.Services {
		for _, r := range s.Routes {
			set[r.Method] = true
		}
	}
	out := []string{}
	for m := range set {
		out = append(out, m)
	}
	sort.Strings(out)
	return out
}

func splitList(v, sep string) Sx {
	if v == "" {
		return Ls{}
	}
	return Strs(strings.Split(v, sep))
}

func runAllow(raw Sx) (Sx, Sx) {
	t := tableFromSx(sxNth(raw, 0))
	q := sxReq(sxNth(raw, 1))
	pr := &probe{}
	c, kept, _ := buildContainer(t, pr)
	// the same table with the OPTIONS filter installed as container filter
	pr2 := &probe{}
	c2, _, _ := buildContainer(t, pr2)
	c2.Filter(c2.OPTIONSFilter)
	keptFull := kept
	var history Sx
	if len(sxList(raw)) > 2 && len(kept.Services) == len(t.Services) {
		k := sxInt(sxNth(sxNth(raw, 2), 0))
		if k < len(kept.Services) && len(kept.Services) > 1 {
			gone := kept.Services[k].Root
			for _, cc := range []*restful.Container{c, c2} {
				// ask first (whatever the container remembers about its services is remembered now), then remove
				qq := *q
				qq.Method = "OPTIONS"
				cc.Dispatch(httptest.NewRecorder(), qq.HTTP())
				cc.RegisteredWebServices()
				for _, ws := range cc.RegisteredWebServices() {
					if ws.RootPath() == gone || (gone == "" && ws.RootPath() == "/") {
						cc.Remove(ws)
					}
				}
			}
			*pr, *pr2 = probe{}, probe{}
			rest := TableSpec{Router: kept.Router}
			for i, sv := range kept.Services {
				if i != k {
					rest.Services = append(rest.Services, sv)
				}
			}
			kept = rest
			history = L(k)
		}
	}
	probes := Ls{}
	for _, m := range methodUniverse(kept) {
		*pr = probe{}
		qq := *q
		qq.Method = m
		rec := httptest.NewRecorder()
		c.Dispatch(rec, qq.HTTP())
		probes = append(probes, L(A(m), rec.Code, allowSet(rec.Header())))
	}
	qo := *q
	qo.Method = "OPTIONS"
	rec := httptest.NewRecorder()
	c2.Dispatch(rec, qo.HTTP())
	options := L(rec.Code, splitList(rec.Header().Get("Allow"), ","), splitList(rec.Header().Get("Access-Control-Allow-Methods"), ","), len(pr2.invoked))
	// a non-OPTIONS request must be untouched by the filter
	*pr2 = probe{}
	rec2 := httptest.NewRecorder()
	c2.Dispatch(rec2, q.HTTP())
	*pr = probe{}
	rec3 := httptest.NewRecorder()
	c.Dispatch(rec3, q.HTTP())
	all := func(string) bool { return true }
	untouched := q.Method == "OPTIONS" || (rec2.Code == rec3.Code && SxString(headerSx(rec2.Header(), all)) == SxString(headerSx(rec3.Header(), all)) && len(pr.invoked) == len(pr2.invoked))
	o := NewOracles()
	tabulateRouting(o, kept, q.Path)
	if history != nil {
		// the case keeps the table as registered and the removal; the model answers for the table without that service
		return L(o.Sx(), keptFull.Sx(), q.Sx(), history), L(probes, options, B(untouched))
	}
	return L(o.Sx(), kept.Sx(), q.Sx()), L(probes, options, B(untouched))
}

var _ = restful.MIME_JSON

func init() { domains["allow"] = domain{gen: genAllow, run: runAllow} }

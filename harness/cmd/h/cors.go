package main

import (
	"net/http/httptest"
	"strings"
	"sync"
	"sync/atomic"

	restful "github.com/emicklei/go-restful/v3"
)

// ---- domain "cors" (C08, C09): raw case = (cfg computed request) ----
// cfg = (expose headers domains func methods maxage cookies)

var corsDomainPool = []string{
	"http://a.example", "https://b.example:8080", "HTTP://Mixed.Case", "http://x.y",
	"http://a.b+c", "http://é.example", "null", "http://[::1]", "http://a.example.org",
}
var corsHeaderPool = []string{"Content-Type", "X-Custom", "Accept", "authorization", "X-É"}
var corsMethodPool = []string{"GET", "POST", "PUT", "DELETE", "PATCH", "OPTIONS", "get"}

func flipCase(r *Rng, s string) string {
	b := []byte(s)
	for i, c := range b {
		if r.Pct(40) {
			if c >= 'a' && c <= 'z' {
				b[i] = c - 32
			} else if c >= 'A' && c <= 'Z' {
				b[i] = c + 32
			}
		}
	}
	return string(b)
}

// an origin that is an entry, or a near-miss of one
func nearOrigin(r *Rng, entries []string) string {
	if len(entries) == 0 || r.Pct(15) {
		return r.Pick(append([]string{"", "null", "http://other.example", "HTTP://A.EXAMPLE"}, corsDomainPool...))
	}
	e := r.Pick(entries)
	if e == "" {
		return r.Pick(corsDomainPool) // a blank entry allows nothing: any real origin must be refused
	}
	switch r.Intn(10) {
	case 0, 1:
		return e
	case 2, 3:
		return flipCase(r, e)
	case 4:
		if len(e) > 1 {
			return e[:len(e)-1-r.Intn(len(e)-1)] // proper prefix
		}
		return e
	case 5:
		if len(e) > 1 {
			return e[1+r.Intn(len(e)-1):] // proper suffix
		}
		return e
	case 6:
		return e + r.Pick([]string{".evil.com", "x", "/", " ", ":80"})
	case 7:
		return r.Pick([]string{"evil-", "x", " ", "http://"}) + e
	case 8:
		// regex metacharacter confusion: replace '.' or '+' by another character
		b := []byte(e)
		for i := range b {
			if (b[i] == '.' || b[i] == '+') && r.Bool() {
				b[i] = 'z'
			}
		}
		return string(b)
	default:
		return strings.ToUpper(e)
	}
}

func genCors(r *Rng) Sx {
	domains := []string{}
	if r.Pct(75) {
		domains = r.Subset(corsDomainPool, 30)
		if r.Pct(10) {
			domains = append(domains, ".*")
		}
		domains = r.Shuffle(domains)
		switch r.Intn(12) {
		case 0:
			domains = []string{""} // what strings.Split of an unset setting yields: configured, nothing allowed
		case 1:
			domains = append([]string{""}, domains...)
		}
	}
	origin := nearOrigin(r, domains)
	fn := Ls{}
	if r.Pct(35) {
		acc := []string{}
		for _, c := range []string{origin, strings.ToLower(origin), "http://other.example"} {
			if r.Pct(40) {
				acc = append(acc, c)
			}
		}
		fn = L(Strs(acc))
	}
	methods := []string{}
	if r.Pct(60) {
		methods = r.Subset(corsMethodPool, 40)
	}
	allowedHeaders := r.Subset(corsHeaderPool, 40)
	if r.Pct(10) {
		allowedHeaders = append(allowedHeaders, "*")
	}
	allowedHeaders = r.Shuffle(allowedHeaders)
	expose := r.Subset([]string{"X-A", "X-B"}, 40)
	maxage := []int{0, 0, -1, 10, 3600}[r.Intn(5)]
	cfg := L(Strs(expose), Strs(allowedHeaders), Strs(domains), fn, Strs(methods), maxage, B(r.Pct(40)))

	router := 0
	if r.Pct(30) {
		router = 1
	}
	t, routes := genSimpleTable(r, router)
	nreq := []int{1, 1, 2, 3}[r.Intn(4)]
	reqs := Ls{}
	for k := 0; k < nreq; k++ {
		q := genSimpleRequest(r, routes)
		q.Method = r.Pick([]string{"GET", "POST", "OPTIONS", "OPTIONS", "OPTIONS", "DELETE", "HEAD"})
		o := origin
		if k > 0 && r.Pct(30) {
			o = nearOrigin(r, domains)
		}
		if o != "" || r.Pct(30) {
			q.Set("Origin", o)
		}
		if r.Pct(60) {
			q.Set("Access-Control-Request-Method", r.Pick(corsMethodPool))
		}
		if r.Pct(50) {
			hs := []string{}
			n := 1 + r.Intn(3)
			for i := 0; i < n; i++ {
				h := r.Pick(append([]string{"X-Other", ""}, corsHeaderPool...))
				if r.Pct(50) {
					h = flipCase(r, h)
				}
				h = strings.Repeat(" ", r.Intn(2)) + h + strings.Repeat(" ", r.Intn(2))
				hs = append(hs, h)
			}
			q.Set("Access-Control-Request-Headers", strings.Join(hs, ","))
		}
		reqs = append(reqs, q.Sx())
	}
	// the route table may change between two requests of the sequence (dynamic routes): what the filter computes from
	// the container must follow
	mut := Ls{}
	if nreq >= 2 && len(routes) > 0 && r.Pct(25) {
		gr := routes[r.Intn(len(routes))]
		root := ""
		for _, sv := range t.Services {
			for _, rs := range sv.Routes {
				if rs.ID == gr.spec.ID {
					root = sv.Root
				}
			}
		}
		cut := 1 + r.Intn(nreq-1)
		mut = L(cut, A(root), A(gr.spec.Method), A(concatPathGo(root, gr.spec.Rel)))
		// aim the sequence at that route: the same URL before and after, asking for its method
		segs := []string{}
		for _, tk := range gr.toks {
			if tk.kind == 0 {
				segs = append(segs, tk.text)
			} else {
				segs = append(segs, "x")
			}
		}
		for k := range reqs {
			q := sxReq(reqs[k])
			q.Path = "/" + strings.Join(segs, "/")
			if r.Pct(75) {
				q.Method = "OPTIONS"
				q.Set("Access-Control-Request-Method", gr.spec.Method)
			}
			reqs[k] = q.Sx()
		}
	}
	// the configured predicate is the user's code and may change its mind between two requests (a tenant list that is
	// edited): each request is judged by what the predicate says then
	flip := Ls{}
	if nreq >= 2 && len(fn) > 0 && r.Pct(40) {
		acc2 := []string{}
		for _, c := range []string{origin, strings.ToLower(origin), "http://other.example"} {
			if r.Pct(40) {
				acc2 = append(acc2, c)
			}
		}
		flip = L(1+r.Intn(nreq-1), Strs(acc2))
		for k := range reqs { // the same origin before and after
			q := sxReq(reqs[k])
			if origin != "" {
				q.Set("Origin", origin)
			}
			reqs[k] = q.Sx()
		}
	}
	return L(cfg, t.Sx(), reqs, mut, flip)
}

// the table without the routes of (method, full path) in the service of that root
func withoutRoute(t TableSpec, root, method, full string) TableSpec {
	out := TableSpec{Router: t.Router}
	for _, sv := range t.Services {
		nsv := ServiceSpec{Root: sv.Root}
		for _, rs := range sv.Routes {
			if sv.Root == root && rs.Method == method && concatPathGo(sv.Root, rs.Rel) == full {
				continue
			}
			nsv.Routes = append(nsv.Routes, rs)
		}
		out.Services = append(out.Services, nsv)
	}
	return out
}

func removeRouteOn(c *restful.Container, root, method, full string) {
	for _, ws := range c.RegisteredWebServices() {
		if ws.RootPath() == root || (root == "" && ws.RootPath() == "/") {
			ws.RemoveRoute(full, method)
		}
	}
}

// what the predicate of the configuration currently accepts (swapped by runCors between two requests of a sequence)
type accepted struct{ m map[string]bool }

func accFromSx(l Sx) map[string]bool {
	acc := map[string]bool{}
	for _, s := range sxStrs(l) {
		acc[s] = true
	}
	return acc
}

func corsFromSx(cfg Sx) restful.CrossOriginResourceSharing {
	c, _ := corsFromSxAcc(cfg)
	return c
}

func corsFromSxAcc(cfg Sx) (restful.CrossOriginResourceSharing, *accepted) {
	c := restful.CrossOriginResourceSharing{
		ExposeHeaders:  sxStrs(sxNth(cfg, 0)),
		AllowedHeaders: sxStrs(sxNth(cfg, 1)),
		AllowedDomains: sxStrs(sxNth(cfg, 2)),
		AllowedMethods: sxStrs(sxNth(cfg, 4)),
		MaxAge:         sxInt(sxNth(cfg, 5)),
		CookiesAllowed: sxBool(sxNth(cfg, 6)),
	}
	acc := &accepted{}
	if f := sxList(sxNth(cfg, 3)); len(f) > 0 {
		acc.m = accFromSx(f[0])
		c.AllowedDomainFunc = func(o string) bool { return acc.m[o] }
	}
	return c, acc
}

func runCors(raw Sx) (Sx, Sx) {
	cfgSx, tSx, reqsSx := sxNth(raw, 0), sxNth(raw, 1), sxList(sxNth(raw, 2))
	t := tableFromSx(tSx)
	var mut Sx = Ls{}
	cut := -1
	if len(sxList(raw)) > 3 && len(sxList(sxNth(raw, 3))) == 4 {
		mut = sxNth(raw, 3)
		cut = sxInt(sxNth(mut, 0))
	}
	tNow := t
	pr1, pr2 := &probe{}, &probe{}
	c1, kept, _ := buildContainer(t, pr1)
	c2, _, _ := buildContainer(t, pr2)
	var flip Sx = Ls{}
	cut2 := -1
	if len(sxList(raw)) > 4 && len(sxList(sxNth(raw, 4))) == 2 {
		flip = sxNth(raw, 4)
		cut2 = sxInt(sxNth(flip, 0))
	}
	cors, acc := corsFromSxAcc(cfgSx)
	cors.Container = c1
	c1.Filter(cors.Filter) // one filter value serves the whole sequence
	// the caller goes on using its variable for the next container's configuration: the installed filter keeps the
	// configuration it was installed with
	cors.AllowedDomains = []string{"http://reconfigured.example"}
	cors.AllowedDomainFunc = func(string) bool { return true }
	cors.CookiesAllowed = !cors.CookiesAllowed
	cors.ExposeHeaders = []string{"X-Reconfigured"}
	cors.AllowedHeaders, cors.AllowedMethods, cors.MaxAge = []string{"X-Reconfigured"}, []string{"TRACE"}, 4242
	o := NewOracles()
	for _, d := range sxStrs(sxNth(cfgSx, 2)) {
		o.Lower(d)
	}
	for _, h := range sxStrs(sxNth(cfgSx, 1)) {
		o.Lower(h)
	}
	all := func(string) bool { return true }
	obs := Ls{}
	for k, rs := range reqsSx {
		if k == cut {
			root, method, full := sxStr(sxNth(mut, 1)), sxStr(sxNth(mut, 2)), sxStr(sxNth(mut, 3))
			removeRouteOn(c1, root, method, full)
			removeRouteOn(c2, root, method, full)
			tNow = withoutRoute(t, root, method, full)
		}
		if k == cut2 {
			acc.m = accFromSx(sxNth(flip, 1))
		}
		q := sxReq(rs)
		*pr1, *pr2 = probe{}, probe{}
		rec1, rec2 := httptest.NewRecorder(), httptest.NewRecorder()
		c1.Dispatch(rec1, q.HTTP())
		c2.Dispatch(rec2, q.HTTP())
		twin := rec1.Code == rec2.Code && rec1.Body.String() == rec2.Body.String() && len(pr1.invoked) == len(pr2.invoked) &&
			SxString(headerSx(rec1.Header(), all)) == SxString(headerSx(rec2.Header(), all))
		acl := headerSx(rec1.Header(), func(k string) bool { return strings.HasPrefix(k, "Access-Control-") })
		// is the requested method really routable at this URL (on the filter-less twin)?
		probeStatus := 0
		if m := q.Get("Access-Control-Request-Method"); m != "" {
			qq := *q
			qq.Method = m
			rec3 := httptest.NewRecorder()
			c2.Dispatch(rec3, qq.HTTP())
			probeStatus = rec3.Code
		}
		// the same request alone, on a fresh container with a fresh filter value (C19: the answer must not depend on
		// what the filter served before)
		pr3 := &probe{}
		c3, _, _ := buildContainer(tNow, pr3)
		cors3, acc3 := corsFromSxAcc(cfgSx)
		if cut2 >= 0 && k >= cut2 {
			acc3.m = accFromSx(sxNth(flip, 1))
		}
		cors3.Container = c3
		c3.Filter(cors3.Filter)
		rec4 := httptest.NewRecorder()
		c3.Dispatch(rec4, q.HTTP())
		freshEq := rec1.Code == rec4.Code && rec1.Body.String() == rec4.Body.String() && len(pr1.invoked) == len(pr3.invoked) &&
			SxString(headerSx(rec1.Header(), all)) == SxString(headerSx(rec4.Header(), all))
		obs = append(obs, L(acl, len(pr1.invoked), B(twin), probeStatus, B(freshEq))) // (second field: how often the route function ran)
		o.Lower(q.Get("Origin"))
		for _, h := range strings.Split(q.Get("Access-Control-Request-Headers"), ",") {
			o.Lower(strings.Trim(h, " "))
		}
		tabulateRouting(o, kept, q.Path)
	}
	if (forceConc || len(reqsSx)%3 == 0) && len(obs) > 0 {
		// two services with CORS filters of their own behind the same container filters, asked by several clients at
		// once: every answer must come from the filter of the service it was sent to (sixth field of the first
		// observation: 1 = so it was)
		first := append(Ls{}, sxList(obs[0])...)
		obs[0] = append(first, B(corsPerServiceConcurrently(sxInt(sxNth(tSx, 0)))))
	}
	return L(o.Sx(), cfgSx, kept.Sx(), Ls(reqsSx), mut, flip), obs
}

func corsPerServiceConcurrently(router int) bool {
	c := restful.NewContainer()
	if router == 1 {
		c.Router(restful.RouterJSR311{})
	}
	for i := 0; i < 3; i++ {
		c.Filter(func(rq *restful.Request, rp *restful.Response, ch *restful.FilterChain) { ch.ProcessFilter(rq, rp) })
	}
	permissive := restful.CrossOriginResourceSharing{CookiesAllowed: true, ExposeHeaders: []string{"X-P"}, Container: c}
	restrictive := restful.CrossOriginResourceSharing{AllowedDomains: []string{"http://only.example"}, Container: c}
	for _, x := range []struct {
		root string
		f    restful.FilterFunction
	}{{"/p", permissive.Filter}, {"/r", restrictive.Filter}} {
		ws := new(restful.WebService)
		ws.Path(x.root)
		ws.Filter(x.f)
		ws.Route(ws.GET("/x").To(func(rq *restful.Request, rp *restful.Response) { rp.WriteHeader(200) }))
		c.Add(ws)
	}
	var bad int32
	var wg sync.WaitGroup
	for w := 0; w < 6; w++ {
		wg.Add(1)
		go func(w int) {
			defer wg.Done()
			for k := 0; k < 40; k++ {
				path := []string{"/p/x", "/r/x"}[(w+k)%2]
				q := &Req{Method: "GET", Path: path}
				q.Set("Origin", "http://evil.example")
				rec := httptest.NewRecorder()
				c.Dispatch(rec, q.HTTP())
				ao, ac := rec.Header().Get("Access-Control-Allow-Origin"), rec.Header().Get("Access-Control-Allow-Credentials")
				if path == "/r/x" && (ao != "" || ac != "") {
					atomic.StoreInt32(&bad, 1)
				}
				if path == "/p/x" && (ao != "http://evil.example" || ac != "true") {
					atomic.StoreInt32(&bad, 1)
				}
			}
		}(w)
	}
	wg.Wait()
	return bad == 0
}

func init() { domains["cors"] = domain{gen: genCors, run: runCors} }

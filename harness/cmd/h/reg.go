package main

import (
	"fmt"
	"net/http"
	"net/http/httptest"
	"strings"
	"sync/atomic"

	restful "github.com/emicklei/go-restful/v3"
)

// ---- domain "reg" (C11): registration histories vs a freshly built container ----
// raw case = (router ops probes)
//   op = (0 root routes)        Container.Add of the WebService with that root (created on first use, routes appended then)
//      | (1 root)               Container.Remove
//      | (2 root route)         WebService.Route (dynamic routes are enabled on every service)
//      | (3 root path method)   WebService.RemoveRoute
//      | (4 pattern id)         Container.Handle (even id) / Container.HandleWithFilter (odd id) with a plain handler
//   probe = (entry method path)  entry 0 Dispatch, 1 ServeHTTP
// observation = (failed-op history-answers fresh-answers)   answer = (status marker location)
//   failed-op: index of the first operation that panicked (the history stops there), -1 if none

// the root "" stands for a WebService on which Path is never called (Add gives it "/" lazily; routes built before
// that see an empty root)
var regRoots = []string{"/", "/a", "/a/", "/a/b", "/a/{id}", "/a/{id}/x", "/a/{id}/y", "/b", "/{v}", "/ab", "/users/{id}/a", "/users/{id}/b", "/b/c/", ""}
var regRels = []string{"", "/", "/x", "/{k}", "/x/y", "/{k}/z", "x", "{k}"}
var regPlain = []string{"/h", "/static/", "/static/css/", "/h/deep/", "/a/plainfile", "/zz", "/"}

type regService struct {
	root   string
	routes []RouteSpec
	ws     *restful.WebService
}

func genReg(r *Rng) Sx {
	router := 0
	if r.Pct(30) {
		router = 1
	}
	nroots := 2 + r.Intn(4)
	roots := r.Shuffle(regRoots)[:nroots]
	for i, rt := range roots {
		if rt == "" { // "" and "/" are the same root: only one of them in a history
			for j := range roots {
				if roots[j] == "/" {
					roots[j] = "/zz-other"
				}
			}
			_ = i
		}
	}
	if router == 1 {
		// RouterJSR311 tables: the roots with a variable stay, they are legal there too
	}
	registered := map[string]bool{}
	created := map[string]bool{}
	usedPlain := map[string]bool{}
	ops := Ls{}
	id := 1
	n := 1 + r.Intn(10)
	if r.Pct(10) {
		n = 10 + r.Intn(30)
	}
	churn := r.Pct(20)
	if churn {
		n += 8
	}
	// what each root was given so far: removals aim at routes that exist, and new routes often repeat the method and
	// path of one that exists (or existed), so that equally ranked routes meet in every order of arrival and departure
	given := map[string][]RouteSpec{}
	curRoot := ""
	mkRoute := func() RouteSpec {
		rs := RouteSpec{ID: id, Method: r.Pick([]string{"GET", "GET", "POST"}), Rel: r.Pick(regRels)}
		if g := given[curRoot]; len(g) > 0 && r.Pct(35) {
			o := g[r.Intn(len(g))]
			rs.Method, rs.Rel = o.Method, o.Rel
		}
		given[curRoot] = append(given[curRoot], rs)
		id++
		return rs
	}
	for i := 0; i < n; i++ {
		root := r.Pick(roots)
		p := r.Intn(100)
		if churn {
			// route churn on one service: most operations add routes to and remove routes from the first root
			if r.Pct(85) {
				root = roots[0]
			}
			if registered[root] || created[root] {
				p = 55 + r.Intn(37)
			}
		}
		curRoot = root
		if p >= 55 && p < 75 && len(given[root]) >= 12 {
			// (at most 12 routes per service: beyond that sort.Sort is no longer the stable insertion sort of the model,
			// and which of several equally ranked routes answers is not determined - in the fresh container either)
			p = 75 + r.Intn(10)
		}
		switch {
		case p < 40:
			// the property speaks of pairwise different root paths: "" and "/" are the same root, so are re-adds
			if registered[root] {
				ops = append(ops, L(1, A(root)))
				registered[root] = false
				continue
			}
			routes := Ls{}
			if !created[root] {
				for k := r.Intn(3); k > 0; k-- {
					routes = append(routes, mkRoute().Sx())
				}
			}
			created[root] = true
			registered[root] = true
			ops = append(ops, L(0, A(root), routes))
		case p < 55:
			ops = append(ops, L(1, A(root)))
			registered[root] = false
		case p < 75:
			created[root] = true
			ops = append(ops, L(2, A(root), mkRoute().Sx()))
		case p < 85:
			rel, method := r.Pick(regRels), r.Pick([]string{"GET", "POST"})
			if g := given[root]; len(g) > 0 && r.Pct(65) {
				o := g[r.Intn(len(g))]
				rel, method = o.Rel, o.Method
			}
			full := strings.TrimRight(root, "/") + "/" + strings.TrimLeft(rel, "/")
			if rel == "" {
				full = root
			}
			ops = append(ops, L(3, A(root), A(full), A(method)))
		case p < 92:
			inst := strings.NewReplacer("{id}", "7", "{v}", "vv", "{k}", "kk").Replace
			ops = append(ops, L(6, A(r.Pick([]string{"GET", "POST"})), A(inst(strings.TrimRight(root, "/")+r.Pick(regRels[:6])))))
		default:
			pat := r.Pick(regPlain)
			if pat == "/" {
				// a plain handler on "/" and a service the mux knows by "/" are two owners of one pattern (the premise of
				// C11 excludes it: the later of the two is refused with a panic): "/" only where no root maps to "/"
				for _, rt := range roots {
					if rt == "/" || rt == "" || strings.HasPrefix(rt, "/{") {
						pat = "/h"
					}
				}
			}
			if usedPlain[pat] && r.Pct(70) {
				continue // (the other 30%: the pattern is taken, the mux refuses, the caller recovers and goes on)
			}
			usedPlain[pat] = true
			ops = append(ops, L(4, A(pat), 100+len(usedPlain)))
		}
	}
	probes := Ls{}
	seen := map[string]bool{}
	add := func(p string) {
		if !seen[p] {
			seen[p] = true
			entry := r.Intn(2)
			if r.Pct(15) {
				entry += 2 // a preflight (OPTIONS with Origin and Access-Control-Request-Method) through Dispatch / ServeHTTP
			}
			probes = append(probes, L(entry, A(r.Pick([]string{"GET", "GET", "POST"})), A(p)))
		}
	}
	inst := func(t string) string { return strings.NewReplacer("{id}", "7", "{v}", "vv", "{k}", "kk").Replace(t) }
	for _, root := range roots {
		base := inst(strings.TrimRight(root, "/"))
		add(base)
		add(base + "/")
		for _, rel := range regRels {
			add(base + inst(rel))
		}
		add(base + "x")
		add(base + "/q/w")
	}
	for _, p := range regPlain {
		add(p)
		add(p + "below")
		add(strings.TrimRight(p, "/"))
	}
	add("/")
	add("/nothing/here")
	return L(router, ops, probes)
}

type regAnswer struct {
	status   int
	marker   int
	location string
}

func runReg(raw Sx) (Sx, Sx) {
	router, ops, probes := sxInt(sxNth(raw, 0)), sxList(sxNth(raw, 1)), sxList(sxNth(raw, 2))
	marker := new(int)
	newContainer := func() *restful.Container {
		c := restful.NewContainer()
		if router == 1 {
			c.Router(restful.RouterJSR311{})
		}
		// a CORS filter without configured methods: what it tells a preflight is computed from the container's routes
		cors := restful.CrossOriginResourceSharing{Container: c}
		c.Filter(cors.Filter)
		return c
	}
	mkWS := func(root string) *restful.WebService {
		ws := new(restful.WebService)
		if root != "" {
			ws.Path(root)
		}
		ws.SetDynamicRoutes(true)
		return ws
	}
	addRoute := func(ws *restful.WebService, rs RouteSpec) {
		id := rs.ID
		ws.Route(ws.Method(rs.Method).Path(rs.Rel).To(func(rq *restful.Request, rp *restful.Response) { *marker = id }))
	}
	plain := func(id int) http.Handler {
		return http.HandlerFunc(func(w http.ResponseWriter, r *http.Request) { *marker = id; w.WriteHeader(200) })
	}
	// (1) the history
	c := newContainer()
	services := map[string]*regService{}
	order := []string{} // registered services, in registration order
	type ph struct {
		pat string
		id  int
	}
	plains := []ph{}
	failed := -1
	get := func(root string) *regService {
		s, ok := services[root]
		if !ok {
			s = &regService{root: root, ws: mkWS(root)}
			services[root] = s
		}
		return s
	}
	taken := func(pat string) bool {
		for _, p := range plains {
			if p.pat == pat {
				return true
			}
		}
		return false
	}
	ops = append(Ls{}, ops...)
	for i, op := range ops {
		ok := func() (ok bool) {
			defer func() {
				if r := recover(); r != nil {
					ok = false
				}
			}()
			switch sxInt(sxNth(op, 0)) {
			case 6:
				// a preflight asked in the middle of the history (its answer is not kept): what the filter learns
				// here must not outlive the registrations that follow
				hr, _ := http.NewRequest("OPTIONS", "http://h"+sxStr(sxNth(op, 2)), nil)
				hr.Header.Set("Origin", "http://o.example")
				hr.Header.Set("Access-Control-Request-Method", sxStr(sxNth(op, 1)))
				c.Dispatch(httptest.NewRecorder(), hr)
			case 0:
				s := get(sxStr(sxNth(op, 1)))
				for _, rx := range sxList(sxNth(op, 2)) {
					rs := routeFromSx(rx)
					addRoute(s.ws, rs)
					s.routes = append(s.routes, rs)
				}
				c.Add(s.ws)
				order = append(order, s.root)
			case 1:
				root := sxStr(sxNth(op, 1))
				if s, ok := services[root]; ok {
					c.Remove(s.ws)
					no := []string{}
					for _, o := range order {
						if o != root {
							no = append(no, o)
						}
					}
					order = no
				}
			case 2:
				s := get(sxStr(sxNth(op, 1)))
				rs := routeFromSx(sxNth(op, 2))
				addRoute(s.ws, rs)
				s.routes = append(s.routes, rs)
			case 3:
				s := get(sxStr(sxNth(op, 1)))
				path, method := sxStr(sxNth(op, 2)), sxStr(sxNth(op, 3))
				s.ws.RemoveRoute(path, method)
				// what is left: ask the implementation (public API) which routes remain
				left := map[string]int{}
				for _, rt := range s.ws.Routes() {
					left[rt.Method+" "+rt.Path]++
				}
				keep := []RouteSpec{}
				for _, rs := range s.routes {
					full := concatPathGo(s.ws.RootPath(), rs.Rel)
					if !(full == path && rs.Method == method) {
						keep = append(keep, rs)
					}
				}
				s.routes = keep
			default:
				pat, id := sxStr(sxNth(op, 1)), sxInt(sxNth(op, 2))
				if id%2 == 1 {
					c.HandleWithFilter(pat, plain(id)) // the other public entry point for plain handlers
				} else {
					c.Handle(pat, plain(id))
				}
				plains = append(plains, ph{pat, id})
			}
			return true
		}()
		if !ok && sxInt(sxNth(op, 0)) >= 4 && taken(sxStr(sxNth(op, 1))) {
			// Handle on a pattern that is taken is refused (the mux panics); the caller recovers and carries on with
			// the container: the refusal must have changed nothing. Marked (5 pattern id) for the model, which checks
			// that the operation had to be refused and leaves its state as it is
			ops[i] = L(5, sxNth(op, 1), sxNth(op, 2))
			continue
		}
		if !ok {
			failed = i
			break
		}
	}
	// (2) a fresh container with the same final content, in the same order
	fresh := newContainer()
	freshFailed := 0
	func() {
		defer func() {
			if r := recover(); r != nil {
				freshFailed = 1
			}
		}()
		for _, root := range order {
			s := services[root]
			ws := mkWS(root)
			for _, rs := range s.routes {
				addRoute(ws, rs)
			}
			fresh.Add(ws)
		}
		for _, p := range plains {
			if p.id%2 == 1 {
				fresh.HandleWithFilter(p.pat, plain(p.id))
			} else {
				fresh.Handle(p.pat, plain(p.id))
			}
		}
	}()
	ask := func(cc *restful.Container, pr Sx) Sx {
		entry, method, path := sxInt(sxNth(pr, 0)), sxStr(sxNth(pr, 1)), sxStr(sxNth(pr, 2))
		q := &Req{Method: method, Path: path}
		preflight := entry >= 2
		if preflight {
			q.Method = "OPTIONS"
			q.Set("Origin", "http://o.example")
			q.Set("Access-Control-Request-Method", method)
		}
		rec := httptest.NewRecorder()
		*marker = 0
		status := 0
		func() {
			defer func() {
				if r := recover(); r != nil {
					status = -1
				}
			}()
			if entry%2 == 0 {
				cc.Dispatch(rec, q.HTTP())
			} else {
				cc.ServeHTTP(rec, q.HTTP())
			}
			status = rec.Code
		}()
		if preflight {
			// fourth field: the methods the filter announces (compared between the history-built and the fresh container)
			return L(status, *marker, A(rec.Header().Get("Location")), A(rec.Header().Get("Access-Control-Allow-Methods")))
		}
		return L(status, *marker, A(rec.Header().Get("Location")))
	}
	ha, fa := Ls{}, Ls{}
	for _, pr := range probes {
		ha = append(ha, ask(c, pr))
		fa = append(fa, ask(fresh, pr))
	}
	// oracles: the routing of every probe path over every template in play
	t := TableSpec{Router: router}
	for _, s := range services {
		t.Services = append(t.Services, ServiceSpec{Root: s.root, Routes: s.routes})
	}
	o := NewOracles()
	for _, pr := range probes {
		tabulateRouting(o, t, sxStr(sxNth(pr, 2)))
	}
	_ = fmt.Sprint
	// a container serving on http.DefaultServeMux refuses Remove; the refusal must change nothing: the service is still
	// registered and still answers (observation 5: 1 = so it is)
	refusedKeeps := 1
	func() {
		defer func() {
			if r := recover(); r != nil {
				refusedKeeps = 0
			}
		}()
		n := atomic.AddInt64(&regSeq, 1)
		dc := restful.NewContainer()
		if router == 1 {
			dc.Router(restful.RouterJSR311{})
		}
		dc.ServeMux = http.DefaultServeMux
		wd := new(restful.WebService)
		wd.Path("/regdm" + itoa(int(n)))
		wd.Route(wd.GET("/x").To(func(rq *restful.Request, rp *restful.Response) { rp.Write([]byte("DM")) }))
		dc.Add(wd)
		if err := dc.Remove(wd); err == nil {
			refusedKeeps = 0 // it must be refused
		}
		rec := httptest.NewRecorder()
		hr, _ := http.NewRequest("GET", "http://h/regdm"+itoa(int(n))+"/x", nil)
		dc.Dispatch(rec, hr)
		if rec.Code != 200 || rec.Body.String() != "DM" || len(dc.RegisteredWebServices()) != 1 {
			refusedKeeps = 0
		}
	}()
	return L(o.Sx(), router, Ls(ops), Ls(probes)), L(failed, ha, fa, freshFailed, refusedKeeps, 0)
}

func routeFromSx(r Sx) RouteSpec {
	return RouteSpec{ID: sxInt(sxNth(r, 0)), Method: sxStr(sxNth(r, 1)), Rel: sxStr(sxNth(r, 2))}
}

// route_builder.go concatPath
func concatPathGo(path1, path2 string) string {
	return strings.TrimRight(path1, "/") + "/" + strings.TrimLeft(path2, "/")
}

var regSeq int64

func init() { domains["reg"] = domain{gen: genReg, run: runReg} }

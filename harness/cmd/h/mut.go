package main

import (
	"net/http"
	"net/http/httptest"
	"strings"
	"sync"
	"sync/atomic"
	"time"

	restful "github.com/emicklei/go-restful/v3"
)

// ---- domain "mut" (C12): services and routes change while requests are served ----
// raw case = (router entry servers iters)
//   a container with a service on "/", a stable service /a, a service /b with dynamic routes (one stable route, one
//   route that a mutator keeps adding and removing) and services /c and /d that two more mutators keep adding and
//   removing, each checking that its own Add / Remove took effect (no lost update between mutators).
//   `servers` goroutines send `iters` requests each (entry 0 Dispatch, 1 ServeHTTP, 2 both) and classify every answer:
//   untouched targets must be answered as always; a target under change must get one of its two legal answers.
// observation = (wrong-untouched wrong-changing panics blocked)

func genMut(r *Rng) Sx {
	// fifth: extra stable routes on the service whose routes change (a long route list widens every window in which a
	// reader holds a partial view of it)
	return L(r.Intn(2), r.Intn(3), []int{2, 4, 8}[r.Intn(3)], 200+r.Intn(800), []int{0, 0, 64, 600}[r.Intn(4)])
}

func runMut(raw Sx) (Sx, Sx) {
	router, entry, servers, iters := sxInt(sxNth(raw, 0)), sxInt(sxNth(raw, 1)), sxInt(sxNth(raw, 2)), sxInt(sxNth(raw, 3))
	extra := 0
	if len(sxList(raw)) > 4 {
		extra = sxInt(sxNth(raw, 4))
	}
	c := restful.NewContainer()
	if router == 1 {
		c.Router(restful.RouterJSR311{})
	}
	say := func(s string) restful.RouteFunction {
		return func(rq *restful.Request, rp *restful.Response) { rp.Write([]byte(s)) }
	}
	root := new(restful.WebService)
	root.Path("/")
	root.Route(root.GET("/rootonly").To(say("R")))
	c.Add(root)
	foreign := new(restful.WebService) // never added to the container
	foreign.Path("/foreign")
	foreign.Route(foreign.GET("/y").To(say("F")))
	wa := new(restful.WebService)
	wa.Path("/a")
	wa.Route(wa.GET("/x").To(say("A")))
	wa.Route(wa.GET("/{id}/y").To(say("AY")))
	// user code that asks the container about itself while serving (as the OPTIONS / CORS filters do)
	wa.Route(wa.GET("/reg").To(func(rq *restful.Request, rp *restful.Response) {
		l := c.RegisteredWebServices()
		n := len(l)
		// ... and goes on to use the list as its own: what it appends belongs to the caller, not to the container
		l = append(l, foreign)
		if n >= 3 && len(l) == n+1 {
			rp.Write([]byte("REG"))
		}
	}))
	c.Filter(c.OPTIONSFilter)
	c.Add(wa)
	wb := new(restful.WebService)
	wb.Path("/b")
	wb.SetDynamicRoutes(true) // the premise of the property
	wb.Route(wb.GET("/keep").To(say("BK")))
	for i := 0; i < extra; i++ {
		wb.Route(wb.GET("/s" + itoa(i)).To(say("S")))
	}
	c.Add(wb)
	mkC := func() *restful.WebService {
		wc := new(restful.WebService)
		wc.Path("/c")
		wc.Route(wc.GET("/y").To(say("C")))
		return wc
	}
	var wrongStable, wrongChanging, panics int64
	var work int64 // requests served and mutator rounds completed: a deadlock is a parked goroutine AND no work getting done
	progress := func() int64 { return atomic.LoadInt64(&work) }
	stop := make(chan struct{})
	var mwg sync.WaitGroup
	guard := func(f func()) {
		defer atomic.AddInt64(&work, 1)
		defer func() {
			if r := recover(); r != nil {
				atomic.AddInt64(&panics, 1)
			}
		}()
		f()
	}
	mwg.Add(2)
	siblings := 0
	go func() {
		defer mwg.Done()
		for {
			select {
			case <-stop:
				return
			default:
			}
			guard(func() {
				// nobody else changes the routes at /b/t: between its own two calls this goroutine knows what the OPTIONS
				// filter must list there
				allowAt := func() string {
					hr, _ := http.NewRequest("OPTIONS", "http://h/b/t", nil)
					rec := httptest.NewRecorder()
					c.Dispatch(rec, hr)
					return rec.Header().Get("Allow")
				}
				wb.Route(wb.GET("/t").To(say("BT")))
				if got := allowAt(); got != "GET" {
					atomic.AddInt64(&wrongChanging, 1)
				}
				wb.RemoveRoute("/b/t", "GET")
				if got := allowAt(); got != "" {
					atomic.AddInt64(&wrongChanging, 1)
				}
				if siblings < 12 {
					// a sibling of the stable route: the same method and path, never eligible (its condition fails);
					// adding it must leave the stable route alone
					siblings++
					wb.Route(wb.GET("/keep").If(func(*http.Request) bool { return false }).To(say("X")))
				}
			})
		}
	}()
	// two container-level mutators on different services: each sees its own service registered between its Add and
	// its Remove (nobody else touches it), and gone after its Remove - whatever the other mutator is doing meanwhile
	probeOwn := func(path, want string) {
		hr, _ := http.NewRequest("GET", "http://h"+path, nil)
		rec := httptest.NewRecorder()
		c.Dispatch(rec, hr)
		got := itoa(rec.Code) + ":"
		if rec.Code == 200 {
			got += rec.Body.String()
		}
		if got != want {
			atomic.AddInt64(&wrongChanging, 1)
		}
	}
	for _, nm := range []string{"c", "d"} {
		nm := nm
		if nm == "d" {
			mwg.Add(1)
		}
		go func() {
			defer mwg.Done()
			for {
				select {
				case <-stop:
					return
				default:
				}
				guard(func() {
					w := mkC()
					if nm == "d" {
						w = new(restful.WebService)
						w.Path("/d")
						w.Route(w.GET("/y").To(say("D")))
					}
					// a registration the mux refuses (the pattern "/" belongs to the root service): the caller recovers and
					// goes on; nothing of the refused call may stay behind
					func() {
						defer func() { recover() }()
						c.Handle("/", http.NotFoundHandler())
					}()
					c.Add(w)
					probeOwn("/"+nm+"/y", "200:"+strings.ToUpper(nm))
					c.Remove(w)
					probeOwn("/"+nm+"/y", "404:")
				})
			}
		}()
	}
	type target struct {
		path  string
		legal []string // "<status>:<body>"
		fixed bool
	}
	targets := []target{
		{"/a/x", []string{"200:A"}, true},
		{"/a/7/y", []string{"200:AY"}, true},
		{"/b/keep", []string{"200:BK"}, true},
		{"/rootonly", []string{"200:R"}, true},
		{"/a/reg", []string{"200:REG"}, true},
		{"OPTIONS /a/x", []string{"200:"}, true},
		{"OPTIONS /b/keep", []string{"200:"}, true}, // the filter walks the routes of the service whose routes are changing
		{"OPTIONS /b/t", []string{"200:"}, true},
		{"/b/t", []string{"200:BT", "404:"}, false},
		{"/c/y", []string{"200:C", "404:"}, false},
		{"/foreign/y", []string{"404:"}, true}, // a service nobody added
	}
	var swg sync.WaitGroup
	for s := 0; s < servers; s++ {
		swg.Add(1)
		go func(s int) {
			defer swg.Done()
			for i := 0; i < iters; i++ {
				t := targets[(s+i)%len(targets)]
				method, path := "GET", t.path
				if strings.HasPrefix(path, "OPTIONS ") {
					method, path = "OPTIONS", path[8:]
				}
				hr, _ := http.NewRequest(method, "http://h"+path, nil)
				rec := httptest.NewRecorder()
				guard(func() {
					if entry == 0 || (entry == 2 && i%2 == 0) {
						c.Dispatch(rec, hr)
					} else {
						c.ServeHTTP(rec, hr)
					}
				})
				got := itoa(rec.Code) + ":"
				if rec.Code == 200 && method == "GET" {
					got += rec.Body.String()
				}
				ok := false
				for _, l := range t.legal {
					if l == got {
						ok = true
					}
				}
				if !ok {
					if t.fixed {
						atomic.AddInt64(&wrongStable, 1)
					} else {
						atomic.AddInt64(&wrongChanging, 1)
					}
				}
			}
		}(s)
	}
	blocked := 0
	if b, d := waitOrDumpProgress(&swg, 20*time.Second, progress, "sync.RWMutex", "webServicesLock", "(*Container)", "(*WebService)"); b {
		blocked, lastDump = 1, d
	}
	close(stop)
	if b, d := waitOrDumpProgress(&mwg, 5*time.Second, progress, "sync.RWMutex", "(*Container)", "(*WebService)"); b {
		blocked, lastDump = 1, d
	}
	// a container that serves on http.DefaultServeMux refuses Remove (its mux cannot be rebuilt); the refusal must
	// leave the container usable: no lock may stay behind
	if blocked == 0 {
		n := atomic.AddInt64(&mutSeq, 1)
		dc := restful.NewContainer()
		if router == 1 {
			dc.Router(restful.RouterJSR311{})
		}
		dc.ServeMux = http.DefaultServeMux
		wd := new(restful.WebService)
		wd.Path("/dm" + itoa(int(n)))
		wd.Route(wd.GET("/x").To(say("DM")))
		guard(func() {
			dc.Add(wd)
			dc.Remove(wd) // refused
		})
		var dwg sync.WaitGroup
		dwg.Add(1)
		go func() {
			defer dwg.Done()
			hr, _ := http.NewRequest("GET", "http://h/dm"+itoa(int(n))+"/x", nil)
			rec := httptest.NewRecorder()
			guard(func() { dc.Dispatch(rec, hr) })
			if rec.Code != 200 || rec.Body.String() != "DM" {
				atomic.AddInt64(&wrongStable, 1)
			}
		}()
		if b, d := waitOrDumpProgress(&dwg, 5*time.Second, progress, "sync.RWMutex", "(*Container)"); b {
			blocked, lastDump = 1, d
		}
	}
	// a container WITHOUT a service on "/": every service has mux patterns of its own. A stable service whose root is a
	// template below /u (the mux knows it as /u/) and a mutator that keeps adding and removing the service /u itself,
	// while servers ask for both through both entry points. The mutator knows the state between its own calls: after
	// its Add returned, /u is that service's, whichever way the request comes in; after its Remove it is gone.
	if blocked == 0 {
		rc := restful.NewContainer()
		if router == 1 {
			rc.Router(restful.RouterJSR311{})
		}
		wo := new(restful.WebService)
		wo.Path("/u/{id}/orders")
		wo.Route(wo.GET("").To(say("O")))
		rc.Add(wo)
		askBoth := func(path string, legal ...string) {
			for via := 0; via < 2; via++ {
				hr, _ := http.NewRequest("GET", "http://h"+path, nil)
				rec := httptest.NewRecorder()
				guard(func() {
					if via == 0 {
						rc.Dispatch(rec, hr)
					} else {
						rc.ServeHTTP(rec, hr)
					}
				})
				got := itoa(rec.Code) + ":"
				if rec.Code == 200 {
					got += rec.Body.String()
				}
				ok := false
				for _, l := range legal {
					if l == got {
						ok = true
					}
				}
				if !ok {
					atomic.AddInt64(&wrongChanging, 1)
				}
			}
		}
		stop2 := make(chan struct{})
		var rwg, r2 sync.WaitGroup
		rwg.Add(1)
		go func() {
			defer rwg.Done()
			for k := 0; k < 150; k++ {
				guard(func() {
					wu := new(restful.WebService)
					wu.Path("/u")
					wu.Route(wu.GET("").To(say("U")))
					rc.Add(wu)
					askBoth("/u", "200:U")
					rc.Remove(wu)
					askBoth("/u", "404:", "301:")
				})
			}
			close(stop2)
		}()
		for s := 0; s < 2; s++ {
			r2.Add(1)
			go func() {
				defer r2.Done()
				for {
					select {
					case <-stop2:
						return
					default:
					}
					hr, _ := http.NewRequest("GET", "http://h/u/7/orders", nil)
					rec := httptest.NewRecorder()
					guard(func() { rc.ServeHTTP(rec, hr) })
					if rec.Code != 200 || rec.Body.String() != "O" {
						atomic.AddInt64(&wrongStable, 1)
					}
				}
			}()
		}
		if b, d := waitOrDumpProgress(&rwg, 20*time.Second, progress, "sync.RWMutex", "(*Container)", "(*WebService)"); b {
			blocked, lastDump = 1, d
		}
		if b, d := waitOrDumpProgress(&r2, 5*time.Second, progress, "sync.RWMutex", "(*Container)", "(*WebService)"); b {
			blocked, lastDump = 1, d
		}
	}
	return L(Ls{}, router, entry, servers, iters, extra), L(int(wrongStable), int(wrongChanging), int(panics), blocked)
}

var mutSeq int64

func init() { domains["mut"] = domain{gen: genMut, run: runMut} }

package main

import (
	"compress/zlib"
	"io"
)

type zlibWriter = *zlib.Writer

func zlibNewReader(r io.Reader) (io.ReadCloser, error) { return zlib.NewReader(r) }

package main

import (
	"encoding/hex"
	"fmt"
	"strconv"
)

// parseSx parses one s-expression (the on-disk format written by writeSx).
func parseSx(line string) (Sx, error) {
	pos := 0
	n := len(line)
	var item func() (Sx, error)
	skip := func() {
		for pos < n && (line[pos] == ' ' || line[pos] == '\t' || line[pos] == '\r' || line[pos] == '\n') {
			pos++
		}
	}
	item = func() (Sx, error) {
		skip()
		if pos >= n {
			return nil, fmt.Errorf("unexpected end")
		}
		if line[pos] == '(' {
			pos++
			out := Ls{}
			for {
				skip()
				if pos >= n {
					return nil, fmt.Errorf("unclosed list")
				}
				if line[pos] == ')' {
					pos++
					return out, nil
				}
				x, err := item()
				if err != nil {
					return nil, err
				}
				out = append(out, x)
			}
		}
		st := pos
		for pos < n && line[pos] != ' ' && line[pos] != ')' && line[pos] != '(' {
			pos++
		}
		tok := line[st:pos]
		if len(tok) > 0 && tok[0] == 'x' {
			b, err := hex.DecodeString(tok[1:])
			if err != nil {
				return nil, err
			}
			return A(string(b)), nil
		}
		v, err := strconv.Atoi(tok)
		if err != nil {
			return nil, err
		}
		return v, nil
	}
	return item()
}

func sxList(s Sx) Ls {
	if l, ok := s.(Ls); ok {
		return l
	}
	return nil
}
func sxNth(s Sx, i int) Sx {
	l := sxList(s)
	if i < len(l) {
		return l[i]
	}
	return Ls{}
}
func sxStr(s Sx) string {
	switch v := s.(type) {
	case A:
		return string(v)
	case string:
		return v
	}
	return ""
}
func sxInt(s Sx) int {
	switch v := s.(type) {
	case int:
		return v
	case int64:
		return int(v)
	case bool:
		return B(v)
	}
	return 0
}
func sxBool(s Sx) bool { return sxInt(s) != 0 }
func sxStrs(s Sx) []string {
	out := []string{}
	for _, x := range sxList(s) {
		out = append(out, sxStr(x))
	}
	return out
}
func sxReq(s Sx) *Req {
	q := &Req{Method: sxStr(sxNth(s, 0)), Path: sxStr(sxNth(s, 1)), CLen: int64(sxInt(sxNth(s, 3)))}
	for _, h := range sxList(sxNth(s, 2)) {
		q.Headers = append(q.Headers, [2]string{sxStr(sxNth(h, 0)), sxStr(sxNth(h, 1))})
	}
	if l := sxList(s); len(l) > 4 {
		q.EncSlash = sxInt(l[4])
	}
	if q.CLen > 0 {
		q.Body = make([]byte, q.CLen)
		for i := range q.Body {
			q.Body[i] = 'b'
		}
	}
	return q
}

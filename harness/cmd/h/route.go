package main

import (
	"net/http"
	"net/http/httptest"
	"regexp"
	"sort"
	"strings"
	"sync"
	"sync/atomic"

	restful "github.com/emicklei/go-restful/v3"
)

// ---- domain "route" (C01 C02 C03 C04 C14 C17 C18): raw case = (table request) ----
// table   = (router services)            router: 0 = CurlyRouter, 1 = RouterJSR311
// service = (root routes)
// route   = (id method rel consumes produces conds noct enc)

type RouteSpec struct {
	ID       int
	Method   string
	Rel      string
	Consumes []string
	Produces []string
	Conds    []bool
	NoCT     []string
	Enc      []bool // empty = not set
}
type ServiceSpec struct {
	Root   string
	Routes []RouteSpec
}
type TableSpec struct {
	Router   int
	Services []ServiceSpec
}

func (r RouteSpec) Sx() Sx {
	conds := Ls{}
	for _, b := range r.Conds {
		conds = append(conds, B(b))
	}
	enc := Ls{}
	for _, b := range r.Enc {
		enc = append(enc, B(b))
	}
	return L(r.ID, A(r.Method), A(r.Rel), Strs(r.Consumes), Strs(r.Produces), conds, Strs(r.NoCT), enc)
}
func (t TableSpec) Sx() Sx {
	ss := Ls{}
	for _, s := range t.Services {
		rs := Ls{}
		for _, r := range s.Routes {
			rs = append(rs, r.Sx())
		}
		ss = append(ss, L(A(s.Root), rs))
	}
	return L(t.Router, ss)
}
func tableFromSx(s Sx) TableSpec {
	t := TableSpec{Router: sxInt(sxNth(s, 0))}
	for _, ws := range sxList(sxNth(s, 1)) {
		sv := ServiceSpec{Root: sxStr(sxNth(ws, 0))}
		for _, r := range sxList(sxNth(ws, 1)) {
			rs := RouteSpec{ID: sxInt(sxNth(r, 0)), Method: sxStr(sxNth(r, 1)), Rel: sxStr(sxNth(r, 2)),
				Consumes: sxStrs(sxNth(r, 3)), Produces: sxStrs(sxNth(r, 4)), NoCT: sxStrs(sxNth(r, 6))}
			for _, b := range sxList(sxNth(r, 5)) {
				rs.Conds = append(rs.Conds, sxBool(b))
			}
			for _, b := range sxList(sxNth(r, 7)) {
				rs.Enc = append(rs.Enc, sxBool(b))
			}
			sv.Routes = append(sv.Routes, rs)
		}
		t.Services = append(t.Services, sv)
	}
	return t
}

// ---------- generators ----------
var litPool = []string{"a", "b", "ab", "a.b", "x", "users", "v1", "é", "a+b", "A"}
var varNames = []string{"v", "id", "name", "w", "k"}
var rxCurly = []string{`[0-9]+`, `[a-z]+`, `[A-Z][A-Z]`, `\d{1,3}`, `(?:foo|bar)`, `.*`, `ab`, `[a-z]*`, `^[0-9]+$`, `[^x]+`}
var rxJsr = []string{`[0-9]+`, `[a-z]+`, `[A-Z][A-Z]`, `\d{1,3}`, `(?:foo|bar)`, `ab`, `(cat|dog)`, `(\d+)|(latest)`, `(?i)[a-z]+`, `v\(\d\)`}

// the model counts the capture groups inside a variable's expression syntactically (Template.re_groups); that count
// must be regexp's own for every expression the generators use
func reGroups(re string) int {
	n := 0
	for i := 0; i < len(re); i++ {
		switch re[i] {
		case '\\':
			i++
		case '(':
			if i+1 >= len(re) || re[i+1] != '?' {
				n++
			}
		}
	}
	return n
}

func init() {
	for _, re := range append(append([]string{}, rxJsr...), rxCurly...) {
		if c, err := regexp.Compile(re); err != nil || c.NumSubexp() != reGroups(re) {
			panic("harness: capture groups of " + re + " are not what the model counts")
		}
	}
}

var sufPool = []string{".foo", "_x", ".json"}
var verbPool = []string{":get", ":cancel", ":x", ":ab"}

// the tail of the pool holds names that contain / are contained in other names (Allow lists are sets of whole names)
var methodPool = []string{"GET", "POST", "PUT", "PATCH", "DELETE", "HEAD", "OPTIONS", "X-CUSTOM", "UNLOCK", "LOCK", "GETALL", "PU"}
var mimePool = []string{"application/json", "application/xml", "application/zip", "application/octet-stream", "*/*", "application/vnd.x+json", "text/plain"}

// values that satisfy / nearly satisfy each regex of the pools
var rxGood = map[string][]string{
	`[0-9]+`: {"12", "7", "007"}, `[a-z]+`: {"ab", "x", "foo"}, `[A-Z][A-Z]`: {"AB", "NL"}, `\d{1,3}`: {"1", "123"},
	`(cat|dog)`: {"cat", "dog"}, `(\d+)|(latest)`: {"7", "latest", "42"}, `(?i)[a-z]+`: {"Abc", "x", "QQ"}, `v\(\d\)`: {"v(1)", "v(7)"},
	`(?:foo|bar)`: {"foo", "bar"}, `.*`: {"", "x", "a.b"}, `ab`: {"ab"}, `[a-z]*`: {"", "abc"}, `^[0-9]+$`: {"42"}, `[^x]+`: {"ab", "12"},
}
var rxNear = map[string][]string{
	`[0-9]+`: {"1a", "a1", "x", ""}, `[a-z]+`: {"A", "1", "aB", ""}, `[A-Z][A-Z]`: {"A", "ABC", "ab"}, `\d{1,3}`: {"1234", "a", ""},
	`(cat|dog)`: {"cow", "cats", "", "CAT"}, `(\d+)|(latest)`: {"latest7", "7x", "x", ""}, `(?i)[a-z]+`: {"1", "a1", ""}, `v\(\d\)`: {"v1", "v()", "v(12)"},
	`(?:foo|bar)`: {"fo", "foobar", "baz"}, `.*`: {"é"}, `ab`: {"a", "xabx", "b"}, `[a-z]*`: {"A", "1"}, `^[0-9]+$`: {"4a", "a4"}, `[^x]+`: {"x", "xx", "axb"},
}
var valPool = []string{"x", "12", "ab", "foo", "AB", "é", "a.b", "x:get", "a", "b", "users", "x.foo", "q_x", "{v}", "a:b", "*", "x\ny", "a%2Fb", "%41b"}

type tplTok struct {
	kind int // 0 lit 1 var 2 rx 3 suffix 4 tail
	text string
	name string
	re   string
	suf  string
	verb string
	sp   int // RouterJSR311 templates, JAX-RS style blanks: 1 "{name : re}", 2 "{ name: re }", 3 "{ name }" / "{name :*}"
}

func hasKind(toks []tplTok, kind int) bool {
	for _, t := range toks {
		if t.kind == kind {
			return true
		}
	}
	return false
}

func (t tplTok) render() string {
	s := ""
	switch t.kind {
	case 0:
		s = t.text
	case 1:
		s = "{" + t.name + "}"
		if t.sp == 3 {
			s = "{ " + t.name + " }"
		}
	case 2:
		s = "{" + t.name + ":" + t.re + "}"
		switch t.sp {
		case 1:
			s = "{" + t.name + " : " + t.re + "}"
		case 2:
			s = "{ " + t.name + ": " + t.re + " }"
		}
	case 3:
		s = "{" + t.name + "}" + t.suf
	case 4:
		s = "{" + t.name + ":*}"
		if t.sp == 3 {
			s = "{" + t.name + " :*}"
		}
	}
	return s + t.verb
}

// a value for the token: good (admitted) or near-miss
func (t tplTok) instance(r *Rng, good bool) string {
	s := ""
	switch t.kind {
	case 0:
		s = t.text
		if !good {
			s = r.Pick([]string{t.text + "x", strings.ToUpper(t.text), r.Pick(litPool), ""})
		}
	case 1:
		s = r.Pick(valPool)
		if r.Pct(25) {
			s = r.Pick(litPool)
		}
	case 2:
		if good {
			s = r.Pick(rxGood[t.re])
		} else {
			s = r.Pick(rxNear[t.re])
		}
	case 3:
		if good {
			s = r.Pick(valPool) + t.suf
		} else {
			s = r.Pick([]string{"q", "", t.suf[1:], r.Pick(valPool) + t.suf + "x", "pre_q", t.suf[:len(t.suf)-1]})
		}
	case 4:
		k := r.Intn(4)
		if !good && r.Bool() {
			k = 0
		}
		parts := []string{}
		for i := 0; i < k; i++ {
			parts = append(parts, r.Pick(valPool))
		}
		s = strings.Join(parts, "/")
	}
	v := t.verb
	if t.verb != "" && !good {
		// near-miss verbs: none, another one, a longer one, other case, one merely ENDING in the verb, the verb's
		// letters without the colon
		v = r.Pick([]string{"", ":other", t.verb + "x", strings.ToUpper(t.verb), ":un" + t.verb[1:], t.verb[1:], ":" + t.verb})
	}
	return s + v
}

func genTokens(r *Rng, router int, n int, isRoute bool, used map[string]bool) []tplTok {
	toks := []tplTok{}
	for i := 0; i < n; i++ {
		last := i == n-1
		t := tplTok{}
		name := func() string {
			for k := 0; k < 8; k++ {
				nm := r.Pick(varNames)
				if !used[nm] || r.Pct(5) {
					used[nm] = true
					return nm
				}
			}
			return "z"
		}
		p := r.Intn(100)
		switch {
		case p < 45:
			t.kind, t.text = 0, r.Pick(litPool)
		case p < 70:
			t.kind, t.name = 1, name()
		case p < 85:
			t.kind, t.name = 2, name()
			if router == 1 {
				t.re = r.Pick(rxJsr)
			} else {
				t.re = r.Pick(rxCurly)
			}
		case p < 92 && router == 0:
			t.kind, t.name, t.suf = 3, name(), r.Pick(sufPool)
		case last && isRoute:
			t.kind, t.name = 4, name()
		default:
			t.kind, t.text = 0, r.Pick(litPool)
		}
		if last && isRoute && router == 0 && t.kind != 4 && r.Pct(12) {
			t.verb = r.Pick(verbPool)
		}
		if router == 1 && r.Pct(12) {
			// blanks around the name and the expression (the compiled template trims them; CurlyRouter does not)
			switch t.kind {
			case 1, 4:
				t.sp = 3
			case 2:
				t.sp = 1 + r.Intn(2)
			}
		}
		toks = append(toks, t)
	}
	return toks
}

func renderPath(toks []tplTok, r *Rng) string {
	if len(toks) == 0 {
		return r.Pick([]string{"/", "", "/"})
	}
	parts := []string{}
	for _, t := range toks {
		parts = append(parts, t.render())
	}
	s := "/" + strings.Join(parts, "/")
	if r.Pct(10) {
		s += "/"
	}
	if r.Pct(5) {
		s = s[1:] // no leading slash
	}
	return s
}

type genRoute struct {
	spec   RouteSpec
	toks   []tplTok // root + route tokens
	twinOf int      // the generic twin of the route with that id (0: none); requests are aimed at such pairs
}

func genMimeList(r *Rng) []string {
	switch r.Intn(10) {
	case 0, 1, 2, 3:
		return []string{}
	case 4, 5:
		return []string{"application/json"}
	case 6:
		return []string{"application/xml"}
	case 7:
		return []string{"application/json", "application/xml"}
	default:
		return r.Subset(mimePool, 30)
	}
}

func genTable(r *Rng, router int, maxWs int) (TableSpec, []genRoute) {
	t := TableSpec{Router: router}
	all := []genRoute{}
	nws := 1 + r.Intn(maxWs)
	seenRoot := map[string]bool{}
	var prevRoot, prevRootOf []tplTok
	id := 1
	for w := 0; w < nws; w++ {
		used := map[string]bool{}
		nroot := []int{0, 0, 1, 1, 1, 2, 2, 3}[r.Intn(8)]
		var rootToks []tplTok
		crossedRoot := false
		if w > 0 && r.Pct(22) {
			// a root one token longer than the previous one (a variable or a literal below it), or the previous one without
			// its last token: /docs and /docs/{id} in either order (they share the pattern the mux knows them by)
			if len(prevRoot) > 0 && r.Pct(40) {
				rootToks = append([]tplTok{}, prevRoot[:len(prevRoot)-1]...)
			} else if r.Pct(60) {
				rootToks = append(append([]tplTok{}, prevRoot...), tplTok{kind: 1, name: "e" + itoa(w)})
			} else {
				rootToks = append(append([]tplTok{}, prevRoot...), tplTok{kind: 0, text: r.Pick(litPool)})
			}
		} else if router == 1 && r.Pct(80) {
			// RouterJSR311: mostly literal roots (the fragment C02/C03 are stated for)
			for i := 0; i < nroot; i++ {
				rootToks = append(rootToks, tplTok{kind: 0, text: r.Pick(litPool)})
			}
		} else if w > 0 && len(prevRoot) > 1 && r.Pct(40) {
			crossedRoot = true
			// a root crossing the previous one: same length, literal and plain-variable positions flipped at random
			// (/{a}/x/y against /p/{c}/{d}: which one wins depends on the weights of the positions)
			for k, pt := range prevRoot {
				switch {
				case pt.kind > 1 || pt.verb != "" || r.Bool():
					rootToks = append(rootToks, pt)
				case pt.kind == 0:
					rootToks = append(rootToks, tplTok{kind: 1, name: "q" + itoa(w) + itoa(k)})
				default:
					rootToks = append(rootToks, tplTok{kind: 0, text: r.Pick(litPool)})
				}
			}
		} else {
			rootToks = genTokens(r, router, nroot, false, used)
		}
		prevRoot = rootToks
		root := renderPath(rootToks, r)
		key := strings.Trim(root, "/")
		if seenRoot[root] || seenRoot[key] {
			continue
		}
		seenRoot[root], seenRoot[key] = true, true
		sv := ServiceSpec{Root: root}
		if r.Pct(12) {
			// a ladder: one method, an all-literal path and the same path with its tokens turned into variables from
			// the right, one more at each step; conditions on some (a failing condition must only remove its own route)
			n := 2 + r.Intn(2)
			lits := []tplTok{}
			for k := 0; k < n; k++ {
				lits = append(lits, tplTok{kind: 0, text: r.Pick(litPool)})
			}
			method := r.Pick(methodPool[:5])
			for step := 0; step <= n; step++ {
				toks := append([]tplTok{}, lits...)
				for k := n - step; k < n; k++ {
					toks[k] = tplTok{kind: 1, name: "l" + itoa(k)}
				}
				rs := RouteSpec{ID: id, Method: method, Rel: renderPath(toks, r)}
				id++
				if r.Pct(40) {
					rs.Conds = []bool{r.Pct(50)}
				}
				sv.Routes = append(sv.Routes, rs)
				all = append(all, genRoute{spec: rs, toks: append(append([]tplTok{}, rootToks...), toks...)})
			}
		}
		nr := r.Intn(7)
		for i := 0; i < nr; i++ {
			var toks []tplTok
			var sibling *RouteSpec
			crossed, generic := false, false
			if i > 0 && r.Pct(35) {
				// a sibling of an earlier route: same shape with one token changed, or same path other method
				prev := all[len(all)-1-r.Intn(min(i, len(all)))]
				sibling = &prev.spec
				toks = append([]tplTok{}, prev.toks[min(len(rootToks), len(prev.toks)):]...)
				if r.Pct(30) {
					// crossed shapes: literal and plain-variable positions flipped at random, same method (below)
					crossed = true
					for k := range toks {
						if toks[k].verb != "" || (toks[k].kind != 3 && !r.Bool()) {
							continue
						}
						if toks[k].kind == 0 {
							toks[k] = tplTok{kind: 1, name: r.Pick(varNames)}
						} else if toks[k].kind == 1 {
							toks[k] = tplTok{kind: 0, text: r.Pick(litPool)}
						} else if toks[k].kind == 3 {
							toks[k] = tplTok{kind: 0, text: r.Pick([]string{"report", "x", "ab"}) + toks[k].suf} // /x/report.json next to /x/{id}.json
						}
					}
				} else if hasKind(toks, 3) && r.Pct(50) {
					// the literal twin of a route with a {var}suffix token: the same path with that token spelled out, same
					// method and media types (the literal must win where both match)
					crossed, generic = true, true
					for k := range toks {
						if toks[k].kind == 3 {
							toks[k] = tplTok{kind: 0, text: r.Pick([]string{"report", "x", "ab"}) + toks[k].suf}
						}
					}
				} else if hasKind(toks, 2) && r.Pct(80) {
					// the generic twin of a route with regular-expression variables: the same path with those variables
					// made plain ones, same method (the specific route must keep winning where its expressions match)
					crossed = true
					generic = true
					lit := -1
					for k := range toks {
						if toks[k].kind == 2 {
							toks[k] = tplTok{kind: 1, name: toks[k].name + "g", verb: toks[k].verb}
						} else if toks[k].kind == 0 && toks[k].verb == "" && (lit < 0 || r.Bool()) {
							lit = k
						}
					}
					if lit >= 0 { // ... and one literal segment a variable too: the twin is dominated
						toks[lit] = tplTok{kind: 1, name: "g" + itoa(lit)}
					}
				} else if len(toks) > 0 && r.Pct(70) {
					k := r.Intn(len(toks))
					nt := genTokens(r, router, 1, k == len(toks)-1, map[string]bool{})
					if nt[0].kind != 4 {
						nt[0].verb = toks[k].verb
					}
					if nt[0].kind != 4 || k == len(toks)-1 {
						toks[k] = nt[0]
					}
				}
			} else {
				toks = genTokens(r, router, []int{0, 1, 1, 2, 2, 3, 4}[r.Intn(7)], true, used)
			}
			rel := renderPath(toks, r)
			rs := RouteSpec{ID: id, Method: r.Pick(methodPool[:5+r.Intn(8)]), Rel: rel,
				Consumes: genMimeList(r), Produces: genMimeList(r)}
			if crossed {
				rs.Method = sibling.Method
			}
			contested := false
			if sibling != nil && r.Pct(45) {
				contested = true
				// contested negotiation: same method as the sibling, one acceptable by name and one by wildcard only
				rs.Method = sibling.Method
				rs.Consumes = sibling.Consumes
				rs.Produces = [][]string{{}, {"*/*"}, {"application/json"}, {"application/xml"}, {"application/json", "*/*"},
					{"application/xml", "application/json"}}[r.Intn(6)]
			}
			id++
			nc := []int{0, 0, 0, 1, 2}[r.Intn(5)]
			for c := 0; c < nc; c++ {
				rs.Conds = append(rs.Conds, r.Pct(75))
			}
			if r.Pct(8) {
				rs.NoCT = r.Subset([]string{"POST", "PUT", "GET"}, 50)
			}
			sv.Routes = append(sv.Routes, rs)
			gr := genRoute{spec: rs, toks: append(append([]tplTok{}, rootToks...), toks...)}
			if generic {
				gr.twinOf = sibling.ID
				gr.spec.Consumes = sibling.Consumes // eligible for the same requests ...
				if !contested {
					gr.spec.Produces = sibling.Produces // ... unless the pair is to differ in how it is acceptable
				}
				sv.Routes[len(sv.Routes)-1] = gr.spec
			}
			all = append(all, gr)
		}
		if crossedRoot && len(t.Services) > 0 && r.Pct(60) {
			// the crossing service also offers the previous service's routes, so that one URL can be meant for both
			prev := t.Services[len(t.Services)-1]
			for _, pr := range prev.Routes {
				rs := pr
				rs.ID = id
				id++
				sv.Routes = append(sv.Routes, rs)
				for _, g := range all {
					if g.spec.ID == pr.ID {
						all = append(all, genRoute{spec: rs, toks: append(append([]tplTok{}, rootToks...), g.toks[len(prevRootOf):]...)})
						break
					}
				}
			}
		}
		prevRootOf = rootToks
		t.Services = append(t.Services, sv)
	}
	return t, all
}

func min(a, b int) int {
	if a < b {
		return a
	}
	return b
}

var ctPool = []string{"", "", "application/json", "application/xml", "application/json; charset=utf-8", " application/json ",
	"text/plain", "application/json,application/xml", "*/*", "application/zip", "application/octet-stream", "application/json;",
	",application/json", "application/xml,", "application/vnd.x+json"}
var acceptPool = []string{"", "", "*/*", "application/json", "application/xml", "application/xml;q=0.9, application/json",
	"text/html", "application/json;q=0.8", " application/xml , */*;q=0.1", "text/*", "application/zip", "application/json,",
	"text/html,application/xhtml+xml,application/xml;q=0.9,*/*;q=0.8", "application/vnd.x+json", ";q=1", ","}

// a header value that is the declared media type or a near-miss of it: superstring, prefix, other case,
// parameters, surrounding blanks, a list containing it
func nearMime(r *Rng, m string) string {
	switch r.Intn(14) {
	case 0, 1, 2, 3, 4, 5:
		return m
	case 6:
		return m + r.Pick([]string{"x", "-patch+json", "lines", "+zip", "/"})
	case 7:
		if len(m) > 2 {
			return m[:len(m)-1-r.Intn(len(m)-2)]
		}
		return m
	case 8:
		return strings.ToUpper(m)
	case 9:
		return m + r.Pick([]string{"; charset=utf-8", ";q=0.5", " ;v=1", ";"})
	case 10:
		return r.Pick([]string{" ", "  "}) + m + r.Pick([]string{"", " "})
	case 11:
		return r.Pick([]string{"text/html", "x" + m, "application/zip"}) + r.Pick([]string{",", ", ", " , "}) + m
	case 12:
		return "x" + m
	default:
		return m + r.Pick([]string{",text/html", ", */*;q=0.1"})
	}
}

func genRequest(r *Rng, routes []genRoute) *Req {
	q := &Req{}
	p := r.Intn(100)
	switch {
	case p < 72 && len(routes) > 0:
		gr := routes[r.Intn(len(routes))]
		mut := []int{0, 0, 0, 1, 1, 2}[r.Intn(6)]
		badTok := -1
		if mut > 0 && len(gr.toks) > 0 && r.Pct(60) {
			badTok = r.Intn(len(gr.toks))
			mut--
		}
		partner := overlapPartner(r, routes, gr)
		twins := []int{}
		for i, o := range routes {
			if o.twinOf > 0 {
				twins = append(twins, i)
			}
		}
		if len(twins) > 0 && r.Pct(65) {
			// aimed at a generic twin and the route it was made from
			gr = routes[twins[r.Intn(len(twins))]]
			partner = nil
			for i := range routes {
				if routes[i].spec.ID == gr.twinOf && len(routes[i].toks) == len(gr.toks) {
					partner = &routes[i]
				}
			}
			if r.Pct(70) {
				mut, badTok = 0, -1
			}
		}
		segs := []string{}
		for i, t := range gr.toks {
			if partner != nil && (t.kind == 1 || (t.kind == 3 && strings.HasSuffix(partner.toks[i].text, t.suf))) && partner.toks[i].kind == 0 && i != badTok {
				segs = append(segs, partner.toks[i].text) // aimed at both routes
			} else if partner != nil && t.kind == 1 && partner.toks[i].kind == 2 && i != badTok {
				segs = append(segs, partner.toks[i].instance(r, true)) // a value the partner's expression admits
			} else {
				segs = append(segs, t.instance(r, i != badTok))
			}
		}
		for ; mut > 0; mut-- {
			switch r.Intn(4) {
			case 0:
				if len(segs) > 0 {
					segs = segs[:len(segs)-1]
				}
			case 1:
				segs = append(segs, r.Pick(valPool))
			case 2:
				if len(segs) > 0 {
					k := r.Intn(len(segs))
					segs = append(segs[:k], append([]string{r.Pick(valPool)}, segs[k:]...)...)
				}
			case 3:
				if len(segs) > 0 {
					k := r.Intn(len(segs))
					segs[k] = r.Pick(valPool)
				}
			}
		}
		q.Path = "/" + strings.Join(segs, "/")
		if r.Pct(15) {
			q.Path += "/"
		}
		if r.Pct(75) {
			q.Method = gr.spec.Method
		} else {
			q.Method = r.Pick(methodPool)
		}
		if len(gr.spec.Consumes) > 0 && r.Pct(60) {
			q.Set("Content-Type", nearMime(r, r.Pick(gr.spec.Consumes)))
		}
		if len(gr.spec.Produces) > 0 && r.Pct(50) {
			q.Set("Accept", nearMime(r, r.Pick(gr.spec.Produces)))
		}
		if r.Pct(12) {
			// a named type next to a wildcard: routes acceptable by name compete with routes acceptable by wildcard
			q.Set("Accept", r.Pick([]string{"application/json, */*;q=0.5", "application/xml, */*", "*/*;q=0.1, application/xml",
				"application/json", "application/xml;q=0.9, application/json, */*;q=0.1"}))
		}
	case p < 90:
		// adversarial paths
		q.Method = r.Pick(methodPool)
		q.Path = r.Pick([]string{"", "/", "//", "///", "/a//b", "//a", "/a/b//", "a", "a/b", "/:", "/{v}", "/{", "/}", "/a/{v:*}",
			"/*", "/a/b/c/d/e/f/g/h/i/j/k/l/m/n/o/p/q/r/s/t/u/v/w/x/y/z/a/b/c/d/e/f/g/h/i/j/k/l/m/n", "/a\nb", "/a/b\n", "/\xff", "/a/\xc3",
			"/" + strings.Repeat("a", 1500), "/a/" + strings.Repeat("é", 700), "/a/b/c", "/a:get", "/a/:get", "/ab/", "/a b", "/a%2Fb", "/a/b/../c", "/./a"})
		if r.Pct(30) && len(routes) > 0 {
			gr := routes[r.Intn(len(routes))]
			segs := []string{}
			for _, t := range gr.toks {
				segs = append(segs, t.instance(r, true))
			}
			k := r.Intn(len(segs) + 1)
			segs = append(segs[:k], append([]string{""}, segs[k:]...)...) // an empty segment somewhere
			q.Path = "/" + strings.Join(segs, "/")
		}
	default:
		q.Method = r.Pick(methodPool)
		n := r.Intn(5)
		segs := []string{}
		for i := 0; i < n; i++ {
			segs = append(segs, r.Pick(append(litPool, valPool...)))
		}
		q.Path = "/" + strings.Join(segs, "/")
	}
	if n := strings.Count(q.Path, "/"); n >= 2 && r.Pct(4) {
		q.EncSlash = 1 + r.Intn(n-1) // one separator arrives as %2F: URL.Path is unchanged, URL.RawPath differs
	}
	if q.Get("Content-Type") == "" && r.Pct(40) {
		if ct := r.Pick(ctPool); ct != "" {
			q.Set("Content-Type", ct)
		}
	}
	if q.Get("Accept") == "" && r.Pct(40) {
		if a := r.Pick(acceptPool); a != "" {
			q.Set("Accept", a)
		}
	}
	// body: consistent (field and header agree) mostly, inconsistent sometimes
	switch b := r.Intn(20); {
	case b < 9:
		// no body, no header
	case b < 11:
		q.Set("Content-Length", "0")
	case b < 18:
		q.CLen = int64(1 + r.Intn(20))
		q.Set("Content-Length", itoa(int(q.CLen)))
	case b == 18:
		q.CLen = -1 // chunked: unknown length, no header
	default:
		q.CLen = 5
		q.Set("Content-Length", "0")
	}
	return q
}

func itoa(n int) string {
	if n == 0 {
		return "0"
	}
	s := ""
	neg := n < 0
	if neg {
		n = -n
	}
	for n > 0 {
		s = string(rune('0'+n%10)) + s
		n /= 10
	}
	if neg {
		s = "-" + s
	}
	return s
}

func genRoute_(r *Rng) Sx {
	router := 0
	if r.Pct(40) {
		router = 1
	}
	t, routes := genTable(r, router, 4)
	q := genRequest(r, routes)
	// third: trace logging on (to a discarding logger); fourth (half of the cases): another request served on the same
	// container first - the answer to the main request must not depend on it
	if r.Bool() {
		return L(t.Sx(), q.Sx(), B(r.Pct(15)), genRequest(r, routes).Sx())
	}
	return L(t.Sx(), q.Sx(), B(r.Pct(15)))
}

// ---------- building the real container ----------
type probe struct {
	viaHeader bool // concurrent clients: nothing is recorded here, the route function reports in a response header
	invoked   []int
	params    map[string]string
	selPath   string
	selFPath  string // selected route path seen by the route filter
	selFSeen  bool
	decoy     bool // set-up history: a service below the first root is added first and removed again at the end
	warm      *Req // set-up history: services are served this request before their last route is added (see buildContainer)
}

// validTemplate tells whether go-restful can compile the template (it calls
// os.Exit(1) otherwise): every {name:re} token must hold a valid expression.
func validTemplate(path string) bool {
	for _, tok := range strings.Split(strings.Trim(path, "/"), "/") {
		if strings.HasPrefix(tok, "{") {
			if c := strings.Index(tok, ":"); c != -1 {
				if c+1 > len(tok)-1 {
					return false
				}
				re := strings.TrimSpace(tok[c+1 : len(tok)-1])
				if re != "*" {
					if _, err := regexp.Compile("(" + re + ")"); err != nil {
						return false
					}
				}
			}
		}
	}
	return true
}

// buildContainer adds every service it can; a service whose Add panics (net/http
// mux pattern conflict) is left out and reported in skipped.
func sameStrings(a, b []string) bool {
	if len(a) != len(b) {
		return false
	}
	for i := range a {
		if a[i] != b[i] {
			return false
		}
	}
	return true
}

// what the container does with a routing error when no handler is configured, written by hand: installing it must
// change nothing
func equivalentServiceErrorHandler(se restful.ServiceError, rq *restful.Request, rp *restful.Response) {
	for k, vs := range se.Header {
		for _, v := range vs {
			rp.Header().Add(k, v)
		}
	}
	rp.WriteErrorString(se.Code, se.Message)
}

func buildContainer(t TableSpec, pr *probe) (c *restful.Container, kept TableSpec, skipped int) {
	c = restful.NewContainer()
	nroutes := 0
	for _, sv := range t.Services {
		nroutes += len(sv.Routes)
	}
	setRouter(c, t.Router, nroutes+len(t.Services))
	if nroutes%3 == 1 {
		c.ServiceErrorHandler(equivalentServiceErrorHandler)
	}
	// process-wide configuration that is none of the router's business: the media type ReadEntity assumes for bodies that
	// declare none (every case sets it anew)
	restful.DefaultRequestContentType([]string{"", "application/json", "application/xml", "application/json"}[(nroutes+len(t.Services))%4])
	kept = TableSpec{Router: t.Router}
	roots := map[string]bool{}
	// a container with a past: a service that once sat below the first root (its mux pattern is that root plus "/") and
	// is removed again when everything else is in place. What is left answers like a container that never had it.
	var decoy *restful.WebService
	if pr.decoy {
		for _, sv0 := range t.Services {
			if validTemplate(sv0.Root) && sv0.Root != "/" && sv0.Root != "" {
				d := new(restful.WebService)
				d.Path(strings.TrimRight(sv0.Root, "/") + "/{zzdecoy}")
				d.Route(d.GET("/").To(func(*restful.Request, *restful.Response) {}))
				func() {
					defer func() { recover() }()
					c.Add(d)
					decoy = d
				}()
				break
			}
		}
	}
	defer func() {
		if decoy != nil {
			c.Remove(decoy)
		}
	}()
	for _, sv0 := range t.Services {
		if !validTemplate(sv0.Root) || roots[sv0.Root] || (sv0.Root == "" && roots["/"]) || (sv0.Root == "/" && roots[""]) {
			skipped++
			continue
		}
		roots[sv0.Root] = true
		sv := ServiceSpec{Root: sv0.Root}
		for _, rs := range sv0.Routes {
			if validTemplate(rs.Rel) {
				sv.Routes = append(sv.Routes, rs)
			}
		}
		ws := new(restful.WebService)
		if sv.Root != "" { // (a service with the root "" never calls Path: Add gives it "/" when it is registered)
			ws.Path(sv.Root)
		}
		// set-up history (when the probe carries a warm-up request): half of the services with two or more routes are
		// ordinary static services that get their LAST route only after they were added and have served a request; a
		// route added to a registered service is a route like any other from then on
		late := pr.warm != nil && len(sv.Routes) >= 2 && sv.Routes[0].ID%2 == 0
		var lateB *restful.RouteBuilder
		if !late {
			ws.SetDynamicRoutes(true) // routes may be removed later (domain cors); serving is the same either way
		}
		// set-up variation: when every route of the service declares its media types, half of the services declare the
		// first route's lists on the WebService and leave them out on the routes that have exactly those (routes inherit
		// what they do not declare)
		// ... and later routes may re-declare the service's lists before they are added (the routes added before keep what
		// they inherited); every call gets a slice of its own
		var wsProduces, wsConsumes []string
		wsLevel := len(sv.Routes) > 0 && len(sv.Routes)%2 == 0
		if wsLevel {
			allP, allC := true, true
			for _, rs := range sv.Routes {
				allP = allP && len(rs.Produces) > 0
				allC = allC && len(rs.Consumes) > 0
			}
			if allP {
				wsProduces = sv.Routes[0].Produces
				ws.Produces(append([]string(nil), wsProduces...)...)
			}
			if allC {
				wsConsumes = sv.Routes[0].Consumes
				ws.Consumes(append([]string(nil), wsConsumes...)...)
			}
		}
		var prevB *restful.RouteBuilder
		prevPlain := false
		for ri, rs := range sv.Routes {
			rs := rs
			if wsLevel && ri > 0 && (rs.ID+ri)%2 == 0 {
				if wsProduces != nil && len(rs.Produces) > 0 && !sameStrings(rs.Produces, wsProduces) {
					wsProduces = rs.Produces
					ws.Produces(append([]string(nil), wsProduces...)...)
				}
				if wsConsumes != nil && len(rs.Consumes) > 0 && !sameStrings(rs.Consumes, wsConsumes) {
					wsConsumes = rs.Consumes
					ws.Consumes(append([]string(nil), wsConsumes...)...)
				}
			}
			// set-up variation: a route without conditions or switches of its own is often built with the builder of the
			// route before it (method, path, media types and function set anew, the selection filter is on it already):
			// everything about the new route is what was set for IT
			plain := len(rs.Conds) == 0 && len(rs.NoCT) == 0 && len(rs.Enc) == 0
			reuse := prevB != nil && prevPlain && plain && rs.ID%3 != 1
			var b *restful.RouteBuilder
			if reuse {
				b = prevB.Method(rs.Method).Path(rs.Rel)
				b.Consumes()
				b.Produces()
			} else {
				b = ws.Method(rs.Method).Path(rs.Rel)
			}
			prevB, prevPlain = b, plain
			if len(rs.Consumes) > 0 && !(wsConsumes != nil && sameStrings(rs.Consumes, wsConsumes)) {
				b.Consumes(rs.Consumes...)
			}
			if len(rs.Produces) > 0 && !(wsProduces != nil && sameStrings(rs.Produces, wsProduces)) {
				b.Produces(rs.Produces...)
			}
			for _, cv := range rs.Conds {
				cv := cv
				b.If(func(*http.Request) bool { return cv })
			}
			if len(rs.NoCT) > 0 {
				b.AllowedMethodsWithoutContentType(rs.NoCT)
			}
			if len(rs.Enc) > 0 {
				b.ContentEncodingEnabled(rs.Enc[0])
			}
			if !reuse {
				b.Filter(func(rq *restful.Request, rp *restful.Response, ch *restful.FilterChain) {
					if !pr.viaHeader {
						pr.selFPath, pr.selFSeen = rq.SelectedRoutePath(), true
					}
					ch.ProcessFilter(rq, rp)
				})
			}
			b.To(func(rq *restful.Request, rp *restful.Response) {
				if pr.viaHeader {
					ks := []string{}
					for k := range rq.PathParameters() {
						ks = append(ks, k)
					}
					sort.Strings(ks)
					ps := []string{}
					for _, k := range ks {
						ps = append(ps, k+"="+rq.PathParameter(k))
					}
					rp.AddHeader("X-Obs", itoa(rs.ID)+"|"+rq.SelectedRoutePath()+"|"+strings.Join(ps, ";"))
					rp.WriteHeader(200)
					return
				}
				pr.invoked = append(pr.invoked, rs.ID)
				pr.params = map[string]string{}
				for k, v := range rq.PathParameters() {
					pr.params[k] = v
				}
				pr.selPath = rq.SelectedRoutePath()
				rp.WriteHeader(200)
			})
			if late && ri == len(sv.Routes)-1 {
				lateB = b
			} else {
				ws.Route(b)
			}
		}
		ok := func() (ok bool) {
			defer func() {
				if recover() != nil {
					ok = false
				}
			}()
			c.Add(ws)
			return true
		}()
		if ok && lateB != nil {
			func() {
				defer func() { recover() }()
				c.Dispatch(httptest.NewRecorder(), pr.warm.HTTP())
			}()
			*pr = probe{viaHeader: pr.viaHeader, decoy: pr.decoy, warm: pr.warm}
			ws.Route(lateB)
		}
		if ok {
			kept.Services = append(kept.Services, sv)
		} else {
			skipped++
		}
	}
	return
}

// ---------- oracle tabulation ----------
func templateRegexes(paths []string) []string {
	set := map[string]bool{}
	for _, p := range paths {
		for _, tok := range strings.Split(strings.Trim(p, "/"), "/") {
			for _, t := range []string{tok, customVerbStrip(tok)} {
				if strings.HasPrefix(t, "{") {
					if c := strings.Index(t, ":"); c != -1 && c+1 <= len(t)-1 {
						re := t[c+1 : len(t)-1]
						set[re] = true
						set[strings.TrimSpace(re)] = true
					}
				}
			}
		}
	}
	out := []string{}
	for k := range set {
		out = append(out, k)
	}
	sort.Strings(out)
	return out
}

var verbRe = regexp.MustCompile(":([A-Za-z]+)$")

func customVerbStrip(s string) string { return verbRe.ReplaceAllString(s, "") }

func tabulateRouting(o *Oracles, t TableSpec, path string) {
	paths := []string{}
	for _, sv := range t.Services {
		paths = append(paths, sv.Root)
		for _, r := range sv.Routes {
			paths = append(paths, r.Rel, strings.TrimRight(sv.Root, "/")+"/"+strings.TrimLeft(r.Rel, "/"))
		}
	}
	res := templateRegexes(paths)
	toks := map[string]bool{}
	for _, tk := range strings.Split(path, "/") {
		toks[tk] = true
		toks[customVerbStrip(tk)] = true
	}
	for _, re := range res {
		un, errU := regexp.Compile(re)
		full, errF := regexp.Compile("(?s)^(?:" + re + ")$") // path_expression.go compiles with (?s) (repair F8)
		for tk := range toks {
			o.rx[[2]string{re, tk}] = errU == nil && un.MatchString(tk)
			o.rxfull[[2]string{re, tk}] = errF == nil && full.MatchString(tk)
		}
	}
}

// ---------- running ----------
func allowSet(h http.Header) Sx {
	v := h.Get("Allow")
	if v == "" {
		return Ls{}
	}
	parts := strings.Split(v, ", ")
	sort.Strings(parts)
	return Strs(parts)
}

func paramsSx(m map[string]string) Sx {
	ks := []string{}
	for k := range m {
		ks = append(ks, k)
	}
	sort.Strings(ks)
	out := Ls{}
	for _, k := range ks {
		out = append(out, L(A(k), A(m[k])))
	}
	return out
}

// dispatch through Container.Dispatch with a recover around it
func dispatchObs(c *restful.Container, pr *probe, q *Req) Sx {
	rec := httptest.NewRecorder()
	panicked := false
	func() {
		defer func() {
			if recover() != nil {
				panicked = true
			}
		}()
		c.Dispatch(rec, q.HTTP())
	}()
	ids := Ls{}
	for _, id := range pr.invoked {
		ids = append(ids, id)
	}
	class := 1
	if panicked {
		class = 2
	} else if len(pr.invoked) > 0 {
		class = 0
	}
	selOK := 1
	if len(pr.invoked) > 0 && (!pr.selFSeen || pr.selFPath != pr.selPath) {
		selOK = 0
	}
	return L(class, rec.Code, allowSet(rec.Header()), ids, paramsSx(pr.params), A(pr.selPath), selOK)
}

// as dispatchObs, through Container.ServeHTTP; the Location header of a redirect replaces the selected path
func serveObs(c *restful.Container, pr *probe, q *Req) Sx {
	rec := httptest.NewRecorder()
	panicked := false
	func() {
		defer func() {
			if recover() != nil {
				panicked = true
			}
		}()
		c.ServeHTTP(rec, q.HTTP())
	}()
	ids := Ls{}
	for _, id := range pr.invoked {
		ids = append(ids, id)
	}
	class := 1
	if panicked {
		class = 2
	} else if len(pr.invoked) > 0 {
		class = 0
	}
	return L(class, rec.Code, allowSet(rec.Header()), ids, paramsSx(pr.params), A(pr.selPath+rec.Header().Get("Location")), 1)
}

func runRoute(raw Sx) (Sx, Sx) {
	t := tableFromSx(sxNth(raw, 0))
	q := sxReq(sxNth(raw, 1))
	trace := len(sxList(raw)) > 2 && sxBool(sxNth(raw, 2))
	if trace {
		restful.EnableTracing(true) // must not change any answer
		defer restful.EnableTracing(false)
	}
	pr := &probe{}
	c, kept, _ := buildContainer(t, pr)
	var warm Sx = Ls{}
	if len(sxList(raw)) > 3 {
		warm = sxNth(raw, 3)
		dispatchObs(c, pr, sxReq(warm)) // served first; must leave no trace
		*pr = probe{}
	}
	obs := dispatchObs(c, pr, q)
	// the same request on the same container with trace logging flipped: the same answer (C19)
	restful.EnableTracing(!trace)
	*pr = probe{}
	obs2 := dispatchObs(c, pr, q)
	restful.EnableTracing(trace)
	same := 0
	if SxString(obs) == SxString(obs2) {
		same = 1
	}
	o := NewOracles()
	tabulateRouting(o, kept, q.Path)
	out := append(append(Ls{}, sxList(obs)...), same)
	if len(kept.Services) >= 2 && len(kept.Services) == len(t.Services) {
		// the first service is removed again (the container rebuilds its mux) and the request comes in through
		// ServeHTTP: ninth field. What is left must answer as the registration state says
		for _, ws := range c.RegisteredWebServices() {
			first := kept.Services[0].Root
			if ws.RootPath() == first || (first == "" && ws.RootPath() == "/") {
				func() {
					defer func() { recover() }()
					c.Remove(ws)
				}()
				break
			}
		}
		*pr = probe{}
		out = append(out, serveObs(c, pr, q))
	}
	if len(sxList(warm)) > 0 {
		tabulateRouting(o, kept, sxReq(warm).Path)
		return L(o.Sx(), kept.Sx(), q.Sx(), B(trace), warm), out
	}
	return L(o.Sx(), kept.Sx(), q.Sx(), B(trace)), out
}

func init() { domains["route"] = domain{gen: genRoute_, run: runRoute} }

// ---- domain "slash" (C14): the same request with path p and p + "/" on one container ----
func genSlash(r *Rng) Sx {
	raw := genRoute_(r)
	q := sxReq(sxNth(raw, 1))
	q.Path = strings.TrimRight(q.Path, "/")
	if strings.Trim(q.Path, "/") == "" {
		q.Path = "/" + r.Pick(litPool)
	}
	if r.Pct(15) {
		// the path of a WebService root itself (a literal one): what the mux knows about it decides through ServeHTTP
		t := tableFromSx(sxNth(raw, 0))
		roots := []string{}
		for _, sv := range t.Services {
			if rt := strings.TrimRight(sv.Root, "/"); rt != "" && !strings.ContainsAny(rt, "{:") {
				roots = append(roots, rt)
			}
		}
		if len(roots) > 0 {
			q.Path = r.Pick(roots)
		}
	}
	if r.Pct(20) {
		// the OPTIONS filter installed and asked: the Allow list it computes for p and for p/ must be the same
		q.Method = "OPTIONS"
		return L(sxNth(raw, 0), q.Sx(), 1)
	}
	return L(sxNth(raw, 0), q.Sx())
}

// the Allow header as the set of names separated by commas (the OPTIONS filter joins without a blank)
func allowNames(obs Sx, h http.Header) Sx {
	seen := map[string]bool{}
	names := []string{}
	for _, p := range strings.Split(h.Get("Allow"), ",") {
		p = strings.TrimSpace(p)
		if p != "" && !seen[p] {
			seen[p] = true
			names = append(names, p)
		}
	}
	sort.Strings(names)
	l := append(Ls{}, sxList(obs)...)
	l[2] = Strs(names)
	return l
}

func runSlash(raw Sx) (Sx, Sx) {
	t := tableFromSx(sxNth(raw, 0))
	q := sxReq(sxNth(raw, 1))
	q2 := sxReq(sxNth(raw, 1))
	q2.Path = q.Path + "/"
	pr := &probe{decoy: len(q.Path)%3 == 0}
	c, kept, _ := buildContainer(t, pr)
	if len(sxList(raw)) > 2 && sxBool(sxNth(raw, 2)) {
		c.Filter(c.OPTIONSFilter)
		ask := func(via func(http.ResponseWriter, *http.Request), qq *Req) Sx {
			*pr = probe{}
			rec := httptest.NewRecorder()
			via(rec, qq.HTTP())
			class := 1
			if len(pr.invoked) > 0 {
				class = 0
			}
			return allowNames(L(class, rec.Code, Ls{}, Ls{}, Ls{}, A(""), 1), rec.Header())
		}
		o := NewOracles()
		tabulateRouting(o, kept, q.Path)
		return L(o.Sx(), kept.Sx(), q.Sx(), 1), L(ask(c.Dispatch, q), ask(c.Dispatch, q2), ask(c.ServeHTTP, q), ask(c.ServeHTTP, q2))
	}
	obs1 := dispatchObs(c, pr, q)
	*pr = probe{}
	obs2 := dispatchObs(c, pr, q2)
	// the same pair through ServeHTTP (the mux patterns the container registered decide who gets the request)
	*pr = probe{}
	obs3 := serveObs(c, pr, q)
	*pr = probe{}
	obs4 := serveObs(c, pr, q2)
	o := NewOracles()
	tabulateRouting(o, kept, q.Path)
	return L(o.Sx(), kept.Sx(), q.Sx()), L(obs1, obs2, obs3, obs4)
}

func init() { domains["slash"] = domain{gen: genSlash, run: runSlash} }

// ---- domain "twin" (C18): the same table and request under both routers ----
func genTwin(r *Rng) Sx {
	t, routes := genSimpleTable(r, 0)
	// common fragment: literal root paths only
	for i := range t.Services {
		if strings.Contains(t.Services[i].Root, "{") {
			t.Services[i].Root = "/" + r.Pick([]string{"q", "q/a", "z"})
		}
	}
	q := genSimpleRequest(r, routes)
	if r.Pct(6) || forceConc {
		// several clients at once, under either router: each must get the answer a lone client gets; a second request
		// (to another route) keeps other selections in flight
		return L(t.Sx(), q.Sx(), L(2+r.Intn(7), genSimpleRequest(r, routes).Sx()))
	}
	return L(t.Sx(), q.Sx())
}

// what a client sees of one answer when the route function reports through the X-Obs header
func headerObs(rec *httptest.ResponseRecorder, panicked bool) string {
	return SxString(L(B(panicked), rec.Code, allowSet(rec.Header()), A(rec.Header().Get("X-Obs"))))
}

func runTwin(raw Sx) (Sx, Sx) {
	t := tableFromSx(sxNth(raw, 0))
	q := sxReq(sxNth(raw, 1))
	obs := Ls{}
	var kept TableSpec
	for router := 0; router < 2; router++ {
		t.Router = router
		pr := &probe{}
		c, k, _ := buildContainer(t, pr)
		kept = k
		obs = append(obs, dispatchObs(c, pr, q))
	}
	kept.Router = 0
	o := NewOracles()
	tabulateRouting(o, kept, q.Path)
	if len(sxList(raw)) > 2 {
		conc := sxNth(raw, 2)
		workers, q2 := sxInt(sxNth(conc, 0)), sxReq(sxNth(conc, 1))
		same := 1
		ask := func(c *restful.Container, qq *Req) string {
			rec := httptest.NewRecorder()
			panicked := false
			func() {
				defer func() {
					if recover() != nil {
						panicked = true
					}
				}()
				c.Dispatch(rec, qq.HTTP())
			}()
			return headerObs(rec, panicked)
		}
		for router := 0; router < 2; router++ {
			t.Router = router
			c, _, _ := buildContainer(t, &probe{viaHeader: true})
			alone, alone2 := ask(c, q), ask(c, q2)
			var wg sync.WaitGroup
			var bad int32
			for w := 0; w < workers; w++ {
				wg.Add(1)
				go func(w int) {
					defer wg.Done()
					for k := 0; k < 12; k++ {
						if (w+k)%2 == 0 {
							if ask(c, q) != alone {
								atomic.StoreInt32(&bad, 1)
							}
						} else if ask(c, q2) != alone2 {
							atomic.StoreInt32(&bad, 1)
						}
					}
				}(w)
			}
			wg.Wait()
			if bad != 0 {
				same = 0
			}
		}
		return L(o.Sx(), kept.Sx(), q.Sx(), conc), append(obs, same)
	}
	return L(o.Sx(), kept.Sx(), q.Sx()), obs
}

// ---- domain "perm" (C03): one table registered in several orders ----
// raw = (table request perms)  perms = ((service-order (route-orders...)) ...)
func permOf(r *Rng, n int) []int {
	p := make([]int, n)
	for i := range p {
		p[i] = i
	}
	for i := n - 1; i > 0; i-- {
		j := r.Intn(i + 1)
		p[i], p[j] = p[j], p[i]
	}
	return p
}
func intsSx(p []int) Sx {
	out := Ls{}
	for _, x := range p {
		out = append(out, x)
	}
	return out
}

func genPerm(r *Rng) Sx {
	router := 0
	if r.Pct(35) {
		router = 1
	}
	var t TableSpec
	var routes []genRoute
	if r.Pct(50) {
		t, routes = genTable(r, router, 4)
	} else {
		t, routes = genSimpleTable(r, router)
	}
	// distinct (method, template) pairs are what the property quantifies over
	for si := range t.Services {
		seen := map[string]bool{}
		keep := []RouteSpec{}
		for _, rt := range t.Services[si].Routes {
			k := rt.Method + " " + strings.Trim(rt.Rel, "/")
			if !seen[k] {
				seen[k] = true
				keep = append(keep, rt)
			}
		}
		t.Services[si].Routes = keep
	}
	var q *Req
	if r.Pct(50) {
		q = genRequest(r, routes)
	} else {
		q = genSimpleRequest(r, routes)
	}
	// generate the permutations for the table as it can actually be built
	_, t, _ = buildContainer(t, &probe{})
	perms := Ls{}
	for k := 0; k < 4; k++ {
		ro := Ls{}
		for _, s := range t.Services {
			ro = append(ro, intsSx(permOf(r, len(s.Routes))))
		}
		perms = append(perms, L(intsSx(permOf(r, len(t.Services))), ro))
	}
	return L(t.Sx(), q.Sx(), perms)
}

func applyPerm(t TableSpec, p Sx) TableSpec {
	so := sxList(sxNth(p, 0))
	ro := sxList(sxNth(p, 1))
	out := TableSpec{Router: t.Router}
	for _, si := range so {
		i := sxInt(si)
		if i >= len(t.Services) {
			continue
		}
		s := t.Services[i]
		ns := ServiceSpec{Root: s.Root}
		order := sxList(sxNth(Ls(ro), i))
		for _, ri := range order {
			j := sxInt(ri)
			if j < len(s.Routes) {
				ns.Routes = append(ns.Routes, s.Routes[j])
			}
		}
		out.Services = append(out.Services, ns)
	}
	return out
}

func runPerm(raw Sx) (Sx, Sx) {
	t := tableFromSx(sxNth(raw, 0))
	q := sxReq(sxNth(raw, 1))
	perms := sxList(sxNth(raw, 2))
	// services that cannot be added in the given order (mux pattern conflicts) are dropped
	// from the table for every permutation, so that all builds hold the same content
	pr0 := &probe{warm: q}
	_, kept, _ := buildContainer(t, pr0)
	obs := Ls{}
	// per build: the answer of Dispatch, and as 8th element the answer of ServeHTTP (the mux in front of dispatch is set
	// up by the same registrations, in the same order)
	both := func(c *restful.Container, pr *probe) Sx {
		d := dispatchObs(c, pr, q)
		*pr = probe{}
		return append(append(Ls{}, sxList(d)...), serveObs(c, pr, q))
	}
	obs = append(obs, func() Sx { pr := &probe{warm: q}; c, _, _ := buildContainer(kept, pr); return both(c, pr) }())
	usable := Ls{}
	if len(kept.Services) != len(t.Services) {
		perms = nil // permutations refer to a table that cannot be built as given
	}
	for _, p := range perms {
		pt := applyPerm(kept, p)
		pr := &probe{warm: q}
		c, k2, skipped := buildContainer(pt, pr)
		if skipped > 0 || len(k2.Services) != len(kept.Services) {
			continue // this order trips the mux panic (finding F4 / C11): not a C03 matter
		}
		usable = append(usable, p)
		obs = append(obs, both(c, pr))
	}
	o := NewOracles()
	tabulateRouting(o, kept, q.Path)
	return L(o.Sx(), kept.Sx(), q.Sx(), usable), obs
}

func init() {
	domains["twin"] = domain{gen: genTwin, run: runTwin}
	domains["perm"] = domain{gen: genPerm, run: runPerm}
}

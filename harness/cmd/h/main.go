package main

import (
	"bufio"
	"flag"
	"fmt"
	"io/ioutil"
	"os"
)

// A domain generates raw cases and runs them on the implementation.
// gen:  PRNG -> raw case
// run:  raw case -> (full case for the model = raw + oracle tables, observation)
type domain struct {
	gen func(r *Rng) Sx
	run func(raw Sx) (Sx, Sx)
}

var domains = map[string]domain{}

// set by -force-conc: domains that have a concurrent mode always use it
var forceConc bool

// set when a case left goroutines behind (confirmed blocked): no further case is run in this process
var poisoned bool

func main() {
	if len(os.Args) < 2 {
		fmt.Fprintln(os.Stderr, "usage: h <domain> [-seed N -n COUNT | -replay FILE] -out PREFIX")
		os.Exit(2)
	}
	dom := os.Args[1]
	fs := flag.NewFlagSet(dom, flag.ExitOnError)
	seed := fs.Uint64("seed", 1, "PRNG seed")
	n := fs.Int("n", 1000, "number of generated cases")
	out := fs.String("out", "out", "output prefix (.cases, .impl)")
	replay := fs.String("replay", "", "file of cases (full or raw) to run instead of / before generating")
	fs.BoolVar(&forceConc, "force-conc", false, "generate only cases with a concurrent batch (used with the -race build)")
	fs.Parse(os.Args[2:])
	silence()
	d, ok := domains[dom]
	if !ok {
		fmt.Fprintln(os.Stderr, "unknown domain", dom)
		os.Exit(2)
	}
	o := NewOut(*out)
	defer o.Close()
	emit := func(raw Sx) {
		// journal the case before running it: a fatal runtime error (concurrent map write, deadlock) kills the
		// process, and the case that did it must be attributable
		if l, ok := raw.(Ls); ok {
			ioutil.WriteFile(*out+".journal", []byte(SxString(L(A(dom), append(Ls{Ls{}}, l...)))+"\n"), 0644)
		}
		full, obs := d.run(raw)
		o.Emit(L(A(dom), full), obs)
	}
	if *replay != "" {
		f, err := os.Open(*replay)
		if err != nil {
			fmt.Fprintln(os.Stderr, err)
			os.Exit(2)
		}
		sc := bufio.NewScanner(f)
		sc.Buffer(make([]byte, 1<<20), 1<<28)
		for sc.Scan() {
			line := sc.Text()
			if len(line) == 0 || line[0] == '#' {
				continue
			}
			s, err := parseSx(line)
			if err != nil {
				fmt.Fprintln(os.Stderr, "bad case:", err)
				os.Exit(2)
			}
			// full case: (domain (oracles raw...)) ; the raw part is re-run, oracles recomputed
			if l := sxList(s); len(l) == 2 && sxStr(l[0]) == dom {
				s = l[1]
			}
			emit(rawOf(s))
		}
		f.Close()
		if *n == 0 {
			return
		}
	}
	r := NewRng(*seed)
	for i := 0; i < *n && !poisoned; i++ {
		emit(d.gen(r))
	}
}

// a full case is (oracles . raw-items); the raw case is the list without its head
func rawOf(full Sx) Sx {
	l := sxList(full)
	if len(l) == 0 {
		return full
	}
	return Ls(l[1:])
}

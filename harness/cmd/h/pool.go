package main

import (
	"bytes"
	"compress/gzip"
	"io/ioutil"
	"net/http"
	"net/http/httptest"
	"runtime"
	"strings"
	"sync"
	"sync/atomic"
	"time"

	restful "github.com/emicklei/go-restful/v3"
)

// ---- domain "pool" (C13): the compressor providers under histories and under load ----
// raw case = (provider cap mode ops clients rounds)
//   provider 0 = sync.Pool, 1 = bounded cache with capacity cap (writers and readers)
//   mode 0: sequential history ops = ((0 kind) acquire | (1 k) release the object of the k-th acquire)   kind: 0 gzip writer, 1 zlib writer, 2 gzip reader
//           observation: for every acquire, the index of the earliest acquire that returned the same object (-1: never seen before)
//   mode 1: `clients` goroutines, each `rounds` times acquire / use / release on the provider directly
//   mode 2: `clients` goroutines, each `rounds` encoded requests through a container (ServeHTTP), bodies decoded
// observation = (trace blocked handed-out-while-held released-unknown wrong-bodies)

func mkProvider(provider, capn int) restful.CompressorProvider {
	if provider == 0 {
		return restful.NewSyncPoolCompessors()
	}
	return restful.NewBoundedCachedCompressors(capn, capn)
}

func genPool(r *Rng) Sx {
	provider := r.Intn(2)
	capn := []int{0, 1, 1, 2, 3, 8}[r.Intn(6)]
	mode := []int{0, 0, 1, 1, 2}[r.Intn(5)]
	if forceConc {
		mode = 1 + r.Intn(2)
	}
	ops := Ls{}
	if mode == 0 {
		n := 1 + r.Intn(14)
		acquired := [3][]int{}
		released := map[int]bool{}
		k := 0
		for i := 0; i < n; i++ {
			kind := r.Intn(3)
			cand := []int{}
			for _, a := range acquired[kind] {
				if !released[a] {
					cand = append(cand, a)
				}
			}
			if len(cand) > 0 && r.Pct(50) {
				a := cand[r.Intn(len(cand))]
				released[a] = true
				ops = append(ops, L(1, a, kind))
			} else {
				ops = append(ops, L(0, kind))
				acquired[kind] = append(acquired[kind], k)
				k++
			}
		}
	}
	clients := []int{2, 4, 8, 16, 32, 64}[r.Intn(6)]
	rounds := 20 + r.Intn(200)
	if forceConc { // under the race detector: smaller batches
		clients = []int{2, 4, 8}[r.Intn(3)]
		rounds = 10 + r.Intn(30)
	}
	if mode == 2 {
		rounds = 5 + r.Intn(30)
		if clients > 16 {
			clients = 16
		}
	}
	return L(provider, capn, mode, ops, clients, rounds)
}

// waitOrDump waits for wg. "Blocked" is never decided by a timeout alone: after d the goroutine dump must show a
// goroutine parked in one of the given states inside one of the given functions (e.g. "chan send" in Release*);
// otherwise the wait goes on (slow machine, race detector), up to 40 x d.
func waitOrDump(wg *sync.WaitGroup, d time.Duration, state string, funcs ...string) (blocked bool, dump string) {
	done := make(chan struct{})
	go func() { wg.Wait(); close(done) }()
	for round := 0; round < 40; round++ {
		select {
		case <-done:
			return false, ""
		case <-time.After(d):
		}
		buf := make([]byte, 1<<20)
		n := runtime.Stack(buf, true)
		for _, g := range strings.Split(string(buf[:n]), "\n\n") {
			if !strings.Contains(strings.SplitN(g, "\n", 2)[0], state) {
				continue
			}
			for _, f := range funcs {
				if strings.Contains(g, f) {
					poisoned = true
					return true, g
				}
			}
		}
	}
	poisoned = true
	return false, "slow: not finished after 40 waits, no goroutine parked in the watched state"
}

// waitOrDumpProgress is waitOrDump for waits on LOCKS: a goroutine parked on a mutex is normal under contention, so a
// dump showing one proves nothing by itself. "Blocked" needs, in addition, that the work counter did not move during a
// whole wait of d (nobody is getting anywhere) on two consecutive rounds.
func waitOrDumpProgress(wg *sync.WaitGroup, d time.Duration, progress func() int64, state string, funcs ...string) (blocked bool, dump string) {
	done := make(chan struct{})
	go func() { wg.Wait(); close(done) }()
	last, still := progress(), 0
	for round := 0; round < 60; round++ {
		select {
		case <-done:
			return false, ""
		case <-time.After(d):
		}
		now := progress()
		if now != last {
			last, still = now, 0
			continue
		}
		still++
		if still < 2 {
			continue
		}
		buf := make([]byte, 1<<20)
		n := runtime.Stack(buf, true)
		for _, g := range strings.Split(string(buf[:n]), "\n\n") {
			if !strings.Contains(strings.SplitN(g, "\n", 2)[0], state) {
				continue
			}
			for _, f := range funcs {
				if strings.Contains(g, f) {
					poisoned = true
					return true, g
				}
			}
		}
	}
	poisoned = true
	return false, "slow: not finished after 60 waits, no goroutine parked in the watched state without progress"
}

var lastDump string

func runPool(raw Sx) (Sx, Sx) {
	provider, capn, mode := sxInt(sxNth(raw, 0)), sxInt(sxNth(raw, 1)), sxInt(sxNth(raw, 2))
	ops, clients, rounds := sxList(sxNth(raw, 3)), sxInt(sxNth(raw, 4)), sxInt(sxNth(raw, 5))
	ld := newLedger(mkProvider(provider, capn))
	trace := Ls{}
	blocked := 0
	var wrong int64
	switch mode {
	case 0:
		var objs []interface{}
		for _, op := range ops {
			if sxInt(sxNth(op, 0)) == 0 {
				var o interface{}
				switch sxInt(sxNth(op, 1)) {
				case 0:
					o = ld.AcquireGzipWriter()
				case 1:
					o = ld.AcquireZlibWriter()
				default:
					o = ld.AcquireGzipReader()
				}
				first := -1
				for i, p := range objs {
					if p == o {
						first = i
						break
					}
				}
				if provider == 1 {
					trace = append(trace, first)
				}
				objs = append(objs, o)
			} else {
				o := objs[sxInt(sxNth(op, 1))]
				var wg sync.WaitGroup
				wg.Add(1)
				go func() {
					defer wg.Done()
					switch sxInt(sxNth(op, 2)) {
					case 0:
						ld.ReleaseGzipWriter(o.(*gzip.Writer))
					case 1:
						ld.ReleaseZlibWriter(o.(zlibWriter))
					default:
						ld.ReleaseGzipReader(o.(*gzip.Reader))
					}
				}()
				if b, d := waitOrDump(&wg, 3*time.Second, "chan send", "ReleaseGzipWriter", "ReleaseZlibWriter", "ReleaseGzipReader"); b {
					blocked, lastDump = 1, d
				}
			}
		}
	case 1:
		// rounds of: everybody acquires, barrier, everybody releases at the same moment (more clients than slots)
		var wg sync.WaitGroup
		acquired := make([]*sync.WaitGroup, rounds)
		for i := range acquired {
			acquired[i] = &sync.WaitGroup{}
			acquired[i].Add(clients)
		}
		for c := 0; c < clients; c++ {
			wg.Add(1)
			go func(c int) {
				defer wg.Done()
				var sink bytes.Buffer
				for i := 0; i < rounds; i++ {
					kind := i % 3
					var gw *gzip.Writer
					var zw zlibWriter
					var gr *gzip.Reader
					switch kind {
					case 0:
						gw = ld.AcquireGzipWriter()
						sink.Reset()
						gw.Reset(&sink)
						gw.Write([]byte("x"))
						gw.Close()
					case 1:
						zw = ld.AcquireZlibWriter()
						sink.Reset()
						zw.Reset(&sink)
						zw.Write([]byte("y"))
						zw.Close()
					default:
						gr = ld.AcquireGzipReader()
					}
					acquired[i].Done()
					acquired[i].Wait()
					switch kind {
					case 0:
						ld.ReleaseGzipWriter(gw)
					case 1:
						ld.ReleaseZlibWriter(zw)
					default:
						ld.ReleaseGzipReader(gr)
					}
				}
			}(c)
		}
		if b, d := waitOrDump(&wg, 6*time.Second, "chan send", "ReleaseGzipWriter", "ReleaseZlibWriter", "ReleaseGzipReader"); b {
			blocked, lastDump = 1, d
		}
	default:
		old := restful.CurrentCompressorProvider()
		restful.SetCompressorProvider(ld)
		defer restful.SetCompressorProvider(old)
		c := restful.NewContainer()
		c.EnableContentEncoding(true)
		ws := new(restful.WebService)
		ws.Path("/")
		ws.Route(ws.GET("/p/{id}").To(func(rq *restful.Request, rp *restful.Response) {
			id := rq.PathParameter("id")
			rp.Write([]byte("<"))
			rp.Write([]byte(strings.Repeat(id+",", 40)))
			rp.Write([]byte(">"))
		}))
		// a handler that takes the connection over (websocket style): the compressor installed for it is still
		// released exactly once, by the deferred Close
		ws.Route(ws.GET("/hj").To(func(rq *restful.Request, rp *restful.Response) {
			if hj, ok := rp.ResponseWriter.(http.Hijacker); ok {
				if conn, _, err := hj.Hijack(); err == nil {
					conn.Close()
				}
			}
		}))
		c.Add(ws)
		func() {
			defer func() { recover() }()
			// (a hijacked connection is no longer the server's business: Close does not wait for its handler, whose
			// deferred release would then reach whatever provider the NEXT case has installed - the wait is ours)
			var inflight sync.WaitGroup
			srv := httptest.NewServer(http.HandlerFunc(func(w http.ResponseWriter, r *http.Request) {
				inflight.Add(1)
				defer inflight.Done()
				c.ServeHTTP(w, r)
			}))
			defer inflight.Wait()
			defer srv.Close()
			for k := 0; k < 2; k++ {
				hr, _ := http.NewRequest("GET", srv.URL+"/hj", nil)
				hr.Header.Set("Accept-Encoding", []string{"gzip", "deflate"}[k])
				if resp, err := http.DefaultClient.Do(hr); err == nil {
					resp.Body.Close()
				}
			}
		}()
		var wg sync.WaitGroup
		start := make(chan struct{})
		for cl := 0; cl < clients; cl++ {
			wg.Add(1)
			go func(cl int) {
				defer wg.Done()
				<-start
				for i := 0; i < rounds; i++ {
					id := itoa(cl) + "-" + itoa(i)
					hr, _ := http.NewRequest("GET", "http://h/p/"+id, nil)
					enc := []string{"gzip", "deflate"}[(cl+i)%2]
					hr.Header.Set("Accept-Encoding", enc)
					rec := httptest.NewRecorder()
					c.ServeHTTP(rec, hr)
					want := "<" + strings.Repeat(id+",", 40) + ">"
					got := decodeBody(rec.Header().Get("Content-Encoding"), rec.Body.Bytes())
					if got != want || rec.Header().Get("Content-Encoding") != enc {
						atomic.AddInt64(&wrong, 1)
					}
				}
			}(cl)
		}
		close(start)
		if b, d := waitOrDump(&wg, 10*time.Second, "chan send", "ReleaseGzipWriter", "ReleaseZlibWriter", "ReleaseGzipReader"); b {
			blocked, lastDump = 1, d
		}
	}
	ld.mu.Lock()
	dbl, unk := ld.dbl, ld.unk
	ld.mu.Unlock()
	return L(Ls{}, provider, capn, mode, Ls(ops), clients, rounds), L(trace, blocked, dbl, unk, int(wrong))
}

func decodeBody(ce string, body []byte) string {
	switch ce {
	case "gzip":
		zr, err := gzip.NewReader(bytes.NewReader(body))
		if err != nil {
			return "!gzip:" + err.Error()
		}
		dec, err := ioutil.ReadAll(zr)
		if err != nil {
			return "!gzip:" + err.Error()
		}
		return string(dec)
	case "deflate":
		src := bytes.NewReader(body)
		zr, err := zlibNewReader(src)
		if err != nil {
			return "!zlib:" + err.Error()
		}
		dec, err := ioutil.ReadAll(zr)
		if err != nil {
			return "!zlib:" + err.Error()
		}
		if src.Len() > 0 {
			return "!zlib: bytes after the end of the stream"
		}
		return string(dec)
	}
	return string(body)
}

func init() { domains["pool"] = domain{gen: genPool, run: runPool} }

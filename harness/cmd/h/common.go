// Harness for the correspondence check: generates cases from one PRNG seed,
// runs the real go-restful package on them through its public API and writes
// (a) the case and (b) the canonical observation, one s-expression per line.
package main

import (
	"bufio"
	"bytes"
	"encoding/hex"
	"fmt"
	"io/ioutil"
	"log"
	"net/http"
	"net/url"
	"os"
	"sort"
	"strconv"
	"strings"

	restful "github.com/emicklei/go-restful/v3"
)

// ---------- PRNG: splitmix64, every random choice derives from one state ----------
type Rng struct{ s uint64 }

func NewRng(seed uint64) *Rng {
	// mix the seed so that neighbouring seeds give unrelated streams
	z := seed + 0x1234567
	z = (z ^ (z >> 33)) * 0xFF51AFD7ED558CCD
	z = (z ^ (z >> 33)) * 0xC4CEB9FE1A85EC53
	return &Rng{s: z ^ (z >> 33)}
}
func (r *Rng) Next() uint64 {
	r.s += 0x9E3779B97F4A7C15
	z := r.s
	z = (z ^ (z >> 30)) * 0xBF58476D1CE4E5B9
	z = (z ^ (z >> 27)) * 0x94D049BB133111EB
	return z ^ (z >> 31)
}
func (r *Rng) Intn(n int) int {
	if n <= 0 {
		return 0
	}
	return int(r.Next() % uint64(n))
}
func (r *Rng) Bool() bool             { return r.Next()&1 == 1 }
func (r *Rng) Pct(p int) bool         { return r.Intn(100) < p }
func (r *Rng) Pick(l []string) string { return l[r.Intn(len(l))] }
func (r *Rng) Subset(l []string, pct int) []string {
	out := []string{}
	for _, x := range l {
		if r.Pct(pct) {
			out = append(out, x)
		}
	}
	return out
}
func (r *Rng) Shuffle(l []string) []string {
	out := append([]string{}, l...)
	for i := len(out) - 1; i > 0; i-- {
		j := r.Intn(i + 1)
		out[i], out[j] = out[j], out[i]
	}
	return out
}

// ---------- s-expressions ----------
type Sx interface{}
type A string // atom (byte string)
type Ls []Sx

func L(items ...Sx) Ls { return Ls(items) }
func B(b bool) int {
	if b {
		return 1
	}
	return 0
}
func Strs(l []string) Ls {
	out := Ls{}
	for _, s := range l {
		out = append(out, A(s))
	}
	return out
}
func writeSx(b *bytes.Buffer, s Sx) {
	switch v := s.(type) {
	case A:
		b.WriteByte('x')
		b.WriteString(hex.EncodeToString([]byte(v)))
	case string:
		b.WriteByte('x')
		b.WriteString(hex.EncodeToString([]byte(v)))
	case int:
		b.WriteString(strconv.Itoa(v))
	case int64:
		b.WriteString(strconv.FormatInt(v, 10))
	case bool:
		b.WriteString(strconv.Itoa(B(v)))
	case Ls:
		b.WriteByte('(')
		for i, x := range v {
			if i > 0 {
				b.WriteByte(' ')
			}
			writeSx(b, x)
		}
		b.WriteByte(')')
	case []Sx:
		writeSx(b, Ls(v))
	default:
		panic(fmt.Sprintf("writeSx: unsupported %T", s))
	}
}
func SxString(s Sx) string {
	var b bytes.Buffer
	writeSx(&b, s)
	return b.String()
}

// ---------- output files ----------
type Out struct {
	cases, impl *bufio.Writer
	fc, fi      *os.File
	n           int
}

func NewOut(prefix string) *Out {
	fc, err := os.Create(prefix + ".cases")
	if err != nil {
		log.Fatal(err)
	}
	fi, err := os.Create(prefix + ".impl")
	if err != nil {
		log.Fatal(err)
	}
	return &Out{cases: bufio.NewWriterSize(fc, 1<<20), impl: bufio.NewWriterSize(fi, 1<<20), fc: fc, fi: fi}
}
func (o *Out) Emit(c Sx, obs Sx) {
	o.cases.WriteString(SxString(c))
	o.cases.WriteByte('\n')
	o.impl.WriteString(SxString(obs))
	o.impl.WriteByte('\n')
	o.n++
}
func (o *Out) Close() {
	o.cases.Flush()
	o.impl.Flush()
	o.fc.Close()
	o.fi.Close()
}

// ---------- requests ----------
type Req struct {
	Method  string
	Path    string
	Headers [][2]string // canonical name, value
	CLen    int64       // ContentLength field
	Body    []byte
	// EncSlash k > 0: on the wire the k-th separator after the leading one was written %2F (URL.RawPath is set
	// accordingly; URL.Path, which is what both routers and the filters look at, is the same decoded text)
	EncSlash int
}

func (q *Req) Get(k string) string {
	for _, h := range q.Headers {
		if h[0] == k {
			return h[1]
		}
	}
	return ""
}
func (q *Req) Set(k, v string) {
	for i, h := range q.Headers {
		if h[0] == k {
			q.Headers[i][1] = v
			return
		}
	}
	q.Headers = append(q.Headers, [2]string{k, v})
}

// one more header line of that name
func (q *Req) Add(k, v string) { q.Headers = append(q.Headers, [2]string{k, v}) }

func (q *Req) Sx() Sx {
	hs := Ls{}
	for _, h := range q.Headers {
		hs = append(hs, L(A(h[0]), A(h[1])))
	}
	if q.EncSlash > 0 {
		return L(A(q.Method), A(q.Path), hs, q.CLen, q.EncSlash)
	}
	return L(A(q.Method), A(q.Path), hs, q.CLen)
}

// the escaped form of path in which the k-th separator after the leading slash is %2F
func rawWithEncodedSlash(path string, k int) string {
	segs := strings.Split(path, "/")
	if len(segs) < 3 || k < 1 || k+1 >= len(segs) || segs[0] != "" {
		return ""
	}
	out := ""
	for i := 1; i < len(segs); i++ {
		if i == k+1 {
			out += "%2F"
		} else {
			out += "/"
		}
		out += url.PathEscape(segs[i])
	}
	return out
}
func (q *Req) HTTP() *http.Request {
	var body *bytes.Reader
	if q.Body != nil {
		body = bytes.NewReader(q.Body)
	} else {
		body = bytes.NewReader(nil)
	}
	r, err := http.NewRequest("GET", "http://host.example/", body)
	if err != nil {
		panic(err)
	}
	r.Method = q.Method
	r.URL.Path = q.Path
	r.URL.RawPath = ""
	if q.EncSlash > 0 {
		r.URL.RawPath = rawWithEncodedSlash(q.Path, q.EncSlash)
	}
	r.RequestURI = ""
	r.ContentLength = q.CLen
	for _, h := range q.Headers {
		r.Header[h[0]] = append(r.Header[h[0]], h[1]) // a name may come on several lines
	}
	return r
}

// ---------- oracle tables ----------
type Oracles struct {
	lower  map[string]string
	rx     map[[2]string]bool
	rxfull map[[2]string]bool
}

func NewOracles() *Oracles {
	return &Oracles{lower: map[string]string{}, rx: map[[2]string]bool{}, rxfull: map[[2]string]bool{}}
}
func isASCII(s string) bool {
	for i := 0; i < len(s); i++ {
		if s[i] >= 0x80 {
			return false
		}
	}
	return true
}

// Lower tabulates strings.ToLower for a string the code may pass to it (only
// non-ASCII strings need an entry; the model lowers ASCII itself).
func (o *Oracles) Lower(s string) {
	if !isASCII(s) {
		o.lower[s] = strings.ToLower(s)
	}
}
func (o *Oracles) Sx() Sx {
	lk := []string{}
	for k := range o.lower {
		lk = append(lk, k)
	}
	sort.Strings(lk)
	lo := Ls{}
	for _, k := range lk {
		lo = append(lo, L(A(k), A(o.lower[k])))
	}
	rows := func(m map[[2]string]bool) Ls {
		ks := [][2]string{}
		for k := range m {
			ks = append(ks, k)
		}
		sort.Slice(ks, func(i, j int) bool {
			if ks[i][0] != ks[j][0] {
				return ks[i][0] < ks[j][0]
			}
			return ks[i][1] < ks[j][1]
		})
		out := Ls{}
		for _, k := range ks {
			out = append(out, L(A(k[0]), A(k[1]), B(m[k])))
		}
		return out
	}
	return L(lo, rows(o.rx), rows(o.rxfull))
}

// ---------- canonical view of response headers ----------
func headerSx(h http.Header, keep func(string) bool) Sx {
	ks := []string{}
	for k := range h {
		if keep(k) && len(h[k]) > 0 {
			ks = append(ks, k)
		}
	}
	sort.Strings(ks)
	out := Ls{}
	for _, k := range ks {
		out = append(out, L(A(k), Strs(h[k])))
	}
	return out
}

func silence() {
	if os.Getenv("VERIF_LOG") != "" {
		return
	}
	restful.SetLogger(log.New(ioutil.Discard, "", 0))
	restful.TraceLogger(log.New(ioutil.Discard, "", 0)) // the trace logger captured the package logger at init
	restful.EnableTracing(false)
	log.SetOutput(ioutil.Discard)
}

// setRouter configures the container's router the way an application may: possibly after having set another
// one first (the final configuration is what counts). k selects the history deterministically per case.
func setRouter(c *restful.Container, router int, k int) {
	switch k % 4 {
	case 1:
		c.Router(restful.RouterJSR311{})
	case 2:
		c.Router(restful.CurlyRouter{})
	case 3:
		c.Router(restful.RouterJSR311{})
		c.Router(restful.CurlyRouter{})
	}
	if router == 1 {
		c.Router(restful.RouterJSR311{})
	} else {
		c.Router(restful.CurlyRouter{})
	}
}

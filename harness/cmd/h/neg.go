package main

import (
	"encoding/json"
	"encoding/xml"
	"io/ioutil"
	"log"
	"net/http"
	"net/http/httptest"
	"sort"
	"strconv"
	"strings"

	restful "github.com/emicklei/go-restful/v3"
)

// ---- domain "neg" (C05): which representation an entity is written in ----
// raw case = (registered produces dflt accept trace)
//   registered = media types with an entity writer (json / xml are the built-in ones, the others JSON writers under their own type)
//   produces   = the route's Produces list;  dflt = DefaultResponseContentType;  accept = the request's Accept header ("" = absent)
//   trace      = 0 tracing untouched, 1 TraceLogger(nil) was called (tracing off, the documented way)
// full case prepends the oracle rows ((q-string rank) ...): rank = order of strconv.ParseFloat's values, -1 = parse error
// observation = (panicked statuses content-types decodes)   over 6 repetitions of the same request (map iteration order varies)

// the last two names CONTAIN a registered built-in name (an exact registration must win over containment)
var negTypes = []string{"application/json", "application/xml", "application/vnd.x+json", "text/csv", "application/json-seq", "application/xml-dtd",
	"application/vnd.Acme.v2+json"} // (media type names are compared as they are spelled)
var negQ = []string{"1", "0.9", "0.5", "0.1", "0", "0.90", "1.0", ".5", "0.75", "1.000"}
var negBadQ = []string{"", "x", "0.5x", "0,5", "1e", "--1"}

func sp(r *Rng) string { return strings.Repeat(" ", []int{0, 0, 0, 1, 2}[r.Intn(5)]) }

func genAccept(r *Rng, produces []string) string {
	if r.Pct(8) {
		return ""
	}
	n := 1 + r.Intn(4)
	if r.Pct(6) {
		n = 12 + r.Intn(14) // long headers: any number of ranges, many of them tied on q
	}
	buried := n >= 12 && len(produces) > 0 && r.Bool() // the only producible ranges: a weak one first, the best one last
	ranges := []string{}
	for i := 0; i < n; i++ {
		if buried {
			switch {
			case i == n-1:
				ranges = append(ranges, r.Pick(produces))
				continue
			case i == 0 && len(produces) > 1:
				ranges = append(ranges, produces[0]+";q=0.1")
				continue
			default:
				ranges = append(ranges, r.Pick([]string{"text/html", "image/webp", "application/jsonx", "application/xhtml+xml"})+";q=0."+itoa(1+r.Intn(9)))
				continue
			}
		}
		var media string
		switch p := r.Intn(100); {
		case p < 50 && len(produces) > 0:
			media = r.Pick(produces)
		case p < 65:
			media = "*/*"
		case p < 85:
			media = r.Pick(negTypes)
		default:
			media = r.Pick([]string{"text/html", "application/*", "application/jsonx", "application/xhtml+xml", "image/webp"})
		}
		s := sp(r) + media + sp(r)
		nparams := []int{0, 0, 1, 1, 2}[r.Intn(5)]
		qAt := -1
		if nparams > 0 && r.Pct(75) {
			qAt = r.Intn(nparams)
		}
		for k := 0; k < nparams; k++ {
			if k == qAt {
				q := r.Pick(negQ)
				if r.Pct(2) {
					q = r.Pick(negBadQ)
				}
				s += ";" + sp(r) + "q" + sp(r) + "=" + sp(r) + q + sp(r)
			} else {
				s += ";" + sp(r) + r.Pick([]string{"v=1", "charset=utf-8", "level=2", "x"}) + sp(r)
			}
		}
		ranges = append(ranges, s)
	}
	return strings.Join(ranges, ",")
}

func genNeg(r *Rng) Sx {
	registered := []string{"application/json", "application/xml"}
	if r.Pct(50) {
		registered = r.Subset(negTypes, 60)
		if len(registered) == 0 {
			registered = []string{r.Pick(negTypes)}
		}
	}
	// the premise of the property: a non-empty Produces list over registered types (15%: anything, compared only)
	produces := r.Shuffle(r.Subset(registered, 60))
	if len(produces) == 0 {
		produces = []string{r.Pick(registered)}
	}
	if len(produces) > 1 && r.Pct(15) {
		// a list that names a type twice (lists put together from several sources do): what counts is the first mention
		produces = append(produces, produces[r.Intn(len(produces)-1)])
	}
	if r.Pct(15) {
		produces = r.Shuffle(r.Subset(append([]string{"*/*", "text/html"}, negTypes...), 40))
	}
	dflt := r.Pick([]string{"", "", "application/json", "application/xml"})
	preset := ""
	if r.Pct(12) {
		// a filter or the handler itself already put a Content-Type on the response before the entity is written
		preset = r.Pick([]string{"text/plain", "text/plain; charset=utf-8", "application/octet-stream", "application/json; charset=utf-8"})
	}
	accept := genAccept(r, produces)
	if accept != "" && r.Pct(8) {
		// the header on two lines: what counts is the first (Header.Get), for the router and the entity writer alike;
		// often the first line names nothing producible and the second does
		first := accept
		if r.Pct(60) {
			first = r.Pick([]string{"text/html", "image/webp", "application/xhtml+xml;q=0.9", "text/html, image/webp"})
		}
		second := genAccept(r, produces)
		if second == "" && len(produces) > 0 {
			second = produces[len(produces)-1] + ";q=0.9"
		}
		accept = first + "\n" + second
	}
	// another request served in between (8th field): the answers to the first one must be the same afterwards. Half of
	// the time it looks like the first up to its first ';' and names other types after it
	other := genAccept(r, produces)
	if i := strings.Index(accept, ";"); i > 0 && r.Bool() {
		other = accept[:i] + ";level=1, " + r.Pick(registered) + ", */*;q=0.1"
	}
	if len(registered) > 1 && r.Pct(6) {
		// a route that produces nothing a writer is registered for, asked with two headers that are the same up to the
		// first ';' and name different registered types after it: the writer falls back to what the header contains
		produces = [][]string{{}, {}, {"*/*"}, {"text/html"}}[r.Intn(4)]
		a, b := registered[0], registered[1]
		if r.Bool() {
			a, b = b, a
		}
		accept = "text/html;level=1, " + a + ", */*;q=0.1"
		other = "text/html;level=1, " + b + ", */*;q=0.1"
	}
	// the set-up calls of the WebService as a history (9th field): (0 list) is ws.Produces(list...), (1 list) adds a
	// route whose builder declares that list itself (none when empty). The FIRST route is the one that is asked; what it
	// produces is what the model's builder makes of the history (Builder.v): its own list, or the last one the service
	// had declared when it was added - whatever is declared or added afterwards.
	setup := Ls{}
	if r.Bool() || len(produces) == 0 {
		if r.Pct(40) {
			setup = append(setup, L(0, Strs(r.Subset(negTypes, 40))))
		}
		setup = append(setup, L(1, Strs(produces)))
	} else {
		if r.Pct(40) {
			setup = append(setup, L(0, Strs(r.Subset(negTypes, 40))))
		}
		setup = append(setup, L(0, Strs(produces)), L(1, Strs(nil)))
	}
	for k := r.Intn(3); k > 0; k-- {
		if r.Pct(60) {
			setup = append(setup, L(0, Strs(r.Subset(negTypes, 30))))
		}
		setup = append(setup, L(1, Strs(r.Subset(negTypes, 20))))
	}
	return L(Strs(registered), Strs(produces), A(dflt), A(accept), B(r.Pct(10)), A(preset), B(r.Pct(35)), A(other), setup)
}

type negValue struct {
	XMLName xml.Name `json:"-" xml:"n"`
	A       int      `json:"a" xml:"a"`
}

func runNeg(raw Sx) (Sx, Sx) {
	registered, produces, dflt, accept, trace := sxStrs(sxNth(raw, 0)), sxStrs(sxNth(raw, 1)), sxStr(sxNth(raw, 2)), sxStr(sxNth(raw, 3)), sxBool(sxNth(raw, 4))
	preset := ""
	if len(sxList(raw)) > 5 {
		preset = sxStr(sxNth(raw, 5))
	}
	compact := len(sxList(raw)) > 6 && sxBool(sxNth(raw, 6)) // PrettyPrintResponses = false: the other writer branch
	oldPretty := restful.PrettyPrintResponses
	restful.PrettyPrintResponses = !compact
	defer func() { restful.PrettyPrintResponses = oldPretty }()
	reg := map[string]restful.EntityReaderWriter{}
	for _, k := range registered {
		if k == "application/xml" {
			reg[k] = restful.NewEntityAccessorXML(k)
		} else {
			reg[k] = restful.NewEntityAccessorJSON(k)
		}
	}
	old := restful.VerifReplaceEntityAccessors(reg)
	defer restful.VerifReplaceEntityAccessors(old)
	restful.DefaultResponseContentType(dflt)
	defer restful.DefaultResponseContentType("")
	if trace {
		restful.TraceLogger(nil)
		defer func() {
			restful.TraceLogger(log.New(ioutil.Discard, "", 0))
			restful.EnableTracing(false)
		}()
	}
	other, hasOther := "", false
	if len(sxList(raw)) > 7 {
		other, hasOther = sxStr(sxNth(raw, 7)), true
	}
	c := restful.NewContainer()
	ws := new(restful.WebService)
	ws.Path("/n")
	var setup []Sx
	if len(sxList(raw)) > 8 {
		setup = sxList(sxNth(raw, 8))
	}
	addMain := func(own []string) {
		b := ws.GET("/v").To(func(rq *restful.Request, rp *restful.Response) {
			if preset != "" {
				rp.AddHeader("Content-Type", preset)
			}
			rp.WriteEntity(negValue{A: 7})
		})
		if len(own) > 0 {
			b.Produces(own...)
		}
		if hasOther && len(accept)%4 == 1 {
			// an http middleware in front of the route hands on a request of its own making whose Accept header is another
			// one: the entity is negotiated with the header the client sent
			b.Filter(restful.HttpMiddlewareHandlerToFilter(func(next http.Handler) http.Handler {
				return http.HandlerFunc(func(w http.ResponseWriter, r *http.Request) {
					r2 := r.Clone(r.Context())
					if other == "" {
						r2.Header.Del("Accept")
					} else {
						r2.Header.Set("Accept", other)
					}
					next.ServeHTTP(w, r2)
				})
			}))
		}
		ws.Route(b)
	}
	if len(setup) == 0 {
		addMain(produces) // (cases of the corpus written before the set-up history existed)
	}
	nroutes := 0
	for _, op := range setup {
		list := append([]string(nil), sxStrs(sxNth(op, 1))...) // every call gets a slice of its own
		switch {
		case sxInt(sxNth(op, 0)) == 0:
			ws.Produces(list...)
		case nroutes == 0:
			addMain(list)
			nroutes++
		default:
			lb := ws.GET("/later" + itoa(nroutes)).To(func(rq *restful.Request, rp *restful.Response) {})
			if len(list) > 0 {
				lb.Produces(list...)
			}
			ws.Route(lb)
			nroutes++
		}
	}
	c.Add(ws)
	var serve func(times int) (int, Ls, Ls, Ls)
	serveWith := func(accept string, times int) (int, Ls, Ls, Ls) {
		panicked := 0
		statuses, cts, decs := Ls{}, Ls{}, Ls{}
		for k := 0; k < times; k++ {
			q := &Req{Method: "GET", Path: "/n/v"}
			if accept != "" {
				for _, line := range strings.Split(accept, "\n") {
					q.Add("Accept", line)
				}
			}
			rec := httptest.NewRecorder()
			func() {
				defer func() {
					if r := recover(); r != nil {
						panicked = 1
					}
				}()
				c.Dispatch(rec, q.HTTP())
			}()
			ct := rec.Result().Header.Get("Content-Type") // as sent: the snapshot taken when the status was committed
			dec := 0
			var v negValue
			if ct == "application/xml" {
				if xml.Unmarshal(rec.Body.Bytes(), &v) == nil && v.A == 7 {
					dec = 1
				}
			} else if ct != "" {
				if json.Unmarshal(rec.Body.Bytes(), &v) == nil && v.A == 7 {
					dec = 1
				}
			}
			statuses = append(statuses, rec.Code)
			cts = append(cts, A(ct))
			decs = append(decs, dec)
		}
		return panicked, statuses, cts, decs
	}
	serve = func(times int) (int, Ls, Ls, Ls) { return serveWith(accept, times) }
	panicked, statuses, cts, decs := serve(6)
	// the same request with trace logging flipped: the set of answers must be the same (C19)
	traceSame := 1
	if !trace { // (with TraceLogger(nil) there is no logger to switch on)
		restful.EnableTracing(true)
		_, st2, ct2, _ := serve(6)
		restful.EnableTracing(false)
		if SxString(setOf(statuses)) != SxString(setOf(st2)) || SxString(setOf(cts)) != SxString(setOf(ct2)) {
			traceSame = 0
		}
	}
	// the same request again after ANOTHER request was served on the same container: the same set of answers (C19)
	if hasOther {
		var midSt, midCt Ls
		func() {
			defer func() { recover() }()
			_, midSt, midCt, _ = serveWith(other, 1)
		}()
		_, st3, ct3, _ := serve(6)
		if SxString(setOf(statuses)) != SxString(setOf(st3)) || SxString(setOf(cts)) != SxString(setOf(ct3)) {
			traceSame = 0
		}
		// ... and the request served in between got the answer it gets when it is the first one (registry installed anew)
		restful.VerifReplaceEntityAccessors(reg)
		func() {
			defer func() { recover() }()
			_, aloneSt, aloneCt, _ := serveWith(other, 1)
			if SxString(midSt) != SxString(aloneSt) || SxString(midCt) != SxString(aloneCt) {
				traceSame = 0
			}
		}()
	}
	// oracle: every q string of the header, ranked by the float strconv.ParseFloat gives it
	qs := map[string]bool{"1": true}
	for _, rg := range strings.Split(strings.ReplaceAll(accept, "\n", ","), ",") {
		for _, p := range strings.Split(rg, ";")[1:] {
			if kv := strings.SplitN(p, "=", 2); len(kv) == 2 && strings.Trim(kv[0], " ") == "q" {
				qs[strings.Trim(kv[1], " ")] = true
			}
		}
	}
	type qv struct {
		s string
		f float64
		e bool
	}
	vals := []qv{}
	for s := range qs {
		f, err := strconv.ParseFloat(s, 64)
		vals = append(vals, qv{s, f, err != nil || f != f})
	}
	sort.Slice(vals, func(i, j int) bool { return vals[i].s < vals[j].s })
	distinct := []float64{}
	for _, v := range vals {
		if !v.e {
			distinct = append(distinct, v.f)
		}
	}
	sort.Float64s(distinct)
	rows := Ls{}
	for _, v := range vals {
		rank := -1
		if !v.e {
			rank = sort.SearchFloat64s(distinct, v.f)
		}
		rows = append(rows, L(A(v.s), rank))
	}
	return L(rows, Strs(registered), Strs(produces), A(dflt), A(accept), B(trace), A(preset), B(compact), A(other), Ls(setup)), L(panicked, statuses, cts, decs, traceSame)
}

// the distinct elements of a list, sorted by their printed form
func setOf(l Ls) Ls {
	seen := map[string]Sx{}
	keys := []string{}
	for _, x := range l {
		k := SxString(x)
		if _, ok := seen[k]; !ok {
			seen[k] = x
			keys = append(keys, k)
		}
	}
	sort.Strings(keys)
	out := Ls{}
	for _, k := range keys {
		out = append(out, seen[k])
	}
	return out
}

func init() { domains["neg"] = domain{gen: genNeg, run: runNeg} }

package main

import (
	"bytes"
	"compress/gzip"
	"compress/zlib"
	"encoding/json"
	"encoding/xml"
	"fmt"
	"io/ioutil"
	"net/http"
	"net/http/httptest"
	"strings"
	"sync"
	"time"

	restful "github.com/emicklei/go-restful/v3"
)

// ---- domain "ent" (C16, C13): write an entity, read it back, also compressed, in histories ----
// raw case = (provider cap dflt mode requests)
//   request = (ct ce value codec pretty enc broken)
//     value  = (i s b items)            codec 0 json 1 xml: the entity WRITER used to produce the body
//     enc    = 0 none 1 gzip 2 deflate 3 gzip in two members : how the body really is encoded
//     broken = 0 intact 1 truncated to half 2 first two bytes overwritten 3 garbage 4 empty
//   ct / ce  = the Content-Type / Content-Encoding the request declares (may disagree with the above)
// full case adds per request the oracle rows computed with the standard library alone:
//   (body gunzip(body) inflate(body) ((codec bytes rendering) ...))
// observation = (seq fresh conc ledger)   per request (class rendering): class 1 value read, 400 / 0 error, -1 panic

type entValue struct {
	XMLName xml.Name  `json:"-" xml:"v"`
	I       int64     `json:"i" xml:"i"`
	S       string    `json:"s" xml:"s"`
	B       bool      `json:"b" xml:"b"`
	Items   []entItem `json:"items" xml:"items>item"`
}
type entItem struct {
	N int64  `json:"n" xml:"n"`
	T string `json:"t" xml:"t"`
}

func render(v *entValue) string {
	var b strings.Builder
	fmt.Fprintf(&b, "%d|%q|%v|", v.I, v.S, v.B)
	for _, it := range v.Items {
		fmt.Fprintf(&b, "(%d,%q)", it.N, it.T)
	}
	return b.String()
}

var entInts = []int64{0, 1, -1, 42, 9223372036854775807, -9223372036854775808, 9007199254740993, 1 << 53, -(1 << 62)}
var entStrs = []string{"", "plain", "with space", "quote\" and \\ backslash", "<tag>&amp;", "é ü ñ", "日本語", "emoji 😀", "tab\tnewline\nend", "]]>", "a,b;c=d", " lead and trail ",
	// text that LOOKS like an escape sequence or a character reference but is plain characters
	"a\\u0026b", "\\u003cb\\u003e", "\\n is not a newline", "&#38; &lt;", "%41%2F", "\\"}

func genEntValue(r *Rng) Sx {
	items := Ls{}
	for k := r.Intn(3); k > 0; k-- {
		items = append(items, L(int(entInts[r.Intn(4)]), A(r.Pick(entStrs))))
	}
	return L(r.Intn(len(entInts)), A(r.Pick(entStrs)), B(r.Bool()), items)
}

// small JSON documents: shape 1 a bare integer, 2 the empty string, 3 an empty array, 4 an empty object
// (documents of one or two bytes); shape 0 (or absent) is the struct above
var entSmallInts = []int64{0, 7, 42, 99, -9, 5}

func entShape(v Sx) int {
	if l := sxList(v); len(l) > 4 {
		return sxInt(l[4])
	}
	return 0
}

// the value to write, the target to read into and its canonical rendering, per shape
func entTarget(shape int) (interface{}, func() string) {
	switch shape {
	case 1:
		n := new(int64)
		return n, func() string { return fmt.Sprintf("int:%d", *n) }
	case 2:
		t := new(string)
		return t, func() string { return fmt.Sprintf("str:%q", *t) }
	case 3:
		a := new([]int64)
		return a, func() string { return fmt.Sprintf("arr:%v", *a) }
	case 4:
		o := new(struct{})
		return o, func() string { return "obj" }
	case 6:
		a := new([]int64)
		return a, func() string { return fmt.Sprintf("arr:%v", *a) }
	}
	if shape == 5 {
		p := new(entPage)
		return p, func() string { return fmt.Sprintf("page:%d|%q|%q|%q|%q", p.ID, p.Link, p.Meta, p.Br, p.Note) }
	}
	v := new(entValue)
	return v, func() string { return render(v) }
}

// shape 5: a document whose element names are also names of HTML elements without content (to XML they are names like
// any other)
type entPage struct {
	XMLName xml.Name `json:"-" xml:"page"`
	ID      int64    `json:"id" xml:"id"`
	Link    string   `json:"link" xml:"link"`
	Meta    string   `json:"meta" xml:"meta"`
	Br      string   `json:"br" xml:"br"`
	Note    string   `json:"note" xml:"note"`
}

func entWritten(vs Sx) interface{} {
	switch entShape(vs) {
	case 1:
		return entSmallInts[sxInt(sxNth(vs, 0))%len(entSmallInts)]
	case 2:
		return ""
	case 3:
		return []int64{}
	case 4:
		return struct{}{}
	case 6:
		return []int64(nil) // a nil slice is a value too: JSON null, which reads back as the nil slice
	case 5:
		v := entValueOf(vs)
		return &entPage{ID: v.I, Link: v.S, Meta: "m", Br: "b " + v.S, Note: "after"}
	}
	return entValueOf(vs)
}

// the canonical rendering of the value as it was before it was written (what reading it back must give)
func entOriginalRendering(vs Sx) string {
	switch w := entWritten(vs).(type) {
	case int64:
		return fmt.Sprintf("int:%d", w)
	case string:
		return fmt.Sprintf("str:%q", w)
	case []int64:
		return fmt.Sprintf("arr:%v", w)
	case struct{}:
		return "obj"
	case *entPage:
		return fmt.Sprintf("page:%d|%q|%q|%q|%q", w.ID, w.Link, w.Meta, w.Br, w.Note)
	case *entValue:
		return render(w)
	}
	return "?"
}

func entValueOf(s Sx) *entValue {
	v := &entValue{I: entInts[sxInt(sxNth(s, 0))], S: sxStr(sxNth(s, 1)), B: sxBool(sxNth(s, 2))}
	for _, it := range sxList(sxNth(s, 3)) {
		v.Items = append(v.Items, entItem{N: int64(sxInt(sxNth(it, 0))), T: sxStr(sxNth(it, 1))})
	}
	return v
}

const vndJSON = "application/vnd.x+json"

var entCTs = []string{"application/json", "application/xml", "application/json; charset=utf-8", "application/xml;charset=UTF-8",
	vndJSON, vndJSON + "; v=2", "text/plain", "", "APPLICATION/JSON", " application/json"}

func genEnt(r *Rng) Sx {
	n := 1 + r.Intn(5)
	reqs := Ls{}
	for i := 0; i < n; i++ {
		codec := r.Intn(2)
		ct := []string{"application/json", "application/xml"}[codec]
		if r.Pct(35) {
			ct = r.Pick(entCTs)
		} else if r.Pct(30) {
			ct += r.Pick([]string{"; charset=utf-8", ";q=1", " ;x=y"})
		}
		enc := []int{0, 0, 1, 1, 2, 3}[r.Intn(6)]
		ce := []string{"", "gzip", "deflate", "gzip"}[enc]
		if r.Pct(15) {
			ce = r.Pick([]string{"", "gzip", "deflate", "identity", "GZIP", "br"})
		}
		broken := 0
		if r.Pct(30) {
			broken = 1 + r.Intn(4)
		}
		val := genEntValue(r)
		if codec == 0 && r.Pct(15) {
			val = Ls(append(append(Ls{}, sxList(val)...), []int{1, 2, 3, 4, 6}[r.Intn(5)])) // a one- or two-byte JSON document (6: null)
			if broken == 1 {
				// half of such a compressed stream still holds the whole document (only the checksum is cut) and a
				// streaming decoder legitimately succeeds; the model's all-or-nothing inflate oracle does not cover that
				broken = 2
			}
		}
		if len(sxList(val)) == 4 && r.Pct(12) {
			val = Ls(append(append(Ls{}, sxList(val)...), 5))
		}
		reqs = append(reqs, L(A(ct), A(ce), val, codec, B(r.Bool()), enc, broken))
	}
	mode := 0
	if r.Pct(20) || forceConc {
		mode = 2 + r.Intn(4)
	}
	// sixth field: the application re-registers the two standard media types with each other's accessors before the
	// history (after every Content-Type spelling of the history was looked up once under the standard registry)
	return L(r.Intn(2), []int{0, 1, 2, 8}[r.Intn(4)], A(r.Pick([]string{"", "", "application/json", "application/xml"})), mode, reqs, B(r.Pct(12)))
}

// the body of a request: written by go-restful's own entity writer, then encoded / broken with the standard library
func entBody(rq Sx) []byte {
	v := entWritten(sxNth(rq, 2))
	rec := httptest.NewRecorder()
	resp := restful.NewResponse(rec)
	resp.PrettyPrint(sxBool(sxNth(rq, 4)))
	if sxInt(sxNth(rq, 3)) == 0 {
		resp.WriteAsJson(v)
	} else {
		resp.WriteAsXml(v)
	}
	plain := rec.Body.Bytes()
	var out bytes.Buffer
	switch sxInt(sxNth(rq, 5)) {
	case 1:
		// any compression level a client may use (it shows in the stream header), chosen by the document
		zw, _ := gzip.NewWriterLevel(&out, []int{-1, 1, 2, 3, 4, 5, 6, 7, 8, 9, 0, -2}[len(plain)%12])
		zw.Write(plain)
		zw.Close()
	case 2:
		zw, _ := zlib.NewWriterLevel(&out, []int{-1, 1, 2, 3, 4, 5, 6, 7, 8, 9, 0, -2}[len(plain)%12])
		zw.Write(plain)
		zw.Close()
	case 3: // gzip, two members (RFC 1952 allows a stream of members; a decoder must read them all)
		h := len(plain) / 2
		for _, part := range [][]byte{plain[:h], plain[h:]} {
			zw := gzip.NewWriter(&out)
			zw.Write(part)
			zw.Close()
		}
	default:
		out.Write(plain)
	}
	b := out.Bytes()
	switch sxInt(sxNth(rq, 6)) {
	case 1:
		b = b[:len(b)/2]
	case 2:
		if len(b) >= 2 {
			b = append([]byte{0x00, 0xff}, b[2:]...)
		} else {
			b = []byte{0x00, 0xff}
		}
	case 3:
		b = []byte("\x01\x02 garbage \xff\xfe")
	case 4:
		b = []byte{}
	}
	return b
}

func tryDecode(shape, codec int, b []byte) Sx {
	v, rend := entTarget(shape)
	var err error
	if codec == 0 {
		d := json.NewDecoder(bytes.NewReader(b))
		d.UseNumber()
		err = d.Decode(v)
	} else {
		err = xml.NewDecoder(bytes.NewReader(b)).Decode(v)
	}
	if err != nil {
		return Ls{}
	}
	return L(A(rend()))
}

func entOracle(shape int, body []byte) Sx {
	opt := func(b []byte, err error) Sx {
		if err != nil {
			return Ls{}
		}
		return L(A(string(b)))
	}
	var gun, inf Sx = Ls{}, Ls{}
	streams := [][]byte{body}
	if zr, err := gzip.NewReader(bytes.NewReader(body)); err == nil {
		b, err := ioutil.ReadAll(zr)
		gun = opt(b, err)
		if err == nil {
			streams = append(streams, b)
		}
	}
	zopen := 0
	if zr, err := zlib.NewReader(bytes.NewReader(body)); err == nil {
		zopen = 1
		b, err := ioutil.ReadAll(zr)
		inf = opt(b, err)
		if err == nil {
			streams = append(streams, b)
		}
	}
	dec := Ls{}
	for _, st := range streams {
		for codec := 0; codec < 2; codec++ {
			dec = append(dec, L(codec, A(string(st)), tryDecode(shape, codec, st)))
		}
	}
	return L(A(string(body)), gun, inf, dec, zopen)
}

var entOnce sync.Once

func entContainer() *restful.Container {
	entOnce.Do(func() { restful.RegisterEntityAccessor(vndJSON, restful.NewEntityAccessorJSON(vndJSON)) })
	c := restful.NewContainer()
	ws := new(restful.WebService)
	ws.Path("/e")
	ws.Route(ws.POST("/echo").To(func(rq *restful.Request, rp *restful.Response) {
		shape := 0
		if h := rq.HeaderParameter("X-Shape"); h != "" {
			shape = int(h[0] - '0')
		}
		v, rend := entTarget(shape)
		if err := rq.ReadEntity(v); err != nil {
			if se, ok := err.(restful.ServiceError); ok {
				rp.WriteErrorString(se.Code, "E")
			} else {
				rp.WriteErrorString(422, "E")
			}
			return
		}
		rp.Write([]byte(rend()))
	}))
	c.Add(ws)
	return c
}

// the label a body travels under: when the case declares exactly the media type of the writer that produced the body,
// the declared type is taken from go-restful's own answer - the Content-Type WriteEntity sends for a client accepting
// that type, on a response where an earlier stage had put down the OTHER family's type (the writer's label wins)
func entLabel(rq Sx, ct string) string {
	canon := []string{"application/json", "application/xml"}
	codec := sxInt(sxNth(rq, 3))
	if ct != canon[codec] {
		return ct
	}
	rec := httptest.NewRecorder()
	resp := restful.NewResponse(rec)
	resp.SetRequestAccepts(ct)
	resp.Header().Set("Content-Type", canon[1-codec]+"; charset=utf-8")
	if err := resp.WriteEntity(entWritten(sxNth(rq, 2))); err != nil {
		return ct
	}
	return rec.Header().Get("Content-Type")
}

func entServe(c *restful.Container, rq Sx, body []byte) Sx {
	hr, _ := http.NewRequest("POST", "http://h/e/echo", bytes.NewReader(body))
	if ct := sxStr(sxNth(rq, 0)); ct != "" {
		hr.Header.Set("Content-Type", entLabel(rq, ct))
	}
	if ce := sxStr(sxNth(rq, 1)); ce != "" {
		hr.Header.Set("Content-Encoding", ce)
	}
	if sh := entShape(sxNth(rq, 2)); sh > 0 {
		hr.Header.Set("X-Shape", itoa(sh))
	}
	rec := httptest.NewRecorder()
	class := 0
	if poisoned {
		return L(-2, A("")) // an earlier request of this process never came back: nothing more is sent
	}
	done := make(chan struct{})
	go func() {
		defer close(done)
		defer func() {
			if r := recover(); r != nil {
				class = -1
			}
		}()
		c.Dispatch(rec, hr)
		switch rec.Code {
		case 200:
			class = 1
		case 422:
			class = 0
		default:
			class = rec.Code
		}
	}()
	select {
	case <-done:
	case <-time.After(20 * time.Second):
		// the request never came back (a provider that blocks): class -2, and no further case in this process
		poisoned = true
		return L(-2, A(""))
	}
	out := ""
	if class == 1 {
		out = rec.Body.String()
	}
	return L(class, A(out))
}

func runEnt(raw Sx) (Sx, Sx) {
	provider, capn, dflt, mode, reqs := sxInt(sxNth(raw, 0)), sxInt(sxNth(raw, 1)), sxStr(sxNth(raw, 2)), sxInt(sxNth(raw, 3)), sxList(sxNth(raw, 4))
	swapped := len(sxList(raw)) > 5 && sxBool(sxNth(raw, 5))
	if swapped {
		// every spelling of the history is looked up once while the standard accessors are registered ...
		warm := entContainer()
		for _, rq := range reqs {
			l := sxList(rq)
			if len(l) > 7 {
				l = l[:7]
			}
			entServe(warm, Ls(l), entBody(Ls(l)))
		}
		// ... then the application changes its mind: from now on every body is read by what is registered NOW
		restful.RegisterEntityAccessor("application/json", restful.NewEntityAccessorXML("application/json"))
		restful.RegisterEntityAccessor("application/xml", restful.NewEntityAccessorJSON("application/xml"))
		defer func() {
			restful.RegisterEntityAccessor("application/json", restful.NewEntityAccessorJSON("application/json"))
			restful.RegisterEntityAccessor("application/xml", restful.NewEntityAccessorXML("application/xml"))
		}()
	}
	ld := newLedger(mkProvider(provider, capn))
	old := restful.CurrentCompressorProvider()
	restful.SetCompressorProvider(ld)
	defer restful.SetCompressorProvider(old)
	restful.DefaultRequestContentType(dflt)
	defer restful.DefaultRequestContentType("")
	bodies := make([][]byte, len(reqs))
	full := Ls{}
	for i, rq := range reqs {
		// raw requests have 7 fields; replayed full requests carry the oracle row as an 8th, recomputed here
		l := sxList(rq)
		if len(l) > 7 {
			l = l[:7]
		}
		bodies[i] = entBody(Ls(l))
		orc := append(Ls{}, sxList(entOracle(entShape(sxNth(Ls(l), 2)), bodies[i]))...)
		orc = append(orc, A(entOriginalRendering(sxNth(Ls(l), 2)))) // sixth: the value before it was written
		full = append(full, append(append(Ls{}, l...), orc))
	}
	c := entContainer()
	seq, fresh, conc := Ls{}, Ls{}, Ls{}
	for i, rq := range reqs {
		seq = append(seq, entServe(c, rq, bodies[i]))
	}
	for i, rq := range reqs {
		fresh = append(fresh, entServe(entContainer(), rq, bodies[i]))
	}
	if mode > 0 {
		c3 := entContainer()
		out := make([]Sx, len(reqs)*3)
		var wg sync.WaitGroup
		for k := range out {
			wg.Add(1)
			go func(k int) {
				defer wg.Done()
				// each client sends its request several times (the windows in which pooled objects change hands are
				// short); what is recorded is the first answer, or the first later answer that differs from it
				for rep := 0; rep < 8; rep++ {
					o := entServe(c3, reqs[k%len(reqs)], bodies[k%len(reqs)])
					if rep == 0 {
						out[k] = o
					} else if SxString(o) != SxString(out[k]) {
						out[k] = o
						break
					}
				}
			}(k)
		}
		wg.Wait()
		conc = Ls(out)
	}
	ld.mu.Lock()
	led := L(ld.acq, ld.rel, ld.dbl, ld.unk, len(ld.held))
	ld.mu.Unlock()
	return L(Ls{}, provider, capn, A(dflt), mode, full, B(swapped)), L(seq, fresh, conc, led)
}

func init() { domains["ent"] = domain{gen: genEnt, run: runEnt} }

module verifharness

go 1.13

require github.com/emicklei/go-restful/v3 v3.0.0

replace github.com/emicklei/go-restful/v3 => /repo

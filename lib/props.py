"""Per-property configuration of ./check: which generated domains feed it, which
specification verdicts (computed by the extracted Coq spec on the implementation's
observation) belong to it, and the projection under which model and implementation
are compared."""


# ---- projections: (impl_obs, model_obs) -> (a, b) compared for equality ----
def proj_cors(i, m):
    # impl: ((acl-headers invoked twin) ...) ; model: ((headers invoked) ...), one per request of the sequence
    return [[x[0], x[1]] for x in i], [[y[0], y[1]] for y in m]


def proj_cors_c06(i, m):
    # how often the route function ran behind the CORS filter
    return [x[1] for x in i], [y[1] for y in m]


def proj_allow(i, m):
    return i, m


def proj_route_all(i, m):
    # (class status allow invoked params selpath selok)
    return i, m


def proj_route_c01(i, m):
    # invoked route id (or none) and the selected-route path seen by filter and handler
    return [i[3], i[5], i[6]], [m[3], m[5], m[6]]


def proj_route_c02(i, m):
    # status class, Allow set, number of invocations, panic yes/no
    return [i[0], i[1], i[2], len(i[3])], [m[0], m[1], m[2], len(m[3])]


def proj_reg(i, m):
    # the answers of the history-built and of the fresh container (status, handler, Location); the fourth field of a
    # preflight's answer (the announced methods) is compared between the two containers by the specification predicate
    strip = lambda l: [a[:3] for a in l]
    return [i[0], strip(i[1]), strip(i[2])] + i[3:], m


def proj_twin(i, m):
    # the answers under the two routers; a third field of the implementation's (concurrent clients answered as a lone
    # one) is judged by the specification predicate
    return i[:2], m[:2]


def proj_perm(i, m):
    # per build the answer of Dispatch (7 fields); the 8th field of the implementation's (the same through ServeHTTP) is
    # compared across the builds by the specification predicate, not with the model
    return [b[:7] for b in i], m


def proj_route_c04(i, m):
    return [i[3], i[4]], [m[3], m[4]]


def proj_slash(i, m):
    # the two Dispatch observations (p, p/); the two ServeHTTP observations that follow are judged by a verdict
    return i[:2], m[:2]


# ---- disp domain: impl = (seq fresh conc ledger), model = same shape; one observation per request:
#      (panic status headers body ok log recovered)
def _pick(obs_lists, fields):
    return [[[o[f] for f in fields] for o in l] for l in obs_lists]


def proj_disp_c06(i, m):
    # the ordered event log of every request (sequential, alone, concurrent) and the decoded body (what was written
    # through the response each stage was handed)
    return _pick(i[:3], [3, 5]), _pick(m[:3], [3, 5])


def proj_disp_c04(i, m):
    # what every route function was handed: the selected route's path and the parameter map of its "saw:" event
    saw = lambda l: [[e for e in o[5] if e.startswith(b'saw:')] for o in l]
    return [saw(l) for l in i[:3]], [saw(l) for l in m[:3]]


def proj_disp_c07(i, m):
    # Content-Encoding header, decoded body, decodes-completely flag
    ce = lambda l: [[[h[1] for h in o[2] if h[0] == b'Content-Encoding'], o[3], o[4]] for o in l]
    return [ce(l) for l in i[:3]], [ce(l) for l in m[:3]]


def proj_disp_c10(i, m):
    # escaped panic, status, decoded body, recover-handler calls, provider ledger
    return [_pick(i[:3], [0, 1, 3, 4, 6]), i[3]], [_pick(m[:3], [0, 1, 3, 4, 6]), m[3]]


def proj_disp_all(i, m):
    return i, m


def proj_ent(i, m):
    # per request (class, rendering) in the sequential history, alone on a fresh container, in the concurrent batch
    return i[:3], m[:3]


def proj_neg(i, m):
    # refinement: the implementation's answer must be among the model's possible answers (flag computed by the model)
    return [1], m


TB_ROUTING = ['regexp.MatchString / full-segment match are oracles tabulated per case with Go\'s regexp package',
              'RouterJSR311: compiled template expressions are modelled segment-wise (DESIGN 3.3), valid for regex '
              'variables that cannot match "/" or the empty string and have no capture groups',
              'sort.Sort modelled as a stable insertion sort (what Go runs for <= 12 candidates)',
              'conditions, handlers and filters are the harness\'s behaviour scripts']
RULE_ROUTE = ('tables (1-4 services, 0-6 routes each, overlapping templates over a tiny alphabet, all documented token '
              'forms) and requests (72% derived from a route with 0-2 mutations, 18% adversarial paths, 10% random) from '
              'VERIF_SEED by harness/cmd/h/route.go, both routers; sibling routes of one method with literal / variable '
              'positions flipped and requests aimed at two routes at once; values with newline, percent escapes, non-ASCII; '
              '4% of requests with one separator sent as %2F (URL.RawPath); 15% with trace logging on, and every request served '
              'a second time with tracing flipped; distinct = distinct case text; non-trivial = outcome class is not a plain 404')

TB_GO_STDLIB_CORS = ['strings.ToLower is an oracle (tabulated per case by calling the Go standard library)',
                     'net/http Header canonicalisation and httptest.ResponseRecorder']

PROPS = {
    'C03': dict(
        domains=[dict(name='perm', quick=16000, thorough=400000)],
        verdicts=['c03_*'],
        project={'perm': proj_perm},
        prop_files=['props/C03.v'],
        trivial_classes=('404',),
        rule='tables with distinct (method, template) pairs (all token forms and the plain fragment, both routers) built in the '
             'base order and in 4 random permutations of services and of routes within each service, same request to each; '
             'distinct = distinct case text; non-trivial = outcome is not a plain 404',
        trusted_base=TB_ROUTING,
        assumptions=['service orders that trip the net/http mux panic (finding of C11) are not used'],
        explanation='Theorems Props.C03_best_service / C03_literal_beats_variable / C03_longer_root_beats_prefix / '
                    'C03_curly_route / C03_jsr_route and the refutation C03_refuted_score_tie; metamorphic comparison of the implementation across permuted builds '
                    'plus the dominance predicate S.best_match_ok on every invoked route.',
    ),
    'C18': dict(
        domains=[dict(name='twin', quick=24000, thorough=500000)],
        race_domains=[dict(name='twin', quick=480, thorough=12000, args=['-force-conc'])],
        verdicts=['c18_*'],
        project={'twin': proj_twin},
        prop_files=['props/C18.v'],
        trivial_classes=('404',),
        rule='tables of the common fragment (literal roots, literal / plain-variable route segments) and requests derived from '
             'their routes (15% with an empty segment or trailing slash), each dispatched on twin containers differing only in '
             'the router; distinct = distinct case text; non-trivial = outcome under CurlyRouter is not a plain 404',
        trusted_base=TB_ROUTING,
        assumptions=[],
        explanation='The full statement is refuted in Coq (C18_refuted_ranking, C18_refuted_empty_segment; known findings '
                    'K-C18-1/2); the positive half is proved (C18_agree, premises evaluated per case); agreement is checked on the implementation for every generated case and anything outside the '
                    'two finding classes is a violation; the model of each router is compared with the implementation.',
    ),
    'C09': dict(
        domains=[dict(name='cors', quick=24000, thorough=400000)],
        verdicts=['c09_*'],
        project={'cors': proj_cors},
        prop_files=['props/C09.v'],
        trivial_classes=('no-origin', 'not-allowed'),
        rule='sequences of 1-3 requests on ONE filter value installed on a container built from a generated route table '
             '(literal / variable segments, nested roots, both routers): OPTIONS with/without Access-Control-Request-Method, '
             'requested header lists in any case / spacing, configured or empty (= computed from the container) allowed '
             'methods; distinct = distinct case text; non-trivial = last request comes from an allowed origin',
        trusted_base=TB_GO_STDLIB_CORS + ['regexp as an oracle for computeAllowedMethods'],
        assumptions=['AllowedDomainFunc is a pure function of its argument'],
        explanation='Theorem Props.C09 on the Coq model of cors_filter.go + computeAllowedMethods; sequences of preflights to '
                    'different URLs on one filter value compared with the model request by request.',
    ),
    'C17': dict(
        domains=[dict(name='allow', quick=16000, thorough=300000)],
        verdicts=['c17_*'],
        project={'allow': proj_allow},
        prop_files=['props/C17.v'],
        trivial_classes=('404',),
        rule='tables of the common fragment (literal and plain-variable segments, nested literal roots; 15% with If-conditions on some routes), both '
             'routers; per case one URL probed with every method of the universe (method pool + table methods) on a plain '
             'container, plus an OPTIONS request on a twin with the OPTIONS filter; distinct = distinct case text; '
             'non-trivial = at least one method is routable at the URL',
        trusted_base=TB_ROUTING,
        assumptions=[],
        explanation='Theorems Props.C17_allow405 / C17_options_filter / C17_options_partial and the refutation C17_refuted on '
                    'the Coq model; Allow / Access-Control-Allow-Methods of the implementation compared with the statuses of '
                    'per-method probes of the implementation itself.',
    ),
    'C14': dict(
        domains=[dict(name='slash', quick=24000, thorough=600000)],
        verdicts=['c14_*'],
        project={'slash': proj_slash},
        prop_files=['props/C14.v'],
        trivial_classes=('404',),
        rule=RULE_ROUTE + '; every request is dispatched twice on the same container, with path p and p + "/"',
        trusted_base=TB_ROUTING,
        assumptions=['conditions do not look at the trailing slash (same boolean table for both requests)'],
        explanation='Theorem Props.C14_curly (route_request is invariant under appending "/") on the Coq model; paired '
                    'dispatches on the implementation compared with each other and with the model.',
    ),
    'C01': dict(
        domains=[dict(name='route', quick=32000, thorough=800000), dict(name='disp', quick=2400, thorough=60000)],
        race_domains=[dict(name='disp', quick=360, thorough=9000, args=['-force-conc'])],
        verdicts=['c01_*'],
        project={'route': proj_route_c01, 'disp': proj_disp_c06},
        prop_files=['props/C01.v'],
        trivial_classes=('404',),
        rule=RULE_ROUTE, trusted_base=TB_ROUTING,
        assumptions=['templates outside the documented forms (malformed) are compared model-vs-implementation only'],
        explanation='Theorem Props.C01 on the Coq model of both routers + detectRoute + dispatch; differential correspondence '
                    'on generated tables/requests; S.admits evaluated on every (invoked route, request) of the implementation.',
    ),
    'C02': dict(
        domains=[dict(name='route', quick=32000, thorough=800000)],
        verdicts=['c02_*'],
        project={'route': proj_route_c02},
        prop_files=['props/C02.v'],
        trivial_classes=('404',),
        rule=RULE_ROUTE, trusted_base=TB_ROUTING,
        assumptions=['request Content-Length header and ContentLength field are generated consistent in 90% of cases; '
                     'the inconsistent rest is compared model-vs-implementation'],
        explanation='Theorem Props.C02 (exact error cascade, at most one invocation, no panic) on the Coq model; '
                    'differential correspondence on status / Allow set / invocation count / panic.',
    ),
    'C04': dict(
        domains=[dict(name='route', quick=32000, thorough=800000), dict(name='disp', quick=4000, thorough=100000)],
        verdicts=['c04_*'],
        project={'route': proj_route_c04, 'disp': proj_disp_c04},
        prop_files=['props/C04.v'],
        trivial_classes=('404', '405', '415', '406'),
        rule=RULE_ROUTE + '; for C04 only invoked requests count as non-trivial', trusted_base=TB_ROUTING,
        assumptions=[],
        explanation='Theorem Props.C04 (parameter map = structural bindings; substitution round trip) on the Coq model; '
                    'differential correspondence on the parameter map seen inside the handler.',
    ),
    'C08': dict(
        domains=[dict(name='cors', quick=24000, thorough=400000)],
        race_domains=[dict(name='cors', quick=320, thorough=8000, args=['-force-conc'])],
        verdicts=['c08_*'],
        project={'cors': proj_cors},
        prop_files=['props/C08.v'],
        trivial_classes=('no-origin',),
        rule='cases generated from VERIF_SEED by harness/cmd/h/cors.go (allowed lists, predicates, origins that are '
             'entries / case variants / prefixes / suffixes / superstrings / metacharacter confusions); distinct = '
             'distinct case text (sha1); non-trivial = the request carries an Origin header',
        trusted_base=TB_GO_STDLIB_CORS,
        assumptions=['the handler behind the filter is the fixed probe handler of the harness',
                     'AllowedDomainFunc is a pure function of its argument (tabulated predicate)'],
        explanation='Theorem Props.C08 (for all oracles, configurations, requests and chain continuations) on the Coq '
                    'model of cors_filter.go; model tied to /repo by differential execution of the extracted model '
                    'against the real filter, and the property predicates evaluated on the implementation outputs.',
    ),
}

RULE_DISP = ('configurations (route table of literal/variable templates with a service on "/", 0-3 container, 0-2 service and '
             '0-2 route filters as behaviour scripts: headers, status, writes, attributes, pass / stop / pass a NEW request '
             'wrapper, panics at 0/30/100%; route functions; container and per-route encoding switch; recovery on/off; recover '
             'script incl. statuses 204 / 304; plain handlers via Handle / HandleWithFilter; http middleware adapted as filters; '
             'trace logging on/off; sync.Pool or bounded-cache provider with capacity 0/1/2/8) and histories of 1-16 requests (entry point '
             'Dispatch or ServeHTTP, Accept-Encoding variants, pre-set Content-Encoding), each history run sequentially on one '
             'container, request by request on fresh containers, and (25%) concurrently from 2-8 goroutines; distinct = distinct '
             'case text; non-trivial = some script ran (class not "empty")')
TB_DISP = ['compress/gzip and compress/zlib: the harness decodes every body with the real packages; the model treats the codec '
           'as an abstract stream (chunks written, closed)',
           'Go panic/defer/recover modelled as Done/Panicked with the defers of dispatch written out',
           'filters / route functions / recover handler are behaviour scripts (pass control on at most once)',
           'net/http ServeMux: every table has a service on "/" so the mux hands every request to dispatch (the mux is C11\'s subject)']
PROPS.update({
    'C06': dict(
        domains=[dict(name='disp', quick=6000, thorough=150000), dict(name='cors', quick=12000, thorough=200000)],
        race_domains=[dict(name='disp', quick=480, thorough=12000, args=['-force-conc'])],
        verdicts=['c06_*'],
        project={'disp': proj_disp_c06, 'cors': proj_cors_c06},
        prop_files=['props/C06.v'],
        trivial_classes=('empty',),
        rule=RULE_DISP, trusted_base=TB_DISP,
        assumptions=['a filter calls ProcessFilter at most once'],
        explanation='Theorems Props.C06_chain / C06_request on the Coq model of filter.go + Container.dispatch/ServeHTTP; the '
                    'ordered event log of every request compared with the model (sequential, on a fresh container, concurrent) '
                    'and with chain_events of the configuration.',
    ),
    'C07': dict(
        domains=[dict(name='disp', quick=6000, thorough=150000)],
        verdicts=['c07_*'],
        project={'disp': proj_disp_c07},
        prop_files=['props/C07.v'],
        trivial_classes=('empty',),
        rule=RULE_DISP, trusted_base=TB_DISP,
        assumptions=['codec contract: dec (enc b) = b, a stream closed once is one complete frame (compress/gzip, compress/zlib)'],
        explanation='Theorems Props.C07_discipline / C07_wanted / C07_no_bypass and the refutation '
                    'C07_refuted_servehttp_route_off (known finding K-C07-1); Content-Encoding, decoded body and completeness '
                    'of every response compared with the model; encoding_ok / encoding_labelled evaluated on the implementation.',
    ),
    'C10': dict(
        domains=[dict(name='disp', quick=6000, thorough=150000)],
        verdicts=['c10_*'],
        project={'disp': proj_disp_c10},
        prop_files=['props/C10.v'],
        trivial_classes=('empty', 'plain'),
        rule=RULE_DISP + '; for C10 non-trivial = a panic was raised (recovered or escaped) or a response was encoded',
        trusted_base=TB_DISP,
        assumptions=['the recover handler does not panic itself'],
        explanation='Theorems Props.C10_no_escape / C10_once / C10_propagates / C10_ledger; escaped panic value, status, decoded '
                    'body, recover-handler call count per request and the acquire/release ledger of an instrumenting '
                    'CompressorProvider compared with the model; histories vs fresh containers.',
    ),
    'C19': dict(
        domains=[dict(name='disp', quick=6000, thorough=150000), dict(name='cors', quick=12000, thorough=200000),
                 dict(name='neg', quick=6000, thorough=100000), dict(name='route', quick=8000, thorough=200000)],
        race_domains=[dict(name='disp', quick=480, thorough=12000, args=['-force-conc'])],
        verdicts=['c19_*'], history_search=True,
        project={'disp': proj_disp_all, 'cors': proj_cors, 'neg': proj_neg, 'route': proj_route_c02},
        prop_files=['props/C19.v'],
        trivial_classes=('empty',),
        rule=RULE_DISP, trusted_base=TB_DISP,
        assumptions=[],
        explanation='Theorems Props.C19_pool_invariant / C19_events; every request of a history answered identically (status, '
                    'headers, decoded body, events incl. parameters / attributes / selected route seen by the handler) in the '
                    'sequential history, alone on a fresh container, and inside a concurrent batch; all three equal the model.',
    ),
})
PROPS.update({
    'C15': dict(
        domains=[dict(name='resp', quick=24000, thorough=600000)],
        verdicts=['c15_*'],
        project={'resp': proj_allow},
        prop_files=['props/C15.v'],
        trivial_classes=('empty', 'not-wf'),
        rule='histories of 0-6 calls on one restful.Response (Write, WriteHeader, WriteErrorString/WriteError, WriteEntity / '
             'WriteHeaderAndEntity / WriteServiceError / WriteAsJson / WriteAsXml / WriteJson / WriteHeaderAndJson/Xml with '
             'struct, large (>4 kB, several encoder chunks), slice, nil and unmarshalable values, PrettyPrint toggles) over a '
             'counting writer whose k-th Write call accepts a scripted number of bytes and may fail, optionally with a gzip '
             'CompressingResponseWriter in between; driven directly (NewResponse) or by a route function inside a container with '
             'StatusCode()/ContentLength() read by a container filter after the handler, or (15%, Write/WriteHeader only) by a plain '
             'http.Handler registered with HandleWithFilter and reached through ServeHTTP; 65% set the status once first, 15% only '
             'write, 20% arbitrary (mostly outside the premise); distinct = distinct case text; non-trivial = non-empty history '
             'inside the premise',
        trusted_base=['encoding/json and encoding/xml: what they hand to Response.Write (chunks, or failure) is an input computed '
                      'by a dry run against the standard library', 'compress/gzip accepts every byte written to it while open',
                      'net/http ResponseWriter contract: first WriteHeader wins, Write commits 200'],
        assumptions=['premise of the property made precise: the status is set at most once and before any Write CALL (an empty '
                     'Write also commits 200 in net/http)', 'status arguments are valid HTTP codes (>= 100)'],
        explanation='Theorems Props.C15 / C15_length_invariant / C15_errors on the Coq model of response.go + writeJSON/writeXML; '
                    'per-call returned errors, StatusCode(), ContentLength() and what the underlying writer received compared with '
                    'the model; the three clauses evaluated on the implementation\'s own numbers.',
    ),
})
PROPS.update({
    'C13': dict(
        domains=[dict(name='pool', quick=600, thorough=20000), dict(name='disp', quick=2400, thorough=60000)],
        race_domains=[dict(name='pool', quick=64, thorough=3000, args=['-force-conc'])],
        verdicts=['c13_*'],
        project={'pool': proj_allow, 'disp': proj_disp_c10},
        prop_files=['props/C13.v'],
        gen_files=['gen/Generated_Pool.v'], gen_props=['genprops/C13_generated.v'],
        trivial_classes=(),
        rule='(provider: sync.Pool or bounded cache; capacity 0/1/2/3/8) x (sequential acquire/release histories of 1-14 operations '
             'over the three object kinds, object identities compared with the channel model | 2-64 goroutines x 20-220 rounds of '
             '"all acquire, barrier, all release at once" on the provider behind an instrumenting ledger with a 6 s watchdog | 2-16 '
             'goroutines x 5-35 encoded requests through a container, every body decoded and compared with its own payload); '
             'distinct = distinct case text; every case is non-trivial',
        trusted_base=['the translator harness/cmd/xlate (step structure of Acquire*/Release*; fails closed on unknown syntax)',
                      'buffered channel and sync.Pool semantics as written in Model.Pool (Get/Put atomic and non-blocking)',
                      'compress/gzip, compress/zlib'],
        assumptions=['clients release what they acquired exactly once (that is C07_discipline for the framework itself)'],
        explanation='Generic theorems Props.C13_exclusive / C13_nonblocking / C13_check_then_send_refuted; per-run instance '
                    'genprops/C13_generated.v re-checked against the provider methods translated from /repo on this run; stress runs '
                    'with watchdog, ledger and decoded bodies (also under the race detector).',
    ),
    'C12': dict(
        domains=[dict(name='mut', quick=96, thorough=3000), dict(name='disp', quick=4000, thorough=100000)],
        race_domains=[dict(name='mut', quick=32, thorough=1000)],
        verdicts=['c12_*'],
        project={'mut': proj_allow},
        prop_files=['props/C12.v'],
        gen_files=['gen/Generated_Locks.v'], gen_props=['genprops/C12_generated.v'],
        trivial_classes=(),
        rule='per case one container (router Curly/JSR311; entry Dispatch / ServeHTTP / both) with a "/" service, a stable '
             'service, a service with dynamic routes whose one route is added and removed in a loop by a mutator goroutine, and '
             'a service that a second mutator adds and removes in a loop, while 2-8 serving goroutines send 200-1000 requests '
             'each; every answer classified (untouched targets: the one legal answer; targets under change: one of the two); 20 s '
             'watchdog; the same under the race detector; domain disp (see C10): after each generated history of requests '
             'Container.Add is called under a watchdog; distinct = distinct case text; every case is non-trivial',
        trusted_base=['the translator harness/cmd/xlate (lock operations and shared-field accesses of the listed entry points, calls '
                      'inlined, deferred unlocks at function end; premise dynamicRoutes = true)',
                      'Go memory model, sync.RWMutex, the race detector (no false positives)'],
        assumptions=['one routes lock / one routes location stands for every WebService (accesses to different services do not conflict)'],
        explanation='Generic theorems Props.C12_no_race / C12_no_deadlock; per-run instance genprops/C12_generated.v (lockset_ok of '
                    'the table translated from /repo on this run); stress with classification and watchdog, and under the race '
                    'detector (a report is the failing schedule).',
    ),
})
PROPS.update({
    'C11': dict(
        domains=[dict(name='reg', quick=12000, thorough=300000)],
        verdicts=['c11_*'],
        project={'reg': proj_reg},
        prop_files=['props/C11.v'],
        trivial_classes=(),
        rule='histories of 1-40 operations (Add / Remove of 2-5 services whose roots are drawn from a pool sharing fixed prefixes, '
             'differing by a trailing slash or by a variable, with and without "/"; Route / RemoveRoute with dynamic routes on; '
             'Handle of plain handlers) followed by 30-70 probe requests (every root, root + "/", paths below, near-misses, the '
             'plain patterns and paths below them) through ServeHTTP or Dispatch, answered by the history-built container and by a '
             'container freshly built from the final content; both routers; distinct = distinct case text; every case non-trivial',
        trusted_base=['net/http ServeMux is modelled (pre-1.22 semantics selected by the go directive: exact pattern, longest '
                      '"/"-terminated prefix, p -> p/ redirect, clean-path redirect, panic on duplicate pattern); regexp oracles'],
        assumptions=['premises of the theorem: a root is never added while registered; plain patterns are registered once and do '
                     'not collide with a pattern a service of the history registers (else net/http panics: user error)'],
        explanation='Theorems Props.C11 / C11_adds / C11_mux_order on the Coq model of Add / addHandler / Remove / Handle / Route / '
                    'RemoveRoute and the ServeMux; history-built vs fresh-built answers of the implementation compared with each '
                    'other and with the model (status, handler identity, Location).',
    ),
})
RULE_ENT = ('histories of 1-5 POST requests to an echo route that calls ReadEntity: a value (int64 extremes, 2^53+1, strings with '
            'quotes / markup / unicode / emoji / tab and newline, bool, nested items) written by go-restful\'s own JSON or XML entity '
            'writer (pretty or not), then gzip / deflate / not encoded with the standard library, then intact / truncated / header '
            'overwritten / garbage / empty; declared Content-Type (exact, with parameters, custom registered key, unknown, empty, '
            'wrong case) and Content-Encoding (matching or not) ; default request content type none/json/xml; both providers, '
            'capacities 0/1/2/8; sequential, alone on a fresh container, and (20%) three concurrent copies; distinct = distinct '
            'case text; every case non-trivial')
PROPS.update({
    'C16': dict(
        domains=[dict(name='ent', quick=10000, thorough=300000)],
        race_domains=[dict(name='ent', quick=200, thorough=5000, args=['-force-conc'])],
        verdicts=['c16_*'],
        project={'ent': proj_ent},
        prop_files=['props/C16.v'],
        trivial_classes=(),
        rule=RULE_ENT,
        trusted_base=['encoding/json, encoding/xml, compress/gzip, compress/zlib: section variables of the theorems; in the '
                      'differential run their verdict on every byte string in play is tabulated by the harness with the standard '
                      'library alone and given to the model as an oracle'],
        assumptions=['codec contracts: decode (marshal v) = v, gunzip (gzip b) = b, inflate (deflate b) = b',
                     'Content-Type values containing two registered keys are not generated (map iteration order)'],
        explanation='Theorems Props.C16_round_trip / C16_never_panics / C16_history / C16_parameters on the Coq model of '
                    'Request.ReadEntity + accessorAt; every request answered identically in the history, alone and concurrently, '
                    'equal to the model; faithful requests must read the value back.',
    ),
})
PROPS['C13']['domains'].append(dict(name='ent', quick=4000, thorough=100000))
PROPS['C13']['project']['ent'] = proj_ent
PROPS['C13']['rule'] += ' | ' + RULE_ENT + ' (for C13: the ledger of the instrumenting provider around ReadEntity\'s gzip readers)'
PROPS.update({
    'C05': dict(
        domains=[dict(name='neg', quick=30000, thorough=800000)],
        verdicts=['c05_*'],
        project={'neg': proj_neg},
        prop_files=['props/C05.v'],
        trivial_classes=('router-406', 'outside-premise'),
        rule='registered-writer sets (json, xml, two custom types; installed through the verif hook), Produces lists (85% non-empty '
             'over registered types: the premise; 15% arbitrary incl. */* and unregistered types), DefaultResponseContentType '
             'none/json/xml, Accept headers of 1-4 ranges (types from Produces / */* / registered / foreign / near-misses) with '
             'optional blanks at every legal position, 0-2 parameters with q at any position, q values incl. equal ones and 2% '
             'unparsable, 8% no Accept, 10% after TraceLogger(nil); each request dispatched 6 times on a route that writes an '
             'entity (map iteration order varies); distinct = distinct case text; non-trivial = the router admitted the request '
             'and the premise holds',
        trusted_base=['strconv.ParseFloat is an oracle: the q strings of the header ranked by the float it gives them',
                      'encoding/json, encoding/xml (the body is decoded in the answered type)'],
        assumptions=['premise of the property: Produces non-empty and every entry has a registered writer; q values parse '
                     '(unparsable ones are outside the Accept grammar: compared with the model only)'],
        explanation='Theorems Props.C05_ranking / C05_ties / C05_writer / C05_never_406 / C05_ows on the Coq model of sortedMimes / '
                    'insertMime / EntityWriter / accessorAt (repaired code); the implementation\'s Content-Type must be among the '
                    'model\'s possible answers (a singleton under the premise), the same for 6 repetitions, decode, never 406 '
                    'when the router admitted.',
    ),
})

"""Per-property configuration of ./check: which generated domains feed it, which
specification verdicts (computed by the extracted Coq spec on the implementation's
observation) belong to it, and the projection under which model and implementation
are compared."""


# ---- projections: (impl_obs, model_obs) -> (a, b) compared for equality ----
def proj_cors(i, m):
    # impl: (acl-headers invoked twin) ; model: (headers pass)
    # all requests of this domain are routable, so the handler runs iff the filter passes on
    return [i[0], i[1]], [m[0], m[1]]


TB_GO_STDLIB_CORS = ['strings.ToLower is an oracle (tabulated per case by calling the Go standard library)',
                     'net/http Header canonicalisation and httptest.ResponseRecorder']

PROPS = {
    'C08': dict(
        domains=[dict(name='cors', quick=24000, thorough=400000)],
        verdicts=['c08_*'],
        project={'cors': proj_cors},
        prop_files=['props/C08.v'],
        trivial_classes=('no-origin',),
        rule='cases generated from VERIF_SEED by harness/cmd/h/cors.go (allowed lists, predicates, origins that are '
             'entries / case variants / prefixes / suffixes / superstrings / metacharacter confusions); distinct = '
             'distinct case text (sha1); non-trivial = the request carries an Origin header',
        trusted_base=TB_GO_STDLIB_CORS,
        assumptions=['the handler behind the filter is the fixed probe handler of the harness',
                     'AllowedDomainFunc is a pure function of its argument (tabulated predicate)'],
        explanation='Theorem Props.C08 (for all oracles, configurations, requests and chain continuations) on the Coq '
                    'model of cors_filter.go; model tied to /repo by differential execution of the extracted model '
                    'against the real filter, and the property predicates evaluated on the implementation outputs.',
    ),
}

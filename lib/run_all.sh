#!/bin/sh
# runs every registered check on the current tree (evidence files are rewritten); usage: lib/run_all.sh [quick|thorough]
cd "$(dirname "$0")/.."
tier=${1:-quick}
git -C /repo status --porcelain | grep -q . && { echo "/repo is not clean"; exit 2; }
rc=0
for p in C01 C02 C03 C04 C05 C06 C07 C08 C09 C10 C11 C12 C13 C14 C15 C16 C17 C18 C19; do
  out=$(./check $p $tier 2>/dev/null); st=$?
  echo "$p exit=$st $(echo "$out" | grep -c '^KNOWN-FINDING') known-finding lines"
  echo "$out" | grep '^VIOLATION\|^SETUP'
  [ $st -ne 0 ] && rc=1
done
exit $rc

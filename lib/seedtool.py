#!/usr/bin/env python3
"""seedtool — bookkeeping for seeded breaking changes (DESIGN section 12).

  seedtool.py verify <src-dir> <name> <Cxx>   confirm a candidate (patch.diff + demo_test.go) in a scratch worktree:
                                               suite passes with the patch, demo fails with it and passes without;
                                               on success copy it to /verif/seeded/<name>/ with meta.json
  seedtool.py detect <name> [tier]             apply seeded/<name>/patch.diff to /repo, run the property's check,
                                               undo the patch, record the result in seeded/<name>/detect.json
  seedtool.py detect-all [tier]
Never leaves /repo modified."""
import sys, os, json, subprocess, shutil, tempfile, time

ROOT = os.path.dirname(os.path.dirname(os.path.abspath(__file__)))
REPO = '/repo'
ENV = dict(os.environ, GOFLAGS='-mod=mod', GOPROXY='off', GOSUMDB='off', GOTOOLCHAIN='local')


def sh(cmd, cwd=None, timeout=1800):
    p = subprocess.run(cmd, cwd=cwd, env=ENV, shell=isinstance(cmd, str), stdout=subprocess.PIPE,
                       stderr=subprocess.STDOUT, timeout=timeout)
    return p.returncode, p.stdout.decode('utf-8', 'replace')


def verify(src, name, pid):
    wt = tempfile.mkdtemp(prefix='seedwt_')
    os.rmdir(wt)
    rc, out = sh(['git', '-C', REPO, 'worktree', 'add', '--detach', wt, 'HEAD'])
    assert rc == 0, out
    res = {}
    try:
        shutil.copy(os.path.join(src, 'demo_test.go'), os.path.join(wt, 'zz_seed_demo_test.go'))
        rc, out = sh('go test -vet=off -count=1 -run TestSeedDemo ./...', cwd=wt)
        res['demo_on_clean_tree_passes'] = (rc == 0)
        os.remove(os.path.join(wt, 'zz_seed_demo_test.go'))
        rc, out = sh(['git', 'apply', os.path.join(os.path.abspath(src), 'patch.diff')], cwd=wt)
        res['patch_applies'] = (rc == 0)
        rc, out = sh('go build ./... && go test -vet=off -count=1 ./...', cwd=wt)
        res['suite_passes_with_patch'] = (rc == 0)
        shutil.copy(os.path.join(src, 'demo_test.go'), os.path.join(wt, 'zz_seed_demo_test.go'))
        rc, out = sh('go test -vet=off -count=1 -run TestSeedDemo ./...', cwd=wt)
        res['demo_fails_with_patch'] = (rc != 0)
        res['demo_output_with_patch'] = out[-1500:]
    finally:
        sh(['git', '-C', REPO, 'worktree', 'remove', '--force', wt])
        shutil.rmtree(wt, ignore_errors=True)
    ok = all(res[k] for k in ('demo_on_clean_tree_passes', 'patch_applies', 'suite_passes_with_patch', 'demo_fails_with_patch'))
    print(json.dumps({k: v for k, v in res.items() if k != 'demo_output_with_patch'}))
    if not ok:
        print('NOT CONFIRMED'); return 1
    dst = os.path.join(ROOT, 'seeded', name)
    os.makedirs(dst, exist_ok=True)
    shutil.copy(os.path.join(src, 'patch.diff'), dst)
    shutil.copy(os.path.join(src, 'demo_test.go'), dst)
    notes = ''
    if os.path.exists(os.path.join(src, 'notes.md')):
        shutil.copy(os.path.join(src, 'notes.md'), dst)
        notes = open(os.path.join(src, 'notes.md')).read()
    head = subprocess.check_output(['git', '-C', REPO, 'rev-parse', 'HEAD']).decode().strip()
    meta = dict(property=pid, name=name, base_commit=head, origin='independent sub-agent given only the property text',
                needs_to_manifest=notes[:1200],
                confirmed=dict(res, how='scratch worktree of /repo HEAD: go test ./... with patch (suite passes), demo test with and '
                                        'without patch; lib/seedtool.py verify'))
    json.dump(meta, open(os.path.join(dst, 'meta.json'), 'w'), indent=1)
    print('CONFIRMED ->', dst)
    return 0


def detect(name, tier='quick'):
    d = os.path.join(ROOT, 'seeded', name)
    meta = json.load(open(os.path.join(d, 'meta.json')))
    pid = meta['property']
    rc, out = sh(['git', '-C', REPO, 'status', '--porcelain'])
    assert out.strip() == '', '/repo not clean: ' + out
    rc, out = sh(['git', '-C', REPO, 'apply', os.path.join(d, 'patch.diff')])
    assert rc == 0, out
    t0 = time.time()
    try:
        props = meta.get('also_check', []) + [pid]
        results = {}
        for p in props:
            rc, out = sh([os.path.join(ROOT, 'check'), p, tier], cwd=ROOT, timeout=7200)
            vio = [l for l in out.splitlines() if l.startswith('VIOLATION')]
            results[p] = dict(exit=rc, violation_lines=vio[:5], detected=(rc == 1 and bool(vio)),
                              no_failing_input=any('no-failing-input-found' in l for l in vio))
            # keep the replay of the first violation with the seed (replays/ is not committed)
            if vio and p == pid:
                rp = vio[0].split('replay=')[1].split()[0]
                if os.path.exists(rp):
                    shutil.copy(rp, os.path.join(d, 'replay_example.json'))
    finally:
        sh(['git', '-C', REPO, 'checkout', '--', '.'])
    json.dump(dict(tier=tier, wall_s=round(time.time() - t0, 1), results=results), open(os.path.join(d, 'detect.json'), 'w'), indent=1)
    print(name, {p: ('DETECTED' + (' (no failing input)' if r['no_failing_input'] else '')) if r['detected'] else 'missed (exit %s)' % r['exit']
                 for p, r in results.items()})
    # evidence files must come from the unchanged tree: re-run is the caller's job
    return 0


if __name__ == '__main__':
    cmd = sys.argv[1]
    if cmd == 'verify':
        sys.exit(verify(sys.argv[2], sys.argv[3], sys.argv[4]))
    elif cmd == 'detect':
        sys.exit(detect(sys.argv[2], sys.argv[3] if len(sys.argv) > 3 else 'quick'))
    elif cmd == 'detect-all':
        for n in sorted(os.listdir(os.path.join(ROOT, 'seeded'))):
            mp = os.path.join(ROOT, 'seeded', n, 'meta.json')
            if os.path.exists(mp):
                if json.load(open(mp)).get('superseded'):
                    print(n, 'superseded (no longer applies to /repo): skipped', flush=True)
                    continue
                detect(n, sys.argv[2] if len(sys.argv) > 2 else 'quick')

"""Texts for MANIFEST.json (per claimed property) and the not_applicable list."""
HOOK_COMMITS = []

PARTIAL_NOT_YET = 'check not built yet in this session (work in progress; see DESIGN.md section 6)'

META = {
    'C08': dict(
        text='Theorem Props.C08 (Coq, no axioms): for every ToLower oracle, CORS configuration, container method table, '
             'request and every continuation of the chain, the model of cors_filter.go adds only Access-Control-* headers, '
             'only for an origin allowed in the sense of the property, echoes the origin exactly once, grants credentials '
             'only if configured, and is the identity on the chain otherwise. The model is tied to /repo by running the '
             'extracted model and the real filter on the same generated requests (near-miss origins) and by evaluating the '
             'property predicates on the real responses.',
        design_ref='DESIGN.md section 6, C08',
        note='trusted: Coq kernel, extraction+driver, Go harness; strings.ToLower is an oracle; the tie is differential '
             'testing (not a proof about the Go code)',
        technique='Coq theorem on executable model + differential correspondence with extracted model'),
}

ALL = ['C%02d' % i for i in range(1, 20)]
NOT_APPLICABLE = [dict(property_id=p, reason=PARTIAL_NOT_YET) for p in ALL if p not in META]

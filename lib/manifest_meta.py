"""Texts for MANIFEST.json (per claimed property) and the not_applicable list."""
HOOK_COMMITS = []

PARTIAL_NOT_YET = 'check not built yet in this session (work in progress; see DESIGN.md section 6)'

NOTE_ROUTING = ('trusted: Coq kernel, extraction+driver, Go harness; regexp is an oracle (tabulated with the Go regexp package); '
                'sort.Sort modelled as stable insertion sort; the tie between model and /repo is differential testing on '
                'generated tables and requests (both routers), not a proof about the Go code')
TECH = 'Coq theorem on executable model + differential correspondence with extracted model'

META = {
    'C01': dict(
        text='Theorems Props.C01_curly, C01_matcher and C01_jsr (Coq, no axioms): for every regex oracle, table and request, under '
             'CurlyRouter AND under RouterJSR311, if the router selects route r of service w then both are registered and the '
             'request is admitted by r\'s declaration (method, full path template incl. regex variables, suffix, custom verb, segment '
             'count / tail wildcard, Consumes, Produces, conditions); the route seen by filters and handler is the selected one. '
             'RouterJSR311: proved for the segment-wise model of the compiled expressions, under the boolean premise that '
             'path_expression.go\'s token classification is the structural reading of the templates (jsr_tokens_agree, evaluated on '
             'every generated case). Domain disp (sequential histories and concurrent batches, also under the race detector) ties every route function that ran to the selected route it saw and to admits of its own request.',
        design_ref='DESIGN.md section 6, C01', note=NOTE_ROUTING, technique=TECH),
    'C02': dict(
        text='Theorems Props.C02_curly, C02_jsr, C02_detect, C02_jsr_no_panic (Coq, no axioms): under CurlyRouter AND under '
             'RouterJSR311 routing never panics and the outcome meets the declarative cascade over the SET of routes of the '
             'claiming service whose template admits the path (404 / 405 with exactly their methods / 415 / 406 / one function of '
             'the surviving routes): both matchers are proved sound and complete for their structural reading; detectRoute equals '
             'the cascade on any candidate list and is order-independent. RouterJSR311 under the boolean premise jsr_best_agree '
             '(path_expression.go reads the templates of the claiming service structurally; evaluated on every generated case). '
             'Defects F5, F6 found and repaired.',
        design_ref='DESIGN.md section 6, C02', note=NOTE_ROUTING, technique=TECH),
    'C04': dict(
        text='Theorems Props.C04_curly and C04_jsr (Coq, no axioms): under both routers the parameter map of an invoked route is '
             'exactly the map of the structural bindings of root + route template on the path (segment minus verb/suffix; tail = '
             'remaining text); extraction cannot panic on an admitted path. RouterJSR311 under the boolean premises '
             'jsr_tokens_agree / jsr_names_agree (evaluated on every generated case). Defect F9 (capture group inside a variable expression shifts later bindings under RouterJSR311) found and fixed; such expressions are in the pool and their groups are modelled in the ranking keys. Domain disp also checks the parameter map each route function is handed behind filters, adapted middleware and wrapping filters against the model (c04_route_function_is_handed_the_bound_parameters).',
        design_ref='DESIGN.md section 6, C04', note=NOTE_ROUTING, technique=TECH),
    'C09': dict(
        text='Theorems Props.C09, C09_granted, C09_once (Coq, no axioms): for every oracle, configuration, set of routable '
             'methods and request from an allowed origin, a preflight is answered by the filter alone (the result does not '
             'depend on the rest of the chain) and carries the grant headers exactly when the requested method is allowed and '
             'every requested header is allowed ignoring case or by wildcard, else no header at all; any other request continues '
             'with the actual-request headers, each once. "Methods routable at the URL" is the model of computeAllowedMethods '
             '(over-approximate for nested roots: see C17 known findings; the correspondence compares it with the code). '
             'Histories: sequences of preflights to different URLs on ONE filter value are compared request by request '
             '(value receiver: no state survives a call).',
        design_ref='DESIGN.md section 6, C09',
        note='trusted: Coq kernel, extraction+driver, Go harness; strings.ToLower and regexp are oracles; differential tie',
        technique=TECH),
    'C17': dict(
        text='Theorem Props.C17_allow405 (Coq, no axioms; both routers, every table): the Allow list of a 405 is exactly the set '
             'of methods not answered 404/405 at that URL. Theorem C17_options_filter: the OPTIONS filter answers OPTIONS itself '
             'with computeAllowedMethods and passes every other method untouched. The full statement for the OPTIONS filter is '
             'refuted in Coq with two witnesses (C17_refuted_nested_roots, C17_refuted_empty_segment) that replay on the real '
             'code: known findings K-C17-1 / K-C17-2. The check evaluates the set equality on the implementation (Allow and '
             'Access-Control-Allow-Methods vs one probe per method) and reports anything outside the two finding classes.',
        design_ref='DESIGN.md section 6, C17', note=NOTE_ROUTING, technique=TECH),
    'C03': dict(
        text='Theorems (Coq, no axioms): detectWebService returns a claiming service of maximal score (C03_best_service); a '
             'literal root token scores strictly higher than a plain variable in the same position (C03_literal_beats_variable); '
             'a claiming root that extends another scores strictly higher (C03_longer_root_beats_prefix) - for every oracle, '
             'request and root. The order-independence half is refuted in Coq at full strength (C03_refuted_score_tie, known '
             'finding K-C03-1, replayed on the real code). Route level (C03_curly_route, C03_jsr_route): the invoked route is never '
             'one that another fully eligible route of the same service dominates (literal where it has a variable), for every '
             'registration order and every method / Content-Type / Accept / condition combination - CurlyRouter for well-formed '
             'templates without custom verb, RouterJSR311 under the measured premise jsr_all_agree. Order independence '
             '(C03_order_curly, C03_order_jsr): a table and any re-ordering of its services and of the routes inside them '
             'answer every request alike (same route function of the same service with the same parameters, or the same '
             'error with the same Allow set) when same-method routes of a service have distinct paths and no two claiming '
             'services tie (CurlyRouter: a unique greatest score; RouterJSR311: distinct roots, no two matching roots with '
             'equal keys); the premises are booleans evaluated per case and the permuted builds of the implementation '
             'must agree whenever they hold. The proofs rest on both Less relations being strict orders (byte-wise string '
             'comparison included), not on Go\'s sort algorithm.',
        design_ref='DESIGN.md section 6, C03', note=NOTE_ROUTING, technique=TECH),
    'C18': dict(
        text='The statement at full strength is refuted in Coq with two witnesses that replay on the real code '
             '(C18_refuted_ranking, C18_refuted_empty_segment: known findings K-C18-1, K-C18-2). The check dispatches every '
             'generated request of the common fragment on twin containers differing only in the router and reports any '
             'disagreement outside the two finding classes (class predicates extracted from Coq); both router models are compared '
             'with the implementation. The positive half is proved (C18_agree, C18_agree_unclaimed): when both routers hand the '
             'request to the same service whose templates read the same under both (non-empty literals and plain variables), '
             'the path has no empty segment and the eligible routes are strictly ordered by literal-over-variable, both return '
             'the same route with the same parameter map or the same error with the same Allow set; every premise is a boolean '
             'evaluated on each generated case (hypotheses_of_C18_agree: ~95% of cases). C18_same_service: for non-empty literal, '
             'pairwise different roots and a clean path both routers choose the same service (longest root that prefixes '
             'the URL) or none, so C18_agree_literal_roots needs no such premise. Same-shape twins are compared on the '
             'implementation, not proved. Stating the theorem exposed defect F8 (newline in the path), repaired.',
        design_ref='DESIGN.md section 6, C18', note=NOTE_ROUTING, technique=TECH),
    'C14': dict(
        text='Theorems Props.C14_curly, C14_tokenize and C14_jsr (Coq, no axioms): under CurlyRouter, for every table, request and '
             'path with a non-slash byte, and under RouterJSR311 for tables without tail wildcard whose regex variables do not '
             'match the empty string (table_plain) and non-empty paths not ending in a slash: routing p and p + "/" gives the '
             'same outcome (route function, parameter values, error status, Allow list). Paired dispatches on the implementation '
             'are compared with each other and with the model. C14_servehttp / C14_servehttp_jsr: the same through Container.ServeHTTP for the container state reached by any registration history, whenever the mux hands both p and p/ to dispatch; the check sends the pair through ServeHTTP too and evaluates that premise with the Registry model.',
        design_ref='DESIGN.md section 6, C14', note=NOTE_ROUTING, technique=TECH),
    'C08': dict(
        text='Theorem Props.C08 (Coq, no axioms): for every ToLower oracle, CORS configuration, container method table, '
             'request and every continuation of the chain, the model of cors_filter.go adds only Access-Control-* headers, '
             'only for an origin allowed in the sense of the property, echoes the origin exactly once, grants credentials '
             'only if configured, and is the identity on the chain otherwise. The model is tied to /repo by running the '
             'extracted model and the real filter on the same generated requests (near-miss origins) and by evaluating the '
             'property predicates on the real responses.',
        design_ref='DESIGN.md section 6, C08',
        note='trusted: Coq kernel, extraction+driver, Go harness; strings.ToLower is an oracle; the tie is differential '
             'testing (not a proof about the Go code)',
        technique='Coq theorem on executable model + differential correspondence with extracted model'),
}

NOTE_DISP = ('trusted: Coq kernel, extraction+driver, Go harness; compress/gzip|zlib (bodies decoded by the harness with the real '
             'packages), Go panic/defer/recover (modelled), net/http mux (every table has a "/" service); user code restricted to '
             'behaviour scripts; the tie between model and /repo is differential testing on generated configurations and histories')
META.update({
    'C06': dict(
        text='Theorems Props.C06_chain and C06_request (Coq, no axioms): for every oracle, table, router, entry point, every list of '
             'container / service / route filter scripts (each passing control on at most once, some stopping, some replacing the '
             'request wrapper) and every starting state, serving a request terminates and its structural events are exactly: '
             'container filters, then the selected service\'s, then the selected route\'s, in registration order, each once, the '
             'route function iff all passed, then the posts in reverse; a request that fails routing gets exactly the container '
             'filters around the error writer. Per-request freshness and concurrency: the event log, attributes and selected route '
             'seen at every stage are compared between the sequential history, a fresh container per request, a concurrent batch '
             'and the model. The library\'s own CORS filter is covered as a filter too (domain cors: the route function behind it runs exactly once iff the filter passes on and a route is found).',
        design_ref='DESIGN.md section 6, C06', note=NOTE_DISP, technique=TECH),
    'C07': dict(
        text='Theorems Props.C07_discipline, C07_wanted, C07_no_bypass (Coq, no axioms): for both entry points and every outcome '
             '(success, routing error, panic with/without recovery) at most one compressor is acquired, it is released exactly once '
             'with its stream closed, nothing bypasses it while installed, and it is installed only for a coding the request\'s '
             'Accept-Encoding mentions, on a writer without Content-Encoding, with encoding enabled (Dispatch: route over container). '
             'The full statement is refuted in Coq for ServeHTTP (C07_refuted_servehttp_route_off: known finding K-C07-1, replayed '
             'on the real code). PARTIAL: the codec contract is assumed; bodies are decoded with the real compress packages in the '
             'differential run. Handle / HandleWithFilter (plain handlers reached through ServeHTTP) are in the model and the domain. Theorem Props.C07_label: when scripts leave the Content-Encoding header alone, a response with a compressor installed carries exactly that coding\'s name once, and one without carries what the writer had on arrival (the container adds none) - both entry points, both routers, every outcome. The decoded body must equal, byte for byte, what the scripts of the configuration wrote (c07_body_is_exactly_what_was_written); nested containers (HandleWithFilter of another container), statuses 204/304 and plain handlers are in the domain.',
        design_ref='DESIGN.md section 6, C07', note=NOTE_DISP, technique=TECH),
    'C10': dict(
        text='Theorems Props.C10_no_escape, C10_once, C10_propagates, C10_ledger (Coq, no axioms): with recovery on no panic escapes '
             'Dispatch/ServeHTTP wherever it is raised; the recover handler runs at most once and its status reaches the client '
             'when nothing was written; with recovery off the panic value reaches the caller; after every request the compressor '
             'ledger is balanced and the stream closed, so any history of panicking and normal requests leaves the pool intact. '
             'PARTIAL: Go\'s defer/recover is modelled; follow-up requests, the instrumented provider ledger and decoded bodies are '
             'compared with the model on generated histories. The recover handler must be called exactly as often as the model says (also after output was written), and the requests after a panic are compared with a fresh container. C10_following_requests (instance of C19_history): in any history with panicking requests in it every request is answered as alone on a fresh container. go-restful\'s own recover handler (no RecoverHandler call) and clients that are gone (every Write errors) are in the domain.',
        design_ref='DESIGN.md section 6, C10', note=NOTE_DISP, technique=TECH),
    'C19': dict(
        text='Theorem Props.C19_history (Coq, no axioms): for every configuration, every history of (entry point, request, headers at arrival), '
             'every world it starts from (event log, acquire / release counters, recover-handler calls, all carried on from request to '
             'request) and every position, the answer (panic value, status, headers, chunks, compressor contents, attributes, own events incl. '
             'parameters and selected route seen by the handler) equals the answer alone on a fresh container; it rests on the frame law '
             'C19_frame (serving commutes with shifting the world it starts from), proved function by function. '
             'Theorems Props.C19_pool_invariant and C19_events: the model of serving takes configuration, request '
             'and a fresh recorder only; the one thing that outlives a request (the compressor pool) is left balanced by every '
             'request; the structural answer is the same from any starting state. PARTIAL: concurrency and long histories rest on '
             'the differential run (each request answered identically in a sequential history, alone on a fresh container and in a '
             'concurrent batch, all equal to the model). Domains neg and route serve every request a second time with trace logging flipped and demand the same answer. When implementation and model differ on a case and no predicate is false, the case is re-run alone and after a shrinking part of the cases served before it in the process: a history after which the answer differs is the failing input.',
        design_ref='DESIGN.md section 6, C19', note=NOTE_DISP, technique=TECH),
})

META.update({
    'C15': dict(
        text='Theorems Props.C15, C15_length_invariant, C15_errors (Coq, no axioms): for every scripted behaviour of the underlying '
             'writer (partial and failing Write calls at any position), with or without a compressing writer in between, every '
             'pretty-print setting and every history of the Response\'s non-deprecated writing calls in which the status is set at '
             'most once and before any Write call, StatusCode() equals the status the writer received (200 if none) and '
             'ContentLength() equals the bytes accepted (pre-coding when a compressor sits in between); the length equation is an '
             'invariant of every call with no premise; every call during which the underlying writer failed returns an error. '
             'Marshalled bytes and their chunking are inputs. Tied to /repo by running the same histories on the real Response '
             '(directly and inside a container, values read in a trailing filter).',
        design_ref='DESIGN.md section 6, C15',
        note='trusted: Coq kernel, extraction+driver, Go harness; encoding/json|xml output (dry run) and compress/gzip are inputs / '
             'assumed; the tie is differential testing',
        technique=TECH),
})

META.update({
    'C12': dict(
        text='Theorems Props.C12_no_race and C12_no_deadlock (Coq, no axioms), proved once for ANY lock/access table that passes the '
             'per-path lockset check, any number of threads and any schedule: no two threads are ever about to perform conflicting '
             'accesses, and some thread can always move. Per run, harness/cmd/xlate re-translates container.go / web_service.go / '
             'curly.go / jsr311.go into coq/gen/Generated_Locks.v and genprops/C12_generated.v re-proves lockset_ok of THAT table '
             '(generated_lockset_ok, generated_race_free, generated_selection_is_one_section: the request paths read the service list and the route slices inside ONE read-locked section, which is the step structure C12_linearisation assumes). On the unrepaired tree this theorem failed with the offenders curly.go:49 '
             'and container.go:316/141; the race detector and the stress run reproduced races, wrong answers and panics (fixed: F2, '
             'F3). Theorem C12_frame (both routers): the routing answer depends on the registration state only through the ordered roots and '
             'the routes of the one service claiming the URL, so changes to other services cannot alter it. Theorem C12_linearisation '
             '(model/Linear.v: requests = RLock; read the service list; find the claiming service and read its routes; RUnlock, '
             'interleaved step by step under ANY schedule with mutators doing Add/Remove under the write lock and Route/RemoveRoute '
             'without it): a finished request\'s answer is SelectRoute\'s answer in the global registration state at its own '
             'routes-read step, both routers; C12_exclusion: no snapshot is held while a writer holds the lock. PARTIAL: that the '
             'code has this step structure is tied by the translated lock table (reads of webServices under RLock, writes under '
             'Lock) and the stress classification; the translator, Go\'s memory model and sync.RWMutex are trusted. Domain disp: after every history (panicking If-conditions, filters and route functions, recovery on and off) Container.Add must return - a lock left held by a panic inside selection is seen only by running it.',
        design_ref='DESIGN.md section 6, C12',
        note='trusted: Coq kernel, translator cmd/xlate (fails closed), Go race detector, harness; lock semantics as written in Model.Conc',
        technique='Coq theorem over translated lock/access table (regenerated from source each run) + race-detector stress'),
    'C13': dict(
        text='Theorems Props.C13_exclusive (no object idle twice, idle and held, or held twice — every capacity, client count, program '
             'and schedule), C13_nonblocking (programs of always-enabled steps never block) and C13_check_then_send_refuted (the '
             'length-check-then-send release deadlocks at capacity 1 with two clients) (Coq, no axioms). Per run, harness/cmd/xlate '
             're-translates compressor_cache.go / compressor_pools.go into coq/gen/Generated_Pool.v and genprops/C13_generated.v '
             're-proves that every Acquire*/Release* has a recognised shape and only always-enabled steps (generated_nonblocking, '
             'generated_clients_never_block). On the unrepaired tree that theorem failed and the stress run showed goroutines parked '
             'in ReleaseGzipWriter (fixed: F1). Release-exactly-once by the framework is C07_discipline; the ledger of an '
             'instrumenting provider, object identities on sequential histories (vs the channel model) and decoded bodies under '
             'concurrency are compared on the implementation. PARTIAL: translator and channel / sync.Pool semantics trusted. Domain disp adds the provider ledger around encoded and panicking requests (every acquired compressor released exactly once on every exit path).',
        design_ref='DESIGN.md section 6, C13',
        note='trusted: Coq kernel, translator cmd/xlate (fails closed), harness; channel / sync.Pool semantics as written in Model.Pool',
        technique='Coq theorem over translated step programs (regenerated from source each run) + watchdog/ledger stress'),
})

META.update({
    'C11': dict(
        text='Theorems Props.C11, C11_adds, C11_mux_order (Coq, no axioms): for both routers, every oracle and every history of Add / '
             'Remove / Route / RemoveRoute / Handle (roots not added while registered; plain patterns registered once and not '
             'colliding with service patterns) no operation panics or exits, the fresh build of the final content does not fail, and '
             'history-built and fresh-built container answer every request identically through ServeHTTP (modelled ServeMux incl. '
             'redirects, plain handlers) and Dispatch; adding services with pairwise different roots never panics whatever their '
             'templates share. Proved on the model of the REPAIRED code: the check first showed the three defects on the real code '
             '(Remove unregistering everything, Add panicking on shared prefixes, Handle registrations lost: fixed F4a, F4b). The '
             'model is tied to /repo by running generated histories and probes on the real Container (status, handler identity, '
             'Location) against the extracted model, and by comparing the implementation with its own fresh build.',
        design_ref='DESIGN.md section 6, C11',
        note='trusted: Coq kernel, extraction+driver, Go harness; net/http ServeMux modelled (not verified); regexp oracle; differential tie',
        technique=TECH),
})

META.update({
    'C16': dict(
        text='Theorems Props.C16_round_trip, C16_never_panics, C16_history, C16_parameters (Coq, no axioms): on the model of '
             'Request.ReadEntity and accessorAt, for every value type and every codec / compressor satisfying the round-trip '
             'contracts, every registry, default content type, pooled-reader state, Content-Type spelling resolving to the writing '
             'codec and every declared encoding, reading what was written returns the value; a broken encoding or syntax yields an '
             'error value (the panic outcome is unreachable); what an earlier request left in the pooled reader never matters. '
             'PARTIAL: the codecs are assumptions of the theorem; the correspondence carries the weight: values written by '
             'go-restful\'s own writers are read back through a real container (int64 extremes, unicode), with truncated / corrupt '
             '/ mislabelled bodies in the same history, both providers, sequentially, on fresh containers and concurrently, all '
             'equal to the model fed with the standard library\'s own verdicts as oracles. Also histories in which the application re-registers the standard media types with each other\'s accessors (model: ent_registry_swapped); every request under a watchdog.',
        design_ref='DESIGN.md section 6, C16',
        note='trusted: Coq kernel, extraction+driver, Go harness; encoding/json|xml and compress/gzip|zlib (assumed contracts; oracles '
             'tabulated with the standard library)',
        technique=TECH),
})

HOOK_COMMITS.append('8abdf2a verif hook (build tag verif): replace the entity accessor registry content')
META.update({
    'C05': dict(
        text='Theorems Props.C05_ranking, C05_ties, C05_writer, C05_never_406, C05_ows (Coq, no axioms): for every ParseFloat '
             'oracle, registered-writer set, non-empty Produces list over registered types, default content type and Accept header, '
             'sortedMimes + EntityWriter answer exactly one type (independent of map iteration order), it is produced and '
             'registered, it is what the range of greatest q stands for (header order on ties, */* = first Produces entry); a '
             'request the router admitted is never answered 406; blanks around , ; = and the position of q among the parameters '
             'do not change a range. Proved on the model of the REPAIRED parser: the check showed on the real code dropped / '
             'mis-ranked ranges, map-order dependent answers, a nil-logger panic and the default type overriding Produces (fixed: '
             'F7a, F7b). Tied to /repo by dispatching generated requests 6 times each and requiring the answer to be among the '
             'extracted model\'s possible answers. Theorem C05_single_answer (after fix F10, which made the reverse lookup of entity accessors deterministic): at most one possible answer for EVERY registry, Produces list, default and Accept header. Theorem C05_registration_time (model Builder.v of ws.Produces / ws.Consumes / ws.Route + copyDefaults): what a route inherits from its WebService is fixed when it is added, whatever is declared or added afterwards; every neg case carries a set-up history the harness performs and the model evaluates.',
        design_ref='DESIGN.md section 6, C05',
        note='trusted: Coq kernel, extraction+driver, Go harness + verif hook (registry replacement); strconv.ParseFloat oracle; '
             'differential tie (refinement: implementation answer in model set)',
        technique=TECH),
})

ALL = ['C%02d' % i for i in range(1, 20)]
NOT_APPLICABLE = [dict(property_id=p, reason=PARTIAL_NOT_YET) for p in ALL if p not in META]

#!/usr/bin/env python3
"""Regenerates MANIFEST.json from lib/props.py and lib/manifest_meta.py."""
import json, os, sys
ROOT = os.path.dirname(os.path.dirname(os.path.abspath(__file__)))
sys.path.insert(0, os.path.join(ROOT, 'lib'))
from props import PROPS
from manifest_meta import META, NOT_APPLICABLE, HOOK_COMMITS

checks = []
for pid in sorted(PROPS):
    if pid not in META:
        continue
    m = META[pid]
    checks.append(dict(
        property_id=pid,
        quick_cmd='./check %s quick' % pid,
        thorough_cmd='./check %s thorough' % pid,
        evidence_file='/verif/evidence/%s.json' % pid,
        replay_cmd_template='./check %s --replay {path}' % pid,
        engine='coq-model+correspondence',
        level_claimed=dict(category='proof', text=m['text'], design_ref=m['design_ref']),
        level_note=m['note'],
        technique=m['technique'],
    ))
man = dict(
    version=1,
    setup_cmd='./setup.sh',
    hooks=dict(guard='verif', enable='go build -tags verif (harness/cmd/h is built with the tag against /repo)',
               baseline_off_cmd='cd /repo && GOFLAGS=-mod=mod GOPROXY=off GOSUMDB=off go test -json -vet=off -count=1 ./...',
               source_commits=HOOK_COMMITS, add_only=True),
    engines=[dict(name='coq-model+correspondence', path='/verif/coq', serves_properties=sorted(p for p in PROPS if p in META),
                  kind_free_text='Coq 8.16.1 theorems over a hand-written executable Gallina model; model tied to /repo on '
                                 'every run by differential execution (extracted OCaml model vs real package) with the '
                                 'specification predicates evaluated on implementation outputs')],
    checks=checks,
    notes='see DESIGN.md; known findings in known_findings.json',
    not_applicable=NOT_APPLICABLE,
)
json.dump(man, open(os.path.join(ROOT, 'MANIFEST.json'), 'w'), indent=1)
print('wrote MANIFEST.json with', len(checks), 'checks')

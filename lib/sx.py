"""s-expression exchange format: '(' ')' , atoms x<hex> (bytes), decimal integers."""


def parse(line):
    pos = 0
    n = len(line)

    def item():
        nonlocal pos
        while pos < n and line[pos] in ' \t\r\n':
            pos += 1
        if pos >= n:
            raise ValueError('unexpected end')
        if line[pos] == '(':
            pos += 1
            out = []
            while True:
                while pos < n and line[pos] in ' \t\r\n':
                    pos += 1
                if pos >= n:
                    raise ValueError('unclosed')
                if line[pos] == ')':
                    pos += 1
                    return out
                out.append(item())
        st = pos
        while pos < n and line[pos] not in ' ()':
            pos += 1
        tok = line[st:pos]
        if tok.startswith('x'):
            try:
                return bytes.fromhex(tok[1:])
            except ValueError:
                return tok.encode()
        return int(tok)
    return item()


def text(x):
    if isinstance(x, bytes):
        return x.decode('utf-8', 'replace')
    return str(x)


def show(x):
    if isinstance(x, bytes):
        return 'x' + x.hex()
    if isinstance(x, int):
        return str(x)
    return '(' + ' '.join(show(y) for y in x) + ')'


def readable(x):
    """human-readable rendering (not re-parsable)"""
    if isinstance(x, bytes):
        try:
            s = x.decode('utf-8')
            if all(32 <= ord(c) < 127 for c in s):
                return '"%s"' % s
        except UnicodeDecodeError:
            pass
        return repr(x)
    if isinstance(x, int):
        return str(x)
    return '(' + ' '.join(readable(y) for y in x) + ')'

#!/bin/sh
# Builds the whole framework from files on disk only (offline): the Coq
# development (full .vo build), the extracted model + OCaml driver, the Go harness.
set -e
cd "$(dirname "$0")"
export GOFLAGS=-mod=mod GOPROXY=off GOSUMDB=off GOTOOLCHAIN=local
# no Admitted / axioms / disabled checks anywhere in the development
if grep -rnE '\b(Admitted|admit|Axiom|Parameter|Conjecture|Admit Obligations)\b|Unset Guard|bypass_check|type-in-type|impredicative-set' coq --include='*.v' | grep -v '^coq/extract/' ; then
  echo "forbidden construct in the Coq development" >&2; exit 1
fi
( cd coq && coq_makefile -f _CoqProject -o Makefile >/dev/null 2>&1 && timeout 3000 make -j16 )
./driver/build.sh
( cd harness && cp /repo/go.sum . 2>/dev/null || true; mkdir -p bin && go build -tags verif -o bin/h ./cmd/h && go build -o bin/xlate ./cmd/xlate )
# the translated tables (rewritten by every C12 / C13 check) and their instance theorems
mkdir -p coq/gen && ./harness/bin/xlate /repo coq/gen || true
mkdir -p evidence replays
echo "setup ok"

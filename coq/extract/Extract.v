(* Extraction of the executable model.  ExtrOcamlBasic only: bool, option,
   unit, list, prod, sumbool, sumor map to the OCaml types; everything else
   (ascii, N, Z, positive, nat) stays the extracted inductive. *)
From Coq Require Import Extraction ExtrOcamlBasic.
From Model Require Import Str Sexp Http Cors Run.
Extraction Language OCaml.
Extraction "model.ml" run_case.

(* CurlyProofs.v — what CurlyRouter's token matcher decides, in terms of the
   structural templates of spec/RouteSpec.v *)
From Model Require Import Str Sexp Http Template Table Curly DetectRoute.
From Spec Require Import RouteSpec.
From Proofs Require Import StrFacts TemplateFacts.
From Coq Require Import Lia.

Section P.
Variable O : oracles.

Definition is_param (t : vtok) : bool := match v_tk t with TLit _ => false | _ => true end.
Definition next_pc (t : vtok) (pc : nat) : nat := if is_param t then S pc else pc.
Definition next_sc (t : vtok) (sc : nat) : nat :=
  (match v_verb t with Some _ => S sc | None => sc end) + (if is_param t then 0 else 1).

(* one step of the loop on a token without a verb *)
Lemma core_step (b qt : str) (pc sc : nat) (K : nat -> nat -> option (nat * nat)) :
  wf_tk (parse_tk b) = true ->
  (if has_prefix b [lbrace] then
     match index_char b colon with
     | Some c =>
         let '(mt, mr) := regular_matches_path_token O b c qt in
         if negb mt then None else if mr then Some (S pc, sc) else K (S pc) sc
     | None =>
         match index_char b rbrace with
         | Some e =>
             if Nat.ltb e (List.length b - 1) && negb (has_suffix qt (skipn (e + 1) b))
             then None else K (S pc) sc
         | None => K (S pc) sc
         end
     end
   else if str_eqb qt b then K pc (S sc) else None)
  = match parse_tk b with
    | TTail _ => Some (S pc, sc)
    | TLit _ => if tk_admits O (parse_tk b) qt then K pc (S sc) else None
    | k => if tk_admits O k qt then K (S pc) sc else None
    end.
Proof.
  unfold parse_tk, regular_matches_path_token. intros Hwf.
  destruct (has_prefix b [lbrace]) eqn:Hp.
  - destruct (index_char b colon) as [c|] eqn:Hc.
    + destruct (str_eqb (slice b (c + 1) (List.length b - 1)) (L "*")) eqn:Hs; cbn [negb tk_admits].
      * reflexivity.
      * destruct (o_rx O _ qt); reflexivity.
    + destruct (index_char b rbrace) as [e|] eqn:He.
      * apply index_char_Some in He as (Hlt & _).
        destruct (skipn (e + 1) b) as [|s0 sr] eqn:Hsk.
        -- assert (Hlen : List.length b <= e + 1).
           { apply (f_equal (@List.length _)) in Hsk. rewrite skipn_length in Hsk. cbn in Hsk. lia. }
           replace (Nat.ltb e (List.length b - 1)) with false by (symmetry; apply Nat.ltb_ge; lia).
           reflexivity.
        -- assert (Hlen : e + 1 < List.length b).
           { apply (f_equal (@List.length _)) in Hsk. rewrite skipn_length in Hsk. cbn in Hsk. lia. }
           replace (Nat.ltb e (List.length b - 1)) with true by (symmetry; apply Nat.ltb_lt; lia).
           cbn [andb tk_admits]. destruct (has_suffix qt (s0 :: sr)); reflexivity.
      * (* "{..." without colon or closing brace: not well-formed *)
        cbn [wf_tk] in Hwf. destruct b as [|b0 b']; [discriminate Hp|]. cbn in Hp. rewrite andb_true_r in Hp.
        unfold no_char in Hwf. cbn [existsb] in Hwf. rewrite Ascii.eqb_sym, Hp in Hwf. discriminate.
  - cbn [tk_admits]. reflexivity.
Qed.

Definition tail_has_no_verb (t : vtok) : bool :=
  match v_verb t with Some _ => negb (is_tail t) | None => true end.

(* one step of match_tokens on a well-formed token *)
Lemma match_tokens_step hcv rt rts qt qts pc sc :
  wf_tok_str hcv rt = true ->
  let t := parse_tok hcv rt in
  tail_has_no_verb t = true ->
  match_tokens O hcv (rt :: rts) (qt :: qts) pc sc =
    if is_tail t then Some (S pc, sc)
    else if vtok_admits O t qt then match_tokens O hcv rts qts (next_pc t pc) (next_sc t sc)
    else None.
Proof.
  unfold wf_tok_str. intros Hwf Htv. set (t := parse_tok hcv rt) in *. apply andb_true_iff in Hwf as [Hr Hk].
  apply str_eqb_eq in Hr.
  cbn [match_tokens].
  assert (Hverb : hcv && has_custom_verb rt = match v_verb t with Some _ => true | None => false end).
  { subst t. unfold parse_tok, has_custom_verb. destruct hcv; [|reflexivity].
    destruct (verb_split rt) as [[b v]|]; reflexivity. }
  rewrite Hverb.
  destruct (v_verb t) as [v|] eqn:Ev.
  - (* the token carries a verb *)
    assert (Hs : exists b, verb_split rt = Some (b, v) /\ v_tk t = parse_tk b /\ hcv = true).
    { subst t. unfold parse_tok in *. destruct hcv; [|discriminate Ev].
      destruct (verb_split rt) as [[b v']|]; [|discriminate Ev]. cbn in Ev. injection Ev as ->. now exists b. }
    destruct Hs as (b & Hvs & Htk & ->).
    destruct (verb_split_inv _ _ _ Hvs) as (Hrt & Hvne & Hvl).
    assert (Hnt : is_tail t = false).
    { unfold tail_has_no_verb in Htv. rewrite Ev in Htv. now destruct (is_tail t). }
    rewrite Hnt. unfold is_match_custom_verb. rewrite Hvs. cbn [andb].
    unfold vtok_admits, strip_verb. rewrite Ev.
    destruct (has_suffix qt (colon :: v)) eqn:Hsuf; cbn [negb]; [|reflexivity].
    rewrite (remove_custom_verb_suffix qt v Hvne Hvl Hsuf).
    assert (Hrm : remove_custom_verb rt = b) by (unfold remove_custom_verb; now rewrite Hvs).
    rewrite Hrm.
    set (base := firstn _ qt).
    assert (Hkb : wf_tk (parse_tk b) = true) by now rewrite <- Htk.
    pose proof (core_step b base pc (S sc) (match_tokens O true rts qts) Hkb) as Hc.
    cbn zeta in Hc. rewrite Hc. clear Hc.
    unfold is_tail in Hnt. unfold next_pc, next_sc, is_param. rewrite Ev, Htk in *.
    destruct (parse_tk b) eqn:Epb; try discriminate Hnt; cbn [tk_admits];
      rewrite ?Nat.add_0_r, ?Nat.add_1_r; reflexivity.
  - (* no verb *)
    assert (Htk : v_tk t = parse_tk rt).
    { subst t. unfold parse_tok in *. destruct hcv; [|reflexivity].
      destruct (verb_split rt) as [[b v']|]; [discriminate Ev|reflexivity]. }
    cbn [andb negb].
    assert (Hkb : wf_tk (parse_tk rt) = true) by now rewrite <- Htk.
    pose proof (core_step rt qt pc sc (match_tokens O hcv rts qts) Hkb) as Hc.
    cbn zeta in Hc. rewrite Hc. clear Hc.
    unfold vtok_admits, strip_verb, is_tail, next_pc, next_sc, is_param. rewrite Ev, Htk.
    destruct (parse_tk rt) eqn:Epb; cbn [tk_admits];
      rewrite ?Nat.add_0_r, ?Nat.add_1_r; reflexivity.
Qed.

(* the loop on structural tokens, with the counters the code threads *)
Fixpoint loop_counts (tpl : list vtok) (segs : list str) (pc sc : nat) : option (nat * nat) :=
  match tpl with
  | [] => Some (pc, sc)
  | t :: tpl' =>
      match segs with
      | [] => None
      | s :: segs' =>
          if is_tail t then Some (S pc, sc)
          else if vtok_admits O t s then loop_counts tpl' segs' (next_pc t pc) (next_sc t sc)
          else None
      end
  end.

Lemma match_tokens_eq hcv rts qts pc sc :
  forallb (wf_tok_str hcv) rts = true ->
  forallb tail_has_no_verb (map (parse_tok hcv) rts) = true ->
  match_tokens O hcv rts qts pc sc = loop_counts (map (parse_tok hcv) rts) qts pc sc.
Proof.
  revert qts pc sc. induction rts as [|rt rts IH]; intros qts pc sc Hwf Htv; [reflexivity|].
  cbn [forallb map] in Hwf, Htv. apply andb_true_iff in Hwf as [Hw1 Hw2]. apply andb_true_iff in Htv as [Ht1 Ht2].
  destruct qts as [|qt qts]; [reflexivity|].
  rewrite (match_tokens_step hcv rt rts qt qts pc sc Hw1 Ht1). cbn [map loop_counts].
  destruct (is_tail (parse_tok hcv rt)); [reflexivity|].
  destruct (vtok_admits O (parse_tok hcv rt) qt); [|reflexivity]. now apply IH.
Qed.

Definition is_some {A} (o : option A) : bool := match o with Some _ => true | None => false end.

Lemma loop_counts_some_indep tpl segs pc sc pc' sc' :
  is_some (loop_counts tpl segs pc sc) = is_some (loop_counts tpl segs pc' sc').
Proof.
  revert segs pc sc pc' sc'. induction tpl as [|t tpl IH]; intros segs pc sc pc' sc'; [reflexivity|].
  destruct segs as [|s segs]; [reflexivity|]. cbn [loop_counts].
  destruct (is_tail t); [reflexivity|]. destruct (vtok_admits O t s); [apply IH|reflexivity].
Qed.

Lemma wf_positions_tail tpl : wf_positions tpl = true -> wf_positions (tl tpl) = true.
Proof.
  destruct tpl as [|t [|t' tpl]]; cbn [tl]; [reflexivity|reflexivity|].
  intros H. change (wf_positions (t :: t' :: tpl)) with
    (negb (is_tail t) && (match v_verb t with None => true | Some _ => false end) && wf_positions (t' :: tpl)) in H.
  now apply andb_true_iff in H as [_ H].
Qed.

Lemma wf_positions_tail_last t tpl : wf_positions (t :: tpl) = true -> is_tail t = true -> tpl = [].
Proof.
  destruct tpl as [|t' tpl]; [reflexivity|]. intros H Ht.
  change (wf_positions (t :: t' :: tpl)) with
    (negb (is_tail t) && (match v_verb t with None => true | Some _ => false end) && wf_positions (t' :: tpl)) in H.
  rewrite Ht in H. discriminate.
Qed.

Lemma wf_positions_no_verb_on_tail tpl :
  wf_positions tpl = true -> forallb tail_has_no_verb tpl = true.
Proof.
  induction tpl as [|t tpl IH]; [reflexivity|]. intros H. cbn [forallb].
  rewrite IH by (apply (wf_positions_tail (t :: tpl) H)). rewrite andb_true_r.
  unfold tail_has_no_verb. destruct tpl as [|t' tpl].
  - cbn in H. destruct (v_verb t); [exact H|reflexivity].
  - change (wf_positions (t :: t' :: tpl)) with
      (negb (is_tail t) && (match v_verb t with None => true | Some _ => false end) && wf_positions (t' :: tpl)) in H.
    destruct (v_verb t); [|reflexivity]. rewrite andb_false_r in H. discriminate.
Qed.

(* the pre-check of matchesRouteByPathTokens plus the loop decide exactly admits_path *)
Lemma admits_path_loop tpl segs pc sc :
  wf_positions tpl = true ->
  admits_path O tpl segs =
    negb (Nat.ltb (List.length tpl) (List.length segs)
          && match tpl with [] => true | _ => negb (is_tail (last tpl {| v_tk := TLit []; v_verb := None |})) end)
    && is_some (loop_counts tpl segs pc sc).
Proof.
  revert segs pc sc. induction tpl as [|t tpl IH]; intros segs pc sc Hwf.
  - cbn. destruct segs; reflexivity.
  - destruct segs as [|s segs].
    + cbn [admits_path loop_counts is_some]. now rewrite andb_false_r.
    + cbn [admits_path loop_counts]. destruct (is_tail t) eqn:Et.
      * rewrite (wf_positions_tail_last t tpl Hwf Et). cbn [last]. rewrite Et. cbn. now rewrite andb_false_r.
      * destruct (vtok_admits O t s); cbn [andb is_some]; [|now rewrite andb_false_r].
        rewrite (IH segs (next_pc t pc) (next_sc t sc) (wf_positions_tail (t :: tpl) Hwf)).
        f_equal. cbn [List.length]. change (S (List.length tpl) <? S (List.length segs)) with (List.length tpl <? List.length segs).
        destruct tpl as [|t' tpl]; [cbn [last]; rewrite Et; reflexivity|]. reflexivity.
Qed.

(* the raw test for the tail wildcard agrees with the structural reading *)
Lemma skipn_star_slice (s : str) c :
  skipn (c + 1) s = L "*}" -> slice s (c + 1) (List.length s - 1) = L "*".
Proof.
  intros H. unfold slice. rewrite H.
  assert (Hl : List.length s = c + 1 + 2).
  { apply (f_equal (@List.length _)) in H. rewrite skipn_length in H. cbn in H.
    assert (c + 1 <= List.length s \/ List.length s < c + 1) as [?|?] by lia; lia. }
  rewrite Hl. replace (c + 1 + 2 - 1 - (c + 1)) with 1 by lia. reflexivity.
Qed.

Lemma last_app_cons {A} (l : list A) x d : last (l ++ [x]) d = x.
Proof. induction l as [|y l IH]; [reflexivity|]. cbn [app]. destruct (l ++ [x]) eqn:E; [destruct l; discriminate|]. cbn [last]. exact IH. Qed.

Lemma tail_token_iff hcv rt :
  wf_tok_str hcv rt = true -> tail_has_no_verb (parse_tok hcv rt) = true ->
  is_tail_wildcard_token rt = is_tail (parse_tok hcv rt).
Proof.
  unfold wf_tok_str. intros Hwf Htv. set (t := parse_tok hcv rt) in *.
  apply andb_true_iff in Hwf as [Hr Hk]. apply str_eqb_eq in Hr.
  destruct (v_verb t) as [v|] eqn:Ev.
  - (* a verb: the token ends in letters, so it cannot end in "*}" *)
    assert (Hnt : is_tail t = false).
    { unfold tail_has_no_verb in Htv. rewrite Ev in Htv. now destruct (is_tail t). }
    rewrite Hnt.
    assert (Hs : exists b, verb_split rt = Some (b, v)).
    { subst t. unfold parse_tok in *. destruct hcv; [|discriminate Ev].
      destruct (verb_split rt) as [[b v']|]; [|discriminate Ev]. cbn in Ev. injection Ev as ->. now exists b. }
    destruct Hs as (b & Hvs). destruct (verb_split_inv _ _ _ Hvs) as (Hrt & Hvne & Hvl).
    unfold is_tail_wildcard_token. destruct (has_prefix rt [lbrace]); [|reflexivity]. cbn [andb].
    destruct (index_char rt colon) as [c|] eqn:Hc; [|reflexivity].
    apply str_eqb_neq. intros Hsk.
    (* the last byte of rt is the last letter of v, but also '}' *)
    destruct (exists_last Hvne) as (v0 & vl & Hv).
    assert (Hl1 : last rt colon = vl).
    { rewrite Hrt, Hv. rewrite app_comm_cons, app_assoc. apply last_app_cons. }
    assert (Hl2 : last rt colon = rbrace).
    { rewrite <- (firstn_skipn (c + 1) rt), Hsk. change (L "*}") with ([ "*"%char ] ++ [rbrace]).
      rewrite app_assoc. apply last_app_cons. }
    rewrite Hv, forallb_app in Hvl. apply andb_true_iff in Hvl as [_ Hvl]. cbn in Hvl.
    rewrite <- Hl1, Hl2 in Hvl. discriminate.
  - assert (Htk : v_tk t = parse_tk rt).
    { subst t. unfold parse_tok in *. destruct hcv; [|reflexivity].
      destruct (verb_split rt) as [[b v']|]; [discriminate Ev|reflexivity]. }
    unfold is_tail. rewrite Htk. unfold is_tail_wildcard_token.
    destruct (is_tail_wildcard_token rt) eqn:Eraw.
    + (* raw test true: the parse is a tail *)
      unfold is_tail_wildcard_token in Eraw. apply andb_true_iff in Eraw as [Hp Hx]. rewrite Hp. cbn [andb].
      destruct (index_char rt colon) as [c|] eqn:Hc; [|discriminate Hx]. rewrite Hx.
      apply str_eqb_eq in Hx. unfold parse_tk. rewrite Hp, Hc, (skipn_star_slice rt c Hx). reflexivity.
    + (* raw test false: the parse is not a tail (uses the rendering) *)
      destruct (parse_tk rt) as [s|n|n re|n suf|n] eqn:Ep; try (unfold is_tail_wildcard_token in Eraw; exact Eraw).
      exfalso. unfold render in Hr. rewrite Ev, Htk, app_nil_r in Hr. cbn [render_tk] in Hr.
      rewrite Htk in Hk. cbn [wf_tk] in Hk. unfold wf_name in Hk.
      apply andb_true_iff in Hk as [Hk _]. apply andb_true_iff in Hk as [Hk _].
      unfold no_char in Hk. apply negb_true_iff in Hk.
      unfold is_tail_wildcard_token in Eraw. rewrite <- Hr in Eraw.
      change ([lbrace] ++ n ++ L ":*}") with (lbrace :: (n ++ colon :: L "*}")) in Eraw.
      rewrite has_prefix_cons_same in Eraw. cbn [has_prefix andb] in Eraw.
      rewrite index_char_cons in Eraw. change (Ascii.eqb lbrace colon) with false in Eraw.
      rewrite index_char_app_notin in Eraw by exact Hk. cbn [option_map] in Eraw.
      replace (S (List.length n) + 1) with (S (S (List.length n))) in Eraw by lia.
      rewrite skipn_cons in Eraw.
      rewrite skipn_app, (skipn_all2 n) in Eraw by lia.
      replace (S (List.length n) - List.length n) with 1 in Eraw by lia. cbn in Eraw. discriminate.
Qed.

(* matchesRouteByPathTokens decides exactly admits_path on well-formed templates *)
Theorem matches_route_iff_admits hcv rts qts :
  wf_template hcv rts = true ->
  is_some (matches_route_by_path_tokens O rts qts hcv)
  = admits_path O (map (parse_tok hcv) rts) qts.
Proof.
  unfold wf_template. intros Hwf. apply andb_true_iff in Hwf as [Hw Hpos].
  pose proof (wf_positions_no_verb_on_tail _ Hpos) as Htv.
  rewrite (admits_path_loop _ qts 0 0 Hpos). unfold matches_route_by_path_tokens.
  rewrite map_length.
  assert (Hlast : match rts with [] => true | _ => negb (is_tail_wildcard_token (last rts [])) end
                  = match map (parse_tok hcv) rts with [] => true
                    | _ => negb (is_tail (last (map (parse_tok hcv) rts) {| v_tk := TLit []; v_verb := None |})) end).
  { destruct rts as [|r0 rts']; [reflexivity|].
    destruct (exists_last (l := r0 :: rts') ltac:(discriminate)) as (init & lst & Hl).
    rewrite Hl in *. rewrite map_app. cbn [map]. rewrite !last_app_cons.
    rewrite forallb_app in Hw. apply andb_true_iff in Hw as [_ Hw]. cbn in Hw. rewrite andb_true_r in Hw.
    rewrite map_app, forallb_app in Htv. apply andb_true_iff in Htv as [_ Htv]. cbn in Htv. rewrite andb_true_r in Htv.
    rewrite (tail_token_iff hcv lst Hw Htv).
    destruct (map (parse_tok hcv) init ++ [parse_tok hcv lst]) eqn:E; [destruct (map (parse_tok hcv) init); discriminate|reflexivity]. }
  rewrite <- Hlast.
  destruct (Nat.ltb (List.length rts) (List.length qts) && _); cbn [negb andb]; [reflexivity|].
  now rewrite (match_tokens_eq hcv rts qts 0 0 Hw Htv).
Qed.

End P.

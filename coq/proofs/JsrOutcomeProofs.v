(* JsrOutcomeProofs.v — RouterJSR311: the matcher is also COMPLETE for structural admission, hence the
   candidates are exactly the admitting routes and the outcome is the declarative cascade (C02). *)
From Model Require Import Str Sexp Http Template Table Curly DetectRoute Jsr311 Router.
From Spec Require Import RouteSpec.
From Proofs Require Import StrFacts RouterProofs OutcomeProofs JsrProofs SlashJsrProofs.
From Coq Require Import Lia Permutation.

Section JsrOutcome.
Variable O : oracles.

Lemma split_single_empty p : split slash p = [[]] -> p = [].
Proof.
  destruct p as [|c p]; [reflexivity|]. cbn. destruct (Ascii.eqb c slash).
  - intros H. injection H as H. now contradiction (split_not_nil slash p).
  - destruct (split slash p); discriminate.
Qed.

Lemma rel_ok e v seg :
  tok_rel e v -> is_tail v = false -> tk_admits_jsr O (v_tk v) seg = true ->
  e <> EAll /\
  (match e with ELit s => str_eqb seg s | EVar => negb (str_eqb seg []) | ERx re => o_rxfull O re seg | EAll => false end) = true.
Proof.
  unfold tok_rel, is_tail. destruct (v_tk v); cbn; intros H Ht Ha; try discriminate; injection H as <-; split; auto; discriminate.
Qed.

Lemma rel_tail e v : tok_rel e v -> is_tail v = true -> e = EAll.
Proof. unfold tok_rel, is_tail. destruct (v_tk v); cbn; intros H Ht; try discriminate. now injection H as <-. Qed.

Lemma admits_segs_nil_tpl tpl : jsr_admits_segs O tpl [] = true -> tpl = [].
Proof. destruct tpl; [reflexivity|discriminate]. Qed.

(* the route expression accepts what the structural reading admits *)
Lemma match_route_complete rb : forall tt p1,
  Forall2 tok_rel rb tt -> jsr_admits_segs O tt (split slash p1) = true ->
  exists c2 f2, jsr_match O rb (slash :: p1) = Some (c2, f2) /\ final_ok f2 = true.
Proof.
  induction rb as [|e rb IH]; intros tt p1 Hrel Ha; inversion Hrel as [|? v ? vt Hv Hrest]; subst.
  - cbn [jsr_admits_segs] in Ha. destruct (split slash p1) as [|s0 [|s1 l]] eqn:Es; try discriminate Ha.
    + now contradiction (split_not_nil slash p1).
    + destruct s0; [|discriminate Ha]. apply split_single_empty in Es. subst p1.
      exists [], [slash]. split; reflexivity.
    + destruct s0; discriminate Ha.
  - destruct (split slash p1) as [|s0 segs0] eqn:Esp; [now contradiction (split_not_nil slash p1)|].
    cbn [jsr_admits_segs] in Ha. cbn [jsr_match]. rewrite Ascii.eqb_refl. cbn [negb].
    destruct (is_tail v) eqn:Et.
    + destruct vt; [|discriminate Ha]. inversion Hrest; subst. rewrite (rel_tail e v Hv Et).
      exists [p1], []. split; reflexivity.
    + apply andb_true_iff in Ha as [Ha1 Ha2]. destruct (rel_ok e v s0 Hv Et Ha1) as [Hne Hok].
      destruct (span_seg p1) as [seg rest] eqn:Es.
      destruct (span_seg_split p1 seg rest Es) as [[-> Hs]|(r1 & -> & Hs)]; rewrite Hs in Esp; injection Esp as <- <-.
      * apply admits_segs_nil_tpl in Ha2. subst vt. inversion Hrest; subst.
        destruct e; try (now contradiction Hne); rewrite Hok; cbn [negb jsr_match]; eexists _, []; split; reflexivity.
      * destruct (IH vt r1 Hrest Ha2) as (c2 & f2 & Hm & Hf).
        destruct e; try (now contradiction Hne); rewrite Hok; cbn [negb]; rewrite Hm; eexists _, f2; split; auto.
Qed.

(* ... also after the root expression consumed its segments *)
Lemma match_two_phase_complete ra : forall rt p1 c1 f1 rb tt,
  Forall2 tok_rel ra rt -> Forall2 tok_rel rb tt ->
  jsr_match O ra (slash :: p1) = Some (c1, f1) ->
  jsr_admits_segs O (rt ++ tt) (split slash p1) = true ->
  exists c2 f2, jsr_match O rb f1 = Some (c2, f2) /\ final_ok f2 = true.
Proof.
  induction ra as [|e ra IH]; intros rt p1 c1 f1 rb tt Hra Hrb Hm1 Ha; inversion Hra as [|? v ? vt Hv Hrest]; subst; cbn [jsr_match] in Hm1.
  - rewrite Ascii.eqb_refl in Hm1. injection Hm1 as <- <-.
    cbn [app] in *. eapply match_route_complete; eauto.
  - rewrite Ascii.eqb_refl in Hm1. cbn [negb] in Hm1.
    destruct (split slash p1) as [|s0 segs0] eqn:Esp; [now contradiction (split_not_nil slash p1)|].
    cbn [app jsr_admits_segs] in Ha.
    destruct (is_tail v) eqn:Et.
    + (* the root ends in a tail wildcard: the route template is empty *)
      destruct (vt ++ tt) as [|x l] eqn:Evt; [|discriminate Ha]. apply app_eq_nil in Evt as [-> ->].
      inversion Hrest; subst. inversion Hrb; subst. rewrite (rel_tail e v Hv Et) in Hm1.
      injection Hm1 as <- <-. exists [], []. split; reflexivity.
    + apply andb_true_iff in Ha as [Ha1 Ha2]. destruct (rel_ok e v s0 Hv Et Ha1) as [Hne Hok].
      destruct (span_seg p1) as [seg rest] eqn:Es.
      assert (Hm1' : exists c1', jsr_match O ra rest = Some (c1', f1) /\ s0 = s0).
      { destruct (span_seg_split p1 seg rest Es) as [[-> Hs]|(r1 & -> & Hs)]; rewrite Hs in Esp; injection Esp as <- <-;
          destruct e; try (now contradiction Hne); rewrite Hok in Hm1; cbn [negb] in Hm1;
          match type of Hm1 with match ?X with _ => _ end = _ => destruct X as [[c1' f1']|] eqn:Em; [|discriminate Hm1] end;
          injection Hm1 as <- <-; eauto. }
      destruct Hm1' as (c1' & Hm1' & _).
      destruct (span_seg_split p1 seg rest Es) as [[-> Hs]|(r1 & -> & Hs)]; rewrite Hs in Esp; injection Esp as <- <-.
      * (* the path ends here *)
        apply admits_segs_nil_tpl in Ha2. apply app_eq_nil in Ha2 as [-> ->]. inversion Hrest; subst. inversion Hrb; subst.
        cbn in Hm1'. injection Hm1' as <- <-. exists [], []. split; reflexivity.
      * eapply IH; eauto.
Qed.

(* the candidates of the dispatcher are exactly the routes whose template admits the path *)
Definition jsr_all_agree (w : service) : bool :=
  tokens_agree (s_root w) && forallb (fun r => tokens_agree (r_rel r)) (s_routes w).

Lemma jsr_route_iff w r path caps fin :
  tokens_agree (s_root w) = true -> tokens_agree (r_rel r) = true ->
  jsr_match O (pe_toks (path_expression (s_root w))) path = Some (caps, fin) ->
  (match jsr_match O (pe_toks (path_expression (r_rel r))) fin with
   | Some (_, f2) => final_ok f2 | None => false end) = jsr_admits_path O w r path.
Proof.
  intros Hw Hr Hm1. pose proof (tokens_agree_rel _ Hw) as Rw. pose proof (tokens_agree_rel _ Hr) as Rr.
  destruct (jsr_admits_path O w r path) eqn:Ea.
  - (* admitted -> matched *)
    unfold jsr_admits_path in Ea. destruct path as [|ch p1].
    + destruct (jsr_tpl (s_root w)) as [|x l] eqn:E1; [|discriminate Ea]. destruct (jsr_tpl (r_rel r)) as [|y l2] eqn:E2; [|discriminate Ea].
      assert (E3 : pe_toks (path_expression (s_root w)) = []) by (inversion Rw as [H0|]; symmetry; exact H0).
      rewrite E3 in Hm1. cbn in Hm1. injection Hm1 as <- <-.
      assert (E4 : pe_toks (path_expression (r_rel r)) = []) by (inversion Rr as [H0|]; symmetry; exact H0).
      rewrite E4. reflexivity.
    + pose proof (jsr_match_nonempty_path O _ _ _ _ _ Hm1). subst ch. unfold path_segs in Ea. rewrite Ascii.eqb_refl in Ea.
      destruct (match_two_phase_complete _ _ _ _ _ _ _ Rw Rr Hm1 Ea) as (c2 & f2 & Hm2 & Hf). now rewrite Hm2.
  - (* matched -> admitted, by soundness *)
    destruct (jsr_match O (pe_toks (path_expression (r_rel r))) fin) as [[c2 f2]|] eqn:Hm2; [|reflexivity].
    destruct (final_ok f2) eqn:Hf; [|reflexivity]. exfalso.
    assert (jsr_admits_path O w r path = true); [|congruence].
    unfold jsr_admits_path. destruct path as [|ch p1].
    + destruct (pe_toks (path_expression (s_root w))) as [|e l] eqn:E1; [|discriminate Hm1]. cbn in Hm1. injection Hm1 as <- <-.
      destruct (pe_toks (path_expression (r_rel r))) as [|e l] eqn:E2; [|discriminate Hm2].
      inversion Rw; inversion Rr; reflexivity.
    + pose proof (jsr_match_nonempty_path O _ _ _ _ _ Hm1). subst ch. unfold path_segs. rewrite Ascii.eqb_refl.
      exact (match_two_phase O _ _ _ _ _ _ _ _ _ Rw Rr Hm1 Hm2 Hf).
Qed.

Lemma jsr_candidates_perm w path caps fin :
  jsr_all_agree w = true ->
  jsr_match O (pe_toks (path_expression (s_root w))) path = Some (caps, fin) ->
  Permutation (map rc_route (jsr_select_routes O w fin))
              (filter (fun r => jsr_admits_path O w r path) (s_routes w)).
Proof.
  intros Hag Hm1. apply andb_true_iff in Hag as [Hw Hrs]. unfold jsr_select_routes. rewrite (sort_desc_perm rc_lt).
  induction (s_routes w) as [|r rs IH]; [constructor|].
  cbn [forallb] in Hrs. apply andb_true_iff in Hrs as [Hr Hrest].
  cbn [flat_map filter]. rewrite map_app. rewrite <- (jsr_route_iff w r path caps fin Hw Hr Hm1). cbn zeta.
  destruct (jsr_match O (pe_toks (path_expression (r_rel r))) fin) as [[c2 f2]|]; [|now apply IH].
  destruct (final_ok f2); cbn [map app]; [constructor|]; now apply IH.
Qed.

(* C02 for RouterJSR311 *)
Definition jsr_expected (t : table) (req : request) : soutcome :=
  match detect_dispatcher O (rq_path req) (t_services t) with
  | None => SStatus 404 []
  | Some (w, _) => spec_cascade (filter (fun r => jsr_admits_path O w r (rq_path req)) (s_routes w)) req
  end.

Definition jsr_best_agree (t : table) (req : request) : bool :=
  match detect_dispatcher O (rq_path req) (t_services t) with
  | None => true
  | Some (w, _) => jsr_all_agree w
  end.

Theorem jsr_outcome_exact t req :
  t_router t = Jsr311 -> jsr_best_agree t req = true ->
  route_request O t req <> RPanic /\
  meets (jsr_expected t req) (routed_view (route_request O t req)) = true.
Proof.
  intros Ht Hag. unfold jsr_best_agree, jsr_expected in *.
  destruct (select_route O t req) as [[w r]|e] eqn:Es.
  - split; [eapply jsr_selected_never_panics; eauto|].
    pose proof (jsr_selected_never_panics O t req w r Ht Es) as Hnp.
    unfold route_request in *. rewrite Es in *.
    destruct (extract_parameters O t w r (rq_path req)) as [ps|] eqn:Ee; [|now contradiction Hnp].
    unfold select_route in Es. rewrite Ht in Es.
    destruct (detect_dispatcher O (rq_path req) (t_services t)) as [[w0 fin]|] eqn:Ed; [|discriminate Es].
    destruct (jsr_select_routes O w0 fin) as [|c0 cs] eqn:Ec; [discriminate Es|]. rewrite <- Ec in Es.
    destruct (detect_route (map rc_route (jsr_select_routes O w0 fin)) req) as [r0|e0] eqn:Edr; [|discriminate Es].
    injection Es as -> ->.
    destruct (detect_dispatcher_sound O _ _ _ _ Ed) as (_ & caps & Hm1).
    rewrite <- (spec_cascade_perm _ _ req _ (jsr_candidates_perm w _ caps fin Hag Hm1)).
    pose proof (detect_route_meets (map rc_route (jsr_select_routes O w fin)) req) as Hd. rewrite Edr in Hd. exact Hd.
  - unfold route_request. rewrite Es. split; [discriminate|].
    unfold select_route in Es. rewrite Ht in Es.
    destruct (detect_dispatcher O (rq_path req) (t_services t)) as [[w0 fin]|] eqn:Ed.
    2:{ injection Es as <-. reflexivity. }
    destruct (detect_dispatcher_sound O _ _ _ _ Ed) as (_ & caps & Hm1).
    rewrite <- (spec_cascade_perm _ _ req _ (jsr_candidates_perm w0 _ caps fin Hag Hm1)).
    destruct (jsr_select_routes O w0 fin) as [|c0 cs] eqn:Ec.
    + injection Es as <-. reflexivity.
    + rewrite <- Ec in *.
      pose proof (detect_route_meets (map rc_route (jsr_select_routes O w0 fin)) req) as Hd.
      destruct (detect_route (map rc_route (jsr_select_routes O w0 fin)) req) as [r0|e0] eqn:Edr; [discriminate Es|].
      injection Es as <-. destruct e0; exact Hd.
Qed.

End JsrOutcome.

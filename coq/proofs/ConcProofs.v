(* ConcProofs.v — C12: a lock table that passes [lockset_ok] has no data race and no
   deadlock under any interleaving *)
From Model Require Import Conc.
From Coq Require Import List Arith Bool Lia String.
Import ListNotations.

Lemma nth_error_set_nth {A} (l : list A) i j x :
  nth_error (set_nth i x l) j =
    if Nat.eqb i j then (match nth_error l i with Some _ => Some x | None => None end) else nth_error l j.
Proof.
  revert i j. induction l as [|y l IH]; intros i j; cbn.
  - destruct (Nat.eqb i j); destruct i, j; reflexivity.
  - destruct i, j; cbn; try reflexivity. apply IH.
Qed.

Lemma hget_hset_same h l v : hget (hset h l v) l = v.
Proof. destruct h, l; reflexivity. Qed.
Lemma hget_hset_other h l l' v : l <> l' -> hget (hset h l v) l' = hget h l'.
Proof. destruct h, l, l'; intros H; try reflexivity; now contradiction H. Qed.
Lemma lk_dec (a b : lk) : {a = b} + {a <> b}.
Proof. decide equality. Qed.

(* ---- the two invariants ---- *)
Definition excl (ts : list thread) : Prop :=
  forall i j ti tj l, i <> j -> nth_error ts i = Some ti -> nth_error ts j = Some tj ->
    hget (fst ti) l = Some W -> hget (fst tj) l = None.
Definition paths_ok (ts : list thread) : Prop :=
  forall i t, nth_error ts i = Some t -> check_path (fst t) (snd t) = true.

Lemma others_allow_from_spec k ts i l m :
  others_allow_from k ts i l m = true ->
  forall j tj, nth_error ts j = Some tj -> k + j <> i -> compat (fst tj) l m = true.
Proof.
  revert k. induction ts as [|t ts IH]; intros k H j tj Hj Hne; [destruct j; discriminate|].
  cbn in H. apply andb_true_iff in H as [H1 H2]. destruct j as [|j]; cbn in Hj.
  - injection Hj as <-. apply orb_true_iff in H1 as [H1|H1]; [|exact H1].
    apply Nat.eqb_eq in H1. lia.
  - apply (IH (S k) H2 j tj Hj). lia.
Qed.

Lemma others_allow_spec ts i l m :
  others_allow ts i l m = true -> forall j tj, nth_error ts j = Some tj -> j <> i -> compat (fst tj) l m = true.
Proof. intros H j tj Hj Hne. apply (others_allow_from_spec 0 ts i l m H j tj Hj). lia. Qed.

Lemma others_allow_from_complete k ts i l m :
  (forall j tj, nth_error ts j = Some tj -> k + j <> i -> compat (fst tj) l m = true) ->
  others_allow_from k ts i l m = true.
Proof.
  revert k. induction ts as [|t ts IH]; intros k H; [reflexivity|]. cbn. apply andb_true_iff. split.
  - destruct (Nat.eqb_spec i k) as [->|Hne]; [reflexivity|]. cbn. apply (H 0 t eq_refl). lia.
  - apply IH. intros j tj Hj Hne. apply (H (S j) tj Hj). lia.
Qed.

Lemma cstep_inv ts i ts' :
  excl ts -> paths_ok ts -> cstep ts i = Some ts' -> excl ts' /\ paths_ok ts'.
Proof.
  intros Hex Hp. unfold cstep. destruct (nth_error ts i) as [[h [|e p]]|] eqn:Ei; try discriminate.
  pose proof (Hp i _ Ei) as Hck. cbn [fst snd] in Hck.
  assert (Hupd : forall h', (forall j tj, j <> i -> nth_error (set_nth i (h', p) ts) j = Some tj -> nth_error ts j = Some tj) /\
                            nth_error (set_nth i (h', p) ts) i = Some (h', p)).
  { intros h'. split.
    - intros j tj Hne. rewrite nth_error_set_nth. destruct (Nat.eqb_spec i j); [congruence|auto].
    - rewrite nth_error_set_nth, Nat.eqb_refl. now rewrite Ei. }
  assert (Hframe : forall h', check_path h' p = true ->
             (forall l j tj, j <> i -> nth_error ts j = Some tj ->
                 (hget h' l = Some W -> hget (fst tj) l = None) /\ (hget (fst tj) l = Some W -> hget h' l = None)) ->
             excl (set_nth i (h', p) ts) /\ paths_ok (set_nth i (h', p) ts)).
  { intros h' Hck' Hrel. destruct (Hupd h') as [Ho Hi]. split.
    - intros a b ta tb l Hab Ha Hb Hw.
      destruct (Nat.eq_dec a i) as [->|Hai]; destruct (Nat.eq_dec b i) as [->|Hbi]; try congruence.
      + rewrite Hi in Ha. injection Ha as <-. apply (Hrel l b tb Hbi (Ho b tb Hbi Hb)). exact Hw.
      + rewrite Hi in Hb. injection Hb as <-. apply (Hrel l a ta Hai (Ho a ta Hai Ha)). exact Hw.
      + eapply Hex; [exact Hab| apply Ho; eauto | apply Ho; eauto | exact Hw].
    - intros a ta Ha. destruct (Nat.eq_dec a i) as [->|Hai].
      + rewrite Hi in Ha. injection Ha as <-. exact Hck'.
      + apply Hp with a. apply Ho; auto. }
  destruct e as [l m|l m|x s|x s|s]; cbn [check_path] in Hck.
  - (* Acq *)
    destruct (hget h l) eqn:Eh; [discriminate|]. apply andb_true_iff in Hck as [_ Hck].
    destruct (others_allow ts i l m) eqn:Eo; [|discriminate]. intros H; injection H as <-.
    apply Hframe; [exact Hck|]. intros l' j tj Hne Hj.
    pose proof (others_allow_spec ts i l m Eo j tj Hj Hne) as Hc. unfold compat in Hc.
    destruct (lk_dec l l') as [<-|Hll].
    + rewrite hget_hset_same. split.
      * intros Hm. injection Hm as ->. destruct (hget (fst tj) l) as [[|]|]; try discriminate; reflexivity.
      * intros Hw. rewrite Hw in Hc. destruct m; discriminate.
    + rewrite (hget_hset_other h l l' _ Hll). split.
      * intros Hw. eapply (Hex i j (h, Acq l m :: p) tj l'); eauto.
      * intros Hw. eapply (Hex j i tj (h, Acq l m :: p) l'); eauto.
  - (* Rel *)
    destruct (hget h l) eqn:Eh; [|discriminate]. apply andb_true_iff in Hck as [_ Hck].
    intros H; injection H as <-. apply Hframe; [exact Hck|]. intros l' j tj Hne Hj.
    destruct (lk_dec l l') as [<-|Hll].
    + rewrite hget_hset_same. split; [discriminate|reflexivity].
    + rewrite (hget_hset_other h l l' _ Hll). split.
      * intros Hw. eapply (Hex i j (h, Rel l m :: p) tj l'); eauto.
      * intros Hw. eapply (Hex j i tj (h, Rel l m :: p) l'); eauto.
  - destruct (hget h (guard x)) eqn:Eh; [|discriminate].
    intros H; injection H as <-. apply Hframe; [exact Hck|]. intros l' j tj Hne Hj. split.
    + intros Hw. eapply (Hex i j (h, Rd x s :: p) tj l'); eauto.
    + intros Hw. eapply (Hex j i tj (h, Rd x s :: p) l'); eauto.
  - destruct (hget h (guard x)) as [[|]|] eqn:Eh; try discriminate.
    intros H; injection H as <-. apply Hframe; [exact Hck|]. intros l' j tj Hne Hj. split.
    + intros Hw. eapply (Hex i j (h, Wr x s :: p) tj l'); eauto.
    + intros Hw. eapply (Hex j i tj (h, Wr x s :: p) l'); eauto.
  - destruct h as [[|] [|]]; try discriminate.
    intros H; injection H as <-. apply Hframe; [exact Hck|]. intros l' j tj Hne Hj. split.
    + intros Hw. eapply (Hex i j (None, None, User s :: p) tj l'); eauto.
    + intros Hw. eapply (Hex j i tj (None, None, User s :: p) l'); eauto.
Qed.

Lemma crun_inv sched ts : excl ts -> paths_ok ts -> excl (crun ts sched) /\ paths_ok (crun ts sched).
Proof.
  revert ts. induction sched as [|i rest IH]; intros ts He Hp; cbn; [auto|].
  destruct (cstep ts i) as [ts'|] eqn:E; [|auto]. destruct (cstep_inv ts i ts' He Hp E). auto.
Qed.

Definition init_threads (paths : list (list ev)) : list thread := map (fun p => (hempty, p)) paths.

Lemma init_inv paths :
  forallb (check_path hempty) paths = true -> excl (init_threads paths) /\ paths_ok (init_threads paths).
Proof.
  intros H. split.
  - intros i j ti tj l _ Hi _ Hw. unfold init_threads in Hi. rewrite nth_error_map in Hi.
    destruct (nth_error paths i); [|discriminate]. injection Hi as <-. destruct l; discriminate.
  - intros i t Hi. unfold init_threads in Hi. rewrite nth_error_map in Hi.
    destruct (nth_error paths i) as [p|] eqn:E; [|discriminate]. injection Hi as <-. cbn.
    rewrite forallb_forall in H. apply H. eauto using nth_error_In.
Qed.

(* ---- no data race ---- *)
Lemma no_conflict ts i j ti tj a b :
  excl ts -> paths_ok ts -> i <> j -> nth_error ts i = Some ti -> nth_error ts j = Some tj ->
  next_ev ti = Some a -> next_ev tj = Some b -> conflicting a b = false.
Proof.
  intros He Hp Hij Hi Hj Ha Hb.
  pose proof (Hp i ti Hi) as Ci. pose proof (Hp j tj Hj) as Cj.
  destruct ti as [hi [|a' pi]]; [discriminate|]. destruct tj as [hj [|b' pj]]; [discriminate|].
  cbn in Ha, Hb. injection Ha as ->. injection Hb as ->. cbn [fst snd] in *.
  assert (Hloc : forall x y, loc_eqb x y = true -> x = y) by (intros [] []; cbn; congruence).
  destruct a as [| |x s|x s|s], b as [| |y s'|y s'|s']; try reflexivity; cbn [conflicting];
    destruct (loc_eqb x y) eqn:Exy; try reflexivity; apply Hloc in Exy; subst y; cbn [check_path] in Ci, Cj; exfalso.
  - (* Rd / Wr *)
    destruct (hget hj (guard x)) as [[|]|] eqn:Ej; try discriminate.
    pose proof (He j i _ _ (guard x) (not_eq_sym Hij) Hj Hi Ej) as H0. cbn in H0. now rewrite H0 in Ci.
  - (* Wr / Rd *)
    destruct (hget hi (guard x)) as [[|]|] eqn:Ei; try discriminate.
    pose proof (He i j _ _ (guard x) Hij Hi Hj Ei) as H0. cbn in H0. now rewrite H0 in Cj.
  - (* Wr / Wr *)
    destruct (hget hi (guard x)) as [[|]|] eqn:Ei; try discriminate.
    pose proof (He i j _ _ (guard x) Hij Hi Hj Ei) as H0. cbn in H0. now rewrite H0 in Cj.
Qed.

(* a table that passes the check: under EVERY schedule of ANY number of threads each running
   any of its paths, no two threads are ever about to perform conflicting accesses *)
Theorem lockset_sound (paths : list (list ev)) (sched : list nat) i j ti tj a b :
  forallb (check_path hempty) paths = true ->
  let ts := crun (init_threads paths) sched in
  i <> j -> nth_error ts i = Some ti -> nth_error ts j = Some tj ->
  next_ev ti = Some a -> next_ev tj = Some b -> conflicting a b = false.
Proof.
  intros H ts. destruct (init_inv paths H) as [He Hp]. destruct (crun_inv sched _ He Hp) as [He' Hp'].
  intros. eapply no_conflict; eauto.
Qed.

(* ---- no deadlock ---- *)
Definition is_acq (t : thread) : option (lk * md) :=
  match snd t with Acq l m :: _ => Some (l, m) | _ => None end.

Lemma holder_cannot_wait ts j tj l l' m' :
  paths_ok ts -> nth_error ts j = Some tj -> hget (fst tj) l <> None -> is_acq tj = Some (l', m') ->
  l = WS /\ l' = RT.
Proof.
  intros Hp Hj Hh Ha. pose proof (Hp j tj Hj) as C. destruct tj as [h [|e p]]; [discriminate|].
  cbn in Ha. destruct e; try discriminate. injection Ha as -> ->. cbn [fst snd check_path] in *.
  destruct (hget h l') eqn:E1; [discriminate|]. apply andb_true_iff in C as [C _].
  destruct l, l'; try tauto; try (now contradiction Hh).
  - destruct (hget h RT); [discriminate|now contradiction Hh].
Qed.

Lemma unfinished_holder ts j tj l :
  paths_ok ts -> nth_error ts j = Some tj -> hget (fst tj) l <> None -> snd tj <> [].
Proof.
  intros Hp Hj Hh E. pose proof (Hp j tj Hj) as C. rewrite E in C. cbn in C.
  destruct (fst tj) as [[|] [|]]; try discriminate. destruct l; now contradiction Hh.
Qed.

Lemma non_acq_steps ts i h e p :
  nth_error ts i = Some (h, e :: p) -> (forall l m, e <> Acq l m) -> exists ts', cstep ts i = Some ts'.
Proof.
  intros Hi Hn. unfold cstep. rewrite Hi. destruct e; eauto. now contradiction (Hn l m).
Qed.

(* some thread can always move unless all have finished *)
Theorem no_deadlock ts :
  excl ts -> paths_ok ts ->
  (exists i t, nth_error ts i = Some t /\ snd t <> []) ->
  exists i ts', cstep ts i = Some ts'.
Proof.
  intros He Hp (i0 & t0 & Hi0 & Hu0).
  (* strengthen: a thread whose next event is an acquisition of [RT] can move, or a holder of RT can *)
  assert (HRT : forall i h m p, nth_error ts i = Some (h, Acq RT m :: p) -> exists k ts', cstep ts k = Some ts').
  { intros i h m p Hi. destruct (others_allow ts i RT m) eqn:Eo.
    - exists i. unfold cstep. rewrite Hi, Eo. eauto.
    - (* someone incompatible holds RT: that thread is unfinished and its next event is not an acquisition *)
      assert (Hex : exists j tj, nth_error ts j = Some tj /\ j <> i /\ hget (fst tj) RT <> None).
      { destruct (others_allow_from 0 ts i RT m) eqn:E0; [unfold others_allow in Eo; congruence|].
        clear Eo. assert (G : forall k l0, others_allow_from k l0 i RT m = false ->
                         exists j tj, nth_error l0 j = Some tj /\ k + j <> i /\ hget (fst tj) RT <> None).
        { intros k l0. revert k. induction l0 as [|t l0 IH]; intros k Hf; [discriminate|]. cbn in Hf.
          apply andb_false_iff in Hf as [Hf|Hf].
          - apply orb_false_iff in Hf as [H1 H2]. exists 0, t. split; [reflexivity|]. split.
            + apply Nat.eqb_neq in H1. lia.
            + unfold compat in H2. destruct (hget (fst t) RT); [discriminate|discriminate].
          - destruct (IH (S k) Hf) as (j & tj & A & B & C). exists (S j), tj. split; [exact A|]. split; [lia|exact C]. }
        destruct (G 0 ts E0) as (j & tj & A & B & C). exists j, tj. split; [exact A|]. split; [lia|exact C]. }
      destruct Hex as (j & tj & Hj & Hne & Hh).
      pose proof (unfinished_holder ts j tj RT Hp Hj Hh) as Hu.
      destruct tj as [hj [|e pj]]; [now contradiction Hu|].
      destruct (is_acq (hj, e :: pj)) as [[l' m']|] eqn:Ea.
      + destruct (holder_cannot_wait ts j _ RT l' m' Hp Hj Hh Ea) as [F _]. discriminate F.
      + exists j. eapply non_acq_steps; [exact Hj|]. intros l1 m1 ->. discriminate Ea. }
  assert (HWS : forall i h m p, nth_error ts i = Some (h, Acq WS m :: p) -> exists k ts', cstep ts k = Some ts').
  { intros i h m p Hi. destruct (others_allow ts i WS m) eqn:Eo.
    - exists i. unfold cstep. rewrite Hi, Eo. eauto.
    - assert (Hex : exists j tj, nth_error ts j = Some tj /\ j <> i /\ hget (fst tj) WS <> None).
      { destruct (others_allow_from 0 ts i WS m) eqn:E0; [unfold others_allow in Eo; congruence|].
        clear Eo. assert (G : forall k l0, others_allow_from k l0 i WS m = false ->
                         exists j tj, nth_error l0 j = Some tj /\ k + j <> i /\ hget (fst tj) WS <> None).
        { intros k l0. revert k. induction l0 as [|t l0 IH]; intros k Hf; [discriminate|]. cbn in Hf.
          apply andb_false_iff in Hf as [Hf|Hf].
          - apply orb_false_iff in Hf as [H1 H2]. exists 0, t. split; [reflexivity|]. split.
            + apply Nat.eqb_neq in H1. lia.
            + unfold compat in H2. destruct (hget (fst t) WS); [discriminate|discriminate].
          - destruct (IH (S k) Hf) as (j & tj & A & B & C). exists (S j), tj. split; [exact A|]. split; [lia|exact C]. }
        destruct (G 0 ts E0) as (j & tj & A & B & C). exists j, tj. split; [exact A|]. split; [lia|exact C]. }
      destruct Hex as (j & tj & Hj & Hne & Hh).
      pose proof (unfinished_holder ts j tj WS Hp Hj Hh) as Hu.
      destruct tj as [hj [|e pj]]; [now contradiction Hu|].
      destruct e as [l' m'|l' m'|x s|x s|s].
      + (* the holder of WS waits itself: it can only be for RT *)
        destruct (holder_cannot_wait ts j _ WS l' m' Hp Hj Hh eq_refl) as [_ ->]. eapply HRT; exact Hj.
      + exists j. eapply non_acq_steps; [exact Hj|]. intros l1 m1 F. discriminate F.
      + exists j. eapply non_acq_steps; [exact Hj|]. intros l1 m1 F. discriminate F.
      + exists j. eapply non_acq_steps; [exact Hj|]. intros l1 m1 F. discriminate F.
      + exists j. eapply non_acq_steps; [exact Hj|]. intros l1 m1 F. discriminate F. }
  destruct t0 as [h0 [|e p0]]; [now contradiction Hu0|].
  destruct e as [[|] m|l m|x s|x s|s].
  - eapply HWS; exact Hi0.
  - eapply HRT; exact Hi0.
  - exists i0. eapply non_acq_steps; [exact Hi0|]. intros l1 m1 F. discriminate F.
  - exists i0. eapply non_acq_steps; [exact Hi0|]. intros l1 m1 F. discriminate F.
  - exists i0. eapply non_acq_steps; [exact Hi0|]. intros l1 m1 F. discriminate F.
  - exists i0. eapply non_acq_steps; [exact Hi0|]. intros l1 m1 F. discriminate F.
Qed.

(* no registration lock is held while user code runs: a thread about to call user code holds nothing *)
Theorem user_code_unlocked (paths : list (list ev)) (sched : list nat) i h s p :
  forallb (check_path hempty) paths = true ->
  nth_error (crun (init_threads paths) sched) i = Some (h, User s :: p) -> h = hempty.
Proof.
  intros H Hi. destruct (init_inv paths H) as [He Hp]. destruct (crun_inv sched _ He Hp) as [_ Hp'].
  pose proof (Hp' i _ Hi) as C. cbn in C. destruct h as [[|] [|]]; try discriminate. reflexivity.
Qed.

Theorem lockset_no_deadlock (paths : list (list ev)) (sched : list nat) :
  forallb (check_path hempty) paths = true ->
  let ts := crun (init_threads paths) sched in
  (exists i t, nth_error ts i = Some t /\ snd t <> []) -> exists i ts', cstep ts i = Some ts'.
Proof.
  intros H ts. destruct (init_inv paths H) as [He Hp]. destruct (crun_inv sched _ He Hp) as [He' Hp'].
  apply no_deadlock; assumption.
Qed.

(* CorsProofs.v — lemmas behind C08 / C09 *)
From Model Require Import Str Sexp Http Cors.
From Spec Require Import CorsSpec.
From Proofs Require Import StrFacts.
From Coq Require Import Lia Btauto.

Section P.
Variable O : oracles.

Lemma allowedb_spec c origin : allowedb O c origin = true <-> allowed O c origin.
Proof.
  unfold allowedb, allowed. destruct origin as [|o0 orest].
  - split; [discriminate | intros [H _]; congruence].
  - set (origin := o0 :: orest).
    destruct (c_domains c) as [|d ds] eqn:Ed.
    + destruct (c_func c) as [f|] eqn:Ef.
      * split.
        -- intros H. split; [discriminate|]. right; right; right. now exists f.
        -- intros [_ [[_ H]|[[d [[] _]]|[[]|[f' [[= <-] H]]]]]]; [discriminate|exact H].
      * split; [intros _; split; [discriminate|left; auto] | reflexivity].
    + set (dl := d :: ds) in *. split.
      * intros H. split; [discriminate|].
        apply orb_true_iff in H as [H|H]; [apply orb_true_iff in H as [H|H]|].
        -- right; left. apply existsb_exists in H as [x [Hin Hx]]. exists x. split; [exact Hin|].
           now apply str_eqb_eq.
        -- right; right; left. now apply mem_In.
        -- destruct (c_func c) as [f|]; [|discriminate]. right; right; right. now exists f.
      * intros [_ [[H _]|[[x [Hin Hx]]|[H|[f [Hf H]]]]]].
        -- discriminate.
        -- apply orb_true_iff; left; apply orb_true_iff; left.
           apply existsb_exists. exists x. split; [exact Hin|]. now apply str_eqb_eq.
        -- apply orb_true_iff; left; apply orb_true_iff; right. now apply mem_In.
        -- rewrite Hf. rewrite H. now rewrite orb_true_r.
Qed.

(* the code's test and the property's notion coincide *)
Lemma is_origin_allowed_allowedb c origin :
  is_origin_allowed O c origin = allowedb O c origin.
Proof.
  unfold is_origin_allowed, allowedb. destruct origin as [|o0 orest]; [reflexivity|].
  set (origin := o0 :: orest).
  destruct (c_domains c) as [|d ds] eqn:Ed; [destruct (c_func c); reflexivity|].
  set (dl := d :: ds).
  assert (E : existsb (fun d0 => str_eqb d0 (L ".*") || str_eqb (o_lower O d0) (o_lower O origin)) dl
              = existsb (fun d0 => str_eqb (o_lower O d0) (o_lower O origin)) dl || mem (L ".*") dl).
  { clearbody dl. clear. induction dl as [|x l IH]; [reflexivity|]. cbn [existsb mem]. rewrite IH.
    rewrite (str_eqb_sym (L ".*") x). btauto. }
  rewrite E. destruct (existsb _ dl || mem _ dl); [reflexivity|]. now destruct (c_func c).
Qed.

(* --- what set_options_headers adds --- *)
Definition opts_suffix (c : cors_cfg) (origin : str) : headers := set_options_headers O c origin [].

Lemma set_options_headers_app c origin h :
  set_options_headers O c origin h = h ++ opts_suffix c origin.
Proof.
  unfold opts_suffix, set_options_headers, hadd.
  destruct (c_expose c); destruct (is_origin_allowed O c origin); destruct (c_cookies c);
    destruct (Z.ltb 0 (c_maxage c)); cbn; rewrite <- ?app_assoc; cbn; rewrite ?app_nil_r; reflexivity.
Qed.

Lemma count_key_app k h1 h2 : count_key k (h1 ++ h2) = count_key k h1 + count_key k h2.
Proof. unfold count_key. now rewrite filter_app, app_length. Qed.

Lemma opts_suffix_origin c origin v :
  In (H_ACAllowOrigin, v) (opts_suffix c origin) -> v = origin /\ is_origin_allowed O c origin = true.
Proof.
  unfold opts_suffix, set_options_headers, hadd.
  destruct (c_expose c); destruct (is_origin_allowed O c origin); destruct (c_cookies c);
    destruct (Z.ltb 0 (c_maxage c)); cbn; intros H;
    repeat (destruct H as [H|H]; [try discriminate H; injection H as <-; auto|]); try contradiction.
Qed.

Lemma opts_suffix_origin_count c origin : count_key H_ACAllowOrigin (opts_suffix c origin) <= 1.
Proof.
  unfold opts_suffix, set_options_headers, hadd.
  destruct (c_expose c); destruct (is_origin_allowed O c origin); destruct (c_cookies c);
    destruct (Z.ltb 0 (c_maxage c)); vm_compute; lia.
Qed.

Lemma opts_suffix_credentials c origin v :
  In (H_ACAllowCredentials, v) (opts_suffix c origin) -> c_cookies c = true.
Proof.
  unfold opts_suffix, set_options_headers, hadd.
  destruct (c_expose c); destruct (is_origin_allowed O c origin); destruct (c_cookies c);
    destruct (Z.ltb 0 (c_maxage c)); cbn; intros H; try reflexivity;
    repeat (destruct H as [H|H]; [discriminate H|]); contradiction.
Qed.

(* every header the filter adds is added only for an allowed origin *)
Lemma cors_decide_nonempty_allowed c computed req hs pass :
  cors_decide O c computed req = (hs, pass) -> hs <> [] ->
  is_origin_allowed O c (hget req H_Origin) = true.
Proof.
  unfold cors_decide. destruct (hget req H_Origin) as [|o0 orest] eqn:Eo.
  - intros [= <- _] H; congruence.
  - destruct (is_origin_allowed O c (o0 :: orest)) eqn:Ea; cbn [negb].
    + reflexivity.
    + intros [= <- _] H; congruence.
Qed.

Lemma cors_decide_not_allowed c computed req :
  is_origin_allowed O c (hget req H_Origin) = false ->
  cors_decide O c computed req = ([], true).
Proof.
  unfold cors_decide. destruct (hget req H_Origin) as [|o0 orest] eqn:Eo; [reflexivity|].
  intros ->. reflexivity.
Qed.

(* shape of the decision for an allowed origin *)
Lemma cors_decide_shape c computed req :
  let origin := hget req H_Origin in
  is_origin_allowed O c origin = true ->
  cors_decide O c computed req =
    if is_preflight req then (do_preflight O c computed req, false)
    else (opts_suffix c origin, true).
Proof.
  intros origin Ha. unfold cors_decide, is_preflight. fold origin.
  destruct origin as [|o0 orest] eqn:Eo; [discriminate Ha|]. rewrite Ha. cbn [negb].
  destruct (str_eqb (rq_method req) (L "OPTIONS")); cbn [negb andb]; [|reflexivity].
  destruct (hget req H_ACRequestMethod) as [|a0 ar]; reflexivity.
Qed.

Lemma valid_request_header_spec c hd :
  valid_request_header O c hd = header_allowedb O c hd.
Proof.
  unfold valid_request_header, header_allowedb.
  induction (c_headers c) as [|e l IH]; [reflexivity|]. cbn [existsb mem]. rewrite IH.
  rewrite (str_eqb_sym (L "*") e). btauto.
Qed.

Lemma do_preflight_spec c computed req :
  do_preflight O c computed req =
    if preflight_grantedb O c computed req then
      [(H_ACAllowMethods, join [comma] (match c_methods c with [] => computed | m => m end));
       (H_ACAllowHeaders, hget req H_ACRequestHeaders)] ++ opts_suffix c (hget req H_Origin)
    else [].
Proof.
  unfold do_preflight, preflight_grantedb, requested_headers.
  destruct (mem (hget req H_ACRequestMethod) _); cbn [negb andb]; [|reflexivity].
  destruct (hget req H_ACRequestHeaders) as [|h0 hr] eqn:Eh.
  - cbn [forallb negb]. rewrite set_options_headers_app. reflexivity.
  - rewrite forallb_map.
    erewrite forallb_ext; [|intros a; apply valid_request_header_spec].
    destruct (forallb _ _); cbn [negb]; [|reflexivity].
    rewrite set_options_headers_app. reflexivity.
Qed.

Lemma opts_suffix_origin_count1 c origin :
  is_origin_allowed O c origin = true -> count_key H_ACAllowOrigin (opts_suffix c origin) = 1.
Proof.
  unfold opts_suffix, set_options_headers, hadd. intros ->.
  destruct (c_expose c); destruct (c_cookies c); destruct (Z.ltb 0 (c_maxage c)); vm_compute; reflexivity.
Qed.

Lemma opts_suffix_keys c origin k v :
  In (k, v) (opts_suffix c origin) -> is_grant_name k = true.
Proof.
  unfold opts_suffix, set_options_headers, hadd.
  destruct (c_expose c); destruct (is_origin_allowed O c origin); destruct (c_cookies c);
    destruct (Z.ltb 0 (c_maxage c)); cbn; intros H;
    repeat (destruct H as [H|H]; [injection H as <- _; reflexivity|]); contradiction.
Qed.

(* the complete case analysis of the filter's decision *)
Lemma cors_decide_cases c computed req :
  let origin := hget req H_Origin in
  cors_decide O c computed req =
    if negb (allowedb O c origin) then ([], true)
    else if negb (is_preflight req) then (opts_suffix c origin, true)
    else if preflight_grantedb O c computed req then
      ([(H_ACAllowMethods, join [comma] (match c_methods c with [] => computed | m => m end));
        (H_ACAllowHeaders, hget req H_ACRequestHeaders)] ++ opts_suffix c origin, false)
    else ([], false).
Proof.
  intros origin. rewrite <- is_origin_allowed_allowedb.
  destruct (is_origin_allowed O c origin) eqn:Ea; cbn [negb].
  - rewrite (cors_decide_shape _ _ _ Ea). fold origin.
    destruct (is_preflight req); cbn [negb]; [|reflexivity].
    rewrite do_preflight_spec. fold origin. now destruct (preflight_grantedb O c computed req).
  - now apply cors_decide_not_allowed.
Qed.

End P.

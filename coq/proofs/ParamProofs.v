(* ParamProofs.v — defaultPathProcessor.ExtractParameters binds exactly the
   structural bindings (C04, CurlyRouter) and never panics on admitted paths. *)
From Model Require Import Str Sexp Http Template Table Curly DetectRoute Jsr311 Router.
From Spec Require Import RouteSpec.
From Proofs Require Import StrFacts TemplateFacts CurlyProofs.
From Coq Require Import Lia.

Lemma no_char_false c s : no_char c s = true -> existsb (Ascii.eqb c) s = false.
Proof. unfold no_char. now intros H%negb_true_iff. Qed.

Lemma slice_name (n rest : str) x : slice (x :: n ++ rest) 1 (S (List.length n)) = n.
Proof.
  unfold slice. cbn [skipn]. replace (S (List.length n) - 1) with (List.length n) by lia.
  now rewrite firstn_app, Nat.sub_diag, firstn_all, firstn_O, app_nil_r.
Qed.

Lemma slice_re (n re : str) :
  let key := lbrace :: n ++ colon :: re ++ [rbrace] in
  slice key (S (List.length n) + 1) (List.length key - 1) = re.
Proof.
  cbn zeta. unfold slice. replace (S (List.length n) + 1) with (S (S (List.length n))) by lia.
  rewrite skipn_cons. rewrite skipn_app, (skipn_all2 n) by lia.
  replace (S (List.length n) - List.length n) with 1 by lia. cbn [skipn app].
  cbn [List.length]. rewrite !app_length. cbn [List.length]. rewrite app_length. cbn [List.length].
  replace (S (List.length n + S (List.length re + 1)) - 1 - S (S (List.length n))) with (List.length re) by lia.
  now rewrite firstn_app, Nat.sub_diag, firstn_all, firstn_O, app_nil_r.
Qed.

Lemma slice_0_firstn (s : str) k : slice s 0 k = firstn k s.
Proof. unfold slice. cbn [skipn]. now rewrite Nat.sub_0_r. Qed.

Section P.

(* what one token contributes, as the code computes it on key/value without verb *)
Definition core_extract (key value : str) (i : nat) (url : list str) (acc : list (str * str))
           (K : list (str * str) -> option (list (str * str))) : option (list (str * str)) :=
  match index_char key lbrace with
  | None => K acc
  | Some start =>
    match index_char key colon with
    | Some c =>
        if negb (slice_ok key (c + 1) (List.length key - 1) && slice_ok key 1 c) then None
        else
          let reg := slice key (c + 1) (List.length key - 1) in
          let name := slice key 1 c in
          if str_eqb reg (L "*") then Some (pset name (untokenize i url) acc)
          else K (pset name value acc)
    | None =>
        match index_char key rbrace with
        | None => None
        | Some e =>
          let suffix_len := List.length key - e - 1 in
          if negb (Nat.leb (start + 1) e) then None
          else if Nat.ltb (List.length value) (start + suffix_len) then None
          else K (pset (slice key (start + 1) e) (slice value start (List.length value - suffix_len)) acc)
        end
    end
  end.

Lemma core_extract_spec (k : tk) (value : str) i url acc K :
  wf_tk k = true ->
  (match k with TSuf _ suf => has_suffix value suf = true | _ => True end) ->
  core_extract (render_tk k) value i url acc K =
    match k with
    | TTail n => Some (pset n (untokenize i url) acc)
    | _ => K (fold_left (fun m kv => pset (fst kv) (snd kv) m) (tk_binding k value) acc)
    end.
Proof.
  intros Hwf Hsuf. unfold core_extract. destruct k as [s|n|n re|n suf|n]; cbn [render_tk wf_tk tk_binding fold_left fst snd] in *.
  - (* literal: no brace at all *)
    apply no_char_false in Hwf. apply index_char_None in Hwf. now rewrite Hwf.
  - (* {n} *)
    unfold wf_name in Hwf. apply andb_true_iff in Hwf as [Hwf Hrb]. apply andb_true_iff in Hwf as [Hco Hlb].
    apply no_char_false in Hco, Hlb, Hrb.
    change ([lbrace] ++ n ++ [rbrace]) with (lbrace :: n ++ [rbrace]).
    rewrite index_char_cons, Ascii.eqb_refl.
    rewrite index_char_cons. change (Ascii.eqb lbrace colon) with false. cbn iota.
    assert (Hc : index_char (n ++ [rbrace]) colon = None).
    { apply index_char_None. rewrite existsb_app, Hco. reflexivity. }
    rewrite Hc. cbn [option_map].
    rewrite index_char_cons. change (Ascii.eqb lbrace rbrace) with false. cbn iota.
    rewrite index_char_app_notin by exact Hrb. cbn [option_map].
    cbn [List.length]. rewrite app_length. cbn [List.length].
    replace (S (List.length n + 1) - S (List.length n) - 1) with 0 by lia.
    replace (Nat.leb (0 + 1) (S (List.length n))) with true by (symmetry; apply Nat.leb_le; lia).
    cbn [negb]. rewrite Nat.add_0_r. cbn [Nat.ltb Nat.leb]. rewrite Nat.sub_0_r.
    change (0 + 1) with 1. rewrite slice_name, slice_0_firstn, firstn_all. reflexivity.
  - (* {n:re} *)
    apply andb_true_iff in Hwf as [Hn Hre]. unfold wf_name in Hn.
    apply andb_true_iff in Hn as [Hn Hrb]. apply andb_true_iff in Hn as [Hco Hlb].
    apply no_char_false in Hco, Hlb, Hrb. apply negb_true_iff in Hre.
    change ([lbrace] ++ n ++ [colon] ++ re ++ [rbrace]) with (lbrace :: n ++ colon :: re ++ [rbrace]).
    rewrite index_char_cons, Ascii.eqb_refl.
    rewrite index_char_cons. change (Ascii.eqb lbrace colon) with false. cbn iota.
    rewrite index_char_app_notin by exact Hco. cbn [option_map].
    pose proof (slice_re n re) as Hsl. cbn zeta in Hsl. rewrite Hsl.
    replace (slice (lbrace :: n ++ colon :: re ++ [rbrace]) 1 (S (List.length n))) with n
      by (symmetry; apply slice_name).
    rewrite Hre.
    assert (Hok : slice_ok (lbrace :: n ++ colon :: re ++ [rbrace]) (S (List.length n) + 1)
                    (List.length (lbrace :: n ++ colon :: re ++ [rbrace]) - 1)
                  && slice_ok (lbrace :: n ++ colon :: re ++ [rbrace]) 1 (S (List.length n)) = true).
    { unfold slice_ok. cbn [List.length]. rewrite !app_length. cbn [List.length]. rewrite app_length. cbn [List.length].
      apply andb_true_iff; split; apply andb_true_iff; split; apply Nat.leb_le; lia. }
    rewrite Hok. reflexivity.
  - (* {n}suf *)
    apply andb_true_iff in Hwf as [Hwf Hne]. apply andb_true_iff in Hwf as [Hn Hsc]. unfold wf_name in Hn.
    apply andb_true_iff in Hn as [Hn Hrb]. apply andb_true_iff in Hn as [Hco Hlb].
    apply no_char_false in Hco, Hlb, Hrb, Hsc.
    change ([lbrace] ++ n ++ [rbrace] ++ suf) with (lbrace :: n ++ rbrace :: suf).
    rewrite index_char_cons, Ascii.eqb_refl.
    rewrite index_char_cons. change (Ascii.eqb lbrace colon) with false. cbn iota.
    assert (Hc : index_char (n ++ rbrace :: suf) colon = None).
    { apply index_char_None. rewrite existsb_app, Hco. cbn [existsb]. change (Ascii.eqb colon rbrace) with false. exact Hsc. }
    rewrite Hc. cbn [option_map].
    rewrite index_char_cons. change (Ascii.eqb lbrace rbrace) with false. cbn iota.
    rewrite index_char_app_notin by exact Hrb. cbn [option_map].
    cbn [List.length]. rewrite app_length. cbn [List.length].
    replace (S (List.length n + S (List.length suf)) - S (List.length n) - 1) with (List.length suf) by lia.
    replace (Nat.leb (0 + 1) (S (List.length n))) with true by (symmetry; apply Nat.leb_le; lia).
    cbn [negb]. change (0 + List.length suf) with (List.length suf).
    apply has_suffix_spec in Hsuf as [pre ->]. rewrite app_length.
    replace (Nat.ltb (List.length pre + List.length suf) (List.length suf)) with false by (symmetry; apply Nat.ltb_ge; lia).
    change (0 + 1) with 1. rewrite slice_name, slice_0_firstn. reflexivity.
  - (* {n:*} *)
    unfold wf_name in Hwf. apply andb_true_iff in Hwf as [Hwf Hrb]. apply andb_true_iff in Hwf as [Hco Hlb].
    apply no_char_false in Hco, Hlb, Hrb.
    change ([lbrace] ++ n ++ L ":*}") with (lbrace :: n ++ colon :: L "*" ++ [rbrace]).
    rewrite index_char_cons, Ascii.eqb_refl.
    rewrite index_char_cons. change (Ascii.eqb lbrace colon) with false. cbn iota.
    rewrite index_char_app_notin by exact Hco. cbn [option_map].
    pose proof (slice_re n (L "*")) as Hsl. cbn zeta in Hsl. rewrite Hsl.
    replace (slice (lbrace :: n ++ colon :: L "*" ++ [rbrace]) 1 (S (List.length n))) with n
      by (symmetry; apply slice_name).
    assert (Hok : slice_ok (lbrace :: n ++ colon :: L "*" ++ [rbrace]) (S (List.length n) + 1)
                    (List.length (lbrace :: n ++ colon :: L "*" ++ [rbrace]) - 1)
                  && slice_ok (lbrace :: n ++ colon :: L "*" ++ [rbrace]) 1 (S (List.length n)) = true).
    { unfold slice_ok. cbn [List.length]. rewrite !app_length. cbn [List.length app L list_ascii_of_string].
      apply andb_true_iff; split; apply andb_true_iff; split; apply Nat.leb_le; lia. }
    rewrite Hok. reflexivity.
Qed.

Variable O : oracles.

Definition pset_all (b acc : list (str * str)) : list (str * str) :=
  fold_left (fun m kv => pset (fst kv) (snd kv) m) b acc.

Lemma extract_loop_unfold hcv i key0 parts url acc :
  extract_loop hcv i (key0 :: parts) url acc =
    let value0 := nth i url [] in
    let verb := hcv && has_custom_verb key0 in
    core_extract (if verb then remove_custom_verb key0 else key0)
                 (if verb then remove_custom_verb value0 else value0)
                 i url acc (extract_loop hcv (S i) parts url).
Proof. reflexivity. Qed.

Lemma extract_step hcv rt parts i url acc :
  wf_tok_str hcv rt = true ->
  tail_has_no_verb (parse_tok hcv rt) = true ->
  (is_tail (parse_tok hcv rt) = false -> vtok_admits O (parse_tok hcv rt) (nth i url []) = true) ->
  extract_loop hcv i (rt :: parts) url acc =
    match v_tk (parse_tok hcv rt) with
    | TTail n => Some (pset n (untokenize i url) acc)
    | k => extract_loop hcv (S i) parts url
             (pset_all (match strip_verb (v_verb (parse_tok hcv rt)) (nth i url []) with
                        | Some base => tk_binding k base | None => [] end) acc)
    end.
Proof.
  unfold wf_tok_str. intros Hwf Htv Hadm. set (t := parse_tok hcv rt) in *.
  apply andb_true_iff in Hwf as [Hr Hk]. apply str_eqb_eq in Hr.
  rewrite extract_loop_unfold. cbn zeta.
  assert (Hverb : hcv && has_custom_verb rt = match v_verb t with Some _ => true | None => false end).
  { subst t. unfold parse_tok, has_custom_verb. destruct hcv; [|reflexivity].
    destruct (verb_split rt) as [[b v]|]; reflexivity. }
  rewrite Hverb.
  assert (Hs : exists s, @nth str i url [] = s) by eauto. destruct Hs as [s Hs].
  change (@nth (list ascii) i url []) with (@nth str i url []) in *.
  rewrite ?Hs. rewrite ?Hs in Hadm. clear Hs.
  destruct (v_verb t) as [v|] eqn:Ev.
  - assert (Hs : exists b, verb_split rt = Some (b, v) /\ v_tk t = parse_tk b /\ hcv = true).
    { subst t. unfold parse_tok in *. destruct hcv; [|discriminate Ev].
      destruct (verb_split rt) as [[b v']|]; [|discriminate Ev]. cbn in Ev. injection Ev as ->. now exists b. }
    destruct Hs as (b & Hvs & Htk & ->).
    destruct (verb_split_inv _ _ _ Hvs) as (Hrt & Hvne & Hvl).
    assert (Hnt : is_tail t = false).
    { unfold tail_has_no_verb in Htv. rewrite Ev in Htv. now destruct (is_tail t). }
    specialize (Hadm Hnt). unfold vtok_admits, strip_verb in Hadm. rewrite Ev in Hadm.
    unfold strip_verb.
    destruct (has_suffix s (colon :: v)) eqn:Hsuf; [|cbn in Hadm; discriminate Hadm].
    rewrite (remove_custom_verb_suffix s v Hvne Hvl Hsuf).
    assert (Hrm : remove_custom_verb rt = b) by (unfold remove_custom_verb; now rewrite Hvs).
    rewrite Hrm. set (base := firstn _ s) in *.
    assert (Hb : render_tk (v_tk t) = b).
    { unfold render in Hr. rewrite Ev, Hrt in Hr. now apply app_inv_tail in Hr. }
    rewrite <- Hb. rewrite core_extract_spec; [| exact Hk |].
    + destruct (v_tk t); reflexivity.
    + destruct (v_tk t); cbv iota beta; try exact Logic.I. cbn [tk_admits] in Hadm. exact Hadm.
  - assert (Hb : render_tk (v_tk t) = rt).
    { unfold render in Hr. now rewrite Ev, app_nil_r in Hr. }
    rewrite <- Hb. unfold strip_verb. rewrite core_extract_spec; [| exact Hk |].
    + destruct (v_tk t); reflexivity.
    + destruct (v_tk t) eqn:Etk; cbv iota beta; try exact Logic.I.
      assert (Hnt : is_tail t = false) by (unfold is_tail; now rewrite Etk).
      specialize (Hadm Hnt). unfold vtok_admits, strip_verb in Hadm. rewrite Ev, Etk in Hadm. exact Hadm.
Qed.

Theorem extract_loop_bindings hcv parts pre segs acc :
  forallb (wf_tok_str hcv) parts = true ->
  wf_positions (map (parse_tok hcv) parts) = true ->
  is_some (loop_counts O (map (parse_tok hcv) parts) segs 0 0) = true ->
  extract_loop hcv (List.length pre) parts (pre ++ segs) acc
  = Some (pset_all (bindings (map (parse_tok hcv) parts) segs) acc).
Proof.
  revert pre segs acc. induction parts as [|rt parts IH]; intros pre segs acc Hwf Hpos Hloop; [reflexivity|].
  cbn [forallb map] in Hwf, Hpos, Hloop. apply andb_true_iff in Hwf as [Hw1 Hw2].
  pose proof (wf_positions_no_verb_on_tail _ Hpos) as Htv. cbn [forallb] in Htv.
  apply andb_true_iff in Htv as [Ht1 _].
  destruct segs as [|s segs]; [discriminate Hloop|]. cbn [loop_counts] in Hloop.
  assert (Hnth : @nth str (List.length pre) (pre ++ s :: segs) [] = s).
  { rewrite app_nth2, Nat.sub_diag by lia. reflexivity. }
  rewrite (extract_step hcv rt parts (List.length pre) (pre ++ s :: segs) acc Hw1 Ht1).
  2:{ intros Hnt. change (@nth (list ascii) (List.length pre) (pre ++ s :: segs) []) with (@nth str (List.length pre) (pre ++ s :: segs) []).
      rewrite Hnth. rewrite Hnt in Hloop. now destruct (vtok_admits O (parse_tok hcv rt) s). }
  change (@nth (list ascii) (List.length pre) (pre ++ s :: segs) []) with (@nth str (List.length pre) (pre ++ s :: segs) []).
  rewrite Hnth. cbn [map bindings].
  destruct (v_tk (parse_tok hcv rt)) eqn:Etk.
  5:{ unfold untokenize. rewrite skipn_app, skipn_all, Nat.sub_diag. reflexivity. }
  all: assert (Hnt : is_tail (parse_tok hcv rt) = false) by (unfold is_tail; now rewrite Etk).
  all: rewrite Hnt in Hloop.
  all: destruct (vtok_admits O (parse_tok hcv rt) s); [|discriminate Hloop].
  all: rewrite (loop_counts_some_indep O _ _ _ _ 0 0) in Hloop.
  all: replace (pre ++ s :: segs) with ((pre ++ [s]) ++ segs) by (rewrite <- app_assoc; reflexivity).
  all: replace (S (List.length pre)) with (List.length (pre ++ [s])) by (rewrite app_length; cbn; lia).
  all: rewrite (IH (pre ++ [s]) segs _ Hw2 (wf_positions_tail _ Hpos) Hloop).
  all: unfold pset_all; rewrite fold_left_app; reflexivity.
Qed.

(* C04 / C02(no panic), CurlyRouter: on an admitted path the parameters are the
   structural bindings and extraction does not panic *)
Theorem curly_extract_parameters_spec w r path :
  wf_route w r = true ->
  admits_path O (route_tpl w r) (tokenize path) = true ->
  curly_extract_parameters w r path = Some (pset_all (bindings (route_tpl w r) (tokenize path)) []).
Proof.
  unfold wf_route, wf_template, route_tpl. intros Hwf Hadm. apply andb_true_iff in Hwf as [Hw Hpos].
  rewrite (admits_path_loop O _ _ 0 0 Hpos) in Hadm. apply andb_true_iff in Hadm as [_ Hloop].
  unfold curly_extract_parameters.
  exact (extract_loop_bindings _ _ [] _ [] Hw Hpos Hloop).
Qed.

End P.

(* ServeProofs.v — request-level statements on the model of Container.dispatch /
   ServeHTTP: the order of events of a whole request (C06), the compressor
   discipline and the coding decision (C07), the recover handler's status (C10),
   history independence of the answer (C19). *)
From Model Require Import Str Sexp Http Template Table Curly DetectRoute Jsr311 Router Dispatch.
From Spec Require Import DispatchSpec.
From Proofs Require Import StrFacts DispatchProofs.
From Coq Require Import Lia.

(* ------------------------------------------------------------------ *)
(* slog under the bookkeeping operations *)
Lemma slog_write_header s n : slog (write_header s n) = slog s.
Proof. unfold write_header. destruct (st_status s); reflexivity. Qed.

Lemma slog_write_body s b : slog (write_body s b) = slog s.
Proof.
  unfold write_body. destruct (st_comp s) as [[[c ch] [|]]|]; cbn; unfold write_header; destruct (st_status s); reflexivity.
Qed.

Lemma slog_upd_hdr s h : slog (upd_hdr s h) = slog s. Proof. reflexivity. Qed.
Lemma slog_install c s : slog (install c s) = slog s. Proof. reflexivity. Qed.
Lemma slog_close_comp s : slog (close_comp s) = slog s.
Proof.
  unfold close_comp. destruct (st_comp s) as [[[c ch] [|]]|]; try reflexivity.
  unfold write_header. destruct (st_status s); reflexivity.
Qed.

Lemma slog_upd_log_other s e : structural_event e = false -> slog (upd_log s e) = slog s.
Proof. intros H. unfold slog. cbn [upd_log st_log]. rewrite filter_app. cbn [filter]. rewrite H. apply app_nil_r. Qed.

(* ------------------------------------------------------------------ *)
(* panic-free configurations: every script a request can reach is panic free *)
Lemma existsb_false_forallb {A} (p : A -> bool) l :
  existsb p l = false -> forallb (fun x => negb (p x)) l = true.
Proof.
  induction l as [|x l IH]; cbn; [reflexivity|]. intros H. apply orb_false_iff in H as [Hx Hl].
  now rewrite Hx, IH.
Qed.

Lemma assoc_existsb_false {A} (p : A -> bool) k (l : list (str * A)) v :
  existsb (fun x => p (snd x)) l = false -> assoc k l = Some v -> p v = false.
Proof.
  induction l as [|[k' v'] l IH]; cbn; [discriminate|]. intros H. apply orb_false_iff in H as [Hx Hl].
  destruct (str_eqb k k'); [intros E; injection E as <-; exact Hx | now apply IH].
Qed.

Lemma zassoc_existsb_false {A} (p : A -> bool) k (l : list (Z * A)) v :
  existsb (fun x => p (snd x)) l = false -> zassoc k l = Some v -> p v = false.
Proof.
  induction l as [|[k' v'] l IH]; cbn; [discriminate|]. intros H. apply orb_false_iff in H as [Hx Hl].
  destruct (Z.eqb k k'); [intros E; injection E as <-; exact Hx | now apply IH].
Qed.

Lemma cfg_panic_free_parts cfg w r :
  cfg_has_panic cfg = false ->
  forallb fscript_panic_free (d_cfilters cfg) = true /\
  forallb fscript_panic_free (sfilters_of cfg w) = true /\
  forallb fscript_panic_free (rfilters_of cfg r) = true /\
  panic_free (handler_of cfg r) = true.
Proof.
  unfold cfg_has_panic. intros H.
  apply orb_false_iff in H as [H _]. apply orb_false_iff in H as [H _]. apply orb_false_iff in H as [H Hh]. apply orb_false_iff in H as [H Hr]. apply orb_false_iff in H as [Hc Hs].
  split; [|split; [|split]].
  - now apply existsb_false_forallb.
  - unfold sfilters_of. destruct (assoc (s_root w) (d_sfilters cfg)) as [l|] eqn:E; [|reflexivity].
    apply existsb_false_forallb. exact (assoc_existsb_false (existsb fscript_has_panic) _ _ _ Hs E).
  - unfold rfilters_of. destruct (zassoc (r_id r) (d_rfilters cfg)) as [l|] eqn:E; [|reflexivity].
    apply existsb_false_forallb. exact (zassoc_existsb_false (existsb fscript_has_panic) _ _ _ Hr E).
  - unfold handler_of, panic_free. destruct (zassoc (r_id r) (d_handlers cfg)) as [l|] eqn:E; [|reflexivity].
    now rewrite (zassoc_existsb_false (existsb action_is_panic) _ _ _ Hh E).
Qed.

Lemma forallb_app3 {A} (p : A -> bool) a b c :
  forallb p a = true -> forallb p b = true -> forallb p c = true -> forallb p (a ++ b ++ c) = true.
Proof. intros. now rewrite !forallb_app, H, H0, H1. Qed.

Section Serve.
Variable O : oracles.

(* ------------------------------------------------------------------ *)
(* C06 for a whole request *)
Lemma write_service_error_events e s0 :
  exists s1, write_service_error e s0 = Done s1 /\ slog s1 = slog s0 ++ [].
Proof.
  unfold write_service_error. destruct e as [|a| |]; cbn; eexists; (split; [reflexivity|]);
    now rewrite app_nil_r, slog_write_body, slog_write_header, ?slog_upd_hdr.
Qed.

Lemma saw_not_structural x : structural_event (L "saw:" ++ x) = false. Proof. reflexivity. Qed.
Lemma H_structural x : structural_event (L "H:" ++ x) = true. Proof. reflexivity. Qed.

Theorem dispatch_events cfg req already s :
  cfg_has_panic cfg = false ->
  route_request O (d_table cfg) req <> RPanic ->
  exists s', dispatch O cfg req already s = Done s' /\ slog s' = slog s ++ expected_events O cfg req.
Proof.
  intros Hpf Hnp. unfold dispatch, dispatch_body, expected_events, route_request in *.
  assert (Hcp : cond_panic_hit O cfg req = false).
  { unfold cfg_has_panic in Hpf. apply orb_false_iff in Hpf as [Hpf _]. apply orb_false_iff in Hpf as [_ Hc]. unfold cond_panic_hit.
    destruct (d_condpanic cfg); [|discriminate]. cbn [existsb andb].
    destruct (str_eqb (hget req H_CondPanic) (L "1")); [|reflexivity]. cbn [andb].
    induction (path_candidates O (d_table cfg) req) as [|x l IH]; [reflexivity|exact IH]. }
  rewrite Hcp.
  destruct (select_route O (d_table cfg) req) as [[w r]|e].
  - destruct (cfg_panic_free_parts cfg w r Hpf) as (Hc & Hs & Hr & Hh).
    destruct (extract_parameters O (d_table cfg) w r (rq_path req)) as [ps|]; [|now contradiction Hnp].
    match goal with |- context [run_chain ?fs ?tg ?st] =>
      destruct (run_chain_events fs tg [L "H:" ++ itoa (r_id r)] st) as (s1 & E1 & L1) end.
    + now apply forallb_app3.
    + intros s0.
      destruct (slog_run_actions (handler_of cfg r)
                  (upd_log (upd_log s0 (L "H:" ++ itoa (r_id r)))
                           (L "saw:" ++ attr_get K_sel (st_attrs s0) ++ L " " ++ attr_get K_params (st_attrs s0))) Hh)
        as (s1 & E1 & L1).
      exists s1. split; [exact E1|]. rewrite L1, slog_upd_log_other by apply saw_not_structural.
      now rewrite slog_upd_log_structural by apply H_structural.
    + rewrite E1. eexists. split; [reflexivity|]. rewrite slog_close_comp, L1, slog_upd_attrs.
      destruct already; [reflexivity|].
      destruct (match r_enc r with Some b => b | None => d_encoding cfg end); [|reflexivity].
      destruct (wants_compressed req s); reflexivity.
  - destruct (cfg_panic_free_parts cfg {| s_root := []; s_routes := [] |}
                {| r_id := 0; r_method := []; r_rel := []; r_consumes := []; r_produces := [];
                   r_conds := []; r_noct := []; r_enc := None |} Hpf) as (Hc & _).
    destruct (run_chain_events (d_cfilters cfg) (write_service_error e) [] s Hc (write_service_error_events e))
      as (s1 & E1 & L1).
    rewrite E1. eexists. split; [reflexivity|]. now rewrite slog_close_comp.
Qed.

Theorem serve_events cfg en req s :
  routed_request cfg req ->
  cfg_has_panic cfg = false ->
  route_request O (d_table cfg) req <> RPanic ->
  exists s', serve O cfg en req s = Done s' /\ slog s' = slog s ++ expected_events O cfg req.
Proof.
  intros Hrt Hpf Hnp. unfold serve, mux_target. rewrite Hrt. destruct en; [now apply dispatch_events|].
  destruct (negb (d_encoding cfg)); [now apply dispatch_events|].
  match goal with |- context [dispatch O cfg req ?a ?x] =>
    destruct (dispatch_events cfg req a x Hpf Hnp) as (s1 & E1 & L1) end.
  rewrite E1. eexists. split; [reflexivity|]. rewrite slog_close_comp, L1.
  destruct (wants_compressed req s); reflexivity.
Qed.

(* HandleWithFilter: the container filters run once around the plain handler, in order; Handle: none *)
Theorem plain_events cfg wf script req s :
  forallb fscript_panic_free (d_cfilters cfg) = true -> panic_free script = true ->
  exists s', handle_plain cfg wf script req s = Done s' /\
             slog s' = slog s ++ (if wf then chain_events (d_cfilters cfg) [] else []).
Proof.
  intros Hc Hs. unfold handle_plain.
  set (s1 := if match st_comp s with Some _ => true | None => false end then s
             else if d_encoding cfg then match wants_compressed req s with Some c => install c s | None => s end else s).
  assert (Hs1 : slog s1 = slog s).
  { subst s1. destruct (st_comp s); [reflexivity|]. destruct (d_encoding cfg); [|reflexivity].
    destruct (wants_compressed req s); reflexivity. }
  assert (Htgt : forall s0, exists s2, run_actions script s0 = Done s2 /\ slog s2 = slog s0 ++ []).
  { intros s0. destruct (slog_run_actions script s0 Hs) as (s2 & E & L). exists s2. now rewrite app_nil_r. }
  destruct wf.
  - destruct (d_cfilters cfg) as [|f fs] eqn:Ef.
    + destruct (Htgt s1) as (s2 & E & L). rewrite E. eexists. split; [reflexivity|].
      rewrite slog_close_comp, L, Hs1. reflexivity.
    + rewrite <- Ef in *. destruct (run_chain_events (d_cfilters cfg) (run_actions script) [] s1 Hc Htgt) as (s2 & E & L).
      rewrite E. eexists. split; [reflexivity|]. now rewrite slog_close_comp, L, Hs1.
  - destruct (Htgt s1) as (s2 & E & L). rewrite E. eexists. split; [reflexivity|].
    rewrite slog_close_comp, L, Hs1. reflexivity.
Qed.

(* ------------------------------------------------------------------ *)
(* C06, attributes: what a stage sets is what every later stage sees *)
Definition is_see (e : str) : bool := has_prefix e (L "see:").
Definition vlog (s : rstate) : list str := filter is_see (st_log s).

Lemma sees_app l1 l2 a : sees_of (l1 ++ l2) a = sees_of l1 a ++ sees_of l2 (attrs_after l1 a).
Proof.
  revert a. induction l1 as [|x l1 IH]; intros a; cbn; [reflexivity|].
  destruct x; cbn; rewrite ?IH; reflexivity.
Qed.
Lemma attrs_app l1 l2 a : attrs_after (l1 ++ l2) a = attrs_after l2 (attrs_after l1 a).
Proof. revert a. induction l1 as [|x l1 IH]; intros a; cbn; [reflexivity|]. destruct x; cbn; apply IH. Qed.

Lemma vlog_write_header s n : vlog (write_header s n) = vlog s /\ st_attrs (write_header s n) = st_attrs s.
Proof. unfold write_header. destruct (st_status s); auto. Qed.
Lemma vlog_write_body s b : vlog (write_body s b) = vlog s /\ st_attrs (write_body s b) = st_attrs s.
Proof.
  unfold write_body. destruct (st_comp s) as [[[c ch] [|]]|]; cbn; unfold write_header; destruct (st_status s); auto.
Qed.

Lemma run_actions_sees l : forall s,
  panic_free l = true ->
  exists s', run_actions l s = Done s' /\ vlog s' = vlog s ++ sees_of l (st_attrs s) /\
             st_attrs s' = attrs_after l (st_attrs s).
Proof.
  unfold panic_free. induction l as [|a l IH]; intros s H; cbn [run_actions sees_of attrs_after].
  - exists s. now rewrite app_nil_r.
  - cbn [existsb] in H. apply negb_true_iff, orb_false_iff in H as [Ha Hl].
    assert (Hl' : negb (existsb action_is_panic l) = true) by now rewrite Hl.
    destruct a as [k v|n|b|k v|k|m|k|pb|ec ep]; cbn [run_action bind] in *; try discriminate.
    + destruct (IH (upd_hdr s (hadd (st_hdr s) k v)) Hl') as (s' & E & L1 & A1). exists s'. auto.
    + destruct (IH (write_header s n) Hl') as (s' & E & L1 & A1). destruct (vlog_write_header s n) as [V A].
      exists s'. rewrite V, A in *. auto.
    + destruct (IH (write_body s b) Hl') as (s' & E & L1 & A1). destruct (vlog_write_body s b) as [V A].
      exists s'. rewrite V, A in *. auto.
    + destruct (IH (upd_attrs s (pset k v (st_attrs s))) Hl') as (s' & E & L1 & A1). exists s'. auto.
    + destruct (IH (upd_log s (L "see:" ++ k ++ L "=" ++ attr_get k (st_attrs s))) Hl') as (s' & E & L1 & A1).
      exists s'. split; [exact E|]. split; [|exact A1]. rewrite L1. unfold vlog. cbn [upd_log st_log st_attrs].
      rewrite filter_app. cbn [filter]. replace (is_see (L "see:" ++ k ++ L "=" ++ attr_get k (st_attrs s))) with true by reflexivity.
      now rewrite <- app_assoc.
    + destruct (IH (upd_hdr s (filter (fun kv => negb (str_eqb (fst kv) k)) (st_hdr s))) Hl') as (s' & E & L1 & A1). exists s'. auto.
    + destruct (IH (set_wrapper s pb (st_upper s)) Hl') as (s' & E & L1 & A1). exists s'. auto.
    + set (body := if st_pretty s then ep else ec) in *.
      destruct (IH (write_body (write_header s 200) body) Hl') as (s' & E & L1 & A1).
      destruct (vlog_write_header s 200) as [V A]. destruct (vlog_write_body (write_header s 200) body) as [V2 A2].
      exists s'. rewrite V2, A2, V, A in *. auto.
Qed.

Lemma vlog_upd_log_other s e : is_see e = false -> vlog (upd_log s e) = vlog s.
Proof. intros H. unfold vlog. cbn [upd_log st_log]. rewrite filter_app. cbn [filter]. rewrite H. apply app_nil_r. Qed.

(* the chain, for filters that pass on the wrapper they were given: one attribute map along the flattened
   sequence pre f1 .. pre fk, target, post fk .. post f1 *)
Theorem run_chain_sees fs : forall target tgt s,
  forallb fscript_panic_free fs = true -> existsb f_fresh fs = false ->
  (forall s0, exists s1, target s0 = Done s1 /\ vlog s1 = vlog s0 ++ sees_of tgt (st_attrs s0) /\
                         st_attrs s1 = attrs_after tgt (st_attrs s0)) ->
  exists s', run_chain fs target s = Done s' /\
             vlog s' = vlog s ++ sees_of (flat_actions fs tgt) (st_attrs s) /\
             st_attrs s' = attrs_after (flat_actions fs tgt) (st_attrs s).
Proof.
  induction fs as [|f rest IH]; intros target tgt s Hpf Hfr Ht; cbn [run_chain flat_actions].
  - apply Ht.
  - cbn [forallb existsb] in Hpf, Hfr. apply andb_true_iff in Hpf as [Hf Hrest]. apply orb_false_iff in Hfr as [Hff Hfrest].
    unfold fscript_panic_free, fscript_has_panic in Hf. apply negb_true_iff, orb_false_iff in Hf as [Hpre Hpost].
    assert (Ppre : panic_free (f_pre f) = true) by (unfold panic_free; now rewrite Hpre).
    assert (Ppost : panic_free (f_post f) = true) by (unfold panic_free; now rewrite Hpost).
    destruct (run_actions_sees (f_pre f) (upd_log s (L "pre:" ++ f_id f)) Ppre) as (s1 & E1 & L1 & A1).
    rewrite E1. cbn [bind]. rewrite vlog_upd_log_other in L1 by reflexivity. cbn [upd_log st_attrs] in L1, A1.
    rewrite Hff. destruct (f_pass f).
    + cbv beta iota.
      set (s1'' := if f_wrap f then set_wrapper s1 true (S (st_upper s1)) else s1).
      assert (W1 : vlog s1'' = vlog s1 /\ st_attrs s1'' = st_attrs s1) by (subst s1''; destruct (f_wrap f); split; reflexivity).
      destruct (IH target tgt s1'' Hrest Hfrest Ht) as (s2 & E2 & L2 & A2). rewrite E2. cbn [bind].
      set (s2'' := if f_wrap f then set_wrapper s2 (st_pretty s1) (st_upper s1) else s2).
      assert (W2 : vlog s2'' = vlog s2 /\ st_attrs s2'' = st_attrs s2) by (subst s2''; destruct (f_wrap f); split; reflexivity).
      destruct (run_actions_sees (f_post f) s2'' Ppost) as (s3 & E3 & L3 & A3). rewrite E3. cbn [bind].
      eexists. split; [reflexivity|]. rewrite vlog_upd_log_other by reflexivity. cbn [upd_log st_attrs].
      destruct W1 as [W1 W1a], W2 as [W2 W2a].
      rewrite L3, W2, L2, W1, L1, A3, W2a, A2, W1a, A1, !sees_app, !attrs_app, <- !app_assoc. auto.
    + destruct (run_actions_sees (f_post f) s1 Ppost) as (s3 & E3 & L3 & A3). rewrite E3. cbn [bind].
      eexists. split; [reflexivity|]. rewrite vlog_upd_log_other by reflexivity. cbn [upd_log st_attrs].
      rewrite L3, L1, A3, A1, !sees_app, !attrs_app. cbn [app sees_of attrs_after]. rewrite <- !app_assoc. auto.
Qed.

Lemma vlog_close_comp s : vlog (close_comp s) = vlog s.
Proof.
  unfold close_comp. destruct (st_comp s) as [[[c ch] [|]]|]; try reflexivity.
  unfold write_header. destruct (st_status s); reflexivity.
Qed.

Lemma cfg_no_fresh_parts cfg w r :
  cfg_has_fresh cfg = false ->
  existsb f_fresh (d_cfilters cfg ++ sfilters_of cfg w ++ rfilters_of cfg r) = false /\ existsb f_fresh (d_cfilters cfg) = false.
Proof.
  unfold cfg_has_fresh. intros H. apply orb_false_iff in H as [H Hr]. apply orb_false_iff in H as [Hc Hs].
  split; [|exact Hc]. rewrite !existsb_app, Hc. cbn.
  unfold sfilters_of, rfilters_of.
  destruct (assoc (s_root w) (d_sfilters cfg)) as [l|] eqn:E1; destruct (zassoc (r_id r) (d_rfilters cfg)) as [l2|] eqn:E2; cbn;
    rewrite ?(assoc_existsb_false (existsb f_fresh) _ _ _ Hs E1), ?(zassoc_existsb_false (existsb f_fresh) _ _ _ Hr E2); reflexivity.
Qed.

(* a whole request: the values every stage sees are those of ONE attribute map threaded through
   container filters, service filters, route filters, the route function, and back *)
Theorem dispatch_sees cfg req already s :
  cfg_has_panic cfg = false -> cfg_has_fresh cfg = false ->
  route_request O (d_table cfg) req <> RPanic ->
  (match route_request O (d_table cfg) req with RError _ => st_attrs s = [] | _ => True end) ->
  exists s', dispatch O cfg req already s = Done s' /\ vlog s' = vlog s ++ expected_sees O cfg req.
Proof.
  intros Hpf Hnf Hnp Hat. unfold dispatch, dispatch_body, expected_sees, route_request in *.
  assert (Hcp : cond_panic_hit O cfg req = false).
  { unfold cfg_has_panic in Hpf. apply orb_false_iff in Hpf as [Hpf0 _]. apply orb_false_iff in Hpf0 as [_ Hc]. unfold cond_panic_hit.
    destruct (d_condpanic cfg); [|discriminate]. cbn [existsb andb].
    destruct (str_eqb (hget req H_CondPanic) (L "1")); [|reflexivity]. cbn [andb].
    induction (path_candidates O (d_table cfg) req) as [|x l IH]; [reflexivity|exact IH]. }
  rewrite Hcp.
  destruct (select_route O (d_table cfg) req) as [[w r]|e].
  - destruct (cfg_panic_free_parts cfg w r Hpf) as (Hc & Hs & Hr & Hh).
    destruct (cfg_no_fresh_parts cfg w r Hnf) as [Hfr _].
    destruct (extract_parameters O (d_table cfg) w r (rq_path req)) as [ps|]; [|now contradiction Hnp].
    match goal with |- context [run_chain ?fs ?tg ?st] =>
      destruct (run_chain_sees fs tg (handler_of cfg r) st) as (s1 & E1 & L1 & _) end.
    + now apply forallb_app3.
    + exact Hfr.
    + intros s0.
      destruct (run_actions_sees (handler_of cfg r)
                  (upd_log (upd_log s0 (L "H:" ++ itoa (r_id r)))
                           (L "saw:" ++ attr_get K_sel (st_attrs s0) ++ L " " ++ attr_get K_params (st_attrs s0))) Hh)
        as (s1 & E1 & L1 & A1).
      exists s1. split; [exact E1|]. rewrite !vlog_upd_log_other in L1 by reflexivity. cbn [upd_log st_attrs] in L1, A1. auto.
    + rewrite E1. eexists. split; [reflexivity|]. rewrite vlog_close_comp, L1. cbn [upd_attrs st_attrs].
      destruct already; [reflexivity|].
      destruct (match r_enc r with Some b => b | None => d_encoding cfg end); [|reflexivity].
      destruct (wants_compressed req s); reflexivity.
  - destruct (cfg_panic_free_parts cfg {| s_root := []; s_routes := [] |}
                {| r_id := 0; r_method := []; r_rel := []; r_consumes := []; r_produces := [];
                   r_conds := []; r_noct := []; r_enc := None |} Hpf) as (Hc & _).
    destruct (cfg_no_fresh_parts cfg {| s_root := []; s_routes := [] |}
                {| r_id := 0; r_method := []; r_rel := []; r_consumes := []; r_produces := [];
                   r_conds := []; r_noct := []; r_enc := None |} Hnf) as [_ Hfr].
    destruct (run_chain_sees (d_cfilters cfg) (write_service_error e) [] s Hc Hfr) as (s1 & E1 & L1 & _).
    + intros s0. unfold write_service_error. destruct e as [|a| |]; cbn; eexists; (split; [reflexivity|]);
        rewrite app_nil_r; repeat match goal with
        | |- context [write_body ?x ?b] => destruct (vlog_write_body x b) as [-> ->]
        | |- context [write_header ?x ?n] => destruct (vlog_write_header x n) as [-> ->]
        end; auto.
    + rewrite E1. eexists. split; [reflexivity|]. rewrite vlog_close_comp, L1, Hat. reflexivity.
Qed.

(* ------------------------------------------------------------------ *)
(* C07: the compressor discipline of a whole request, for both entry points and
   every outcome (normal, routing error, panic with and without recovery) *)
Definition enabled_for (cfg : dcfg) (r : route) : bool :=
  match r_enc r with Some b => b | None => d_encoding cfg end.

(* what dispatch_body does to the books, with the reason when it installs *)
Lemma dispatch_body_install cfg req already s :
  book (state_of (dispatch_body O cfg req already s)) = book s \/
  (already = false /\ exists c w r,
     wants_compressed req s = Some c /\
     select_route O (d_table cfg) req = inl (w, r) /\ enabled_for cfg r = true /\
     book (state_of (dispatch_body O cfg req already s)) = (S (st_acq s), st_rel s, Some (c, false), st_recovered s)).
Proof.
  unfold dispatch_body. destruct (cond_panic_hit O cfg req); [now left|].
  destruct (select_route O (d_table cfg) req) as [[w r]|e].
  - fold (enabled_for cfg r). destruct already.
    + left. destruct (extract_parameters O (d_table cfg) w r (rq_path req)); [|reflexivity].
      rewrite book_run_chain; [apply book_upd_attrs|].
      intros s0. now rewrite book_run_actions, !book_upd_log.
    + destruct (enabled_for cfg r) eqn:Een.
      * destruct (wants_compressed req s) as [c|] eqn:Ew.
        -- right. split; [reflexivity|]. exists c, w, r. repeat split; try reflexivity; try exact Een.
           destruct (extract_parameters O (d_table cfg) w r (rq_path req)); [|reflexivity].
           rewrite book_run_chain; [apply book_upd_attrs|].
           intros s0. now rewrite book_run_actions, !book_upd_log.
        -- left. destruct (extract_parameters O (d_table cfg) w r (rq_path req)); [|reflexivity].
           rewrite book_run_chain; [apply book_upd_attrs|].
           intros s0. now rewrite book_run_actions, !book_upd_log.
      * left. destruct (extract_parameters O (d_table cfg) w r (rq_path req)); [|reflexivity].
        rewrite book_run_chain; [apply book_upd_attrs|].
        intros s0. now rewrite book_run_actions, !book_upd_log.
  - left. apply book_run_chain. intros s0. apply book_write_service_error.
Qed.

(* the recover step and the deferred Close, on the books *)
Lemma dispatch_book cfg req already s :
  let r1 := dispatch_body O cfg req already s in
  let r := dispatch O cfg req already s in
  st_acq (state_of r) = st_acq (state_of r1) /\
  comp_shape (state_of r) = match comp_shape (state_of r1) with Some (c, _) => Some (c, true) | None => None end /\
  st_rel (state_of r) = match comp_shape (state_of r1) with
                        | Some (_, false) => S (st_rel (state_of r1)) | _ => st_rel (state_of r1) end.
Proof.
  cbn zeta. unfold dispatch. set (r1 := dispatch_body O cfg req already s).
  set (r2 := match r1 with
             | Done s' => Done s'
             | Panicked m s' => if d_recover cfg then run_actions (d_recover_script cfg) _ else Panicked m s'
             end).
  assert (H2 : st_acq (state_of r2) = st_acq (state_of r1) /\ st_rel (state_of r2) = st_rel (state_of r1)
               /\ comp_shape (state_of r2) = comp_shape (state_of r1)).
  { subst r2. destruct r1 as [s'|m s']; cbn [state_of]; [auto|].
    destruct (d_recover cfg); cbn [state_of]; [|auto].
    match goal with |- context [run_actions ?l ?x] => pose proof (book_run_actions l x) as Hr end.
    unfold book in Hr. cbn in Hr. injection Hr as Ha Hr Hc _. auto. }
  destruct H2 as (Ha2 & Hr2 & Hc2).
  assert (Hfin : book (state_of match r2 with Done s' => Done (close_comp s') | Panicked m s' => Panicked m (close_comp s') end)
                 = book (close_comp (state_of r2))) by (destruct r2; reflexivity).
  rewrite book_close_comp in Hfin. unfold book in Hfin. rewrite Hc2 in Hfin.
  destruct (comp_shape (state_of r1)) as [[c [|]]|]; injection Hfin as F1 F2 F3 _; rewrite F1, F2, F3; repeat split; auto; congruence.
Qed.

Definition clean (s : rstate) : Prop := st_acq s = st_rel s /\ st_comp s = None.

Lemma clean_shape s : clean s -> comp_shape s = None.
Proof. intros [_ H]. unfold comp_shape. now rewrite H. Qed.

Lemma wants_compressed_hdr req s s' : st_hdr s = st_hdr s' -> wants_compressed req s = wants_compressed req s'.
Proof. unfold wants_compressed. now intros ->. Qed.

(* the main bookkeeping theorem: at most one compressor per response; whatever was
   acquired has been released exactly once and its stream closed — for every entry
   point and every outcome; and a compressor is only ever installed when the
   request's Accept-Encoding asks for its coding, the writer carried no coding on
   arrival, and encoding was enabled (Dispatch: for that route; ServeHTTP: see
   [servehttp_enabled]) *)
Theorem serve_books cfg en req s :
  clean s ->
  let r := serve O cfg en req s in
  balanced (state_of r) /\
  st_acq (state_of r) <= S (st_acq s) /\
  (comp_shape (state_of r) = None -> st_acq (state_of r) = st_acq s) /\
  (forall c cl, comp_shape (state_of r) = Some (c, cl) ->
     cl = true /\ st_acq (state_of r) = S (st_acq s) /\ wants_compressed req s = Some c /\
     match en with
     | EDispatch => exists w r0, select_route O (d_table cfg) req = inl (w, r0) /\ enabled_for cfg r0 = true
     | EServeHTTP => d_encoding cfg = true \/
                     exists w r0, select_route O (d_table cfg) req = inl (w, r0) /\ enabled_for cfg r0 = true
     end).
Proof.
  intros Hcl. pose proof (clean_shape s Hcl) as Hn. destruct Hcl as [Hb Hc0]. cbn zeta.
  assert (Hdisp : forall s0, st_acq s0 = st_rel s0 -> comp_shape s0 = None ->
            let r := dispatch O cfg req false s0 in
            balanced (state_of r) /\ st_acq (state_of r) <= S (st_acq s0) /\
            (comp_shape (state_of r) = None -> st_acq (state_of r) = st_acq s0) /\
            (forall c cl, comp_shape (state_of r) = Some (c, cl) ->
               cl = true /\ st_acq (state_of r) = S (st_acq s0) /\ wants_compressed req s0 = Some c /\
               exists w r0, select_route O (d_table cfg) req = inl (w, r0) /\ enabled_for cfg r0 = true)).
  { intros s0 Hb0 Hn0. cbn zeta. destruct (dispatch_book cfg req false s0) as (Da & Dc & Dr).
    destruct (dispatch_body_install cfg req false s0) as [Hsame|(_ & c & w & r0 & Hw & Hsel & Hen & Hinst)].
    - unfold book in Hsame. injection Hsame as A1 A2 A3 _. rewrite A3, Hn0 in Dc, Dr.
      unfold balanced. rewrite Dc. split; [split; [lia|exact Logic.I]|]. split; [lia|]. split; [intros _; lia|].
      intros c cl H. discriminate H.
    - unfold book in Hinst. injection Hinst as A1 A2 A3 _. rewrite A3 in Dc, Dr.
      unfold balanced. rewrite Dc. split; [split; [lia|reflexivity]|]. split; [lia|]. split; [intros H; discriminate H|].
      intros c1 cl H. injection H as <- <-. split; [reflexivity|]. split; [lia|]. split; [exact Hw|].
      exists w, r0. split; assumption. }
  (* a plain handler (Handle / HandleWithFilter) in place of dispatch: the same books *)
  assert (Hplain_books : forall wf script s0, book (state_of
            (match wf, d_cfilters cfg with
             | true, _ :: _ => run_chain (d_cfilters cfg) (run_actions script) s0
             | _, _ => run_actions script s0
             end)) = book s0).
  { intros wf script s0. destruct wf; [destruct (d_cfilters cfg) as [|f fs] eqn:Ef|].
    - apply book_run_actions.
    - apply book_run_chain. intros s1. apply book_run_actions.
    - apply book_run_actions. }
  assert (Hplain : forall wf script s0,
            let r := handle_plain cfg wf script req s0 in
            book (state_of r) =
              match comp_shape s0 with
              | Some (c, false) => (st_acq s0, S (st_rel s0), Some (c, true), st_recovered s0)
              | Some (c, true) => book s0
              | None => if d_encoding cfg then
                          match wants_compressed req s0 with
                          | Some c => (S (st_acq s0), S (st_rel s0), Some (c, true), st_recovered s0)
                          | None => book s0
                          end
                        else book s0
              end).
  { intros wf script s0. cbn zeta. unfold handle_plain.
    set (already := match st_comp s0 with Some _ => true | None => false end).
    set (s1 := if already then s0 else if d_encoding cfg then match wants_compressed req s0 with Some c => install c s0 | None => s0 end else s0).
    pose proof (Hplain_books wf script s1) as Hb1.
    match goal with |- book (state_of (match ?r with Done _ => _ | Panicked _ _ => _ end)) = _ => set (rr := r) in * end.
    assert (Hfin : book (state_of match rr with Done s' => Done (close_comp s') | Panicked m s' => Panicked m (close_comp s') end)
                   = book (close_comp (state_of rr))) by (destruct rr; reflexivity).
    rewrite Hfin, book_close_comp. unfold book in Hb1. injection Hb1 as B1 B2 B3 B4. rewrite B3. unfold book. rewrite B1, B2, B3, B4.
    subst s1 already. unfold comp_shape. destruct (st_comp s0) as [[[c ch] [|]]|] eqn:Ec; cbn; rewrite ?Ec; try reflexivity.
    destruct (d_encoding cfg); [|cbn; now rewrite Ec]. destruct (wants_compressed req s0); cbn; [reflexivity|now rewrite Ec]. }
  unfold serve, mux_target. destruct en.
  - destruct (Hdisp s Hb Hn) as (B & Le & Nn & Sm). split; [exact B|]. split; [exact Le|]. split; [exact Nn|].
    intros c cl H. destruct (Sm c cl H) as (X1 & X2 & X3 & X4). auto.
  - destruct (assoc (rq_path req) (d_plain cfg)) as [[wf script]|] eqn:Epl.
    { (* the mux hands the request to a plain handler *)
      destruct (d_encoding cfg) eqn:Eenc; cbn [negb].
      - destruct (wants_compressed req s) as [c0|] eqn:Ew.
        + pose proof (Hplain wf script (install c0 s)) as Hp. cbn zeta in Hp. cbn [install st_comp] in Hp |- *.
          unfold comp_shape in Hp. cbn [install st_comp st_acq st_rel st_recovered] in Hp.
          set (rd := handle_plain cfg wf script req (install c0 s)) in *.
          assert (Hfin : book (state_of match rd with Done s' => Done (close_comp s') | Panicked m s' => Panicked m (close_comp s') end)
                         = book (close_comp (state_of rd))) by (destruct rd; reflexivity).
          rewrite book_close_comp in Hfin. unfold book in Hp. injection Hp as P1 P2 P3 P4. rewrite P3 in Hfin.
          unfold book in Hfin. injection Hfin as F1 F2 F3 _.
          unfold balanced. rewrite F3, P3. split; [split; [lia|reflexivity]|]. split; [lia|]. split; [intros H; discriminate H|].
          intros c1 cl H. injection H as <- <-. split; [reflexivity|]. split; [lia|]. split; [reflexivity|]. now left.
        + pose proof (Hplain wf script s) as Hp. cbn zeta in Hp. rewrite Hn, ?Eenc, Ew in Hp.
          set (rd := handle_plain cfg wf script req s) in *.
          assert (Hfin : book (state_of match rd with Done s' => Done (close_comp s') | Panicked m s' => Panicked m (close_comp s') end)
                         = book (close_comp (state_of rd))) by (destruct rd; reflexivity).
          rewrite book_close_comp in Hfin. unfold book in Hp. injection Hp as P1 P2 P3 P4. rewrite P3, Hn in Hfin.
          unfold book in Hfin. injection Hfin as F1 F2 F3 _.
          unfold balanced. rewrite F3, P3, Hn. split; [split; [lia|exact Logic.I]|]. split; [lia|]. split; [intros _; lia|].
          intros c1 cl H. discriminate H.
      - pose proof (Hplain wf script s) as Hp. cbn zeta in Hp. rewrite Hn, ?Eenc in Hp.
        unfold book in Hp. injection Hp as P1 P2 P3 P4.
        unfold balanced. rewrite P3, Hn. split; [split; [lia|exact Logic.I]|]. split; [lia|]. split; [intros _; lia|].
        intros c1 cl H. discriminate H. }
    destruct (d_encoding cfg) eqn:Eenc; cbn [negb].
    2:{ destruct (Hdisp s Hb Hn) as (B & Le & Nn & Sm). split; [exact B|]. split; [exact Le|]. split; [exact Nn|].
        intros c cl H. destruct (Sm c cl H) as (X1 & X2 & X3 & X4). auto. }
    destruct (wants_compressed req s) as [c0|] eqn:Ew.
    + (* ServeHTTP installed the compressor; dispatch sees a compressing writer *)
      cbn [install st_comp].
      destruct (dispatch_book cfg req true (install c0 s)) as (Da & Dc & Dr).
      destruct (dispatch_body_install cfg req true (install c0 s)) as [Hsame|(F & _)]; [|discriminate F].
      unfold book in Hsame. injection Hsame as A1 A2 A3 _. rewrite A3 in Dc, Dr. cbn in Dc, Dr, A1, A2.
      set (rd := dispatch O cfg req true (install c0 s)) in *.
      assert (Hfin : book (state_of match rd with Done s' => Done (close_comp s') | Panicked m s' => Panicked m (close_comp s') end)
                     = book (close_comp (state_of rd))) by (destruct rd; reflexivity).
      rewrite book_close_comp, Dc in Hfin. unfold book in Hfin. injection Hfin as F1 F2 F3 _.
      unfold balanced. rewrite F3, Dc. split; [split; [lia|reflexivity]|]. split; [lia|]. split; [intros H; discriminate H|].
      intros c1 cl H. injection H as <- <-. split; [reflexivity|]. split; [lia|]. split; [reflexivity|]. now left.
    + rewrite Hc0. destruct (Hdisp s Hb Hn) as (B & Le & Nn & Sm).
      set (rd := dispatch O cfg req false s) in *.
      assert (Hfin : book (state_of match rd with Done s' => Done (close_comp s') | Panicked m s' => Panicked m (close_comp s') end)
                     = book (close_comp (state_of rd))) by (destruct rd; reflexivity).
      (* dispatch cannot have installed one either: wants_compressed said no *)
      assert (Hnone : comp_shape (state_of rd) = None).
      { destruct (comp_shape (state_of rd)) as [[c cl]|] eqn:E; [|reflexivity].
        destruct (Sm c cl eq_refl) as (_ & _ & W & _). congruence. }
      rewrite book_close_comp, Hnone in Hfin. unfold book in Hfin. injection Hfin as F1 F2 F3 _.
      unfold balanced in *. rewrite F3, F1, F2. rewrite Hnone in B |- *.
      split; [exact B|]. split; [exact Le|]. split; [intros _; now apply Nn|].
      intros c1 cl H. discriminate H.
Qed.

(* what [wants_compressed] = Some c means for the request and the writer *)
Lemma index_contains h w i : index h w = Some i -> contains h w = true.
Proof. unfold contains. now intros ->. Qed.

Theorem wants_compressed_sound req s c :
  wants_compressed req s = Some c ->
  accepts req (coding_name c) = true /\ hvalues H_ContentEncoding (st_hdr s) = [] \/
  accepts req (coding_name c) = true /\ exists v rest, hvalues H_ContentEncoding (st_hdr s) = v :: rest /\ v = [].
Proof.
  unfold wants_compressed, accepts.
  destruct (hvalues H_ContentEncoding (st_hdr s)) as [|v rest] eqn:Eh.
  - intros H. left. split; [|reflexivity].
    destruct (index (hget req H_AcceptEncoding) (L "gzip")) as [g|] eqn:Eg;
    destruct (index (hget req H_AcceptEncoding) (L "deflate")) as [z|] eqn:Ez; try discriminate H.
    + destruct (Nat.ltb g z); injection H as <-; cbn [coding_name]; eauto using index_contains.
    + injection H as <-. cbn [coding_name]. eauto using index_contains.
    + injection H as <-. cbn [coding_name]. eauto using index_contains.
  - destruct v as [|x v]; [|discriminate]. intros H. right. split; [|eauto].
    destruct (index (hget req H_AcceptEncoding) (L "gzip")) as [g|] eqn:Eg;
    destruct (index (hget req H_AcceptEncoding) (L "deflate")) as [z|] eqn:Ez; try discriminate H.
    + destruct (Nat.ltb g z); injection H as <-; cbn [coding_name]; eauto using index_contains.
    + injection H as <-. cbn [coding_name]. eauto using index_contains.
    + injection H as <-. cbn [coding_name]. eauto using index_contains.
Qed.

(* nothing bypasses an installed compressor: while one is installed no byte reaches the
   underlying writer directly, whatever the scripts do *)
Definition raw_guard (s : rstate) : option (list str) :=
  match st_comp s with Some _ => Some (st_raw s) | None => None end.

Lemma guard_write_header s n : raw_guard (write_header s n) = raw_guard s.
Proof. unfold write_header. destruct (st_status s); reflexivity. Qed.
Lemma guard_write_body s b : raw_guard s <> None -> raw_guard (write_body s b) = raw_guard s.
Proof.
  unfold write_body, raw_guard. destruct (st_comp s) as [[[c ch] [|]]|] eqn:E; cbn; rewrite ?E; try reflexivity.
  - unfold write_header. destruct (st_status s); cbn; reflexivity.
  - intros H. now contradiction H.
Qed.
Lemma guard_run_action a s : raw_guard s <> None -> raw_guard (state_of (run_action a s)) = raw_guard s.
Proof.
  destruct a; cbn; auto using guard_write_header, guard_write_body.
  intros H. rewrite guard_write_body; rewrite guard_write_header; auto.
Qed.
Lemma guard_run_actions l s : raw_guard s <> None -> raw_guard (state_of (run_actions l s)) = raw_guard s.
Proof.
  revert s; induction l as [|a l IH]; intros s H; [reflexivity|]. cbn [run_actions].
  pose proof (guard_run_action a s H) as Ha. destruct (run_action a s) as [s1|m s1]; cbn [bind state_of] in *.
  - rewrite IH; [exact Ha|]. now rewrite Ha.
  - exact Ha.
Qed.
Lemma guard_bind r k g :
  g <> None -> raw_guard (state_of r) = g -> (forall s, raw_guard s = g -> raw_guard (state_of (k s)) = g) ->
  raw_guard (state_of (bind r k)) = g.
Proof. destruct r; cbn; auto. Qed.
Lemma guard_run_chain fs target s :
  raw_guard s <> None ->
  (forall s0, raw_guard s0 <> None -> raw_guard (state_of (target s0)) = raw_guard s0) ->
  raw_guard (state_of (run_chain fs target s)) = raw_guard s.
Proof.
  intros Hs Ht. revert s Hs. induction fs as [|f rest IH]; intros s Hs; cbn [run_chain]; [now apply Ht|].
  apply guard_bind; [exact Hs| now rewrite guard_run_actions |].
  intros s1 H1. assert (N1 : raw_guard s1 <> None) by now rewrite H1. destruct (f_pass f).
  - apply guard_bind; [exact Hs| |].
    + destruct (f_fresh f), (f_wrap f); rewrite IH; auto.
    + intros s2 H2. assert (N2 : raw_guard s2 <> None) by now rewrite H2.
      apply guard_bind; [exact Hs| |].
      * destruct (f_fresh f), (f_wrap f); rewrite guard_run_actions; auto.
      * intros s3 H3. exact H3.
  - apply guard_bind; [exact Hs|now rewrite guard_run_actions|]. intros s3 H3. exact H3.
Qed.

(* ------------------------------------------------------------------ *)
(* C10: the recover handler's status reaches the client when nothing was written *)
Lemma status_write_header s n m : st_status s = Some m -> st_status (write_header s n) = Some m.
Proof. intros H. unfold write_header. rewrite H. exact H. Qed.
Lemma status_write_body s b m : st_status s = Some m -> st_status (write_body s b) = Some m.
Proof.
  intros H. unfold write_body. destruct (st_comp s) as [[[c ch] [|]]|]; cbn; try exact H;
    now rewrite (status_write_header s 200 m H).
Qed.
Lemma status_run_action a s m : st_status s = Some m -> st_status (state_of (run_action a s)) = Some m.
Proof. destruct a; cbn; auto using status_write_header, status_write_body. Qed.
Lemma status_run_actions l s m : st_status s = Some m -> st_status (state_of (run_actions l s)) = Some m.
Proof.
  revert s; induction l as [|a l IH]; intros s H; [exact H|]. cbn [run_actions].
  pose proof (status_run_action a s m H) as Ha. destruct (run_action a s) as [s1|x s1]; cbn [bind state_of] in *; auto.
Qed.
Lemma status_close_comp s m : st_status s = Some m -> st_status (close_comp s) = Some m.
Proof.
  intros H. unfold close_comp. destruct (st_comp s) as [[[c ch] [|]]|]; cbn; try exact H.
  now rewrite (status_write_header s 200 m H).
Qed.

Theorem recovered_status cfg req already s m s1 n rest :
  d_recover cfg = true -> d_recover_script cfg = AStatus n :: rest ->
  dispatch_body O cfg req already s = Panicked m s1 -> st_status s1 = None ->
  st_status (state_of (dispatch O cfg req already s)) = Some n /\
  st_recovered (state_of (dispatch O cfg req already s)) = S (st_recovered s1).
Proof.
  intros Hr Hs Hb Hn. unfold dispatch. rewrite Hb, Hr, Hs. cbn [run_actions run_action bind].
  match goal with |- context [run_actions rest ?x] => set (x0 := x) end.
  assert (H0 : st_status x0 = Some n) by (subst x0; unfold write_header; cbn; now rewrite Hn).
  pose proof (status_run_actions rest x0 n H0) as H1.
  pose proof (book_run_actions rest x0) as Hbk. unfold book in Hbk. injection Hbk as _ _ _ Hrec.
  assert (Hrec0 : st_recovered x0 = S (st_recovered s1)).
  { subst x0. unfold write_header. cbn. now rewrite Hn. }
  destruct (run_actions rest x0) as [s2|m2 s2]; cbn [state_of] in *.
  - split; [now apply status_close_comp|].
    pose proof (book_close_comp s2) as Hc. unfold book in Hc. destruct (comp_shape s2) as [[c [|]]|]; injection Hc as _ _ _ Hc; lia.
  - split; [now apply status_close_comp|].
    pose proof (book_close_comp s2) as Hc. unfold book in Hc. destruct (comp_shape s2) as [[c [|]]|]; injection Hc as _ _ _ Hc; lia.
Qed.

End Serve.

(* NegotiateProofs.v — C05: which representation Response.EntityWriter chooses *)
From Model Require Import Str Sexp Http Template Table DetectRoute Negotiate.
From Proofs Require Import StrFacts.
From Coq Require Import Lia Sorting.Sorted Permutation.

(* ------------------------------------------------------------------ *)
(* ranking: the first range, in sortedMimes' order, that selects something is the range of
   greatest quality among those that select something, the earliest of them on ties *)
Section Ranking.
Variable P : str * Z -> bool.          (* "this range selects a writer" *)

Definition best_step (b : option (str * Z)) (e : str * Z) : option (str * Z) :=
  if P e then match b with
              | None => Some e
              | Some x => if Z.ltb (snd x) (snd e) then Some e else Some x
              end
  else b.
Definition best (ranges : list (str * Z)) : option (str * Z) := fold_left best_step ranges None.

Definition desc (l : list (str * Z)) : Prop := StronglySorted (fun a b => (snd b <= snd a)%Z) l.

Lemma insert_mime_in l e x : In x (insert_mime l e) <-> x = e \/ In x l.
Proof.
  induction l as [|y l IH]; cbn.
  - split; [intros [H|[]]; now left|intros [H|[]]; now left].
  - destruct (Z.ltb (snd y) (snd e)); cbn.
    + split; [intros [H|H]; [now left|now right]|intros [H|H]; [now left|now right]].
    + rewrite IH. split; [intros [H|[H|H]]; auto|intros [H|[H|H]]; auto].
Qed.

Lemma insert_mime_desc l e : desc l -> desc (insert_mime l e).
Proof.
  unfold desc. induction 1 as [|y l Hl IH Hy]; cbn.
  - constructor; constructor.
  - destruct (Z.ltb (snd y) (snd e)) eqn:E.
    + apply Z.ltb_lt in E. constructor; [constructor; assumption|].
      constructor; [lia|]. rewrite Forall_forall in *. intros x Hx. specialize (Hy x Hx). lia.
    + apply Z.ltb_ge in E. constructor; [exact IH|]. rewrite Forall_forall in *. intros x Hx.
      apply insert_mime_in in Hx as [->|Hx]; [exact E|now apply Hy].
Qed.

(* find over an insertion, given the list is sorted *)
Lemma find_insert l e :
  desc l ->
  find P (insert_mime l e) =
    match find P l with
    | None => if P e then Some e else None
    | Some x => if P e && Z.ltb (snd x) (snd e) then Some e else Some x
    end.
Proof.
  unfold desc. induction 1 as [|y l Hl IH Hy]; cbn.
  - destruct (P e); reflexivity.
  - destruct (Z.ltb (snd y) (snd e)) eqn:E; cbn.
    + (* e goes first; everything after is lower than e *)
      destruct (P e) eqn:Pe; cbn.
      * destruct (P y); [now rewrite E|].
        destruct (find P l) as [x|] eqn:F; [|reflexivity].
        apply find_some in F as [Hin _]. rewrite Forall_forall in Hy. specialize (Hy x Hin).
        apply Z.ltb_lt in E. assert (Z.ltb (snd x) (snd e) = true) by (apply Z.ltb_lt; lia). now rewrite H.
      * destruct (P y); [reflexivity|]. destruct (find P l); reflexivity.
    + destruct (P y) eqn:Py.
      * now rewrite E, andb_false_r.
      * exact IH.
Qed.

Lemma sort_fold_inv ranges : forall acc,
  desc acc -> desc (fold_left insert_mime ranges acc) /\
  find P (fold_left insert_mime ranges acc) = fold_left best_step ranges (find P acc).
Proof.
  induction ranges as [|e rest IH]; intros acc Hd; cbn [fold_left]; [auto|].
  destruct (IH (insert_mime acc e) (insert_mime_desc acc e Hd)) as [D F]. split; [exact D|].
  rewrite F. f_equal. rewrite (find_insert acc e Hd). unfold best_step.
  destruct (find P acc) as [x|]; destruct (P e); cbn; reflexivity.
Qed.

Theorem find_sorted_is_best ranges : find P (sort_ranges ranges) = best ranges.
Proof. unfold sort_ranges, best. apply (sort_fold_inv ranges []). constructor. Qed.

(* what [best] is, declaratively: a selecting range of maximal quality, the earliest such *)
Lemma best_fold_spec ranges : forall b0,
  (match b0 with Some x => P x = true | None => True end) ->
  match fold_left best_step ranges b0 with
  | None => b0 = None /\ forall e, In e ranges -> P e = false
  | Some r => P r = true /\ (b0 = Some r \/ In r ranges) /\
              (forall x, b0 = Some x -> (snd x <= snd r)%Z) /\
              (forall e, In e ranges -> P e = true -> (snd e <= snd r)%Z)
  end.
Proof.
  induction ranges as [|e rest IH]; intros b0 Hb; cbn [fold_left].
  - destruct b0 as [x|].
    + split; [exact Hb|]. split; [now left|]. split; [intros y H; injection H as <-; lia|intros e []].
    + split; [reflexivity|intros e []].
  - assert (Hb' : match best_step b0 e with Some x => P x = true | None => True end).
    { unfold best_step. destruct (P e) eqn:Pe; [|exact Hb]. destruct b0 as [x|]; [destruct (Z.ltb _ _)|]; auto. }
    specialize (IH (best_step b0 e) Hb'). destruct (fold_left best_step rest (best_step b0 e)) as [r|].
    + destruct IH as (Pr & Hin & Hmax0 & Hmax). split; [exact Pr|]. split; [|split].
      * destruct Hin as [Hin|Hin]; [|right; now right].
        unfold best_step in Hin. destruct (P e); [|now left].
        destruct b0 as [x|]; [destruct (Z.ltb _ _)|]; injection Hin as <-; auto; right; now left.
      * intros x ->. unfold best_step in Hmax0. destruct (P e).
        -- destruct (Z.ltb (snd x) (snd e)) eqn:E.
           ++ apply Z.ltb_lt in E. specialize (Hmax0 e eq_refl). lia.
           ++ now apply Hmax0.
        -- now apply Hmax0.
      * intros y [<-|Hy] Py; [|now apply Hmax]. unfold best_step in Hmax0. rewrite Py in Hmax0.
        destruct b0 as [x|].
        -- destruct (Z.ltb (snd x) (snd e)) eqn:E.
           ++ now apply Hmax0.
           ++ apply Z.ltb_ge in E. specialize (Hmax0 x eq_refl). lia.
        -- now apply Hmax0.
    + destruct IH as (Hn & Hall). unfold best_step in Hn. destruct (P e) eqn:Pe.
      * destruct b0 as [x|]; [destruct (Z.ltb _ _)|]; discriminate.
      * split; [exact Hn|]. intros y [<-|Hy]; auto.
Qed.

Theorem best_spec ranges :
  match best ranges with
  | None => forall e, In e ranges -> P e = false
  | Some r => In r ranges /\ P r = true /\ forall e, In e ranges -> P e = true -> (snd e <= snd r)%Z
  end.
Proof.
  pose proof (best_fold_spec ranges None Logic.I) as H. unfold best. destruct (fold_left best_step ranges None) as [r|].
  - destruct H as (Pr & [H|H] & _ & Hmax); [discriminate|]. auto.
  - apply H.
Qed.

(* ties: the earliest selecting range of that quality wins *)
Lemma fold_best_keep r post :
  (forall e, In e post -> P e = true -> (snd e <= snd r)%Z) -> fold_left best_step post (Some r) = Some r.
Proof.
  induction post as [|e post IH]; intros Hpost; cbn [fold_left]; [reflexivity|].
  assert (He : best_step (Some r) e = Some r).
  { unfold best_step. destruct (P e) eqn:Pe; [|reflexivity].
    assert (H : Z.ltb (snd r) (snd e) = false) by (apply Z.ltb_ge; apply Hpost; [now left|exact Pe]). now rewrite H. }
  rewrite He. apply IH. intros x Hx. apply Hpost. now right.
Qed.

Theorem best_earliest pre r post :
  P r = true -> (forall e, In e pre -> P e = true -> (snd e < snd r)%Z) ->
  (forall e, In e post -> P e = true -> (snd e <= snd r)%Z) ->
  best (pre ++ r :: post) = Some r.
Proof.
  intros Pr Hpre Hpost. unfold best. rewrite fold_left_app. cbn [fold_left].
  pose proof (best_spec pre) as Hp. unfold best in Hp.
  destruct (fold_left best_step pre None) as [x|].
  - destruct Hp as (Hin & Px & _). specialize (Hpre x Hin Px).
    assert (Hr : best_step (Some x) r = Some r).
    { unfold best_step. rewrite Pr. assert (H : Z.ltb (snd x) (snd r) = true) by (apply Z.ltb_lt; lia). now rewrite H. }
    rewrite Hr. now apply fold_best_keep.
  - assert (Hr : best_step None r = Some r) by (unfold best_step; now rewrite Pr).
    rewrite Hr. now apply fold_best_keep.
Qed.

End Ranking.

(* ------------------------------------------------------------------ *)
(* what one range selects, when every Produces entry has a registered writer *)
Lemma first_nonempty_find {A} (f : A -> list str) l :
  first_nonempty (map f l) = match find (fun x => match f x with [] => false | _ => true end) l with
                             | Some x => f x | None => [] end.
Proof. induction l as [|x l IH]; cbn; [reflexivity|]. destruct (f x) eqn:E; [exact IH|now rewrite E]. Qed.

Lemma accessor_keys_registered reg k : mem k reg = true -> accessor_keys reg k = [k].
Proof. unfold accessor_keys. now intros ->. Qed.

Definition premise (reg produces : list str) : Prop :=
  produces <> [] /\ (forall p, In p produces -> mem p reg = true) /\ mem (L "*/*") reg = false.

Lemma choose_premise reg produces m :
  premise reg produces ->
  choose reg produces m =
    if mem m produces then [m]
    else if str_eqb m (L "*/*") then match produces with p :: _ => [p] | [] => [] end else [].
Proof.
  intros (Hne & Hreg & Hstar). unfold choose.
  assert (H1 : first_nonempty (map (fun p => if str_eqb p m then accessor_keys reg m else []) produces)
               = if mem m produces then [m] else []).
  { clear Hne. induction produces as [|p l IH]; cbn; [reflexivity|].
    destruct (str_eqb p m) eqn:E.
    - apply str_eqb_eq in E. subst p. rewrite str_eqb_refl. cbn.
      rewrite accessor_keys_registered by (apply Hreg; now left). reflexivity.
    - rewrite str_eqb_sym, E. cbn. apply IH. intros q Hq. apply Hreg. now right. }
  rewrite H1. destruct (mem m produces); [reflexivity|].
  destruct (str_eqb m (L "*/*")); [|reflexivity].
  destruct produces as [|p l]; [reflexivity|]. cbn. rewrite accessor_keys_registered by (apply Hreg; now left). reflexivity.
Qed.

(* ------------------------------------------------------------------ *)
(* C05 on the parsed ranges *)
Section Writer.
Variable qrank : str -> option Z.

Definition selects (reg produces : list str) (r : str * Z) : bool :=
  match choose reg produces (fst r) with [] => false | _ => true end.

Theorem entity_writer_is_best reg produces dflt accept0 :
  let accept := match accept0 with [] => L "*/*" | _ => accept0 end in
  match best (selects reg produces) (parsed_ranges qrank accept) with
  | Some r => entity_writer qrank reg produces dflt accept0 = choose reg produces (fst r)
  | None => True
  end.
Proof.
  cbn zeta. unfold entity_writer, sorted_mimes.
  set (accept := match accept0 with [] => L "*/*" | _ => accept0 end).
  rewrite (first_nonempty_find (fun r => choose reg produces (fst r))).
  change (fun x : str * Z => match choose reg produces (fst x) with [] => false | _ => true end) with (selects reg produces).
  rewrite find_sorted_is_best. destruct (best (selects reg produces) (parsed_ranges qrank accept)) as [r|] eqn:E; [|exact Logic.I].
  pose proof (best_spec (selects reg produces) (parsed_ranges qrank accept)) as H. rewrite E in H.
  destruct H as (_ & Hs & _). unfold selects in Hs. destruct (choose reg produces (fst r)); [discriminate|reflexivity].
Qed.

(* under the premise: the answer is ONE type (whatever the map order), it is produced by the
   route and has a registered writer *)
Theorem entity_writer_sound reg produces dflt accept0 r :
  premise reg produces ->
  best (selects reg produces) (parsed_ranges qrank (match accept0 with [] => L "*/*" | _ => accept0 end)) = Some r ->
  exists k, entity_writer qrank reg produces dflt accept0 = [k] /\ In k produces /\ mem k reg = true /\
            (k = fst r \/ (fst r = L "*/*" /\ exists rest, produces = k :: rest)).
Proof.
  intros Hp Hb. pose proof (entity_writer_is_best reg produces dflt accept0) as H. cbn zeta in H. rewrite Hb in H.
  rewrite H, (choose_premise reg produces (fst r) Hp).
  pose proof (best_spec (selects reg produces) (parsed_ranges qrank (match accept0 with [] => L "*/*" | _ => accept0 end))) as Hs.
  rewrite Hb in Hs. destruct Hs as (_ & Hsel & _).
  unfold selects in Hsel. rewrite (choose_premise reg produces (fst r) Hp) in Hsel.
  destruct Hp as (Hne & Hreg & _).
  destruct (mem (fst r) produces) eqn:Em.
  - apply mem_In in Em. exists (fst r). repeat split; auto.
  - destruct (str_eqb (fst r) (L "*/*")) eqn:Es; [|discriminate]. apply str_eqb_eq in Es.
    destruct produces as [|p rest]; [discriminate|]. exists p. repeat split; [now left|apply Hreg; now left|].
    right. split; [exact Es|eauto].
Qed.

(* a request the router admitted on Accept grounds is never answered 406 by the writer *)
Lemma hd_split_semi (e : str) :
  hd [] (split semi e) = match index_char e semi with Some q => firstn q e | None => e end.
Proof.
  induction e as [|c e IH]; [reflexivity|]. cbn [split]. rewrite index_char_cons.
  destruct (Ascii.eqb c semi) eqn:E; [reflexivity|].
  destruct (split semi e) as [|h t] eqn:Es; [now contradiction (split_not_nil semi e)|].
  cbn in IH. cbn. destruct (index_char e semi); cbn; now rewrite IH.
Qed.

Lemma parse_range_media e m q : parse_range qrank e = Some (m, q) -> m = media_of e.
Proof.
  unfold parse_range, media_of. rewrite <- hd_split_semi.
  destruct (split semi e) as [|h params]; [discriminate|]. cbn [hd].
  destruct (find_q qrank params); intros H; try discriminate; now injection H as <- _.
Qed.

Lemma drop_last_empty_sub l x : In x (drop_last_empty l) -> In x l.
Proof.
  induction l as [|y l IH]; cbn; [tauto|]. destruct l as [|z l'].
  - destruct y; cbn; tauto.
  - intros [H|H]; [now left|right; now apply IH].
Qed.
Lemma header_elems_sub v x : In x (header_elems v) -> In x (split comma v).
Proof.
  unfold header_elems. destruct (split comma v) as [|a [|b l]]; try tauto. apply drop_last_empty_sub.
Qed.

Definition all_q_parse (accept : str) : Prop :=
  forall e, In e (split comma accept) -> parse_range qrank e <> None.

Theorem admitted_never_406 reg produces dflt accept0 (rt : route) :
  premise reg produces -> r_produces rt = produces ->
  let accept := match accept0 with [] => L "*/*" | _ => accept0 end in
  all_q_parse accept -> matches_accept rt accept = true ->
  exists k, entity_writer qrank reg produces dflt accept0 = [k] /\ In k produces /\ mem k reg = true.
Proof.
  intros Hp Hrt accept Hq Hadm.
  assert (Hex : exists r, In r (parsed_ranges qrank accept) /\ selects reg produces r = true).
  { unfold matches_accept in Hadm. apply existsb_exists in Hadm as (e & He & Hm).
    apply header_elems_sub in He. destruct (parse_range qrank e) as [[m q]|] eqn:Ep; [|now contradiction (Hq e He)].
    pose proof (parse_range_media e m q Ep) as Hmed. exists (m, q). split.
    - unfold parsed_ranges. apply in_flat_map. exists e. split; [exact He|]. rewrite Ep. now left.
    - unfold selects. cbn [fst]. rewrite (choose_premise reg produces m Hp). rewrite Hrt in Hm. subst m.
      destruct Hp as (Hne & Hreg & Hstar).
      apply orb_true_iff in Hm as [Hm|Hm].
      + apply str_eqb_eq in Hm. rewrite Hm. destruct (mem (L "*/*") produces); [reflexivity|]. cbn.
        destruct produces; [now contradiction Hne|reflexivity].
      + apply existsb_exists in Hm as (p & Hpin & Hpm). apply orb_true_iff in Hpm as [Hpm|Hpm].
        * apply str_eqb_eq in Hpm. subst p. rewrite (Hreg _ Hpin) in Hstar. discriminate.
        * apply str_eqb_eq in Hpm. subst p. apply mem_In in Hpin. now rewrite Hpin. }
  destruct Hex as (r0 & Hin0 & Hs0).
  destruct (best (selects reg produces) (parsed_ranges qrank accept)) as [r|] eqn:Eb.
  - destruct (entity_writer_sound reg produces dflt accept0 r Hp Eb) as (k & E & A & B & _). eauto.
  - pose proof (best_spec (selects reg produces) (parsed_ranges qrank accept)) as H. rewrite Eb in H.
    rewrite (H r0 Hin0) in Hs0. discriminate.
Qed.

End Writer.

(* ------------------------------------------------------------------ *)
(* optional whitespace around "," ";" "=" does not change what a range means *)
Definition spaces (s : str) : Prop := Forall (fun c => c = space) s.
Definition no_char (c : ascii) (s : str) : Prop := ~ In c s.

Lemma trim_left_spaces a s : spaces a -> trim_left space (a ++ s) = trim_left space s.
Proof. induction 1 as [|c a Hc Ha IH]; cbn; [reflexivity|]. subst c. cbn. exact IH. Qed.

Lemma trim_left_nospace s : (match s with c :: _ => c <> space | [] => True end) -> trim_left space s = s.
Proof.
  destruct s as [|c s]; [reflexivity|]. cbn. intros H. destruct (Ascii.eqb c space) eqn:E; [|reflexivity].
  apply Ascii.eqb_eq in E. contradiction.
Qed.

Lemma spaces_rev a : spaces a -> spaces (rev a).
Proof. unfold spaces. intros H. apply Forall_rev. exact H. Qed.

Theorem trim_ows a m b :
  spaces a -> spaces b ->
  (match m with c :: _ => c <> space | [] => True end) ->
  (match rev m with c :: _ => c <> space | [] => True end) ->
  trim space (a ++ m ++ b) = m.
Proof.
  intros Ha Hb Hm1 Hm2. unfold trim, trim_right. rewrite trim_left_spaces by exact Ha.
  destruct m as [|c m'].
  - cbn [app]. assert (Hall : trim_left space b = []).
    { clear -Hb. induction Hb as [|x b Hx Hb IH]; cbn; [reflexivity|]. subst x. cbn. exact IH. }
    rewrite Hall. reflexivity.
  - rewrite (trim_left_nospace ((c :: m') ++ b)) by exact Hm1.
    rewrite rev_app_distr, trim_left_spaces by (now apply spaces_rev).
    rewrite (trim_left_nospace (rev (c :: m'))) by exact Hm2. apply rev_involutive.
Qed.

Lemma split_app_sep c a b : no_char c a -> split c (a ++ c :: b) = a :: split c b.
Proof.
  unfold no_char. induction a as [|x a IH]; cbn; intros Hn.
  - now rewrite Ascii.eqb_refl.
  - destruct (Ascii.eqb x c) eqn:E; [apply Ascii.eqb_eq in E; subst; exfalso; apply Hn; now left|].
    rewrite IH by (intros H; apply Hn; now right). reflexivity.
Qed.
Lemma split_no_sep c a : no_char c a -> split c a = [a].
Proof.
  unfold no_char. induction a as [|x a IH]; cbn; intros Hn; [reflexivity|].
  destruct (Ascii.eqb x c) eqn:E; [apply Ascii.eqb_eq in E; subst; exfalso; apply Hn; now left|].
  rewrite IH by (intros H; apply Hn; now right). reflexivity.
Qed.

Lemma index_char_app_first c a b : no_char c a -> index_char (a ++ c :: b) c = Some (length a).
Proof.
  unfold no_char. induction a as [|x a IH]; intros Hn.
  - cbn [app length]. rewrite index_char_cons, Ascii.eqb_refl. reflexivity.
  - cbn [app length]. rewrite index_char_cons.
    destruct (Ascii.eqb x c) eqn:E; [apply Ascii.eqb_eq in E; subst; exfalso; apply Hn; now left|].
    rewrite IH by (intros H; apply Hn; now right). reflexivity.
Qed.

Lemma firstn_sep (a : str) c b : firstn (length a) (a ++ c :: b) = a.
Proof. induction a as [|x a IH]; cbn; [reflexivity|]. now rewrite IH. Qed.
Lemma skipn_sep (a : str) c b : skipn (S (length a)) (a ++ c :: b) = b.
Proof. induction a as [|x a IH]; cbn; [reflexivity|]. exact IH. Qed.

(* a q parameter written with any optional whitespace, at any position among the parameters,
   after a media type padded with blanks: the range means (media, value of q) *)
Theorem parse_range_ows qrank (s1 s2 s3 s4 s5 s6 m v : str) (others : list str) z :
  spaces s1 -> spaces s2 -> spaces s3 -> spaces s4 -> spaces s5 -> spaces s6 ->
  no_char semi m -> no_char semi v -> no_char equals s3 ->
  (match m with c :: _ => c <> space | [] => True end) -> (match rev m with c :: _ => c <> space | [] => True end) ->
  (match v with c :: _ => c <> space | [] => True end) -> (match rev v with c :: _ => c <> space | [] => True end) ->
  no_char semi s1 -> no_char semi s2 -> no_char semi s3 -> no_char semi s4 -> no_char semi s5 -> no_char semi s6 ->
  Forall (fun p => no_char semi p /\ match split_eq p with Some (k, _) => trim space k <> L "q" | None => True end) others ->
  qrank v = Some z ->
  parse_range qrank (s1 ++ m ++ s2 ++ concat (map (fun p => semi :: p) others) ++
                     semi :: (s3 ++ L "q" ++ s4 ++ equals :: s5 ++ v ++ s6)) = Some (m, z).
Proof.
  intros S1 S2 S3 S4 S5 S6 Nm Nv Ne3 M1 M2 V1 V2 N1 N2 N3 N4 N5 N6 Hoth Hq.
  set (qparam := s3 ++ L "q" ++ s4 ++ equals :: s5 ++ v ++ s6).
  assert (Nqp : no_char semi qparam).
  { unfold qparam, no_char in *. rewrite !in_app_iff. cbn. rewrite !in_app_iff.
    intros [H|[[H|[]]|[H|[H|[H|[H|H]]]]]]; try tauto; discriminate. }
  (* the parameters after the media type *)
  assert (Hsplit : forall pre, no_char semi pre ->
            split semi (pre ++ concat (map (fun p => semi :: p) others) ++ semi :: qparam) = pre :: others ++ [qparam]).
  { clear -Hoth Nqp. induction Hoth as [|p l [Hp _] Hl IH]; intros pre Hpre; cbn [map concat app].
    - rewrite split_app_sep by exact Hpre. now rewrite split_no_sep.
    - rewrite <- app_assoc. cbn [app]. rewrite split_app_sep by exact Hpre. now rewrite IH. }
  unfold parse_range.
  replace (s1 ++ m ++ s2 ++ concat (map (fun p => semi :: p) others) ++ semi :: qparam)
    with ((s1 ++ m ++ s2) ++ concat (map (fun p => semi :: p) others) ++ semi :: qparam) by (now rewrite <- !app_assoc).
  rewrite Hsplit.
  2:{ unfold no_char in *. rewrite !in_app_iff. tauto. }
  assert (Hfq : find_q qrank (others ++ [qparam]) = QVal z).
  { clear Hsplit. induction Hoth as [|p l [_ Hp] Hl IH]; cbn [app find_q].
    - unfold qparam. unfold split_eq.
      replace (s3 ++ L "q" ++ s4 ++ equals :: s5 ++ v ++ s6) with ((s3 ++ L "q" ++ s4) ++ equals :: (s5 ++ v ++ s6)) by (now rewrite <- !app_assoc).
      assert (Neq : no_char equals (s3 ++ L "q" ++ s4)).
      { unfold no_char. rewrite !in_app_iff. intros [H|[H|H]].
        - contradiction.
        - cbn in H. destruct H as [H|[]]. discriminate.
        - clear -S4 H. induction S4 as [|c s Hc Hs IH]; [contradiction|]. destruct H as [H|H]; [subst; discriminate|auto]. }
      rewrite (index_char_app_first equals _ _ Neq).
      rewrite (firstn_sep (s3 ++ L "q" ++ s4) equals (s5 ++ v ++ s6)), (skipn_sep (s3 ++ L "q" ++ s4) equals (s5 ++ v ++ s6)).
      rewrite (trim_ows s3 (L "q") s4 S3 S4) by (cbn; discriminate).
      rewrite str_eqb_refl.
      rewrite (trim_ows s5 v s6 S5 S6 V1 V2), Hq. reflexivity.
    - destruct (split_eq p) as [[k w]|] eqn:Es.
      + destruct (str_eqb (trim space k) (L "q")) eqn:Ek; [apply str_eqb_eq in Ek; contradiction|]. exact IH.
      + exact IH. }
  rewrite Hfq. now rewrite (trim_ows s1 m s2 S1 S2 M1 M2).
Qed.

(* ---- determinism (after fix F10): for EVERY registry, Produces list, default and Accept header - inside the premise or
   not, with unparsable q values or not - the entity writer has at most one possible answer *)
Lemma accessor_keys_single reg m : length (accessor_keys reg m) <= 1.
Proof.
  unfold accessor_keys. destruct (mem m reg); [cbn; auto|].
  destruct (sort_strs (filter (fun k => contains m k) reg)); cbn; auto.
Qed.

Lemma first_nonempty_single {A} (l : list (list A)) :
  (forall x, In x l -> length x <= 1) -> length (first_nonempty l) <= 1.
Proof.
  induction l as [|x l IH]; intros H; cbn; [auto|].
  destruct x as [|a x]; [apply IH; intros y Hy; apply H; now right|].
  apply H. now left.
Qed.

Lemma choose_single reg produces media : length (choose reg produces media) <= 1.
Proof.
  unfold choose.
  assert (H1 : length (first_nonempty (map (fun p => if str_eqb p media then accessor_keys reg media else []) produces)) <= 1).
  { apply first_nonempty_single. intros x Hx. apply in_map_iff in Hx as (p & <- & _).
    destruct (str_eqb p media); [apply accessor_keys_single|cbn; auto]. }
  destruct (first_nonempty (map (fun p => if str_eqb p media then accessor_keys reg media else []) produces)) as [|a l] eqn:E;
    [|exact H1].
  destruct (str_eqb media (L "*/*")); [|cbn; auto].
  apply first_nonempty_single. intros x Hx. apply in_map_iff in Hx as (p & <- & _). apply accessor_keys_single.
Qed.

Theorem entity_writer_single qrank reg produces dflt accept0 :
  length (entity_writer qrank reg produces dflt accept0) <= 1.
Proof.
  unfold entity_writer.
  set (accept := match accept0 with [] => L "*/*" | _ => accept0 end).
  assert (H1 : length (first_nonempty (map (fun r => choose reg produces (fst r)) (sorted_mimes qrank accept))) <= 1).
  { apply first_nonempty_single. intros x Hx. apply in_map_iff in Hx as (r & <- & _). apply choose_single. }
  destruct (first_nonempty (map (fun r => choose reg produces (fst r)) (sorted_mimes qrank accept))) as [|a l] eqn:E; [|exact H1].
  pose proof (accessor_keys_single reg accept0) as H2.
  destruct (accessor_keys reg accept0) as [|b l2] eqn:E2; [|exact H2].
  destruct (str_eqb dflt MIME_JSON); [apply accessor_keys_single|].
  destruct (str_eqb dflt MIME_XML); [apply accessor_keys_single|].
  destruct (str_eqb dflt MIME_ZIP); [apply accessor_keys_single|].
  apply first_nonempty_single. intros x Hx. apply in_map_iff in Hx as (p & <- & _). apply accessor_keys_single.
Qed.

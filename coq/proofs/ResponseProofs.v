(* ResponseProofs.v — C15: status and length bookkeeping of Response *)
From Model Require Import Str Sexp Response.
From Coq Require Import Lia ZifyBool ZifyN ZifyNat.

Definition uw_seen (u : uw) : Z := match u_status u with Some n => n | None => 200%Z end.

(* ---- length: contentLength = bytes accepted (by the compressor, or by the writer) ---- *)
Definition len_inv (r : resp) : Prop :=
  p_clen r = (Z.of_N (p_cbytes r) + Z.of_N (u_bytes (p_u r)))%Z /\
  (if p_comp r then u_bytes (p_u r) = 0%N else p_cbytes r = 0%N).

Lemma uw_header_bytes u n : u_bytes (uw_header u n) = u_bytes u.
Proof. unfold uw_header. destruct (u_status u); reflexivity. Qed.
Lemma uw_header_fails u n : u_fails (uw_header u n) = u_fails u.
Proof. unfold uw_header. destruct (u_status u); reflexivity. Qed.
Lemma uw_header_script u n : u_script (uw_header u n) = u_script u.
Proof. unfold uw_header. destruct (u_status u); reflexivity. Qed.

Lemma uw_write_bytes u b u' w e :
  uw_write u b = (u', w, e) -> u_bytes u' = (u_bytes u + w)%N /\ (w <= N.of_nat (length b))%N.
Proof.
  unfold uw_write. rewrite uw_header_script, uw_header_bytes.
  destruct (u_script u) as [|[a e0] rest]; intros H; injection H as <- <- <-; cbn; lia.
Qed.

(* the failing call returns the error: an underlying Write call that failed makes uw_write
   report it, and only then *)
Lemma uw_write_err u b u' w e :
  uw_write u b = (u', w, e) ->
  (e = true <-> u_fails u' = S (u_fails u)) /\ (e = false <-> u_fails u' = u_fails u) /\
  (e = false -> w = N.of_nat (length b)).
Proof.
  unfold uw_write. rewrite uw_header_script, uw_header_fails.
  destruct (u_script u) as [|[a e0] rest]; intros H; injection H as <- <- <-; cbn.
  - repeat split; intros; try lia; try discriminate; auto.
  - destruct (e0 || (N.min (N.of_nat (length b)) a <? N.of_nat (length b))%N) eqn:E; repeat split; intros; try lia; try discriminate; auto.
Qed.

Lemma len_write_header r n : len_inv r -> len_inv (resp_write_header r n).
Proof. unfold len_inv, resp_write_header. cbn. now rewrite uw_header_bytes. Qed.

Lemma len_write r b r' e : resp_write r b = (r', e) -> len_inv r -> len_inv r'.
Proof.
  unfold resp_write, len_inv. destruct (p_comp r) eqn:Ec.
  - intros H [H1 H2]. injection H as <- <-. cbn. rewrite uw_header_bytes. split; [lia|exact H2].
  - destruct (uw_write (p_u r) b) as [[u w] err] eqn:Ew. intros H [H1 H2]. injection H as <- <-. cbn.
    destruct (uw_write_bytes _ _ _ _ _ Ew) as [Hb _]. split; [lia|exact H2].
Qed.

Lemma len_write_chunks chunks r r' e : resp_write_chunks r chunks = (r', e) -> len_inv r -> len_inv r'.
Proof.
  revert r. induction chunks as [|c rest IH]; intros r; cbn [resp_write_chunks].
  - intros H; injection H as <- <-; auto.
  - destruct (resp_write r c) as [r1 err] eqn:E1. destruct err.
    + intros H; injection H as <- <-. eauto using len_write.
    + intros H Hi. eapply IH; [exact H|]. eauto using len_write.
Qed.

Lemma len_step r o r' e : resp_step r o = (r', e) -> len_inv r -> len_inv r'.
Proof.
  destruct o as [b|n|n reason|n found vnil marshal|b]; cbn [resp_step].
  - apply len_write.
  - intros H; injection H as <- <-. apply len_write_header.
  - intros H Hi. eapply len_write; [exact H|]. now apply len_write_header.
  - destruct found; cbn [negb]; [|intros H; injection H as <- <-; apply len_write_header].
    destruct vnil; [intros H; injection H as <- <-; apply len_write_header|].
    destruct marshal as [chunks|].
    + intros H Hi. eapply len_write_chunks; [exact H|]. now apply len_write_header.
    + destruct (p_pretty r); intros H; injection H as <- <-; auto using len_write_header.
  - intros H; injection H as <- <-. auto.
Qed.

Lemma len_run ops r r' es : resp_run r ops = (r', es) -> len_inv r -> len_inv r'.
Proof.
  revert r es. induction ops as [|o rest IH]; intros r es; cbn [resp_run].
  - intros H; injection H as <- <-; auto.
  - destruct (resp_step r o) as [r1 e] eqn:E1. destruct (resp_run r1 rest) as [r2 es'] eqn:E2.
    intros H Hi. injection H as <- <-. eapply IH; [exact E2|]. eauto using len_step.
Qed.

Lemma comp_step r o r' e : resp_step r o = (r', e) -> p_comp r' = p_comp r.
Proof.
  assert (Hw : forall r b r' e, resp_write r b = (r', e) -> p_comp r' = p_comp r).
  { intros r0 b r0' e0. unfold resp_write. destruct (p_comp r0) eqn:Ec.
    - intros H; injection H as <- <-; reflexivity.
    - destruct (uw_write (p_u r0) b) as [[u w] err]. intros H; injection H as <- <-; reflexivity. }
  assert (Hc : forall chunks r r' e, resp_write_chunks r chunks = (r', e) -> p_comp r' = p_comp r).
  { induction chunks as [|c rest IH]; intros r0 r0' e0; cbn [resp_write_chunks].
    - intros H; injection H as <- <-; reflexivity.
    - destruct (resp_write r0 c) as [r1 err] eqn:E1. destruct err.
      + intros H; injection H as <- <-. eauto.
      + intros H. rewrite (IH _ _ _ H). eauto. }
  destruct o as [b|n|n reason|n found vnil marshal|b]; cbn [resp_step].
  - apply Hw.
  - intros H; injection H as <- <-; reflexivity.
  - intros H. now rewrite (Hw _ _ _ _ H).
  - destruct found; cbn [negb]; [|intros H; injection H as <- <-; reflexivity].
    destruct vnil; [intros H; injection H as <- <-; reflexivity|].
    destruct marshal as [chunks|].
    + intros H. now rewrite (Hc _ _ _ _ H).
    + destruct (p_pretty r); intros H; injection H as <- <-; reflexivity.
  - intros H; injection H as <- <-; reflexivity.
Qed.

Lemma comp_run ops r r' es : resp_run r ops = (r', es) -> p_comp r' = p_comp r.
Proof.
  revert r es. induction ops as [|o rest IH]; intros r es; cbn [resp_run].
  - intros H; injection H as <- <-; auto.
  - destruct (resp_step r o) as [r1 e] eqn:E1. destruct (resp_run r1 rest) as [r2 es'] eqn:E2.
    intros H. injection H as <- <-. rewrite (IH _ _ E2). eauto using comp_step.
Qed.

(* ---- status: statusCode = what the underlying writer received ---- *)
Definition st_inv (started : bool) (r : resp) : Prop :=
  (started = false -> u_status (p_u r) = None /\ p_code r = 200%Z) /\
  (u_status (p_u r) = None /\ p_code r = 200%Z \/ u_status (p_u r) = Some (p_code r) /\ (100 <= p_code r)%Z).

Lemma st_write_header r n :
  (100 <= n)%Z -> st_inv false r -> st_inv true (resp_write_header r n).
Proof.
  intros Hn [H0 _]. destruct (H0 eq_refl) as [Hs Hc]. unfold st_inv, resp_write_header, uw_header. cbn.
  rewrite Hs. cbn. split; [discriminate|]. right. split; [reflexivity|exact Hn].
Qed.

Lemma pretty_write r b r' e : resp_write r b = (r', e) -> p_pretty r' = p_pretty r.
Proof.
  unfold resp_write. destruct (p_comp r).
  - intros H; injection H as <- <-; reflexivity.
  - destruct (uw_write (p_u r) b) as [[u w] err]. intros H; injection H as <- <-; reflexivity.
Qed.

Lemma pretty_write_chunks chunks r r' e : resp_write_chunks r chunks = (r', e) -> p_pretty r' = p_pretty r.
Proof.
  revert r. induction chunks as [|c rest IH]; intros r; cbn [resp_write_chunks].
  - intros H; injection H as <- <-; reflexivity.
  - destruct (resp_write r c) as [r1 err] eqn:E1. destruct err.
    + intros H; injection H as <- <-. eauto using pretty_write.
    + intros H. rewrite (IH _ H). eauto using pretty_write.
Qed.

Lemma st_write started r b r' e : resp_write r b = (r', e) -> st_inv started r -> st_inv true r'.
Proof.
  unfold resp_write, st_inv. destruct (p_comp r).
  - intros H [_ H1]. injection H as <- <-. cbn. split; [discriminate|]. unfold uw_header.
    destruct (u_status (p_u r)) as [n0|] eqn:Es.
    + rewrite Es. exact H1.
    + cbn. destruct H1 as [[_ H1]|[H1 _]]; [|discriminate]. right. rewrite H1. split; [reflexivity|lia].
  - destruct (uw_write (p_u r) b) as [[u w] err] eqn:Ew. intros H [_ H1]. injection H as <- <-. cbn.
    split; [discriminate|]. unfold uw_write, uw_header in Ew.
    destruct (u_status (p_u r)) as [n0|] eqn:Es; cbn in Ew.
    + destruct H1 as [[H1 _]|[H1 H2]]; [discriminate|]. injection H1 as ->.
      destruct (u_script (p_u r)) as [|[a e0] rest]; injection Ew as <- _ _; cbn; rewrite ?Es; right; auto.
    + destruct H1 as [[_ H1]|[H1 _]]; [|discriminate].
      destruct (u_script (p_u r)) as [|[a e0] rest]; injection Ew as <- _ _; cbn; right; rewrite H1; split; auto; lia.
Qed.

Lemma st_write_chunks chunks r r' e : resp_write_chunks r chunks = (r', e) -> st_inv true r -> st_inv true r'.
Proof.
  revert r. induction chunks as [|c rest IH]; intros r; cbn [resp_write_chunks].
  - intros H; injection H as <- <-; auto.
  - destruct (resp_write r c) as [r1 err] eqn:E1. destruct err.
    + intros H; injection H as <- <-. eauto using st_write.
    + intros H Hi. eapply IH; [exact H|]. eauto using st_write.
Qed.

Lemma st_weaken r : st_inv false r -> st_inv true r.
Proof. intros [_ H]. split; [discriminate|exact H]. Qed.

Lemma st_step started r o r' e :
  resp_step r o = (r', e) -> st_inv started r ->
  status_arg_ok o = true -> (sets_status (p_pretty r) o = true -> started = false) ->
  st_inv (started || sets_status (p_pretty r) o || calls_write o) r' /\ p_pretty r' = pretty_after (p_pretty r) o.
Proof.
  destruct o as [b|n|n reason|n found vnil marshal|b]; cbn [resp_step sets_status calls_write status_arg_ok pretty_after].
  - intros H Hi _ _. rewrite orb_true_r. split; [eauto using st_write|eauto using pretty_write].
  - intros H Hi Hn Hs. rewrite (Hs eq_refl) in *. injection H as <- <-. cbn. split; [apply st_write_header; [lia|exact Hi]|reflexivity].
  - intros H Hi Hn Hs. rewrite (Hs eq_refl) in *. cbn. split.
    + eapply st_write; [exact H|]. apply st_write_header; [lia|exact Hi].
    + now rewrite (pretty_write _ _ _ _ H).
  - destruct found; cbn [negb andb].
    2:{ intros H Hi Hn Hs. rewrite (Hs eq_refl) in *. injection H as <- <-. cbn. split; [apply st_write_header; [lia|exact Hi]|reflexivity]. }
    destruct vnil; cbn [negb].
    { intros H Hi Hn Hs. rewrite (Hs eq_refl) in *. injection H as <- <-. cbn.
      split; [|reflexivity]. destruct marshal as [[|c l]|]; cbn; apply st_write_header; try lia; exact Hi. }
    destruct marshal as [chunks|].
    + intros H Hi Hn Hs. rewrite (Hs eq_refl) in *. cbn [orb]. split.
      * eapply st_write_chunks; [exact H|]. apply st_write_header; [lia|exact Hi].
      * now rewrite (pretty_write_chunks _ _ _ _ H).
    + destruct (p_pretty r) eqn:Ep; cbn [negb]; intros H Hi Hn Hs; injection H as <- <-.
      * rewrite !orb_false_r. split; [exact Hi|exact Ep].
      * rewrite (Hs eq_refl) in *. cbn. split; [apply st_write_header; [lia|exact Hi]|exact Ep].
  - intros H Hi _ _. injection H as <- <-. rewrite !orb_false_r. split; [exact Hi|reflexivity].
Qed.

Lemma st_run ops started r r' es :
  resp_run r ops = (r', es) -> st_inv started r -> wf_ops started (p_pretty r) ops = true ->
  exists started', st_inv started' r'.
Proof.
  revert started r es. induction ops as [|o rest IH]; intros started r es; cbn [resp_run wf_ops].
  - intros H Hi _. injection H as <- <-. eauto.
  - destruct (resp_step r o) as [r1 e] eqn:E1. destruct (resp_run r1 rest) as [r2 es'] eqn:E2.
    intros H Hi Hwf. injection H as <- <-.
    apply andb_true_iff in Hwf as [Hwf Hrest]. apply andb_true_iff in Hwf as [Harg Hset].
    destruct (st_step started r o r1 e E1 Hi Harg) as [Hi1 Hp].
    { intros Hs. rewrite Hs in Hset. now destruct started. }
    rewrite <- Hp in Hrest. eapply IH; eauto.
Qed.

Lemma status_code_inv started r : st_inv started r -> status_code r = uw_seen (p_u r).
Proof.
  intros [_ [[Hs Hc]|[Hs Hc]]]; unfold status_code, uw_seen; rewrite Hs.
  - now rewrite Hc.
  - destruct (Z.eqb_spec (p_code r) 0); [lia|reflexivity].
Qed.

(* ---- errors: an underlying failure during a call makes that call return an error ---- *)
Lemma fails_write r b r' e : resp_write r b = (r', e) ->
  u_fails (p_u r) <= u_fails (p_u r') /\ (u_fails (p_u r) < u_fails (p_u r') -> e = true) /\
  (e = true -> p_comp r = false /\ u_fails (p_u r) < u_fails (p_u r')).
Proof.
  unfold resp_write. destruct (p_comp r).
  - intros H; injection H as <- <-. cbn. rewrite uw_header_fails. repeat split; try lia; discriminate.
  - destruct (uw_write (p_u r) b) as [[u w] err] eqn:Ew. intros H; injection H as <- <-. cbn.
    destruct (uw_write_err _ _ _ _ _ Ew) as (A & B & _). destruct err.
    + assert (u_fails u = S (u_fails (p_u r))) by now apply A. repeat split; auto; lia.
    + assert (u_fails u = u_fails (p_u r)) by now apply B. repeat split; try lia; discriminate.
Qed.

Lemma fails_write_header r n : u_fails (p_u (resp_write_header r n)) = u_fails (p_u r).
Proof. cbn. apply uw_header_fails. Qed.

Lemma fails_write_chunks chunks r r' e : resp_write_chunks r chunks = (r', e) ->
  u_fails (p_u r) <= u_fails (p_u r') /\ (u_fails (p_u r) < u_fails (p_u r') -> e = true).
Proof.
  revert r. induction chunks as [|c rest IH]; intros r; cbn [resp_write_chunks].
  - intros H; injection H as <- <-. split; [lia|lia].
  - destruct (resp_write r c) as [r1 err] eqn:E1. destruct (fails_write _ _ _ _ E1) as (A & B & C). destruct err.
    + intros H; injection H as <- <-. auto.
    + intros H. destruct (IH _ H) as [A' B']. split; [lia|].
      intros Hlt. apply B'. destruct (Nat.eq_dec (u_fails (p_u r)) (u_fails (p_u r1))) as [Heq|Hne]; [lia|].
      assert (true = false) by (symmetry; apply B; lia). discriminate.
Qed.

Theorem step_error_reported r o r' e :
  resp_step r o = (r', e) -> u_fails (p_u r) < u_fails (p_u r') -> e = true.
Proof.
  destruct o as [b|n|n reason|n found vnil marshal|b]; cbn [resp_step].
  - intros H. apply (fails_write _ _ _ _ H).
  - intros H; injection H as <- <-. rewrite fails_write_header. lia.
  - intros H. destruct (fails_write _ _ _ _ H) as (_ & B & _). rewrite fails_write_header in B. exact B.
  - destruct found; cbn [negb]; [|intros H; injection H as <- <-; rewrite fails_write_header; lia].
    destruct vnil; [intros H; injection H as <- <-; rewrite fails_write_header; lia|].
    destruct marshal as [chunks|].
    + intros H. destruct (fails_write_chunks _ _ _ _ H) as [_ B]. rewrite fails_write_header in B. exact B.
    + destruct (p_pretty r); intros H; injection H as <- <-; reflexivity.
  - intros H; injection H as <- <-. cbn. lia.
Qed.

(* ---- C15 ---- *)
Theorem response_bookkeeping script comp pretty ops r es :
  wf_ops false pretty ops = true ->
  resp_run (resp_init script comp pretty) ops = (r, es) ->
  status_code r = uw_seen (p_u r) /\
  content_length r = Z.of_N (if comp then p_cbytes r else u_bytes (p_u r)).
Proof.
  intros Hwf Hrun. split.
  - destruct (st_run ops false (resp_init script comp pretty) r es Hrun) as [st Hst].
    + unfold st_inv. cbn. auto.
    + exact Hwf.
    + eapply status_code_inv; eauto.
  - assert (Hl : len_inv r).
    { eapply len_run; [exact Hrun|]. unfold len_inv. cbn. split; [reflexivity|destruct comp; reflexivity]. }
    pose proof (comp_run _ _ _ _ Hrun) as Hc. cbn in Hc. destruct Hl as [H1 H2]. rewrite Hc in H2.
    unfold content_length. destruct comp; lia.
Qed.

(* every call during which the underlying writer failed returned an error — over whole
   histories: the k-th result is true whenever the failure counter moved during call k *)
Fixpoint fails_trace (r : resp) (ops : list rop) : list (nat * nat) :=
  match ops with
  | [] => []
  | o :: rest => let r1 := fst (resp_step r o) in (u_fails (p_u r), u_fails (p_u r1)) :: fails_trace r1 rest
  end.

Theorem errors_reported ops r :
  Forall2 (fun (e : bool) (ab : nat * nat) => fst ab < snd ab -> e = true)
          (snd (resp_run r ops)) (fails_trace r ops).
Proof.
  revert r. induction ops as [|o rest IH]; intros r; cbn [resp_run fails_trace]; [constructor|].
  destruct (resp_step r o) as [r1 e] eqn:E1. specialize (IH r1).
  destruct (resp_run r1 rest) as [r2 es']. cbn [snd fst] in *. constructor; [|exact IH].
  cbn [fst snd]. eauto using step_error_reported.
Qed.

(* C07, the label: when a response leaves with a compressor installed, its Content-Encoding header is exactly that
   coding's name; when none is installed the header is what the writer carried on arrival (the container adds none).
   For every configuration whose scripts leave the Content-Encoding header alone. *)
From Coq Require Import List ZArith Bool Arith Lia.
From Model Require Import Str Sexp Http Template Table Curly DetectRoute Jsr311 Router Dispatch.
From Proofs Require Import StrFacts.
Import ListNotations.

Definition ce (s : rstate) : list str := hvalues H_ContentEncoding (st_hdr s).

(* [ce0]: the header values on arrival *)
Definition labelled (ce0 : list str) (s : rstate) : Prop :=
  match st_comp s with
  | Some (c, _, _) => ce s = [coding_name c]
  | None => ce s = ce0
  end.

(* scripts that leave the Content-Encoding header alone *)
Definition action_touches_ce (a : action) : bool :=
  match a with
  | AHeader k _ => str_eqb k H_ContentEncoding
  | ADelHeader k => str_eqb k H_ContentEncoding
  | _ => false
  end.
Definition script_keeps_ce (l : list action) : bool := negb (existsb action_touches_ce l).
Definition fscript_keeps_ce (f : fscript) : bool := script_keeps_ce (f_pre f) && script_keeps_ce (f_post f).
Definition cfg_keeps_ce (cfg : dcfg) : bool :=
  forallb fscript_keeps_ce (d_cfilters cfg)
  && forallb (fun x => forallb fscript_keeps_ce (snd x)) (d_sfilters cfg)
  && forallb (fun x => forallb fscript_keeps_ce (snd x)) (d_rfilters cfg)
  && forallb (fun x => script_keeps_ce (snd x)) (d_handlers cfg)
  && script_keeps_ce (d_recover_script cfg)
  && forallb (fun x => script_keeps_ce (snd (snd x))) (d_plain cfg).

Lemma hvalues_app k h1 h2 : hvalues k (h1 ++ h2) = hvalues k h1 ++ hvalues k h2.
Proof.
  induction h1 as [|[k' v] h1 IH]; cbn; [reflexivity|]. destruct (str_eqb k k'); cbn; now rewrite IH.
Qed.

Lemma hvalues_hadd_other k h k' v : str_eqb k' k = false -> hvalues k (hadd h k' v) = hvalues k h.
Proof.
  intros H. unfold hadd. rewrite hvalues_app. cbn.
  replace (str_eqb k k') with false; [apply app_nil_r|].
  destruct (str_eqb k k') eqn:E; [|reflexivity]. apply str_eqb_eq in E. subst. now rewrite str_eqb_refl in H.
Qed.

Lemma hvalues_filter_other k h k' :
  str_eqb k' k = false -> hvalues k (filter (fun kv => negb (str_eqb (fst kv) k')) h) = hvalues k h.
Proof.
  intros H. induction h as [|[k2 v] h IH]; cbn; [reflexivity|].
  destruct (str_eqb k2 k') eqn:E2; cbn.
  - apply str_eqb_eq in E2. subst k2.
    replace (str_eqb k k') with false; [exact IH|].
    destruct (str_eqb k k') eqn:E; [|reflexivity]. apply str_eqb_eq in E. subst. now rewrite str_eqb_refl in H.
  - destruct (str_eqb k k2); now rewrite IH.
Qed.

Lemma hvalues_filter_self k h : hvalues k (filter (fun kv => negb (str_eqb (fst kv) k)) h) = [].
Proof.
  induction h as [|[k2 v] h IH]; cbn; [reflexivity|].
  destruct (str_eqb k2 k) eqn:E; cbn; [exact IH|].
  replace (str_eqb k k2) with false; [exact IH|].
  destruct (str_eqb k k2) eqn:E'; [|reflexivity]. apply str_eqb_eq in E'. subst. now rewrite str_eqb_refl in E.
Qed.

Lemma hvalues_hset k h v : hvalues k (hset h k v) = [v].
Proof. unfold hset. rewrite hvalues_app, hvalues_filter_self. cbn. now rewrite str_eqb_refl. Qed.

(* ---- the state transformers ---- *)
Lemma lab_write_header ce0 s n : labelled ce0 s -> labelled ce0 (write_header s n).
Proof. unfold write_header. destruct (st_status s); auto. Qed.

Lemma lab_write_body ce0 s b : labelled ce0 s -> labelled ce0 (write_body s b).
Proof.
  unfold write_body, labelled, ce. destruct (st_comp s) as [[[c ch] [|]]|] eqn:E; cbn; rewrite ?E; auto;
    unfold write_header; destruct (st_status s); cbn; rewrite ?E; auto.
Qed.

Lemma lab_upd_log ce0 s e : labelled ce0 s -> labelled ce0 (upd_log s e).
Proof. auto. Qed.
Lemma lab_upd_attrs ce0 s a : labelled ce0 s -> labelled ce0 (upd_attrs s a).
Proof. auto. Qed.
Lemma lab_upd_hdr ce0 s h :
  hvalues H_ContentEncoding h = hvalues H_ContentEncoding (st_hdr s) -> labelled ce0 s -> labelled ce0 (upd_hdr s h).
Proof. unfold labelled, ce. cbn. intros ->. auto. Qed.

Lemma lab_install ce0 c s : labelled ce0 (install c s).
Proof. unfold labelled, ce, install. cbn. apply hvalues_hset. Qed.

Lemma lab_close_comp ce0 s : labelled ce0 s -> labelled ce0 (close_comp s).
Proof.
  unfold close_comp, labelled, ce. destruct (st_comp s) as [[[c ch] [|]]|] eqn:E; cbn; rewrite ?E; auto.
  unfold write_header. destruct (st_status s); cbn; auto.
Qed.

Lemma lab_run_action ce0 a s :
  action_touches_ce a = false -> labelled ce0 s -> labelled ce0 (state_of (run_action a s)).
Proof.
  destruct a; cbn [run_action state_of action_touches_ce]; intros Ht Hl.
  - apply lab_upd_hdr; [now apply hvalues_hadd_other|exact Hl].
  - now apply lab_write_header.
  - now apply lab_write_body.
  - exact Hl.
  - exact Hl.
  - exact Hl.
  - apply lab_upd_hdr; [now apply hvalues_filter_other|exact Hl].
  - exact Hl.
  - now apply lab_write_body, lab_write_header.
Qed.

Lemma lab_run_actions ce0 l : forall s,
  script_keeps_ce l = true -> labelled ce0 s -> labelled ce0 (state_of (run_actions l s)).
Proof.
  unfold script_keeps_ce. induction l as [|a l IH]; intros s H Hl; cbn [run_actions]; [exact Hl|].
  cbn [existsb] in H. apply negb_true_iff, orb_false_iff in H as [Ha Hr].
  pose proof (lab_run_action ce0 a s Ha Hl) as H1.
  destruct (run_action a s) as [s1|m s1]; cbn [bind state_of] in *; [|exact H1].
  apply IH; [now rewrite Hr|exact H1].
Qed.

(* through [bind] *)
Lemma lab_bind ce0 r k :
  labelled ce0 (state_of r) -> (forall s, labelled ce0 s -> labelled ce0 (state_of (k s))) ->
  labelled ce0 (state_of (bind r k)).
Proof. destruct r; cbn; auto. Qed.

Lemma lab_run_chain ce0 fs : forall target s,
  forallb fscript_keeps_ce fs = true ->
  (forall s0, labelled ce0 s0 -> labelled ce0 (state_of (target s0))) ->
  labelled ce0 s -> labelled ce0 (state_of (run_chain fs target s)).
Proof.
  induction fs as [|f rest IH]; intros target s Hf Ht Hl; cbn [run_chain]; [now apply Ht|].
  cbn [forallb] in Hf. apply andb_true_iff in Hf as [Hf Hrest]. unfold fscript_keeps_ce in Hf.
  apply andb_true_iff in Hf as [Hpre Hpost].
  apply lab_bind; [apply lab_run_actions; auto|]. intros s1 H1.
  destruct (f_pass f).
  - apply lab_bind.
    + apply IH; auto. destruct (f_fresh f), (f_wrap f); auto.
    + intros s2 H2. apply lab_bind.
      * apply lab_run_actions; auto. destruct (f_fresh f), (f_wrap f); auto.
      * intros s3 H3. exact H3.
  - apply lab_bind; [apply lab_run_actions; auto|]. intros s3 H3. exact H3.
Qed.

Lemma forallb_assoc_keeps {A} (p : A -> bool) k (l : list (str * A)) v :
  forallb (fun x => p (snd x)) l = true -> assoc k l = Some v -> p v = true.
Proof.
  induction l as [|[k' v'] l IH]; cbn; [discriminate|]. intros H E. apply andb_true_iff in H as [H1 H2].
  destruct (str_eqb k k'); [inversion E; now subst|auto].
Qed.
Lemma forallb_zassoc_keeps {A} (p : A -> bool) k (l : list (Z * A)) v :
  forallb (fun x => p (snd x)) l = true -> zassoc k l = Some v -> p v = true.
Proof.
  induction l as [|[k' v'] l IH]; cbn; [discriminate|]. intros H E. apply andb_true_iff in H as [H1 H2].
  destruct (Z.eqb k k'); [inversion E; now subst|auto].
Qed.

Section WithOracles.
Variable O : oracles.

Lemma lab_write_service_error ce0 e s : labelled ce0 s -> labelled ce0 (state_of (write_service_error e s)).
Proof.
  intros Hl. unfold write_service_error.
  destruct e as [|a| |]; cbn [state_of]; apply lab_write_body, lab_write_header; auto.
  apply lab_upd_hdr; [|exact Hl]. apply hvalues_hadd_other. reflexivity.
Qed.

Lemma cfg_keeps_parts cfg w r :
  cfg_keeps_ce cfg = true ->
  forallb fscript_keeps_ce (d_cfilters cfg ++ sfilters_of cfg w ++ rfilters_of cfg r) = true /\
  script_keeps_ce (handler_of cfg r) = true /\ forallb fscript_keeps_ce (d_cfilters cfg) = true /\
  script_keeps_ce (d_recover_script cfg) = true.
Proof.
  unfold cfg_keeps_ce. intros H.
  repeat (apply andb_true_iff in H; destruct H as [H ?]).
  assert (Hs : forallb fscript_keeps_ce (sfilters_of cfg w) = true).
  { unfold sfilters_of. destruct (assoc (s_root w) (d_sfilters cfg)) eqn:E; [|reflexivity].
    eapply (forallb_assoc_keeps (forallb fscript_keeps_ce)); eauto. }
  assert (Hr : forallb fscript_keeps_ce (rfilters_of cfg r) = true).
  { unfold rfilters_of. destruct (zassoc (r_id r) (d_rfilters cfg)) eqn:E; [|reflexivity].
    eapply (forallb_zassoc_keeps (forallb fscript_keeps_ce)); eauto. }
  assert (Hh : script_keeps_ce (handler_of cfg r) = true).
  { unfold handler_of. destruct (zassoc (r_id r) (d_handlers cfg)) eqn:E; [|reflexivity].
    eapply (forallb_zassoc_keeps script_keeps_ce); eauto. }
  repeat split; auto. rewrite !forallb_app, H, Hs, Hr. reflexivity.
Qed.

Lemma lab_dispatch_body ce0 cfg req already s :
  cfg_keeps_ce cfg = true ->
  (already = false -> st_comp s = None) ->
  labelled ce0 s -> labelled ce0 (state_of (dispatch_body O cfg req already s)).
Proof.
  intros Hk Hal Hl. unfold dispatch_body. destruct (cond_panic_hit O cfg req); [exact Hl|].
  destruct (select_route O (d_table cfg) req) as [[w r]|e].
  - destruct (cfg_keeps_parts cfg w r Hk) as (Hall & Hh & _ & _).
    set (s1 := if already then s else if match r_enc r with Some b => b | None => d_encoding cfg end
                                      then match wants_compressed req s with Some c => install c s | None => s end else s).
    assert (H1 : labelled ce0 s1).
    { subst s1. destruct already; [exact Hl|].
      destruct (match r_enc r with Some b => b | None => d_encoding cfg end); [|exact Hl].
      destruct (wants_compressed req s); [apply lab_install|exact Hl]. }
    destruct (extract_parameters O (d_table cfg) w r (rq_path req)); [|exact H1].
    apply lab_run_chain; auto.
    intros s0 H0. apply lab_run_actions; auto.
  - destruct (cfg_keeps_parts cfg {| s_root := []; s_routes := [] |}
                {| r_id := 0; r_method := []; r_rel := []; r_consumes := []; r_produces := []; r_conds := [];
                   r_noct := []; r_enc := None |} Hk) as (_ & _ & Hc & _).
    apply lab_run_chain; auto. intros s0 H0. now apply lab_write_service_error.
Qed.

Lemma lab_dispatch ce0 cfg req already s :
  cfg_keeps_ce cfg = true -> (already = false -> st_comp s = None) ->
  labelled ce0 s -> labelled ce0 (state_of (dispatch O cfg req already s)).
Proof.
  intros Hk Hal Hl. unfold dispatch.
  pose proof (lab_dispatch_body ce0 cfg req already s Hk Hal Hl) as Hb.
  destruct (dispatch_body O cfg req already s) as [s'|m s']; cbn [state_of] in *.
  - now apply lab_close_comp.
  - destruct (d_recover cfg); [|cbn; now apply lab_close_comp].
    destruct (cfg_keeps_parts cfg {| s_root := []; s_routes := [] |}
                {| r_id := 0; r_method := []; r_rel := []; r_consumes := []; r_produces := []; r_conds := [];
                   r_noct := []; r_enc := None |} Hk) as (_ & _ & _ & Hrs).
    match goal with |- context [run_actions ?l ?st] =>
      pose proof (lab_run_actions ce0 l st Hrs) as Hr end.
    match type of Hr with ?P -> _ => assert (HP : P) by exact Hb end. specialize (Hr HP).
    match goal with |- context [run_actions ?l ?st] => destruct (run_actions l st) as [s2|m2 s2] end;
      cbn [state_of] in *; now apply lab_close_comp.
Qed.

Lemma lab_handle_plain ce0 cfg wf script req s :
  cfg_keeps_ce cfg = true -> script_keeps_ce script = true ->
  labelled ce0 s -> labelled ce0 (state_of (handle_plain cfg wf script req s)).
Proof.
  intros Hk Hs Hl. unfold handle_plain.
  destruct (cfg_keeps_parts cfg {| s_root := []; s_routes := [] |}
              {| r_id := 0; r_method := []; r_rel := []; r_consumes := []; r_produces := []; r_conds := [];
                 r_noct := []; r_enc := None |} Hk) as (_ & _ & Hc & _).
  set (s1 := if match st_comp s with Some _ => true | None => false end then s
             else if d_encoding cfg then match wants_compressed req s with Some c => install c s | None => s end else s).
  assert (H1 : labelled ce0 s1).
  { subst s1. destruct (st_comp s); [exact Hl|]. destruct (d_encoding cfg); [|exact Hl].
    destruct (wants_compressed req s); [apply lab_install|exact Hl]. }
  assert (Hr : labelled ce0 (state_of (match wf, d_cfilters cfg with
                                       | true, _ :: _ => run_chain (d_cfilters cfg) (run_actions script) s1
                                       | _, _ => run_actions script s1 end))).
  { destruct wf, (d_cfilters cfg) as [|f fs] eqn:E; try (apply lab_run_actions; auto).
    rewrite <- E in *. apply lab_run_chain; auto. intros s0 H0. apply lab_run_actions; auto. }
  destruct (match wf, d_cfilters cfg with
            | true, _ :: _ => run_chain (d_cfilters cfg) (run_actions script) s1
            | _, _ => run_actions script s1 end) as [s2|m s2]; cbn [state_of] in *; now apply lab_close_comp.
Qed.

Lemma lab_mux_target ce0 cfg req already s :
  cfg_keeps_ce cfg = true -> (already = false -> st_comp s = None) ->
  labelled ce0 s -> labelled ce0 (state_of (mux_target O cfg req already s)).
Proof.
  intros Hk Hal Hl. unfold mux_target.
  destruct (assoc (rq_path req) (d_plain cfg)) as [[wf script]|] eqn:E.
  - apply lab_handle_plain; auto.
    unfold cfg_keeps_ce in Hk. repeat (apply andb_true_iff in Hk; destruct Hk as [Hk ?]).
    match goal with H : forallb _ (d_plain cfg) = true |- _ =>
      exact (forallb_assoc_keeps (fun x => script_keeps_ce (snd x)) _ _ _ H E) end.
  - now apply lab_dispatch.
Qed.

(* the label is right after every request *)
Theorem serve_label ce0 cfg en req s :
  cfg_keeps_ce cfg = true -> st_comp s = None -> ce s = ce0 ->
  labelled ce0 (state_of (serve O cfg en req s)).
Proof.
  intros Hk Hn Hc. assert (Hl : labelled ce0 s) by (unfold labelled; now rewrite Hn).
  unfold serve. destruct en; [apply lab_dispatch; auto|].
  destruct (d_encoding cfg); cbn [negb]; [|apply lab_mux_target; auto].
  set (s1 := match wants_compressed req s with Some c => install c s | None => s end).
  assert (H1 : labelled ce0 s1) by (subst s1; destruct (wants_compressed req s); [apply lab_install|exact Hl]).
  assert (Hal : (match st_comp s1 with Some _ => true | None => false end) = false -> st_comp s1 = None)
    by (destruct (st_comp s1); [discriminate|reflexivity]).
  pose proof (lab_mux_target ce0 cfg req _ s1 Hk Hal H1) as Hm.
  destruct (mux_target O cfg req _ s1) as [s2|m s2]; cbn [state_of] in *; now apply lab_close_comp.
Qed.

End WithOracles.

(* StrFacts.v — laws of the string functions of model/Str.v *)
From Model Require Import Str.
From Coq Require Import Lia.

Lemma str_eqb_refl s : str_eqb s s = true.
Proof. induction s as [|x s IH]; cbn; [reflexivity|]. now rewrite Ascii.eqb_refl, IH. Qed.

Lemma str_eqb_eq a b : str_eqb a b = true <-> a = b.
Proof.
  split.
  - revert b; induction a as [|x a IH]; intros [|y b] H; cbn in H; try discriminate; [reflexivity|].
    apply andb_true_iff in H as [H1 H2]. apply Ascii.eqb_eq in H1. subst. f_equal. now apply IH.
  - intros ->. apply str_eqb_refl.
Qed.

Lemma str_eqb_neq a b : str_eqb a b = false <-> a <> b.
Proof.
  split.
  - intros H E. apply str_eqb_eq in E. congruence.
  - intros H. destruct (str_eqb a b) eqn:E; [|reflexivity]. apply str_eqb_eq in E. contradiction.
Qed.

Lemma str_eqb_sym a b : str_eqb a b = str_eqb b a.
Proof.
  destruct (str_eqb a b) eqn:E.
  - apply str_eqb_eq in E. subst. symmetry. apply str_eqb_refl.
  - symmetry. apply str_eqb_neq. apply str_eqb_neq in E. congruence.
Qed.

Lemma str_eqb_spec a b : reflect (a = b) (str_eqb a b).
Proof. destruct (str_eqb a b) eqn:E; constructor; [now apply str_eqb_eq | now apply str_eqb_neq]. Qed.

Lemma str_eqb_nil_r s : str_eqb s [] = true <-> s = [].
Proof. apply str_eqb_eq. Qed.

Lemma mem_In x l : mem x l = true <-> In x l.
Proof.
  induction l as [|y l IH]; cbn; [split; [discriminate|tauto]|].
  rewrite orb_true_iff, IH, str_eqb_eq. split; intros [H|H]; auto.
Qed.

Lemma mem_false x l : mem x l = false <-> ~ In x l.
Proof.
  split.
  - intros H Hin. apply mem_In in Hin. congruence.
  - intros H. destruct (mem x l) eqn:E; [|reflexivity]. apply mem_In in E. contradiction.
Qed.

Lemma has_prefix_app s p : has_prefix (p ++ s) p = true.
Proof. induction p as [|c p IH]; cbn; [reflexivity|]. now rewrite Ascii.eqb_refl, IH. Qed.

Lemma has_prefix_spec s p : has_prefix s p = true <-> exists t, s = p ++ t.
Proof.
  split.
  - revert s; induction p as [|c p IH]; intros s H; cbn in *; [now exists s|].
    destruct s as [|d s]; [discriminate|]. apply andb_true_iff in H as [H1 H2].
    apply Ascii.eqb_eq in H1. subst. destruct (IH _ H2) as [t ->]. now exists t.
  - intros [t ->]. apply has_prefix_app.
Qed.

Lemma has_suffix_spec s p : has_suffix s p = true <-> exists t, s = t ++ p.
Proof.
  unfold has_suffix. rewrite has_prefix_spec. split.
  - intros [t H]. exists (rev t). apply (f_equal (@rev _)) in H.
    rewrite rev_involutive, rev_app_distr, rev_involutive in H. exact H.
  - intros [t ->]. exists (rev t). now rewrite rev_app_distr.
Qed.

Lemma assoc_In {A} k (l : list (str * A)) v : assoc k l = Some v -> In (k, v) l.
Proof.
  induction l as [|[k' v'] l IH]; cbn; [discriminate|].
  destruct (str_eqb_spec k k') as [->|N]; [intros [= ->]; now left | intros H; right; auto].
Qed.

Lemma forallb_map {A B} (f : A -> B) p l : forallb p (map f l) = forallb (fun x => p (f x)) l.
Proof. induction l as [|x l IH]; cbn; [reflexivity|now rewrite IH]. Qed.

Lemma forallb_ext {A} (p q : A -> bool) l : (forall a, p a = q a) -> forallb p l = forallb q l.
Proof. intros H. induction l as [|x l IH]; cbn; [reflexivity|now rewrite H, IH]. Qed.

Lemma existsb_ext {A} (p q : A -> bool) l : (forall a, p a = q a) -> existsb p l = existsb q l.
Proof. intros H. induction l as [|x l IH]; cbn; [reflexivity|now rewrite H, IH]. Qed.

(* ---- index_char ---- *)
Lemma index_char_from_S i s c : index_char_from (S i) s c = option_map S (index_char_from i s c).
Proof. revert i; induction s as [|x s IH]; intros i; cbn; [reflexivity|]. destruct (Ascii.eqb x c); [reflexivity|apply IH]. Qed.

Lemma index_char_cons x s c :
  index_char (x :: s) c = if Ascii.eqb x c then Some 0 else option_map S (index_char s c).
Proof. unfold index_char. cbn. destruct (Ascii.eqb x c); [reflexivity|]. apply index_char_from_S. Qed.

Lemma index_char_nil c : index_char [] c = None.
Proof. reflexivity. Qed.

Lemma index_char_Some s c e :
  index_char s c = Some e ->
  e < List.length s /\ nth e s c = c /\ existsb (Ascii.eqb c) (firstn e s) = false /\ skipn e s = c :: skipn (S e) s.
Proof.
  revert e; induction s as [|x s IH]; intros e; [discriminate|]. rewrite index_char_cons.
  destruct (Ascii.eqb x c) eqn:E.
  - intros [= <-]. apply Ascii.eqb_eq in E. subst. cbn. repeat split; lia.
  - destruct (index_char s c) as [e'|]; [|discriminate]. intros [= <-].
    destruct (IH e' eq_refl) as (H1 & H2 & H3 & H4). cbn [List.length nth firstn existsb skipn].
    rewrite Ascii.eqb_sym, E. cbn. repeat split; try lia; assumption.
Qed.

Lemma index_char_None s c : index_char s c = None <-> existsb (Ascii.eqb c) s = false.
Proof.
  induction s as [|x s IH]; [cbn; tauto|]. rewrite index_char_cons. cbn [existsb].
  rewrite (Ascii.eqb_sym c x). destruct (Ascii.eqb x c); cbn; [split; discriminate|].
  destruct (index_char s c); cbn; [split; [discriminate|]; intros H; apply IH in H; discriminate|]. tauto.
Qed.

Lemma index_char_app_notin a b c :
  existsb (Ascii.eqb c) a = false -> index_char (a ++ c :: b) c = Some (List.length a).
Proof.
  induction a as [|x a IH]; cbn [existsb app List.length]; intros H.
  - rewrite index_char_cons, Ascii.eqb_refl. reflexivity.
  - apply orb_false_iff in H as [H1 H2]. rewrite index_char_cons, Ascii.eqb_sym, H1, IH by assumption. reflexivity.
Qed.

Lemma index_char_notin_app a b c :
  existsb (Ascii.eqb c) a = false -> index_char (a ++ b) c = option_map (fun k => List.length a + k) (index_char b c).
Proof.
  induction a as [|x a IH]; cbn [existsb app List.length]; intros H.
  - destruct (index_char b c); reflexivity.
  - apply orb_false_iff in H as [H1 H2]. rewrite index_char_cons, Ascii.eqb_sym, H1, IH by assumption.
    destruct (index_char b c); reflexivity.
Qed.

Lemma existsb_app_false {A} (p : A -> bool) a b :
  existsb p (a ++ b) = false <-> existsb p a = false /\ existsb p b = false.
Proof. rewrite existsb_app, orb_false_iff. tauto. Qed.

(* ---- slices ---- *)
Lemma slice_app_mid a b c : slice (a ++ b ++ c) (List.length a) (List.length a + List.length b) = b.
Proof.
  unfold slice. rewrite skipn_app, skipn_all, Nat.sub_diag. cbn [skipn app].
  replace (List.length a + List.length b - List.length a) with (List.length b) by lia.
  rewrite firstn_app, firstn_all, Nat.sub_diag. cbn. now rewrite app_nil_r.
Qed.

Lemma has_prefix_cons_same c s p : has_prefix (c :: s) (c :: p) = has_prefix s p.
Proof. cbn. now rewrite Ascii.eqb_refl. Qed.

Lemma has_suffix_app s p : has_suffix (s ++ p) p = true.
Proof. apply has_suffix_spec. now exists s. Qed.

Lemma split_not_nil c s : split c s <> [].
Proof. destruct s as [|x s]; cbn; [discriminate|]. destruct (Ascii.eqb x c); [discriminate|]. destruct (split c s); discriminate. Qed.

(* StrFacts.v — laws of the string functions of model/Str.v *)
From Model Require Import Str.
From Coq Require Import Lia.

Lemma str_eqb_refl s : str_eqb s s = true.
Proof. induction s as [|x s IH]; cbn; [reflexivity|]. now rewrite Ascii.eqb_refl, IH. Qed.

Lemma str_eqb_eq a b : str_eqb a b = true <-> a = b.
Proof.
  split.
  - revert b; induction a as [|x a IH]; intros [|y b] H; cbn in H; try discriminate; [reflexivity|].
    apply andb_true_iff in H as [H1 H2]. apply Ascii.eqb_eq in H1. subst. f_equal. now apply IH.
  - intros ->. apply str_eqb_refl.
Qed.

Lemma str_eqb_neq a b : str_eqb a b = false <-> a <> b.
Proof.
  split.
  - intros H E. apply str_eqb_eq in E. congruence.
  - intros H. destruct (str_eqb a b) eqn:E; [|reflexivity]. apply str_eqb_eq in E. contradiction.
Qed.

Lemma str_eqb_sym a b : str_eqb a b = str_eqb b a.
Proof.
  destruct (str_eqb a b) eqn:E.
  - apply str_eqb_eq in E. subst. symmetry. apply str_eqb_refl.
  - symmetry. apply str_eqb_neq. apply str_eqb_neq in E. congruence.
Qed.

Lemma str_eqb_spec a b : reflect (a = b) (str_eqb a b).
Proof. destruct (str_eqb a b) eqn:E; constructor; [now apply str_eqb_eq | now apply str_eqb_neq]. Qed.

Lemma str_eqb_nil_r s : str_eqb s [] = true <-> s = [].
Proof. apply str_eqb_eq. Qed.

Lemma mem_In x l : mem x l = true <-> In x l.
Proof.
  induction l as [|y l IH]; cbn; [split; [discriminate|tauto]|].
  rewrite orb_true_iff, IH, str_eqb_eq. split; intros [H|H]; auto.
Qed.

Lemma mem_false x l : mem x l = false <-> ~ In x l.
Proof.
  split.
  - intros H Hin. apply mem_In in Hin. congruence.
  - intros H. destruct (mem x l) eqn:E; [|reflexivity]. apply mem_In in E. contradiction.
Qed.

Lemma has_prefix_app s p : has_prefix (p ++ s) p = true.
Proof. induction p as [|c p IH]; cbn; [reflexivity|]. now rewrite Ascii.eqb_refl, IH. Qed.

Lemma has_prefix_spec s p : has_prefix s p = true <-> exists t, s = p ++ t.
Proof.
  split.
  - revert s; induction p as [|c p IH]; intros s H; cbn in *; [now exists s|].
    destruct s as [|d s]; [discriminate|]. apply andb_true_iff in H as [H1 H2].
    apply Ascii.eqb_eq in H1. subst. destruct (IH _ H2) as [t ->]. now exists t.
  - intros [t ->]. apply has_prefix_app.
Qed.

Lemma has_suffix_spec s p : has_suffix s p = true <-> exists t, s = t ++ p.
Proof.
  unfold has_suffix. rewrite has_prefix_spec. split.
  - intros [t H]. exists (rev t). apply (f_equal (@rev _)) in H.
    rewrite rev_involutive, rev_app_distr, rev_involutive in H. exact H.
  - intros [t ->]. exists (rev t). now rewrite rev_app_distr.
Qed.

Lemma assoc_In {A} k (l : list (str * A)) v : assoc k l = Some v -> In (k, v) l.
Proof.
  induction l as [|[k' v'] l IH]; cbn; [discriminate|].
  destruct (str_eqb_spec k k') as [->|N]; [intros [= ->]; now left | intros H; right; auto].
Qed.

Lemma forallb_map {A B} (f : A -> B) p l : forallb p (map f l) = forallb (fun x => p (f x)) l.
Proof. induction l as [|x l IH]; cbn; [reflexivity|now rewrite IH]. Qed.

Lemma forallb_ext {A} (p q : A -> bool) l : (forall a, p a = q a) -> forallb p l = forallb q l.
Proof. intros H. induction l as [|x l IH]; cbn; [reflexivity|now rewrite H, IH]. Qed.

Lemma existsb_ext {A} (p q : A -> bool) l : (forall a, p a = q a) -> existsb p l = existsb q l.
Proof. intros H. induction l as [|x l IH]; cbn; [reflexivity|now rewrite H, IH]. Qed.

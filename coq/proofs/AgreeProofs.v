(* AgreeProofs.v — C18, the positive half: on a service whose templates both routers read
   the same way, for a cleanly segmented path and strictly ordered eligible routes, the
   two routers give the same outcome.  Assembled from the outcome theorems (C02 both
   routers), the best-match theorems (C03 both routers) and the parameter theorems (C04
   both routers); the new ingredient is that the two admission relations and the two
   binding functions coincide on plain templates. *)
From Model Require Import Str Sexp Http Template Table Curly DetectRoute Jsr311 Router.
From Spec Require Import RouteSpec RankSpec.
From Proofs Require Import StrFacts TemplateFacts CurlyProofs RouterProofs ParamProofs OutcomeProofs
     JsrProofs JsrOutcomeProofs RankRouteProofs.
From Coq Require Import Lia Permutation.

Lemma strs_eqb_eq a b : strs_eqb a b = true -> a = b.
Proof.
  revert b. induction a as [|x a IH]; intros [|y b] H; try discriminate H; [reflexivity|].
  cbn in H. apply andb_true_iff in H as [H1 H2]. apply str_eqb_eq in H1. subst. f_equal. now apply IH.
Qed.

Definition plain_ne (t : vtok) : bool :=
  match v_tk t, v_verb t with
  | TLit s, None => negb (str_eqb s [])
  | TVar _, None => true
  | _, _ => false
  end.

Lemma plain_tok_eqb_eq a b : plain_tok_eqb a b = true -> a = b /\ plain_ne a = true.
Proof.
  unfold plain_tok_eqb, plain_ne. destruct a as [ka va], b as [kb vb]. cbn.
  destruct ka, va, kb, vb; try discriminate; intros H.
  - apply andb_true_iff in H as [H1 H2]. apply str_eqb_eq in H1. subst. auto.
  - apply str_eqb_eq in H. subst. auto.
Qed.

Lemma forall2b_plain a : forall b, forall2b plain_tok_eqb a b = true -> a = b /\ forallb plain_ne a = true.
Proof.
  induction a as [|x a IH]; intros [|y b] H; try discriminate H; [auto|].
  cbn in H. apply andb_true_iff in H as [H1 H2]. apply plain_tok_eqb_eq in H1 as [-> Hp].
  destruct (IH _ H2) as [-> Hf]. cbn. rewrite Hp, Hf. auto.
Qed.

Lemma tpl_ge_refl a : tpl_ge a a = true.
Proof.
  induction a as [|x a IH]; [reflexivity|]. cbn. rewrite IH, andb_true_r.
  unfold is_lit. destruct (v_tk x); try reflexivity. apply str_eqb_refl.
Qed.

Lemma tpl_ge_app_same a x y : tpl_ge (a ++ x) (a ++ y) = tpl_ge x y.
Proof.
  induction a as [|t a IH]; [reflexivity|]. cbn [app tpl_ge]. rewrite IH.
  replace (if is_lit t then match v_tk t with TLit s => match v_tk t with TLit s' => str_eqb s s' | _ => false end | _ => false end else true)
    with true; [reflexivity|].
  unfold is_lit. destruct (v_tk t); try reflexivity. symmetry. apply str_eqb_refl.
Qed.

Lemma dominates_app_same a x y : dominates (a ++ x) (a ++ y) = dominates x y.
Proof. unfold dominates. now rewrite !tpl_ge_app_same. Qed.

Lemma pairwise_In {A} (p : A -> A -> bool) l a b :
  pairwise p l = true -> In a l -> In b l -> a = b \/ p a b = true \/ p b a = true.
Proof.
  induction l as [|x l IH]; intros H Ha Hb; [contradiction|].
  cbn in H. apply andb_true_iff in H as [Hx Hl]. rewrite forallb_forall in Hx.
  destruct Ha as [<-|Ha], Hb as [<-|Hb]; auto.
Qed.

Section P.
Variable O : oracles.

(* ---- the two admission relations coincide on plain templates and clean segments ---- *)
Lemma plain_admits_eq tpl : forall toks,
  forallb plain_ne tpl = true -> forallb (fun s => negb (str_eqb s [])) toks = true ->
  jsr_admits_segs O tpl toks = admits_path O tpl toks /\
  jsr_admits_segs O tpl (toks ++ [[]]) = admits_path O tpl toks.
Proof.
  induction tpl as [|t tpl IH]; intros toks Hp Hn.
  - destruct toks as [|s toks]; [split; reflexivity|].
    cbn [forallb] in Hn. apply andb_true_iff in Hn as [Hs _].
    cbn [app jsr_admits_segs admits_path]. destruct s; [discriminate Hs|].
    destruct toks; split; reflexivity.
  - cbn [forallb] in Hp. apply andb_true_iff in Hp as [Ht Hp].
    assert (Htail : is_tail t = false) by (unfold plain_ne in Ht; unfold is_tail; destruct (v_tk t); try reflexivity; destruct (v_verb t); discriminate Ht).
    destruct toks as [|s toks].
    + cbn [app jsr_admits_segs admits_path]. rewrite Htail. split; [reflexivity|].
      unfold plain_ne in Ht. destruct (v_tk t) as [l| | | |]; try (destruct (v_verb t); discriminate Ht); cbn [tk_admits_jsr].
      * destruct (v_verb t); [discriminate Ht|]. destruct l; [discriminate Ht|reflexivity].
      * reflexivity.
    + cbn [forallb] in Hn. apply andb_true_iff in Hn as [Hs Hn].
      cbn [app jsr_admits_segs admits_path]. rewrite Htail.
      destruct (IH toks Hp Hn) as [I1 I2]. rewrite I1, I2.
      assert (Hsame : tk_admits_jsr O (v_tk t) s = vtok_admits O t s).
      { unfold vtok_admits, strip_verb, plain_ne in *. destruct (v_tk t); destruct (v_verb t); try discriminate Ht; cbn [tk_admits_jsr tk_admits]; [reflexivity|exact Hs]. }
      rewrite Hsame. split; reflexivity.
Qed.

Lemma plain_bindings_eq tpl : forall toks,
  forallb plain_ne tpl = true ->
  jsr_bindings tpl toks = bindings tpl toks /\ jsr_bindings tpl (toks ++ [[]]) = bindings tpl toks
  \/ List.length toks < List.length tpl.
Proof.
  induction tpl as [|t tpl IH]; intros toks Hp.
  - left. destruct toks; split; reflexivity.
  - cbn [forallb] in Hp. apply andb_true_iff in Hp as [Ht Hp].
    destruct toks as [|s toks]; [right; cbn; lia|].
    destruct (IH toks Hp) as [[I1 I2]|Hlt]; [left|right; cbn; lia].
    cbn [app jsr_bindings bindings]. rewrite I1, I2.
    unfold plain_ne in Ht. destruct (v_tk t); destruct (v_verb t); try discriminate Ht; cbn [strip_verb tk_binding app]; split; reflexivity.
Qed.

Lemma admits_path_length tpl toks :
  forallb plain_ne tpl = true -> admits_path O tpl toks = true -> List.length toks = List.length tpl.
Proof.
  revert toks. induction tpl as [|t tpl IH]; intros toks Hp Ha.
  - destruct toks; [reflexivity|discriminate Ha].
  - cbn [forallb] in Hp. apply andb_true_iff in Hp as [Ht Hp].
    destruct toks as [|s toks]; [discriminate Ha|]. cbn [admits_path] in Ha.
    assert (Htail : is_tail t = false) by (unfold plain_ne in Ht; unfold is_tail; destruct (v_tk t); try reflexivity; destruct (v_verb t); discriminate Ht).
    rewrite Htail in Ha. apply andb_true_iff in Ha as [_ Ha]. cbn [List.length]. f_equal. now apply IH.
Qed.

(* ---- a service and a path that meet the premises ---- *)
Section OnService.
Variables (w : service) (p : str).
Hypothesis Hok : c18_service_ok w = true.
Hypothesis Hclean : c18_clean p = true.

Lemma route_tpl_split r : In r (s_routes w) ->
  route_tpl w r = jsr_tpl (s_root w) ++ jsr_tpl (r_rel r) /\ forallb plain_ne (route_tpl w r) = true.
Proof.
  intros Hin. unfold c18_service_ok in Hok. rewrite forallb_forall in Hok. apply Hok in Hin.
  unfold c18_route_ok in Hin. now apply forall2b_plain in Hin.
Qed.

Lemma clean_segs : exists segs,
  path_segs p = Some segs /\ forallb (fun s => negb (str_eqb s [])) (tokenize p) = true
  /\ (segs = tokenize p \/ segs = tokenize p ++ [[]]).
Proof.
  unfold c18_clean in Hclean. destruct (path_segs p) as [segs|]; [|discriminate Hclean].
  apply andb_true_iff in Hclean as [H1 H2]. exists segs. split; [reflexivity|]. split; [exact H1|].
  apply orb_true_iff in H2 as [H2|H2]; apply strs_eqb_eq in H2; auto.
Qed.

Lemma admits_path_agree r : In r (s_routes w) ->
  jsr_admits_path O w r p = admits_path O (route_tpl w r) (tokenize p).
Proof.
  intros Hin. destruct (route_tpl_split r Hin) as [Hsplit Hplain].
  destruct clean_segs as (segs & Hps & Hne & Hsegs).
  unfold jsr_admits_path. destruct p as [|c p']; [discriminate Hps|]. rewrite Hps, <- Hsplit.
  destruct (plain_admits_eq (route_tpl w r) (tokenize (c :: p')) Hplain Hne) as [E1 E2].
  destruct Hsegs as [->| ->]; assumption.
Qed.

Lemma admits_agree r req : rq_path req = p -> In r (s_routes w) -> jsr_admits O w r req = admits O w r req.
Proof. intros Hp Hin. unfold jsr_admits, admits. now rewrite Hp, (admits_path_agree r Hin). Qed.

Lemma bindings_agree r : In r (s_routes w) ->
  admits_path O (route_tpl w r) (tokenize p) = true ->
  jsr_route_bindings w r p = bindings (route_tpl w r) (tokenize p).
Proof.
  intros Hin Ha. destruct (route_tpl_split r Hin) as [Hsplit Hplain].
  destruct clean_segs as (segs & Hps & Hne & Hsegs).
  unfold jsr_route_bindings. rewrite Hps, <- Hsplit.
  destruct (plain_bindings_eq (route_tpl w r) (tokenize p) Hplain) as [[E1 E2]|Hlt].
  - destruct Hsegs as [->| ->]; assumption.
  - apply (admits_path_length _ _ Hplain) in Ha. lia.
Qed.
End OnService.

(* ---- what route_request returns, unfolded ---- *)
Lemma route_request_invoke_inv t req w r ps :
  route_request O t req = RInvoke w r ps ->
  select_route O t req = inl (w, r) /\ extract_parameters O t w r (rq_path req) = Some ps.
Proof.
  unfold route_request. destruct (select_route O t req) as [[w0 r0]|e]; [|discriminate].
  destruct (extract_parameters O t w0 r0 (rq_path req)) eqn:E; [|discriminate]. intros H. injection H as -> -> ->. auto.
Qed.

Lemma curly_select_service wss req w r :
  select_route O {| t_router := Curly; t_services := wss |} req = inl (w, r) ->
  detect_web_service O (tokenize (rq_path req)) wss = Some w.
Proof.
  unfold select_route. cbn [t_router t_services].
  destruct (detect_web_service O (tokenize (rq_path req)) wss) as [w0|]; [|discriminate].
  destruct (curly_select_routes O w0 (tokenize (rq_path req))); [discriminate|].
  destruct (detect_route _ req); [|discriminate]. intros H. now injection H as -> _.
Qed.

Lemma jsr_select_service wss req w r :
  select_route O {| t_router := Jsr311; t_services := wss |} req = inl (w, r) ->
  exists fin, detect_dispatcher O (rq_path req) wss = Some (w, fin).
Proof.
  unfold select_route. cbn [t_router t_services].
  destruct (detect_dispatcher O (rq_path req) wss) as [[w0 fin]|]; [|discriminate].
  destruct (jsr_select_routes O w0 fin); [discriminate|].
  destruct (detect_route _ req); [|discriminate]. intros H. injection H as -> _. now exists fin.
Qed.

Lemma set_equiv_trans (al a b : list str) :
  forallb (fun m => mem m a) al = true -> forallb (fun m => mem m al) a = true ->
  forallb (fun m => mem m b) al = true -> forallb (fun m => mem m al) b = true ->
  forall m, In m a <-> In m b.
Proof.
  rewrite !forallb_forall. intros H1 H2 H3 H4 m. split; intros H.
  - apply mem_In. apply H3. apply mem_In. now apply H2.
  - apply mem_In. apply H1. apply mem_In. now apply H4.
Qed.

(* ---- the agreement theorem, with the step "both routers run the same route" left as a premise ---- *)
Theorem routers_agree_gen wss req w fin :
  let tc := {| t_router := Curly; t_services := wss |} in
  let tj := {| t_router := Jsr311; t_services := wss |} in
  detect_web_service O (tokenize (rq_path req)) wss = Some w ->
  detect_dispatcher O (rq_path req) wss = Some (w, fin) ->
  forallb (wf_route w) (s_routes w) = true ->
  jsr_all_agree w = true -> forallb (jsr_names_agree w) (s_routes w) = true ->
  c18_service_ok w = true -> c18_clean (rq_path req) = true ->
  (forall rc rj, select_route O tc req = inl (w, rc) -> select_route O tj req = inl (w, rj) ->
                 In rc (s_routes w) -> In rj (s_routes w) ->
                 admits O w rc req = true -> admits O w rj req = true ->
                 jsr_admits O w rc req = true -> jsr_admits O w rj req = true -> rc = rj) ->
  routed_equiv (route_request O tc req) (route_request O tj req).
Proof.
  intros tc tj Hws Hdd Hwf Hag Hna Hok Hclean Hsame.
  assert (Hbw : best_wf O tc req = true) by (unfold best_wf; cbn [t_services tc]; now rewrite Hws).
  assert (Hba : jsr_best_agree O tj req = true) by (unfold jsr_best_agree; cbn [t_services tj]; now rewrite Hdd).
  destruct (curly_outcome_exact O tc req eq_refl Hbw) as [Hnpc Hmc].
  destruct (jsr_outcome_exact O tj req eq_refl Hba) as [Hnpj Hmj].
  unfold curly_expected in Hmc. unfold jsr_expected in Hmj. cbn [t_services tc tj] in Hmc, Hmj. rewrite Hws in Hmc. rewrite Hdd in Hmj.
  assert (Hfil : filter (fun r => jsr_admits_path O w r (rq_path req)) (s_routes w)
                 = filter (fun r => admits_path O (route_tpl w r) (tokenize (rq_path req))) (s_routes w)).
  { apply filter_ext_in. intros r Hin. now apply admits_path_agree. }
  rewrite Hfil in Hmj.
  set (S := spec_cascade (filter (fun r => admits_path O (route_tpl w r) (tokenize (rq_path req))) (s_routes w)) req) in *.
  destruct (route_request O tc req) as [wc rc psc|[|ac| |]|] eqn:Ec; [..|now contradiction Hnpc];
    (destruct (route_request O tj req) as [wj rj psj|[|aj| |]|] eqn:Ej; [..|now contradiction Hnpj]);
    destruct S as [ids|code al]; unfold meets, routed_view, outcome_meets in Hmc, Hmj; cbv beta iota zeta in Hmc, Hmj;
    repeat (apply andb_true_iff in Hmc as [Hmc ?]); repeat (apply andb_true_iff in Hmj as [Hmj ?]);
    repeat match goal with H : Z.eqb _ _ = true |- _ => apply Z.eqb_eq in H end; try lia.
    (* both answer an error: the same status, the same Allow set *)
    all: try (cbn; exact Logic.I). all: try (cbn; eapply set_equiv_trans; eassumption).
    (* both invoke *)
    apply route_request_invoke_inv in Ec as [Esc Epc]. apply route_request_invoke_inv in Ej as [Esj Epj].
    pose proof (curly_select_service _ _ _ _ Esc) as Hwc. rewrite Hws in Hwc. injection Hwc as <-.
    destruct (jsr_select_service _ _ _ _ Esj) as (fin' & Hwj). rewrite Hdd in Hwj. injection Hwj as <- _.
    pose proof (curly_select_route_sound O tc req w rc eq_refl Esc) as (_ & Hinc & Hmatch & Hcc & Hmec & Hctc & Hacc).
    assert (Hagw : tokens_agree (s_root w) = true) by (now apply andb_true_iff in Hag as [? _]).
    assert (Hagr : forall r, In r (s_routes w) -> jsr_tokens_agree w r = true).
    { intros r Hr. unfold jsr_tokens_agree. rewrite Hagw. apply andb_true_iff in Hag as [_ Hrs].
      rewrite forallb_forall in Hrs. now apply Hrs. }
    assert (Hinj : In rj (s_routes w)).
    { unfold select_route in Esj. cbn [t_router t_services tj] in Esj. rewrite Hdd in Esj.
      destruct (jsr_select_routes O w fin) as [|c0 cs] eqn:Ecs; [discriminate|]. rewrite <- Ecs in Esj.
      destruct (detect_route (map rc_route (jsr_select_routes O w fin)) req) as [r0|e] eqn:Edr; [|discriminate]. injection Esj as ->.
      pose proof (detect_route_inl _ _ _ Edr) as (Hi & _). apply in_map_iff in Hi as (c & <- & Hc).
      now apply jsr_select_routes_sound in Hc as (Hc & _). }
    pose proof (jsr_select_route_sound O tj req w rj eq_refl Esj (Hagr _ Hinj)) as (_ & _ & Hadj).
    assert (Hwfc : wf_route w rc = true) by (rewrite forallb_forall in Hwf; now apply Hwf).
    assert (Hadc : admits O w rc req = true).
    { unfold admits. rewrite Hmec, Hctc, Hacc, Hcc, !andb_true_r. cbn [andb].
      unfold route_tpl. rewrite <- (matches_route_iff_admits O _ _ _ Hwfc). exact Hmatch. }
    assert (Hadj' : admits O w rj req = true) by (rewrite <- (admits_agree w (rq_path req) Hok Hclean rj req eq_refl Hinj); exact Hadj).
    assert (Hadc' : jsr_admits O w rc req = true) by (rewrite (admits_agree w (rq_path req) Hok Hclean rc req eq_refl Hinc); exact Hadc).
    assert (Heq : rc = rj) by (apply Hsame; assumption).
    subst rj. split; [reflexivity|]. split; [reflexivity|].
    (* the same parameters *)
    assert (Erc : route_request O tc req = RInvoke w rc psc) by (unfold route_request; now rewrite Esc, Epc).
    assert (Erj : route_request O tj req = RInvoke w rc psj) by (unfold route_request; now rewrite Esj, Epj).
    rewrite (curly_invoked_params O tc req w rc psc eq_refl Erc Hwfc).
    assert (Hnar : jsr_names_agree w rc = true) by (rewrite forallb_forall in Hna; now apply Hna).
    rewrite (jsr_invoked_params O tj req w rc psj eq_refl Erj (Hagr _ Hinc) Hnar).
    unfold pset_all. f_equal. symmetry. apply (bindings_agree w (rq_path req) Hok Hclean rc Hinc).
    unfold admits in Hadc. apply andb_true_iff in Hadc as [Hadc _]. apply andb_true_iff in Hadc as [Hadc _].
    apply andb_true_iff in Hadc as [Hadc _]. now apply andb_true_iff in Hadc as [_ Hadc].
Qed.

(* ---- the eligible routes strictly ordered: neither answer is dominated, so they are the same route ---- *)
Theorem routers_agree wss req w fin :
  let tc := {| t_router := Curly; t_services := wss |} in
  let tj := {| t_router := Jsr311; t_services := wss |} in
  detect_web_service O (tokenize (rq_path req)) wss = Some w ->
  detect_dispatcher O (rq_path req) wss = Some (w, fin) ->
  forallb (wf_route w) (s_routes w) = true ->
  jsr_all_agree w = true -> forallb (jsr_names_agree w) (s_routes w) = true ->
  c18_service_ok w = true -> c18_clean (rq_path req) = true -> c18_chain O w req = true ->
  routed_equiv (route_request O tc req) (route_request O tj req).
Proof.
  intros tc tj Hws Hdd Hwf Hag Hna Hok Hclean Hchain.
  apply (routers_agree_gen wss req w fin Hws Hdd Hwf Hag Hna Hok Hclean).
  intros rc rj Esc Esj Hinc Hinj Hadc Hadj' Hadc' Hadj.
  assert (Hwfc : wf_route w rc = true) by (rewrite forallb_forall in Hwf; now apply Hwf).
  unfold c18_chain in Hchain.
      assert (H1 : In rc (filter (fun r => admits O w r req) (s_routes w))) by (apply filter_In; auto).
      assert (H2 : In rj (filter (fun r => admits O w r req) (s_routes w))) by (apply filter_In; auto).
      destruct (pairwise_In _ _ _ _ Hchain H1 H2) as [E|[D|D]]; [exact E| |]; exfalso;
        apply orb_true_iff in D.
      - destruct D as [D|D].
        + (* rc dominates rj: RouterJSR311 would not have answered rj *)
          destruct (route_tpl_split w Hok rc Hinc) as [Sc _]. destruct (route_tpl_split w Hok rj Hinj) as [Sj _].
          rewrite Sc, Sj, dominates_app_same in D.
          pose proof (jsr_select_route_not_dominated O tj req w rj eq_refl Esj Hag rc Hinc Hadc') as Hn. congruence.
        + assert (Hwfj : wf_route w rj = true) by (rewrite forallb_forall in Hwf; now apply Hwf).
          pose proof (curly_select_route_not_dominated O tc req w rc eq_refl Esc rj Hinj Hwfj Hwfc) as Hn.
          rewrite Hn in D; [discriminate D| | |exact Hadj'].
          * destruct (route_tpl_split w Hok rj Hinj) as [_ Hp]. unfold no_verbs. rewrite forallb_forall in *. intros x Hx. specialize (Hp x Hx).
            unfold plain_ne in Hp. destruct (v_tk x); destruct (v_verb x); try discriminate Hp; reflexivity.
          * destruct (route_tpl_split w Hok rc Hinc) as [_ Hp]. unfold no_verbs. rewrite forallb_forall in *. intros x Hx. specialize (Hp x Hx).
            unfold plain_ne in Hp. destruct (v_tk x); destruct (v_verb x); try discriminate Hp; reflexivity.
      - destruct D as [D|D].
        + assert (Hwfj : wf_route w rj = true) by (rewrite forallb_forall in Hwf; now apply Hwf).
          pose proof (curly_select_route_not_dominated O tc req w rc eq_refl Esc rj Hinj Hwfj Hwfc) as Hn.
          rewrite Hn in D; [discriminate D| | |exact Hadj'].
          * destruct (route_tpl_split w Hok rj Hinj) as [_ Hp]. unfold no_verbs. rewrite forallb_forall in *. intros x Hx. specialize (Hp x Hx).
            unfold plain_ne in Hp. destruct (v_tk x); destruct (v_verb x); try discriminate Hp; reflexivity.
          * destruct (route_tpl_split w Hok rc Hinc) as [_ Hp]. unfold no_verbs. rewrite forallb_forall in *. intros x Hx. specialize (Hp x Hx).
            unfold plain_ne in Hp. destruct (v_tk x); destruct (v_verb x); try discriminate Hp; reflexivity.
        + destruct (route_tpl_split w Hok rc Hinc) as [Sc _]. destruct (route_tpl_split w Hok rj Hinj) as [Sj _].
          rewrite Sc, Sj, dominates_app_same in D.
          pose proof (jsr_select_route_not_dominated O tj req w rj eq_refl Esj Hag rc Hinc Hadc') as Hn. congruence.
Qed.

(* no service claims the URL under either router: both answer 404 *)
Theorem routers_agree_unclaimed wss req :
  detect_web_service O (tokenize (rq_path req)) wss = None ->
  detect_dispatcher O (rq_path req) wss = None ->
  route_request O {| t_router := Curly; t_services := wss |} req = RError E404 /\
  route_request O {| t_router := Jsr311; t_services := wss |} req = RError E404.
Proof.
  intros H1 H2. unfold route_request, select_route. cbn [t_router t_services]. rewrite H1, H2. auto.
Qed.

End P.

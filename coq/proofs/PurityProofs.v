(* C19: what outlives a request — the event log so far, the provider's acquire / release counters, the number of
   recover-handler calls — is carried through serving unchanged and is never read: serving commutes with shifting it.
   Hence the answer to a request inside ANY history equals the answer on a fresh container. *)
From Coq Require Import List ZArith Bool Arith Lia.
From Model Require Import Str Sexp Http Template Table Curly DetectRoute Jsr311 Router Dispatch.
Import ListNotations.

(* the part of the world a request starts from that earlier requests have written *)
Record world := { w_log : list str; w_acq : nat; w_rel : nat; w_rec : nat }.

Definition shift (w : world) (s : rstate) : rstate :=
  {| st_status := st_status s; st_hdr := st_hdr s; st_raw := st_raw s; st_comp := st_comp s;
     st_log := w_log w ++ st_log s; st_attrs := st_attrs s;
     st_acq := st_acq s + w_acq w; st_rel := st_rel s + w_rel w; st_recovered := st_recovered s + w_rec w;
     st_pretty := st_pretty s; st_upper := st_upper s |}.

Definition shift_res (w : world) (r : res) : res :=
  match r with Done s => Done (shift w s) | Panicked m s => Panicked m (shift w s) end.

Lemma shift_upd_log w s e : upd_log (shift w s) e = shift w (upd_log s e).
Proof. unfold upd_log, shift; cbn. now rewrite app_assoc. Qed.
Lemma shift_upd_attrs w s a : upd_attrs (shift w s) a = shift w (upd_attrs s a).
Proof. reflexivity. Qed.
Lemma shift_upd_hdr w s h : upd_hdr (shift w s) h = shift w (upd_hdr s h).
Proof. reflexivity. Qed.
Lemma shift_write_header w s n : write_header (shift w s) n = shift w (write_header s n).
Proof. unfold write_header; cbn. destruct (st_status s); reflexivity. Qed.
Lemma shift_write_body w s b : write_body (shift w s) b = shift w (write_body s b).
Proof.
  unfold write_body; cbn. destruct (st_comp s) as [[[c ch] [|]]|]; try reflexivity;
    unfold write_header; cbn; destruct (st_status s); reflexivity.
Qed.
Lemma shift_set_wrapper w s p u : set_wrapper (shift w s) p u = shift w (set_wrapper s p u).
Proof. reflexivity. Qed.
Lemma shift_install w c s : install c (shift w s) = shift w (install c s).
Proof. reflexivity. Qed.
Lemma shift_close_comp w s : close_comp (shift w s) = shift w (close_comp s).
Proof.
  unfold close_comp; cbn. destruct (st_comp s) as [[[c ch] [|]]|]; try reflexivity.
  unfold write_header; cbn; destruct (st_status s); reflexivity.
Qed.
Lemma wants_compressed_shift w req s : wants_compressed req (shift w s) = wants_compressed req s.
Proof. reflexivity. Qed.

Lemma shift_bind w r k k' :
  (forall s, k' (shift w s) = shift_res w (k s)) ->
  bind (shift_res w r) k' = shift_res w (bind r k).
Proof. intros H. destruct r; cbn; auto. Qed.

Lemma shift_run_action w a s : run_action a (shift w s) = shift_res w (run_action a s).
Proof.
  destruct a; cbn [run_action shift_res].
  - now rewrite <- shift_upd_hdr.
  - now rewrite shift_write_header.
  - now rewrite shift_write_body.
  - now rewrite <- shift_upd_attrs.
  - now rewrite <- shift_upd_log.
  - reflexivity.
  - reflexivity.
  - reflexivity.
  - change (st_pretty (shift w s)) with (st_pretty s). now rewrite shift_write_header, shift_write_body.
Qed.

Lemma shift_run_actions w l : forall s, run_actions l (shift w s) = shift_res w (run_actions l s).
Proof.
  induction l as [|a l IH]; intros s; cbn [run_actions]; [reflexivity|].
  rewrite shift_run_action. now apply shift_bind.
Qed.

Lemma shift_run_chain w fs : forall target target' s,
  (forall s, target' (shift w s) = shift_res w (target s)) ->
  run_chain fs target' (shift w s) = shift_res w (run_chain fs target s).
Proof.
  induction fs as [|f rest IH]; intros target target' s Ht; cbn [run_chain]; [apply Ht|].
  rewrite shift_upd_log, shift_run_actions. apply shift_bind. intros s1.
  destruct (f_pass f).
  - change (st_attrs (shift w s1)) with (st_attrs s1).
    change (st_pretty (shift w s1)) with (st_pretty s1). change (st_upper (shift w s1)) with (st_upper s1).
    assert (E : (if f_fresh f then upd_attrs (shift w s1) [] else shift w s1)
                = shift w (if f_fresh f then upd_attrs s1 [] else s1)) by (destruct (f_fresh f); reflexivity).
    rewrite E. set (s1' := if f_fresh f then upd_attrs s1 [] else s1).
    assert (E' : (if f_wrap f then set_wrapper (shift w s1') true (S (st_upper (shift w s1'))) else shift w s1')
                 = shift w (if f_wrap f then set_wrapper s1' true (S (st_upper s1')) else s1'))
      by (destruct (f_wrap f); reflexivity).
    rewrite E', (IH target target' _ Ht). apply shift_bind. intros s2.
    assert (E2 : (if f_fresh f then upd_attrs (shift w s2) (st_attrs s1) else shift w s2)
                 = shift w (if f_fresh f then upd_attrs s2 (st_attrs s1) else s2)) by (destruct (f_fresh f); reflexivity).
    rewrite E2. set (s2' := if f_fresh f then upd_attrs s2 (st_attrs s1) else s2).
    assert (E2' : (if f_wrap f then set_wrapper (shift w s2') (st_pretty s1) (st_upper s1) else shift w s2')
                  = shift w (if f_wrap f then set_wrapper s2' (st_pretty s1) (st_upper s1) else s2'))
      by (destruct (f_wrap f); reflexivity).
    rewrite E2', shift_run_actions. apply shift_bind. intros s3. cbn. now rewrite shift_upd_log.
  - rewrite shift_run_actions. apply shift_bind. intros s3. cbn. now rewrite shift_upd_log.
Qed.

Section WithOracles.
Variable O : oracles.

Lemma shift_write_service_error w e s : write_service_error e (shift w s) = shift_res w (write_service_error e s).
Proof.
  unfold write_service_error. destruct e as [|a| |]; cbn [shift_res];
    rewrite ?shift_upd_hdr, ?shift_write_header, ?shift_write_body;
    reflexivity.
Qed.

Lemma shift_dispatch_body w cfg req already s :
  dispatch_body O cfg req already (shift w s) = shift_res w (dispatch_body O cfg req already s).
Proof.
  unfold dispatch_body. destruct (cond_panic_hit O cfg req); [reflexivity|].
  destruct (select_route O (d_table cfg) req) as [[sv r]|e].
  - set (enabled := match r_enc r with Some b => b | None => d_encoding cfg end).
    assert (E : (if already then shift w s
                 else if enabled then match wants_compressed req (shift w s) with Some c => install c (shift w s) | None => shift w s end
                      else shift w s)
                = shift w (if already then s
                           else if enabled then match wants_compressed req s with Some c => install c s | None => s end
                                else s)).
    { destruct already; [reflexivity|]. destruct enabled; [|reflexivity].
      rewrite wants_compressed_shift. destruct (wants_compressed req s); reflexivity. }
    rewrite E. clear E.
    destruct (extract_parameters O (d_table cfg) sv r (rq_path req)); [|reflexivity].
    rewrite shift_upd_attrs. apply shift_run_chain. intros s1.
    change (st_attrs (shift w s1)) with (st_attrs s1).
    rewrite !shift_upd_log. apply shift_run_actions.
  - apply shift_run_chain. intros s1. apply shift_write_service_error.
Qed.

Lemma shift_close_res w r :
  match shift_res w r with Done s' => Done (close_comp s') | Panicked m s' => Panicked m (close_comp s') end
  = shift_res w (match r with Done s' => Done (close_comp s') | Panicked m s' => Panicked m (close_comp s') end).
Proof. destruct r; cbn; now rewrite shift_close_comp. Qed.

Lemma shift_dispatch w cfg req already s :
  dispatch O cfg req already (shift w s) = shift_res w (dispatch O cfg req already s).
Proof.
  unfold dispatch. rewrite shift_dispatch_body.
  destruct (dispatch_body O cfg req already s) as [s'|m s']; cbn [shift_res].
  - now rewrite shift_close_comp.
  - destruct (d_recover cfg); cbn [shift_res]; [|now rewrite shift_close_comp].
    match goal with |- context [run_actions ?l ?st] =>
      replace st with (shift w {| st_status := st_status s'; st_hdr := st_hdr s'; st_raw := st_raw s'; st_comp := st_comp s';
                                 st_log := st_log s' ++ [L "recover:" ++ m]; st_attrs := st_attrs s';
                                 st_acq := st_acq s'; st_rel := st_rel s'; st_recovered := S (st_recovered s');
                                 st_pretty := true; st_upper := 0 |})
        by (unfold shift; cbn; now rewrite app_assoc) end.
    rewrite shift_run_actions. apply shift_close_res.
Qed.

Lemma shift_handle_plain w cfg wf script req s :
  handle_plain cfg wf script req (shift w s) = shift_res w (handle_plain cfg wf script req s).
Proof.
  unfold handle_plain. change (st_comp (shift w s)) with (st_comp s).
  set (already := match st_comp s with Some _ => true | None => false end).
  assert (E : (if already then shift w s
               else if d_encoding cfg then match wants_compressed req (shift w s) with Some c => install c (shift w s) | None => shift w s end
                    else shift w s)
              = shift w (if already then s
                         else if d_encoding cfg then match wants_compressed req s with Some c => install c s | None => s end
                              else s)).
  { destruct already; [reflexivity|]. destruct (d_encoding cfg); [|reflexivity].
    rewrite wants_compressed_shift. destruct (wants_compressed req s); reflexivity. }
  rewrite E. clear E.
  destruct wf, (d_cfilters cfg) as [|f fs].
  - rewrite shift_run_actions. apply shift_close_res.
  - rewrite (shift_run_chain w (f :: fs) (run_actions script) (run_actions script)) by (intros; apply shift_run_actions).
    apply shift_close_res.
  - rewrite shift_run_actions. apply shift_close_res.
  - rewrite shift_run_actions. apply shift_close_res.
Qed.

Lemma shift_mux_target w cfg req already s :
  mux_target O cfg req already (shift w s) = shift_res w (mux_target O cfg req already s).
Proof.
  unfold mux_target. destruct (assoc (rq_path req) (d_plain cfg)) as [[wf script]|].
  - apply shift_handle_plain.
  - apply shift_dispatch.
Qed.

(* the world a request finds is carried through and never read *)
Theorem serve_shift w cfg en req s :
  serve O cfg en req (shift w s) = shift_res w (serve O cfg en req s).
Proof.
  unfold serve. destruct en; [apply shift_dispatch|].
  destruct (d_encoding cfg); cbn [negb]; [|apply shift_mux_target].
  rewrite wants_compressed_shift.
  assert (E : match wants_compressed req s with Some c => install c (shift w s) | None => shift w s end
              = shift w match wants_compressed req s with Some c => install c s | None => s end)
    by (destruct (wants_compressed req s); reflexivity).
  rewrite E. clear E.
  set (s1 := match wants_compressed req s with Some c => install c s | None => s end).
  change (st_comp (shift w s1)) with (st_comp s1).
  rewrite shift_mux_target. apply shift_close_res.
Qed.

(* ---- histories ---- *)
(* one element of a history: entry point, request, and the headers the underlying writer carries on arrival *)
Definition hreq : Type := (entry * request * headers)%type.

(* what the client and the handlers of ONE request observe: panic or not (and the value), status, headers, raw chunks,
   compressor contents, attributes left on the wrapper, and the events of this request *)
Definition answer (r : res) : option str * (option Z * headers * list str * option (coding * list str * bool) * list (str * str) * list str) :=
  let s := state_of r in
  (match r with Done _ => None | Panicked m _ => Some m end,
   (st_status s, st_hdr s, st_raw s, st_comp s, st_attrs s, st_log s)).

Definition world_of (s : rstate) : world :=
  {| w_log := st_log s; w_acq := st_acq s; w_rel := st_rel s; w_rec := st_recovered s |}.
Definition w0 : world := {| w_log := []; w_acq := 0; w_rel := 0; w_rec := 0 |}.

(* the recorder of a new request is fresh; log and counters go on from where the previous request left them *)
Definition start (w : world) (h : headers) : rstate := shift w (st0 h).

(* serve a history; returns every request's result (in the world it ran in) and the final world *)
Fixpoint serve_all (cfg : dcfg) (hs : list hreq) (w : world) : list (world * res) * world :=
  match hs with
  | [] => ([], w)
  | (en, req, h) :: rest =>
      let r := serve O cfg en req (start w h) in
      let '(out, wf) := serve_all cfg rest (world_of (state_of r)) in
      ((w, r) :: out, wf)
  end.

(* the answer as seen from the world the request started in: its own events only *)
Definition answer_in (w : world) (r : res) :=
  let '(p, (st, hd, raw, comp, attrs, log)) := answer r in
  (p, (st, hd, raw, comp, attrs, skipn (length (w_log w)) log)).

Lemma answer_in_shift w r : answer_in w (shift_res w r) = answer r.
Proof.
  unfold answer_in, answer. destruct r as [s|m s]; cbn;
    now rewrite skipn_app, skipn_all, Nat.sub_diag.
Qed.

Lemma serve_all_spec cfg hs : forall w i en req h,
  nth_error hs i = Some (en, req, h) ->
  exists wi r, nth_error (fst (serve_all cfg hs w)) i = Some (wi, r) /\
               answer_in wi r = answer (serve O cfg en req (st0 h)).
Proof.
  induction hs as [|[[en0 req0] h0] rest IH]; intros w i en req h Hi.
  - destruct i; discriminate.
  - cbn [serve_all].
    destruct (serve_all cfg rest (world_of (state_of (serve O cfg en0 req0 (start w h0))))) as [out wf] eqn:E.
    destruct i as [|i]; cbn in Hi |- *.
    + inversion Hi; subst. exists w, (serve O cfg en req (start w h)). split; [reflexivity|].
      unfold start. rewrite serve_shift. apply answer_in_shift.
    + destruct (IH (world_of (state_of (serve O cfg en0 req0 (start w h0)))) i en req h Hi) as (wi & r & Hn & Ha).
      rewrite E in Hn. exists wi, r. split; assumption.
Qed.

(* C19, sequential part, in full: in every history, from every starting world, every request is answered exactly as
   it is answered alone on a fresh container *)
Theorem history_independent cfg hs w i en req h :
  nth_error hs i = Some (en, req, h) ->
  exists wi r, nth_error (fst (serve_all cfg hs w)) i = Some (wi, r) /\
               answer_in wi r = answer (serve O cfg en req (st0 h)).
Proof. apply serve_all_spec. Qed.

(* in particular the same request twice in a history gets the same answer *)
Corollary same_request_same_answer cfg hs w i j en req h :
  nth_error hs i = Some (en, req, h) -> nth_error hs j = Some (en, req, h) ->
  exists wi ri wj rj, nth_error (fst (serve_all cfg hs w)) i = Some (wi, ri) /\
                      nth_error (fst (serve_all cfg hs w)) j = Some (wj, rj) /\
                      answer_in wi ri = answer_in wj rj.
Proof.
  intros Hi Hj.
  destruct (history_independent cfg hs w i en req h Hi) as (wi & ri & Ni & Ai).
  destruct (history_independent cfg hs w j en req h Hj) as (wj & rj & Nj & Aj).
  exists wi, ri, wj, rj. repeat split; auto. now rewrite Ai, Aj.
Qed.

(* ... and in two different histories (any other order, any other company, any other starting world) *)
Corollary same_answer_in_any_history cfg hs hs' w w' i j en req h :
  nth_error hs i = Some (en, req, h) -> nth_error hs' j = Some (en, req, h) ->
  exists wi ri wj rj, nth_error (fst (serve_all cfg hs w)) i = Some (wi, ri) /\
                      nth_error (fst (serve_all cfg hs' w')) j = Some (wj, rj) /\
                      answer_in wi ri = answer_in wj rj.
Proof.
  intros Hi Hj.
  destruct (history_independent cfg hs w i en req h Hi) as (wi & ri & Ni & Ai).
  destruct (history_independent cfg hs' w' j en req h Hj) as (wj & rj & Nj & Aj).
  exists wi, ri, wj, rj. repeat split; auto. now rewrite Ai, Aj.
Qed.

End WithOracles.

(* C14 for the OPTIONS filter: on tables without a token that may match the empty string (table_plain), the list
   computeAllowedMethods computes for p and for p + "/" is the same. *)
From Model Require Import Str Sexp Http Template Table Curly DetectRoute Jsr311 Router Options.
From Spec Require Import RouteSpec.
From Proofs Require Import StrFacts RouterProofs JsrProofs SlashJsrProofs.
From Coq Require Import Lia.

Section SlashOptions.
Variable O : oracles.

(* the routes of one service, for a remainder that does not end in a slash *)
Lemma allowed_of_routes_slash (routes : list route) fin :
  forallb (fun r => template_plain O (r_rel r)) routes = true ->
  ends_slash fin = false ->
  flat_map (fun r => match jsr_match O (pe_toks (path_expression (r_rel r))) (fin ++ [slash]) with
                     | Some (_, f) => if final_ok f then [r_method r] else []
                     | None => [] end) routes
  = flat_map (fun r => match jsr_match O (pe_toks (path_expression (r_rel r))) fin with
                       | Some (_, f) => if final_ok f then [r_method r] else []
                       | None => [] end) routes.
Proof.
  intros Hpl Hend. induction routes as [|r l IH]; cbn [flat_map forallb] in *; [reflexivity|].
  apply andb_true_iff in Hpl as [Hr Hrest]. rewrite (IH Hrest). f_equal. unfold template_plain in Hr.
  rewrite (jsr_match_app_slash O _ fin Hr).
  destruct (jsr_match O (pe_toks (path_expression (r_rel r))) fin) as [[caps fin2]|] eqn:Em; [|reflexivity].
  destruct (jsr_match_final_suffix O _ _ _ _ Em) as (pre & Hp).
  unfold final_ok. destruct fin2 as [|c2 f2]; [reflexivity|].
  assert (Hne : c2 :: f2 <> []) by discriminate. rewrite Hp, (ends_slash_suffix pre (c2 :: f2) Hne) in Hend.
  destruct (str_eqb (c2 :: f2) [slash]) eqn:E1.
  - apply str_eqb_eq in E1. rewrite E1 in Hend. discriminate Hend.
  - assert (E2 : str_eqb ((c2 :: f2) ++ [slash]) [slash] = false).
    { destruct (str_eqb ((c2 :: f2) ++ [slash]) [slash]) eqn:E2; [|reflexivity].
      apply str_eqb_eq in E2. apply (f_equal (@length _)) in E2. rewrite app_length in E2. cbn in E2. lia. }
    cbn [str_eqb orb] in *. rewrite E2. reflexivity.
Qed.

Theorem allowed_methods_trailing_slash t p :
  table_plain O t = true -> ends_slash p = false -> p <> [] ->
  compute_allowed_methods O t (p ++ [slash]) = compute_allowed_methods O t p.
Proof.
  intros Hpl Hend Hne. unfold compute_allowed_methods, table_plain in *.
  induction (t_services t) as [|w wss IH]; cbn [flat_map forallb] in *; [reflexivity|].
  apply andb_true_iff in Hpl as [Hw Hrest]. rewrite (IH Hrest). f_equal.
  apply andb_true_iff in Hw as [Hroot Hroutes]. unfold template_plain in Hroot.
  rewrite (jsr_match_app_slash O _ p Hroot).
  destruct (jsr_match O (pe_toks (path_expression (s_root w))) p) as [[caps fin]|] eqn:Em; [|reflexivity].
  apply allowed_of_routes_slash; [exact Hroutes|].
  destruct (jsr_match_final_suffix O _ _ _ _ Em) as (pre & Hp). destruct fin as [|c f]; [reflexivity|].
  rewrite Hp, ends_slash_suffix in Hend by discriminate. exact Hend.
Qed.

End SlashOptions.

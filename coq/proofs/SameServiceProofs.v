(* SameServiceProofs.v — C18: for literal root paths and a cleanly segmented URL both routers
   hand the request to the same WebService: the one with the longest root that is a segment
   prefix of the URL.  (CurlyRouter: greatest score; RouterJSR311: most literal characters.) *)
From Model Require Import Str Sexp Http Template Table Curly DetectRoute Jsr311 Router.
From Spec Require Import RouteSpec RankSpec.
From Proofs Require Import StrFacts CurlyProofs RouterProofs RankProofs RankRouteProofs JsrProofs AgreeProofs OrderProofs.
From Coq Require Import Lia Permutation Sorted.


Fixpoint is_prefixb (a l : list str) : bool :=
  match a, l with
  | [], _ => true
  | x :: a', y :: l' => str_eqb y x && is_prefixb a' l'
  | _ :: _, [] => false
  end.

Lemma is_prefixb_app a : forall l, is_prefixb a l = true -> exists rest, l = a ++ rest.
Proof.
  induction a as [|x a IH]; intros l H; [now exists l|]. destruct l as [|y l]; [discriminate|].
  cbn in H. apply andb_true_iff in H as [H1 H2]. apply str_eqb_eq in H1. subst. destruct (IH _ H2) as (rest & ->). now exists rest.
Qed.

Lemma prefixes_comparable a : forall b l, is_prefixb a l = true -> is_prefixb b l = true -> List.length a <= List.length b ->
  exists ext, b = a ++ ext.
Proof.
  induction a as [|x a IH]; intros b l Ha Hb Hlen; [now exists b|].
  destruct l as [|y l]; [discriminate|]. destruct b as [|z b]; [cbn in Hlen; lia|].
  cbn in Ha, Hb. apply andb_true_iff in Ha as [A1 A2]. apply andb_true_iff in Hb as [B1 B2].
  apply str_eqb_eq in A1. apply str_eqb_eq in B1. subst.
  destruct (IH b l A2 B2) as (ext & ->); [cbn in Hlen; lia|]. now exists ext.
Qed.

Lemma is_prefixb_snoc_empty a : forall l, forallb lit_tok a = true -> is_prefixb a (l ++ [[]]) = is_prefixb a l.
Proof.
  induction a as [|x a IH]; intros l H; [reflexivity|]. cbn in H. apply andb_true_iff in H as [Hx Ha].
  destruct l as [|y l]; cbn.
  - unfold lit_tok in Hx. apply andb_true_iff in Hx as [_ Hx]. destruct x; [discriminate Hx|reflexivity].
  - now rewrite IH.
Qed.

Section P.
Variable O : oracles.

(* ---- CurlyRouter: a literal root claims exactly the URLs it is a segment prefix of ---- *)
Lemma ws_score_loop_lit n rt : forall qts i sc,
  forallb lit_tok rt = true -> fst (ws_score_loop O n qts rt i sc) = is_prefixb rt qts.
Proof.
  induction rt as [|other rt IH]; intros qts i sc H; [reflexivity|].
  cbn [forallb] in H. apply andb_true_iff in H as [Ho Hrt]. unfold lit_tok in Ho. apply andb_true_iff in Ho as [Hp Hne].
  apply negb_true_iff in Hp. cbn [ws_score_loop is_prefixb]. destruct qts as [|each qts]; [reflexivity|].
  destruct other as [|o0 or]; [discriminate Hne|].
  destruct each as [|e0 er].
  - rewrite Hp. reflexivity.
  - rewrite Hp. destruct (str_eqb (e0 :: er) (o0 :: or)); [now apply IH|reflexivity].
Qed.

Lemma claims_lit qts rt : forallb lit_tok rt = true -> fst (compute_webservice_score O qts rt) = is_prefixb rt qts.
Proof.
  intros H. unfold compute_webservice_score. destruct (Nat.ltb (List.length qts) (List.length rt)) eqn:E.
  - apply Nat.ltb_lt in E. destruct (is_prefixb rt qts) eqn:Ep; [|reflexivity].
    apply is_prefixb_app in Ep as (rest & ->). rewrite app_length in E. lia.
  - now apply ws_score_loop_lit.
Qed.

(* ---- RouterJSR311: the same for the compiled expression of a literal root ---- *)
Lemma jsr_match_lits rt : forall p1,
  is_some (jsr_match O (map ELit rt) (slash :: p1)) = is_prefixb rt (split slash p1).
Proof.
  induction rt as [|s rt IH]; intros p1; [reflexivity|].
  cbn [map jsr_match]. rewrite Ascii.eqb_refl. cbn [negb].
  destruct (span_seg p1) as [seg rest] eqn:Es.
  destruct (span_seg_split p1 seg rest Es) as [[-> Hs]|(r1 & -> & Hs)]; rewrite Hs; cbn [is_prefixb].
  - destruct (str_eqb seg s); cbn [negb andb]; [|reflexivity].
    destruct rt; cbn; reflexivity.
  - destruct (str_eqb seg s); cbn [negb andb]; [|reflexivity].
    rewrite <- IH. destruct (jsr_match O (map ELit rt) (slash :: r1)) as [[c f]|]; reflexivity.
Qed.

Lemma jsr_match_lits_caps rt : forall p caps fin, jsr_match O (map ELit rt) p = Some (caps, fin) -> caps = [].
Proof.
  induction rt as [|s rt IH]; intros p caps fin H.
  - destruct p as [|c p]; cbn in H; [now injection H as <- _|]. destruct (Ascii.eqb c slash); [now injection H as <- _|discriminate].
  - destruct p as [|c p1]; [discriminate H|]. cbn [map jsr_match] in H. destruct (Ascii.eqb c slash); cbn [negb] in H; [|discriminate H].
    destruct (span_seg p1) as [seg rest]. destruct (str_eqb seg s); cbn [negb] in H; [|discriminate H].
    destruct (jsr_match O (map ELit rt) rest) as [[c2 f2]|] eqn:E; [|discriminate H]. injection H as <- _. eapply IH; eauto.
Qed.

Lemma pe_toks_lits root : forallb lit_tok (tokenize root) = true ->
  pe_toks (path_expression root) = map ELit (tokenize root).
Proof.
  unfold path_expression. cbn [pe_toks]. intros H. induction (tokenize root) as [|t l IH]; [reflexivity|].
  cbn [forallb] in H. apply andb_true_iff in H as [Ht Hl]. unfold lit_tok in Ht. apply andb_true_iff in Ht as [Hp Hne].
  cbn [filter]. rewrite Hne. cbn [map]. rewrite (IH Hl). f_equal. unfold etok_of. apply negb_true_iff in Hp. now rewrite Hp.
Qed.

Lemma pe_groups_lits root : forallb lit_tok (tokenize root) = true -> pe_groups (path_expression root) = 0.
Proof.
  unfold path_expression. cbn [pe_groups]. intros H. induction (tokenize root) as [|t l IH]; [reflexivity|].
  cbn [forallb] in H. apply andb_true_iff in H as [Ht Hl]. unfold lit_tok in Ht. apply andb_true_iff in Ht as [Hp Hne].
  cbn [filter]. rewrite Hne. cbn [map fold_right]. rewrite (IH Hl). unfold etok_of. apply negb_true_iff in Hp. now rewrite Hp.
Qed.

Lemma lit_chars_app a b : lit_chars (a ++ b) = lit_chars a + lit_chars b.
Proof. induction a as [|e a IH]; [reflexivity|]. cbn. fold (lit_chars (a ++ b)). fold (lit_chars a). rewrite IH. destruct e; lia. Qed.

Lemma lit_chars_pos ext : ext <> [] -> forallb lit_tok ext = true -> 1 <= lit_chars (map ELit ext).
Proof.
  destruct ext as [|t ext]; [congruence|]. intros _ H. cbn [forallb] in H. apply andb_true_iff in H as [Ht _].
  unfold lit_tok in Ht. apply andb_true_iff in Ht as [_ Hne]. cbn. destruct t; [discriminate Hne|]. cbn. lia.
Qed.

Lemma strs_eqb_refl l : strs_eqb l l = true.
Proof. induction l as [|x l IH]; [reflexivity|]. cbn. now rewrite str_eqb_refl. Qed.

(* the segments both routers work with, for a clean path *)
Lemma clean_prefix p rt :
  c18_clean p = true -> forallb lit_tok rt = true ->
  exists p1, p = slash :: p1 /\ is_prefixb rt (split slash p1) = is_prefixb rt (tokenize p).
Proof.
  intros Hc Hl. unfold c18_clean in Hc. destruct (path_segs p) as [segs|] eqn:Eps; [|discriminate Hc].
  apply andb_true_iff in Hc as [_ Hs]. unfold path_segs in Eps. destruct p as [|c p1]; [discriminate Eps|].
  destruct (Ascii.eqb c slash) eqn:Ec; [|discriminate Eps]. apply Ascii.eqb_eq in Ec. subst c. injection Eps as <-.
  exists p1. split; [reflexivity|]. apply orb_true_iff in Hs as [Hs|Hs]; apply strs_eqb_eq in Hs; rewrite Hs; [reflexivity|].
  now apply is_prefixb_snoc_empty.
Qed.

Theorem same_service wss p :
  roots_literal wss = true -> roots_distinct wss = true -> c18_clean p = true ->
  match detect_web_service O (tokenize p) wss, detect_dispatcher O p wss with
  | Some w, Some (w', _) => w = w'
  | None, None => True
  | _, _ => False
  end.
Proof.
  intros Hlit Hdis Hclean. unfold roots_literal in Hlit. rewrite forallb_forall in Hlit.
  (* what matching means under either router *)
  assert (Hc : forall w, In w wss -> claims O (tokenize p) w = is_prefixb (tokenize (s_root w)) (tokenize p)).
  { intros w Hw. unfold claims. now apply claims_lit, Hlit. }
  assert (Hj : forall w, In w wss ->
             is_some (jsr_match O (pe_toks (path_expression (s_root w))) p) = is_prefixb (tokenize (s_root w)) (tokenize p)).
  { intros w Hw. rewrite (pe_toks_lits _ (Hlit w Hw)).
    destruct (clean_prefix p _ Hclean (Hlit w Hw)) as (p1 & -> & <-). apply jsr_match_lits. }
  destruct (detect_web_service O (tokenize p) wss) as [w|] eqn:E; destruct (detect_dispatcher O p wss) as [[w' fin]|] eqn:E'.
  - destruct (detect_web_service_max O _ _ _ E) as (Hin & Hcl & Hmax).
    pose proof E' as E2. apply detect_dispatcher_sound in E2 as (Hin' & caps' & Hm').
    assert (Hp : is_prefixb (tokenize (s_root w)) (tokenize p) = true) by (rewrite <- (Hc w Hin); exact Hcl).
    assert (Hp' : is_prefixb (tokenize (s_root w')) (tokenize p) = true) by (rewrite <- (Hj w' Hin'), Hm'; reflexivity).
    assert (Htok : tokenize (s_root w) = tokenize (s_root w')).
    { destruct (Nat.lt_trichotomy (List.length (tokenize (s_root w))) (List.length (tokenize (s_root w')))) as [Hlt|[Heq|Hgt]].
      - (* w' has the longer root: it would score higher under CurlyRouter *)
        exfalso. destruct (prefixes_comparable _ _ _ Hp Hp' ltac:(lia)) as (ext & Hext).
        assert (Hne : ext <> []) by (intros ->; rewrite app_nil_r in Hext; rewrite Hext in Hlt; lia).
        assert (Hcl' : fst (compute_webservice_score O (tokenize p) (tokenize (s_root w'))) = true) by (rewrite <- Hp', <- (Hc w' Hin'); reflexivity).
        pose proof (Hmax w' Hin' Hcl') as Hle. rewrite Hext in Hle, Hcl'.
        pose proof (score_longer_root_beats_prefix O _ _ _ Hne Hcl Hcl'). lia.
      - destruct (prefixes_comparable _ _ _ Hp Hp' ltac:(lia)) as (ext & Hext).
        destruct ext; [now rewrite app_nil_r in Hext|]. rewrite Hext, app_length in Heq. cbn in Heq. lia.
      - (* w has the longer root: its candidate would precede w' under RouterJSR311 *)
        exfalso. destruct (prefixes_comparable _ _ _ Hp' Hp ltac:(lia)) as (ext & Hext).
        assert (Hne : ext <> []) by (intros ->; rewrite app_nil_r in Hext; rewrite Hext in Hgt; lia).
        unfold detect_dispatcher in E'.
        pose proof (sort_desc_ssorted dc_lt dc_lt_asym dc_lt_trans (dispatcher_cands O p wss)) as Hs.
        destruct (sort_desc dc_lt (dispatcher_cands O p wss)) as [|c' cs] eqn:Esd; [discriminate E'|]. injection E' as Ew Ef.
        (* w's candidate *)
        assert (Hmw : exists capsw finw, jsr_match O (pe_toks (path_expression (s_root w))) p = Some (capsw, finw)).
        { pose proof (Hj w Hin) as H. rewrite Hp in H. destruct (jsr_match O (pe_toks (path_expression (s_root w))) p) as [[a b]|]; [eauto|cbn in H; discriminate H]. }
        destruct Hmw as (capsw & finw & Hmw).
        set (c := {| dc_ws := w; dc_final := finw; dc_matches := S (S (List.length capsw)) + pe_groups (path_expression (s_root w));
                     dc_literal := pe_literal (path_expression (s_root w)); dc_nondef := pe_vars (path_expression (s_root w)) |}).
        assert (Hcin : In c (c' :: cs)).
        { rewrite <- Esd. apply (sort_desc_In dc_lt). unfold dispatcher_cands. apply in_flat_map. exists w. split; [exact Hin|].
          cbn zeta. rewrite Hmw. now left. }
        assert (Hc'in : In c' (dispatcher_cands O p wss)) by (apply (sort_desc_In dc_lt); rewrite Esd; now left).
        unfold dispatcher_cands in Hc'in. apply in_flat_map in Hc'in as (w0 & Hw0 & Hc0). cbn zeta in Hc0.
        destruct (jsr_match O (pe_toks (path_expression (s_root w0))) p) as [[caps0 fin0]|] eqn:Em0; [|contradiction].
        destruct Hc0 as [Hc0|[]]. assert (w0 = w') by (rewrite <- Hc0 in Ew; exact Ew). subst w0.
        (* keys *)
        assert (K1 : capsw = []) by (rewrite (pe_toks_lits _ (Hlit w Hin)) in Hmw; eapply jsr_match_lits_caps; eauto).
        assert (K2 : caps0 = []) by (rewrite (pe_toks_lits _ (Hlit w' Hin')) in Em0; eapply jsr_match_lits_caps; eauto).
        assert (K3 : dc_literal c' < dc_literal c).
        { rewrite <- Hc0. cbn [dc_literal c]. rewrite !pe_literal_sum, (pe_toks_lits _ (Hlit w Hin)), (pe_toks_lits _ (Hlit w' Hin')).
          rewrite Hext, map_app, lit_chars_app.
          assert (forallb lit_tok ext = true).
          { pose proof (Hlit w Hin) as H. rewrite Hext, forallb_app in H. now apply andb_true_iff in H as [_ H]. }
          pose proof (lit_chars_pos ext Hne H). lia. }
        assert (Hlt : dc_lt c' c = true).
        { apply Nat.ltb_lt in K3. unfold dc_lt. rewrite K3. rewrite <- Hc0. cbn [dc_matches c]. rewrite K1, K2, (pe_groups_lits _ (Hlit w Hin)), (pe_groups_lits _ (Hlit w' Hin')). cbn [List.length]. now rewrite Nat.ltb_irrefl. }
        destruct Hcin as [<-|Hcin]; [rewrite (dc_lt_asym _ _ Hlt) in Hlt; discriminate|].
        apply StronglySorted_inv in Hs as [_ Hf]. rewrite Forall_forall in Hf. specialize (Hf c Hcin). unfold nlt in Hf. congruence. }
    unfold roots_distinct in Hdis.
    destruct (pairwise_In _ _ _ _ Hdis Hin Hin') as [Heq|[Hd|Hd]]; [exact Heq| |]; exfalso.
    + rewrite Htok, strs_eqb_refl in Hd. discriminate.
    + rewrite Htok, strs_eqb_refl in Hd. discriminate.
  - (* CurlyRouter finds a service, RouterJSR311 none *)
    destruct (detect_web_service_max O _ _ _ E) as (Hin & Hcl & _).
    assert (Hp : is_prefixb (tokenize (s_root w)) (tokenize p) = true) by (rewrite <- (Hc w Hin); exact Hcl).
    pose proof (Hj w Hin) as Hm. rewrite Hp in Hm.
    unfold detect_dispatcher in E'. destruct (sort_desc dc_lt (dispatcher_cands O p wss)) as [|c cs] eqn:Esd; [|discriminate E'].
    apply (proj1 (sort_desc_nil dc_lt _)) in Esd.
    assert (In_c : exists c, In c (dispatcher_cands O p wss)).
    { destruct (jsr_match O (pe_toks (path_expression (s_root w))) p) as [[a b]|] eqn:Em; [|cbn in Hm; discriminate Hm].
      eexists. unfold dispatcher_cands. apply in_flat_map. exists w. split; [exact Hin|]. cbn zeta. rewrite Em. now left. }
    destruct In_c as (c & Hcin). rewrite Esd in Hcin. contradiction.
  - (* RouterJSR311 finds a service, CurlyRouter none *)
    pose proof E' as E2. apply detect_dispatcher_sound in E2 as (Hin' & caps' & Hm').
    assert (Hp' : is_prefixb (tokenize (s_root w')) (tokenize p) = true) by (rewrite <- (Hj w' Hin'), Hm'; reflexivity).
    rewrite (detect_none_iff O) in E. specialize (E w' Hin'). rewrite (Hc w' Hin'), Hp' in E. discriminate.
  - exact Logic.I.
Qed.

(* C18, the positive half without assuming that both routers chose the same service *)
Theorem routers_agree_literal_roots wss req :
  roots_literal wss = true -> roots_distinct wss = true -> c18_clean (rq_path req) = true ->
  (forall w, detect_web_service O (tokenize (rq_path req)) wss = Some w ->
     forallb (wf_route w) (s_routes w) = true /\ JsrOutcomeProofs.jsr_all_agree w = true
     /\ forallb (jsr_names_agree w) (s_routes w) = true /\ c18_service_ok w = true /\ c18_chain O w req = true) ->
  routed_equiv (route_request O {| t_router := Curly; t_services := wss |} req)
               (route_request O {| t_router := Jsr311; t_services := wss |} req).
Proof.
  intros Hl Hd Hc Hw. pose proof (same_service wss (rq_path req) Hl Hd Hc) as Hs.
  destruct (detect_web_service O (tokenize (rq_path req)) wss) as [w|] eqn:E;
  destruct (detect_dispatcher O (rq_path req) wss) as [[w' fin]|] eqn:E'; try contradiction.
  - subst w'. destruct (Hw w eq_refl) as (H1 & H2 & H3 & H4 & H5).
    exact (routers_agree O wss req w fin E E' H1 H2 H3 H4 Hc H5).
  - destruct (routers_agree_unclaimed O wss req E E') as [-> ->]. exact Logic.I.
Qed.

End P.

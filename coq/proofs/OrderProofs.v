(* OrderProofs.v — C03, order independence at route level: Go's byte-wise string "<" and both
   candidate orders are strict orders; an insertion sort by a strict order is sorted whatever
   the input order; hence the first candidate that passes detectRoute's filters is the
   greatest passing one, the same for every registration order of the routes. *)
From Model Require Import Str Sexp Http Template Table Curly DetectRoute Jsr311 Router.
From Spec Require Import RouteSpec RankSpec.
From Proofs Require Import StrFacts RouterProofs OutcomeProofs RankRouteProofs.
From Coq Require Import Lia Permutation Sorted.

(* ---- Go's string comparison is a strict total order ---- *)
Lemma str_ltb_irrefl a : str_ltb a a = false.
Proof. induction a as [|x a IH]; [reflexivity|]. cbn. rewrite N.ltb_irrefl. exact IH. Qed.

Lemma str_ltb_asym a : forall b, str_ltb a b = true -> str_ltb b a = false.
Proof.
  induction a as [|x a IH]; intros [|y b] H; try discriminate H; try reflexivity. cbn in *.
  destruct (N.ltb_spec (N_of_ascii x) (N_of_ascii y)) as [Hxy|Hxy].
  - destruct (N.ltb_spec (N_of_ascii y) (N_of_ascii x)); [lia|reflexivity].
  - destruct (N.ltb_spec (N_of_ascii y) (N_of_ascii x)); [discriminate H|]. now apply IH.
Qed.

Lemma str_ltb_trans a : forall b c, str_ltb a b = true -> str_ltb b c = true -> str_ltb a c = true.
Proof.
  induction a as [|x a IH]; intros [|y b] [|z c] H1 H2; try discriminate H1; try discriminate H2; try reflexivity.
  cbn in *.
  destruct (N.ltb_spec (N_of_ascii x) (N_of_ascii y)) as [Hxy|Hxy];
  destruct (N.ltb_spec (N_of_ascii y) (N_of_ascii z)) as [Hyz|Hyz].
  - destruct (N.ltb_spec (N_of_ascii x) (N_of_ascii z)); [reflexivity|lia].
  - destruct (N.ltb_spec (N_of_ascii z) (N_of_ascii y)); [discriminate H2|].
    destruct (N.ltb_spec (N_of_ascii x) (N_of_ascii z)); [reflexivity|lia].
  - destruct (N.ltb_spec (N_of_ascii y) (N_of_ascii x)); [discriminate H1|].
    destruct (N.ltb_spec (N_of_ascii x) (N_of_ascii z)); [reflexivity|lia].
  - destruct (N.ltb_spec (N_of_ascii y) (N_of_ascii x)); [discriminate H1|].
    destruct (N.ltb_spec (N_of_ascii z) (N_of_ascii y)); [discriminate H2|].
    destruct (N.ltb_spec (N_of_ascii x) (N_of_ascii z)); [lia|].
    destruct (N.ltb_spec (N_of_ascii z) (N_of_ascii x)); [lia|]. eapply IH; eauto.
Qed.

Lemma N_of_ascii_inj x y : N_of_ascii x = N_of_ascii y -> x = y.
Proof. intros H. rewrite <- (ascii_N_embedding x), <- (ascii_N_embedding y). now rewrite H. Qed.

Lemma str_ltb_total a : forall b, str_ltb a b = false -> str_ltb b a = false -> a = b.
Proof.
  induction a as [|x a IH]; intros [|y b] H1 H2; try discriminate H1; try discriminate H2; [reflexivity|].
  cbn in *.
  destruct (N.ltb_spec (N_of_ascii x) (N_of_ascii y)) as [Hxy|Hxy]; [discriminate H1|].
  destruct (N.ltb_spec (N_of_ascii y) (N_of_ascii x)) as [Hyx|Hyx]; [discriminate H2|].
  assert (x = y) by (apply N_of_ascii_inj; lia). subst. f_equal. now apply IH.
Qed.

(* ---- insertion sort by a strict order ---- *)
Section StrictSort.
Context {X : Type} (lt : X -> X -> bool).
Hypothesis lt_asym : forall a b, lt a b = true -> lt b a = false.
Hypothesis lt_trans : forall a b c, lt a b = true -> lt b c = true -> lt a c = true.

Definition nlt (a b : X) : Prop := lt a b = false.

Lemma insert_desc_forall' x l (P : X -> Prop) : P x -> Forall P l -> Forall P (insert_desc lt x l).
Proof.
  intros Hx Hl. induction Hl as [|y l Hy Hl IH]; cbn [insert_desc]; [now constructor|].
  destruct (lt y x); repeat constructor; auto.
Qed.

Lemma insert_desc_ssorted x l : StronglySorted nlt l -> StronglySorted nlt (insert_desc lt x l).
Proof.
  induction 1 as [|y l Hs IH Hy]; cbn [insert_desc]; [repeat constructor|].
  destruct (lt y x) eqn:E.
  - constructor; [now constructor|]. constructor; [now apply lt_asym|].
    eapply Forall_impl; [|exact Hy]. unfold nlt. intros z Hz.
    destruct (lt x z) eqn:Exz; [|reflexivity]. rewrite (lt_trans _ _ _ E Exz) in Hz. discriminate.
  - constructor; [exact IH|]. apply insert_desc_forall'; [exact E|exact Hy].
Qed.

Lemma sort_desc_ssorted l : StronglySorted nlt (sort_desc lt l).
Proof.
  unfold sort_desc. assert (G : forall acc, StronglySorted nlt acc -> StronglySorted nlt (fold_left (fun a x => insert_desc lt x a) l acc)).
  { induction l as [|x l IH]; intros acc H; cbn [fold_left]; [exact H|]. apply IH, insert_desc_ssorted, H. }
  apply G. constructor.
Qed.

(* the first element that passes a test, in a sorted list, is not below any passing element *)
Lemma find_sorted_max (P : X -> bool) l c :
  StronglySorted nlt l -> find P l = Some c ->
  P c = true /\ In c l /\ forall c1, In c1 l -> P c1 = true -> lt c c1 = false \/ c1 = c.
Proof.
  induction 1 as [|y l Hs IH Hy]; [discriminate|]. cbn [find]. destruct (P y) eqn:Ey.
  - intros H. injection H as <-. split; [exact Ey|]. split; [now left|].
    intros c1 [<-|Hin] _; [now right|]. left. rewrite Forall_forall in Hy. now apply Hy.
  - intros H. destruct (IH H) as (Hp & Hin & Hmax). split; [exact Hp|]. split; [now right|].
    intros c1 [<-|Hin1] Hp1; [rewrite Ey in Hp1; discriminate|]. now apply Hmax.
Qed.

Lemma find_none_iff (P : X -> bool) l : find P l = None <-> forall x, In x l -> P x = false.
Proof.
  induction l as [|y l IH]; cbn; [split; [intros _ x []|reflexivity]|].
  destruct (P y) eqn:E; split.
  - discriminate.
  - intros H. specialize (H y (or_introl eq_refl)). congruence.
  - intros H x [<-|Hx]; [exact E|]. now apply IH.
  - intros H. apply IH. intros x Hx. apply H. now right.
Qed.

(* two permuted lists, sorted: the same first passing element, provided the passing elements
   are pairwise comparable (no two different ones tie) *)
Theorem sorted_find_perm (P : X -> bool) l l' :
  Permutation l l' ->
  (forall a b, In a l -> In b l -> P a = true -> P b = true -> lt a b = false -> lt b a = false -> a = b) ->
  find P (sort_desc lt l) = find P (sort_desc lt l').
Proof.
  intros Hperm Hcmp.
  assert (Hin : forall x, In x (sort_desc lt l) <-> In x (sort_desc lt l')).
  { intros x. rewrite !(sort_desc_In lt). split; apply Permutation_in; [exact Hperm|now symmetry]. }
  destruct (find P (sort_desc lt l)) as [c|] eqn:E; destruct (find P (sort_desc lt l')) as [c'|] eqn:E'.
  - destruct (find_sorted_max P _ c (sort_desc_ssorted l) E) as (Hp & Hc & Hmax).
    destruct (find_sorted_max P _ c' (sort_desc_ssorted l') E') as (Hp' & Hc' & Hmax').
    f_equal. apply Hcmp; try assumption.
    + exact (proj1 (sort_desc_In lt c l) Hc).
    + exact (proj1 (sort_desc_In lt c' l) (proj2 (Hin c') Hc')).
    + destruct (Hmax c' (proj2 (Hin c') Hc') Hp') as [H|H]; [exact H|]. subst. destruct (lt c c) eqn:Ecc; [|reflexivity]. now rewrite (lt_asym _ _ Ecc) in Ecc.
    + destruct (Hmax' c (proj1 (Hin c) Hc) Hp) as [H|H]; [exact H|]. subst. destruct (lt c' c') eqn:Ecc; [|reflexivity]. now rewrite (lt_asym _ _ Ecc) in Ecc.
  - exfalso. destruct (find_sorted_max P _ c (sort_desc_ssorted l) E) as (Hp & Hc & _).
    rewrite find_none_iff in E'. rewrite (E' c (proj1 (Hin c) Hc)) in Hp. discriminate.
  - exfalso. destruct (find_sorted_max P _ c' (sort_desc_ssorted l') E') as (Hp & Hc & _).
    rewrite find_none_iff in E. rewrite (E c' (proj2 (Hin c') Hc)) in Hp. discriminate.
  - reflexivity.
Qed.
End StrictSort.

(* ---- both candidate orders are strict orders ---- *)
Lemma cc_lt_asym a b : cc_lt a b = true -> cc_lt b a = false.
Proof.
  unfold cc_lt.
  destruct (Nat.ltb_spec (cc_static a) (cc_static b)); destruct (Nat.ltb_spec (cc_static b) (cc_static a)); try lia; try discriminate; try reflexivity.
  destruct (Nat.ltb_spec (cc_param a) (cc_param b)); destruct (Nat.ltb_spec (cc_param b) (cc_param a)); try lia; try discriminate; try reflexivity.
  apply str_ltb_asym.
Qed.

Lemma cc_lt_trans a b c : cc_lt a b = true -> cc_lt b c = true -> cc_lt a c = true.
Proof.
  unfold cc_lt.
  destruct (Nat.ltb_spec (cc_static a) (cc_static b)); destruct (Nat.ltb_spec (cc_static b) (cc_static a)); try lia; try discriminate;
  destruct (Nat.ltb_spec (cc_static b) (cc_static c)); destruct (Nat.ltb_spec (cc_static c) (cc_static b)); try lia; try discriminate;
  destruct (Nat.ltb_spec (cc_static a) (cc_static c)); destruct (Nat.ltb_spec (cc_static c) (cc_static a)); try lia; try reflexivity.
  destruct (Nat.ltb_spec (cc_param a) (cc_param b)); destruct (Nat.ltb_spec (cc_param b) (cc_param a)); try lia; try discriminate;
  destruct (Nat.ltb_spec (cc_param b) (cc_param c)); destruct (Nat.ltb_spec (cc_param c) (cc_param b)); try lia; try discriminate;
  destruct (Nat.ltb_spec (cc_param a) (cc_param c)); destruct (Nat.ltb_spec (cc_param c) (cc_param a)); try lia; try reflexivity.
  apply str_ltb_trans.
Qed.

Lemma cc_lt_tie a b : cc_lt a b = false -> cc_lt b a = false -> cc_path a = cc_path b.
Proof.
  unfold cc_lt.
  destruct (Nat.ltb_spec (cc_static a) (cc_static b)); destruct (Nat.ltb_spec (cc_static b) (cc_static a)); try lia; try discriminate.
  destruct (Nat.ltb_spec (cc_param a) (cc_param b)); destruct (Nat.ltb_spec (cc_param b) (cc_param a)); try lia; try discriminate.
  apply str_ltb_total.
Qed.

Lemma rc_lt_asym a b : rc_lt a b = true -> rc_lt b a = false.
Proof.
  unfold rc_lt.
  destruct (Nat.ltb_spec (rc_literal a) (rc_literal b)); destruct (Nat.ltb_spec (rc_literal b) (rc_literal a)); try lia; try discriminate; try reflexivity.
  destruct (Nat.ltb_spec (rc_matches a) (rc_matches b)); destruct (Nat.ltb_spec (rc_matches b) (rc_matches a)); try lia; try discriminate; try reflexivity.
  destruct (Nat.ltb_spec (rc_nondef a) (rc_nondef b)); destruct (Nat.ltb_spec (rc_nondef b) (rc_nondef a)); try lia; try discriminate; try reflexivity.
  apply str_ltb_asym.
Qed.

Lemma rc_lt_tie a b : rc_lt a b = false -> rc_lt b a = false -> rc_path a = rc_path b.
Proof.
  unfold rc_lt.
  destruct (Nat.ltb_spec (rc_literal a) (rc_literal b)); destruct (Nat.ltb_spec (rc_literal b) (rc_literal a)); try lia; try discriminate.
  destruct (Nat.ltb_spec (rc_matches a) (rc_matches b)); destruct (Nat.ltb_spec (rc_matches b) (rc_matches a)); try lia; try discriminate.
  destruct (Nat.ltb_spec (rc_nondef a) (rc_nondef b)); destruct (Nat.ltb_spec (rc_nondef b) (rc_nondef a)); try lia; try discriminate.
  apply str_ltb_total.
Qed.

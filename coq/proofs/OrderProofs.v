(* OrderProofs.v — C03, order independence at route level: Go's byte-wise string "<" and both
   candidate orders are strict orders; an insertion sort by a strict order is sorted whatever
   the input order; hence the first candidate that passes detectRoute's filters is the
   greatest passing one, the same for every registration order of the routes. *)
From Model Require Import Str Sexp Http Template Table Curly DetectRoute Jsr311 Router.
From Spec Require Import RouteSpec RankSpec.
From Proofs Require Import StrFacts RouterProofs OutcomeProofs RankProofs RankRouteProofs FrameProofs JsrProofs AgreeProofs.
From Coq Require Import Lia Permutation Sorted.

(* ---- Go's string comparison is a strict total order ---- *)
Lemma str_ltb_irrefl a : str_ltb a a = false.
Proof. induction a as [|x a IH]; [reflexivity|]. cbn. rewrite N.ltb_irrefl. exact IH. Qed.

Lemma str_ltb_asym a : forall b, str_ltb a b = true -> str_ltb b a = false.
Proof.
  induction a as [|x a IH]; intros [|y b] H; try discriminate H; try reflexivity. cbn in *.
  destruct (N.ltb_spec (N_of_ascii x) (N_of_ascii y)) as [Hxy|Hxy].
  - destruct (N.ltb_spec (N_of_ascii y) (N_of_ascii x)); [lia|reflexivity].
  - destruct (N.ltb_spec (N_of_ascii y) (N_of_ascii x)); [discriminate H|]. now apply IH.
Qed.

Lemma str_ltb_trans a : forall b c, str_ltb a b = true -> str_ltb b c = true -> str_ltb a c = true.
Proof.
  induction a as [|x a IH]; intros [|y b] [|z c] H1 H2; try discriminate H1; try discriminate H2; try reflexivity.
  cbn in *.
  destruct (N.ltb_spec (N_of_ascii x) (N_of_ascii y)) as [Hxy|Hxy];
  destruct (N.ltb_spec (N_of_ascii y) (N_of_ascii z)) as [Hyz|Hyz].
  - destruct (N.ltb_spec (N_of_ascii x) (N_of_ascii z)); [reflexivity|lia].
  - destruct (N.ltb_spec (N_of_ascii z) (N_of_ascii y)); [discriminate H2|].
    destruct (N.ltb_spec (N_of_ascii x) (N_of_ascii z)); [reflexivity|lia].
  - destruct (N.ltb_spec (N_of_ascii y) (N_of_ascii x)); [discriminate H1|].
    destruct (N.ltb_spec (N_of_ascii x) (N_of_ascii z)); [reflexivity|lia].
  - destruct (N.ltb_spec (N_of_ascii y) (N_of_ascii x)); [discriminate H1|].
    destruct (N.ltb_spec (N_of_ascii z) (N_of_ascii y)); [discriminate H2|].
    destruct (N.ltb_spec (N_of_ascii x) (N_of_ascii z)); [lia|].
    destruct (N.ltb_spec (N_of_ascii z) (N_of_ascii x)); [lia|]. eapply IH; eauto.
Qed.

Lemma N_of_ascii_inj x y : N_of_ascii x = N_of_ascii y -> x = y.
Proof. intros H. rewrite <- (ascii_N_embedding x), <- (ascii_N_embedding y). now rewrite H. Qed.

Lemma str_ltb_total a : forall b, str_ltb a b = false -> str_ltb b a = false -> a = b.
Proof.
  induction a as [|x a IH]; intros [|y b] H1 H2; try discriminate H1; try discriminate H2; [reflexivity|].
  cbn in *.
  destruct (N.ltb_spec (N_of_ascii x) (N_of_ascii y)) as [Hxy|Hxy]; [discriminate H1|].
  destruct (N.ltb_spec (N_of_ascii y) (N_of_ascii x)) as [Hyx|Hyx]; [discriminate H2|].
  assert (x = y) by (apply N_of_ascii_inj; lia). subst. f_equal. now apply IH.
Qed.

(* ---- insertion sort by a strict order ---- *)
Section StrictSort.
Context {X : Type} (lt : X -> X -> bool).
Hypothesis lt_asym : forall a b, lt a b = true -> lt b a = false.
Hypothesis lt_trans : forall a b c, lt a b = true -> lt b c = true -> lt a c = true.

Definition nlt (a b : X) : Prop := lt a b = false.

Lemma insert_desc_forall' x l (P : X -> Prop) : P x -> Forall P l -> Forall P (insert_desc lt x l).
Proof.
  intros Hx Hl. induction Hl as [|y l Hy Hl IH]; cbn [insert_desc]; [now constructor|].
  destruct (lt y x); repeat constructor; auto.
Qed.

Lemma insert_desc_ssorted x l : StronglySorted nlt l -> StronglySorted nlt (insert_desc lt x l).
Proof.
  induction 1 as [|y l Hs IH Hy]; cbn [insert_desc]; [repeat constructor|].
  destruct (lt y x) eqn:E.
  - constructor; [now constructor|]. constructor; [now apply lt_asym|].
    eapply Forall_impl; [|exact Hy]. unfold nlt. intros z Hz.
    destruct (lt x z) eqn:Exz; [|reflexivity]. rewrite (lt_trans _ _ _ E Exz) in Hz. discriminate.
  - constructor; [exact IH|]. apply insert_desc_forall'; [exact E|exact Hy].
Qed.

Lemma sort_desc_ssorted l : StronglySorted nlt (sort_desc lt l).
Proof.
  unfold sort_desc. assert (G : forall acc, StronglySorted nlt acc -> StronglySorted nlt (fold_left (fun a x => insert_desc lt x a) l acc)).
  { induction l as [|x l IH]; intros acc H; cbn [fold_left]; [exact H|]. apply IH, insert_desc_ssorted, H. }
  apply G. constructor.
Qed.

(* the first element that passes a test, in a sorted list, is not below any passing element *)
Lemma find_sorted_max (P : X -> bool) l c :
  StronglySorted nlt l -> find P l = Some c ->
  P c = true /\ In c l /\ forall c1, In c1 l -> P c1 = true -> lt c c1 = false \/ c1 = c.
Proof.
  induction 1 as [|y l Hs IH Hy]; [discriminate|]. cbn [find]. destruct (P y) eqn:Ey.
  - intros H. injection H as <-. split; [exact Ey|]. split; [now left|].
    intros c1 [<-|Hin] _; [now right|]. left. rewrite Forall_forall in Hy. now apply Hy.
  - intros H. destruct (IH H) as (Hp & Hin & Hmax). split; [exact Hp|]. split; [now right|].
    intros c1 [<-|Hin1] Hp1; [rewrite Ey in Hp1; discriminate|]. now apply Hmax.
Qed.

Lemma find_none_iff (P : X -> bool) l : find P l = None <-> forall x, In x l -> P x = false.
Proof.
  induction l as [|y l IH]; cbn; [split; [intros _ x []|reflexivity]|].
  destruct (P y) eqn:E; split.
  - discriminate.
  - intros H. specialize (H y (or_introl eq_refl)). congruence.
  - intros H x [<-|Hx]; [exact E|]. now apply IH.
  - intros H. apply IH. intros x Hx. apply H. now right.
Qed.

(* two permuted lists, sorted: the same first passing element, provided the passing elements
   are pairwise comparable (no two different ones tie) *)
Theorem sorted_find_perm (P : X -> bool) l l' :
  Permutation l l' ->
  (forall a b, In a l -> In b l -> P a = true -> P b = true -> lt a b = false -> lt b a = false -> a = b) ->
  find P (sort_desc lt l) = find P (sort_desc lt l').
Proof.
  intros Hperm Hcmp.
  assert (Hin : forall x, In x (sort_desc lt l) <-> In x (sort_desc lt l')).
  { intros x. rewrite !(sort_desc_In lt). split; apply Permutation_in; [exact Hperm|now symmetry]. }
  destruct (find P (sort_desc lt l)) as [c|] eqn:E; destruct (find P (sort_desc lt l')) as [c'|] eqn:E'.
  - destruct (find_sorted_max P _ c (sort_desc_ssorted l) E) as (Hp & Hc & Hmax).
    destruct (find_sorted_max P _ c' (sort_desc_ssorted l') E') as (Hp' & Hc' & Hmax').
    f_equal. apply Hcmp; try assumption.
    + exact (proj1 (sort_desc_In lt c l) Hc).
    + exact (proj1 (sort_desc_In lt c' l) (proj2 (Hin c') Hc')).
    + destruct (Hmax c' (proj2 (Hin c') Hc') Hp') as [H|H]; [exact H|]. subst. destruct (lt c c) eqn:Ecc; [|reflexivity]. now rewrite (lt_asym _ _ Ecc) in Ecc.
    + destruct (Hmax' c (proj1 (Hin c) Hc) Hp) as [H|H]; [exact H|]. subst. destruct (lt c' c') eqn:Ecc; [|reflexivity]. now rewrite (lt_asym _ _ Ecc) in Ecc.
  - exfalso. destruct (find_sorted_max P _ c (sort_desc_ssorted l) E) as (Hp & Hc & _).
    rewrite find_none_iff in E'. rewrite (E' c (proj1 (Hin c) Hc)) in Hp. discriminate.
  - exfalso. destruct (find_sorted_max P _ c' (sort_desc_ssorted l') E') as (Hp & Hc & _).
    rewrite find_none_iff in E. rewrite (E c' (proj2 (Hin c') Hc)) in Hp. discriminate.
  - reflexivity.
Qed.
End StrictSort.

(* ---- both candidate orders are strict orders ---- *)
Lemma cc_lt_asym a b : cc_lt a b = true -> cc_lt b a = false.
Proof.
  unfold cc_lt.
  destruct (Nat.ltb_spec (cc_static a) (cc_static b)); destruct (Nat.ltb_spec (cc_static b) (cc_static a)); try lia; try discriminate; try reflexivity.
  destruct (Nat.ltb_spec (cc_param a) (cc_param b)); destruct (Nat.ltb_spec (cc_param b) (cc_param a)); try lia; try discriminate; try reflexivity.
  apply str_ltb_asym.
Qed.

Lemma cc_lt_trans a b c : cc_lt a b = true -> cc_lt b c = true -> cc_lt a c = true.
Proof.
  unfold cc_lt.
  destruct (Nat.ltb_spec (cc_static a) (cc_static b)); destruct (Nat.ltb_spec (cc_static b) (cc_static a)); try lia; try discriminate;
  destruct (Nat.ltb_spec (cc_static b) (cc_static c)); destruct (Nat.ltb_spec (cc_static c) (cc_static b)); try lia; try discriminate;
  destruct (Nat.ltb_spec (cc_static a) (cc_static c)); destruct (Nat.ltb_spec (cc_static c) (cc_static a)); try lia; try reflexivity.
  destruct (Nat.ltb_spec (cc_param a) (cc_param b)); destruct (Nat.ltb_spec (cc_param b) (cc_param a)); try lia; try discriminate;
  destruct (Nat.ltb_spec (cc_param b) (cc_param c)); destruct (Nat.ltb_spec (cc_param c) (cc_param b)); try lia; try discriminate;
  destruct (Nat.ltb_spec (cc_param a) (cc_param c)); destruct (Nat.ltb_spec (cc_param c) (cc_param a)); try lia; try reflexivity.
  apply str_ltb_trans.
Qed.

Lemma cc_lt_tie a b : cc_lt a b = false -> cc_lt b a = false -> cc_path a = cc_path b.
Proof.
  unfold cc_lt.
  destruct (Nat.ltb_spec (cc_static a) (cc_static b)); destruct (Nat.ltb_spec (cc_static b) (cc_static a)); try lia; try discriminate.
  destruct (Nat.ltb_spec (cc_param a) (cc_param b)); destruct (Nat.ltb_spec (cc_param b) (cc_param a)); try lia; try discriminate.
  apply str_ltb_total.
Qed.

Lemma rc_lt_asym a b : rc_lt a b = true -> rc_lt b a = false.
Proof.
  unfold rc_lt.
  destruct (Nat.ltb_spec (rc_literal a) (rc_literal b)); destruct (Nat.ltb_spec (rc_literal b) (rc_literal a)); try lia; try discriminate; try reflexivity.
  destruct (Nat.ltb_spec (rc_matches a) (rc_matches b)); destruct (Nat.ltb_spec (rc_matches b) (rc_matches a)); try lia; try discriminate; try reflexivity.
  destruct (Nat.ltb_spec (rc_nondef a) (rc_nondef b)); destruct (Nat.ltb_spec (rc_nondef b) (rc_nondef a)); try lia; try discriminate; try reflexivity.
  apply str_ltb_asym.
Qed.

Lemma rc_lt_trans a b c : rc_lt a b = true -> rc_lt b c = true -> rc_lt a c = true.
Proof.
  unfold rc_lt.
  destruct (Nat.ltb_spec (rc_literal a) (rc_literal b)); destruct (Nat.ltb_spec (rc_literal b) (rc_literal a)); try lia; try discriminate;
  destruct (Nat.ltb_spec (rc_literal b) (rc_literal c)); destruct (Nat.ltb_spec (rc_literal c) (rc_literal b)); try lia; try discriminate;
  destruct (Nat.ltb_spec (rc_literal a) (rc_literal c)); destruct (Nat.ltb_spec (rc_literal c) (rc_literal a)); try lia; try reflexivity.
  destruct (Nat.ltb_spec (rc_matches a) (rc_matches b)); destruct (Nat.ltb_spec (rc_matches b) (rc_matches a)); try lia; try discriminate;
  destruct (Nat.ltb_spec (rc_matches b) (rc_matches c)); destruct (Nat.ltb_spec (rc_matches c) (rc_matches b)); try lia; try discriminate;
  destruct (Nat.ltb_spec (rc_matches a) (rc_matches c)); destruct (Nat.ltb_spec (rc_matches c) (rc_matches a)); try lia; try reflexivity.
  destruct (Nat.ltb_spec (rc_nondef a) (rc_nondef b)); destruct (Nat.ltb_spec (rc_nondef b) (rc_nondef a)); try lia; try discriminate;
  destruct (Nat.ltb_spec (rc_nondef b) (rc_nondef c)); destruct (Nat.ltb_spec (rc_nondef c) (rc_nondef b)); try lia; try discriminate;
  destruct (Nat.ltb_spec (rc_nondef a) (rc_nondef c)); destruct (Nat.ltb_spec (rc_nondef c) (rc_nondef a)); try lia; try reflexivity.
  apply str_ltb_trans.
Qed.

Lemma rc_lt_tie a b : rc_lt a b = false -> rc_lt b a = false -> rc_path a = rc_path b.
Proof.
  unfold rc_lt.
  destruct (Nat.ltb_spec (rc_literal a) (rc_literal b)); destruct (Nat.ltb_spec (rc_literal b) (rc_literal a)); try lia; try discriminate.
  destruct (Nat.ltb_spec (rc_matches a) (rc_matches b)); destruct (Nat.ltb_spec (rc_matches b) (rc_matches a)); try lia; try discriminate.
  destruct (Nat.ltb_spec (rc_nondef a) (rc_nondef b)); destruct (Nat.ltb_spec (rc_nondef b) (rc_nondef a)); try lia; try discriminate.
  apply str_ltb_total.
Qed.

(* ---- detectRoute in terms of "the first route that passes" ---- *)
Lemma detect_route_inr routes req e : detect_route routes req = inr e -> filter (passes req) routes = [].
Proof.
  unfold detect_route.
  assert (Hall : forall l, filter (fun r0 => matches_accept r0 (effective_accept req))
                  (filter (fun r => matches_content_type r (hget req H_ContentType))
                     (filter (fun r => str_eqb (rq_method req) (r_method r))
                        (filter (fun r => forallb (fun b => b) (r_conds r)) l))) = filter (passes req) l).
  { intros l. rewrite !filter_filter. apply filter_ext. intros x. unfold passes, conds_hold. now rewrite !andb_assoc. }
  assert (Hacc : match hget req H_Accept with [] => L "*/*" | a :: l => a :: l end = effective_accept req).
  { unfold effective_accept. destruct (hget req H_Accept); reflexivity. }
  rewrite Hacc. rewrite <- Hall.
  set (c0 := filter _ routes). destruct c0 as [|a0 c0'] eqn:E0; [reflexivity|]. rewrite <- E0.
  set (c1 := filter _ c0). destruct c1 as [|a1 c1'] eqn:E1; [reflexivity|]. rewrite <- E1.
  set (c2 := filter _ c1). destruct c2 as [|a2 c2'] eqn:E2.
  - reflexivity.
  - cbv beta iota. destruct (filter _ (a2 :: c2')) as [|r0 tl]; [reflexivity|discriminate].
Qed.

Lemma find_filter_head {A} (P : A -> bool) l : find P l = match filter P l with x :: _ => Some x | [] => None end.
Proof. induction l as [|y l IH]; [reflexivity|]. cbn. destruct (P y); [reflexivity|exact IH]. Qed.

Lemma find_map {A B} (f : A -> B) (P : B -> bool) l : find P (map f l) = option_map f (find (fun x => P (f x)) l).
Proof. induction l as [|y l IH]; [reflexivity|]. cbn. destruct (P (f y)); [reflexivity|exact IH]. Qed.

Lemma detect_route_find routes req :
  match find (passes req) routes with
  | Some r => detect_route routes req = inl r
  | None => exists e, detect_route routes req = inr e
  end.
Proof.
  rewrite find_filter_head. destruct (detect_route routes req) as [r|e] eqn:E.
  - apply detect_route_first in E as (tl & ->). reflexivity.
  - rewrite (detect_route_inr _ _ _ E). eauto.
Qed.

(* two error answers that meet the same declarative outcome are the same error up to the
   order of the Allow list *)
Lemma meets_same_error S e e' :
  meets S (detect_view (inr e)) = true -> meets S (detect_view (inr e')) = true -> rerr_equiv e e'.
Proof.
  destruct S as [ids|code al]; destruct e as [|a| |], e' as [|a'| |]; unfold meets, detect_view, outcome_meets; cbv beta iota zeta;
    intros H1 H2;
    repeat (apply andb_true_iff in H1 as [H1 ?]); repeat (apply andb_true_iff in H2 as [H2 ?]);
    repeat match goal with H : Z.eqb _ _ = true |- _ => apply Z.eqb_eq in H end; try lia; try exact Logic.I.
  cbn. intros m. rewrite !forallb_forall in *. split; intros Hm.
  - apply mem_In. match goal with H : forall x, In x al -> mem x a' = true |- _ => apply H end.
    apply mem_In. match goal with H : forall x, In x a -> mem x al = true |- _ => now apply H end.
  - apply mem_In. match goal with H : forall x, In x al -> mem x a = true |- _ => apply H end.
    apply mem_In. match goal with H : forall x, In x a' -> mem x al = true |- _ => now apply H end.
Qed.

Section CurlyOrder.
Variable O : oracles.

(* the candidate CurlyRouter builds for a route is a function of the root and the route *)
Definition cand_of (w : service) (qts : list str) (r : route) : list curly_cand :=
  match matches_route_by_path_tokens O (route_parts w r) qts (route_hcv w r) with
  | Some (pc, sc) => [{| cc_route := r; cc_param := pc; cc_static := sc; cc_path := route_path w r |}]
  | None => []
  end.

Lemma cand_of_root w w' qts r : s_root w = s_root w' -> cand_of w qts r = cand_of w' qts r.
Proof. intros H. unfold cand_of, route_parts, route_hcv, route_path. now rewrite H. Qed.

Lemma In_cand_of w qts r c : In c (cand_of w qts r) -> cc_route c = r /\ cc_path c = route_path w r.
Proof.
  unfold cand_of. destruct (matches_route_by_path_tokens O (route_parts w r) qts (route_hcv w r)) as [[pc sc]|]; [|contradiction].
  intros H. destruct H as [<-|[]]. auto.
Qed.

Lemma NoDup_map_inj {A B} (f : A -> B) l a b : NoDup (map f l) -> In a l -> In b l -> f a = f b -> a = b.
Proof.
  induction l as [|x l IH]; [contradiction|]. cbn. intros Hnd Ha Hb Hf. inversion Hnd as [|? ? Hx Hnd']; subst.
  destruct Ha as [<-|Ha], Hb as [<-|Hb]; [reflexivity| | |now apply IH].
  - exfalso. apply Hx. rewrite Hf. now apply in_map.
  - exfalso. apply Hx. rewrite <- Hf. now apply in_map.
Qed.

(* Route level: a service and a copy of it with its routes registered in another order give
   every request the same answer, provided no two routes of one method have the same path *)
Theorem curly_routes_order_independent w w' qts req :
  s_root w = s_root w' -> Permutation (s_routes w) (s_routes w') ->
  NoDup (map (route_key w) (s_routes w)) ->
  detect_equiv (detect_route (map cc_route (curly_select_routes O w qts)) req)
               (detect_route (map cc_route (curly_select_routes O w' qts)) req).
Proof.
  intros Hroot Hperm Hnd.
  set (cs := flat_map (cand_of w qts) (s_routes w)).
  set (cs' := flat_map (cand_of w' qts) (s_routes w')).
  assert (Hcs : curly_select_routes O w qts = sort_desc cc_lt cs) by reflexivity.
  assert (Hcs' : curly_select_routes O w' qts = sort_desc cc_lt cs') by reflexivity.
  assert (Hp : Permutation cs cs').
  { subst cs cs'. rewrite (flat_map_ext _ _ (fun r => cand_of_root w w' qts r Hroot)).
    clear -Hperm. induction Hperm; cbn [flat_map].
    - constructor.
    - now apply Permutation_app_head.
    - rewrite !app_assoc. apply Permutation_app_tail, Permutation_app_comm.
    - etransitivity; eauto. }
  (* the same first passing candidate *)
  assert (Hfind : find (fun c => passes req (cc_route c)) (sort_desc cc_lt cs)
                = find (fun c => passes req (cc_route c)) (sort_desc cc_lt cs')).
  { apply (sorted_find_perm cc_lt cc_lt_asym cc_lt_trans); [exact Hp|].
    intros a b Ha Hb Pa Pb Hab Hba.
    pose proof (cc_lt_tie a b Hab Hba) as Hpath.
    subst cs. apply in_flat_map in Ha as (ra & Hra & Hca). apply in_flat_map in Hb as (rb & Hrb & Hcb).
    pose proof (In_cand_of _ _ _ _ Hca) as [Ea Epa]. pose proof (In_cand_of _ _ _ _ Hcb) as [Eb Epb].
    assert (Hrr : ra = rb).
    { apply (NoDup_map_inj (route_key w) (s_routes w)); try assumption. unfold route_key.
      rewrite <- Epa, <- Epb, Hpath. f_equal.
      unfold passes in Pa, Pb. rewrite Ea in Pa. rewrite Eb in Pb.
      repeat (apply andb_true_iff in Pa as [Pa ?]). repeat (apply andb_true_iff in Pb as [Pb ?]).
      repeat match goal with H : str_eqb _ _ = true |- _ => apply str_eqb_eq in H end. congruence. }
    rewrite <- Hrr in Hcb. unfold cand_of in Hca, Hcb.
    destruct (matches_route_by_path_tokens O (route_parts w ra) qts (route_hcv w ra)) as [[pc sc]|]; [|contradiction].
    cbn [In] in Hca, Hcb. destruct Hca as [Hca|[]]. destruct Hcb as [Hcb|[]]. congruence. }
  rewrite Hcs, Hcs'.
  pose proof (detect_route_find (map cc_route (sort_desc cc_lt cs)) req) as D.
  pose proof (detect_route_find (map cc_route (sort_desc cc_lt cs')) req) as D'.
  rewrite find_map in D, D'. rewrite <- Hfind in D'.
  destruct (find (fun c => passes req (cc_route c)) (sort_desc cc_lt cs)) as [c|]; cbn [option_map] in D, D'.
  - rewrite D, D'. reflexivity.
  - destruct D as (e & De). destruct D' as (e' & De'). rewrite De, De'. cbn.
    apply (meets_same_error (spec_cascade (map cc_route (sort_desc cc_lt cs)) req)).
    + rewrite <- De. apply detect_route_meets.
    + rewrite <- De'.
      rewrite (spec_cascade_perm (map cc_route (sort_desc cc_lt cs)) (map cc_route (sort_desc cc_lt cs')) req).
      * apply detect_route_meets.
      * apply Permutation_map. rewrite !(sort_desc_perm cc_lt). exact Hp.
Qed.
End CurlyOrder.

(* ---- service level and the whole answer, CurlyRouter ---- *)
Section CurlyTable.
Variable O : oracles.

Lemma detect_ws_loop_some qts wss : forall b sc, exists w, detect_ws_loop O qts wss (Some b) sc = Some w.
Proof.
  induction wss as [|x wss IH]; intros b sc; cbn [detect_ws_loop]; [eauto|].
  destruct (compute_webservice_score O qts (tokenize (s_root x))) as [m s]. destruct (m && Z.ltb sc (Z.of_nat s)); apply IH.
Qed.

Lemma detect_none_iff qts wss :
  detect_web_service O qts wss = None <-> forall w, In w wss -> claims O qts w = false.
Proof.
  unfold detect_web_service, claims. induction wss as [|x wss IH]; cbn [detect_ws_loop].
  - split; [intros _ w []|reflexivity].
  - destruct (compute_webservice_score O qts (tokenize (s_root x))) as [m s] eqn:E. destruct m; cbn [andb].
    + assert (Hlt : Z.ltb (-1) (Z.of_nat s) = true) by (apply Z.ltb_lt; lia). rewrite Hlt. split.
      * intros H. destruct (detect_ws_loop_some qts wss x (Z.of_nat s)) as (w & Hw). congruence.
      * intros H. specialize (H x (or_introl eq_refl)). rewrite E in H. discriminate.
    + rewrite IH. split.
      * intros H w [<-|Hw]; [now rewrite E|now apply H].
      * intros H w Hw. apply H. now right.
Qed.

Lemma tbl_perm_back t t' w' : tbl_perm t t' -> In w' (t_services t') -> exists w, In w (t_services t) /\ svc_perm w w'.
Proof.
  intros (l & Hf & Hp) Hin. apply (Permutation_in _ (Permutation_sym Hp)) in Hin.
  clear Hp. induction Hf as [|a b la lb Hab Hf IH]; [contradiction|]. destruct Hin as [<-|Hin].
  - exists a. split; [now left|exact Hab].
  - destruct (IH Hin) as (w & Hw & Hs). exists w. split; [now right|exact Hs].
Qed.

Lemma tbl_perm_fwd t t' w : tbl_perm t t' -> In w (t_services t) -> exists w', In w' (t_services t') /\ svc_perm w w'.
Proof.
  intros (l & Hf & Hp) Hin.
  assert (exists w', In w' l /\ svc_perm w w') as (w' & Hw' & Hs).
  { clear Hp. induction Hf as [|a b la lb Hab Hf IH]; [contradiction|]. destruct Hin as [<-|Hin].
    - exists b. split; [now left|exact Hab].
    - destruct (IH Hin) as (w' & Hw' & Hs). exists w'. split; [now right|exact Hs]. }
  exists w'. split; [now apply (Permutation_in _ Hp)|exact Hs].
Qed.

Lemma claims_root qts w w' : s_root w = s_root w' -> claims O qts w = claims O qts w' /\ score O qts w = score O qts w'.
Proof. intros H. unfold claims, score. now rewrite H. Qed.

(* the chosen service is the same one, whatever the order of registration *)
Lemma detect_perm t t' qts :
  tbl_perm t t' -> no_tie O qts (t_services t) ->
  match detect_web_service O qts (t_services t), detect_web_service O qts (t_services t') with
  | Some w, Some w' => svc_perm w w'
  | None, None => True
  | _, _ => False
  end.
Proof.
  intros Hperm Hnt.
  destruct (detect_web_service O qts (t_services t)) as [w|] eqn:E; destruct (detect_web_service O qts (t_services t')) as [w'|] eqn:E'.
  - destruct (detect_web_service_max O _ _ _ E) as (Hin & Hc & Hmax).
    destruct (detect_web_service_max O _ _ _ E') as (Hin' & Hc' & Hmax').
    destruct (tbl_perm_back _ _ _ Hperm Hin') as (w2 & Hin2 & Hs2).
    destruct (tbl_perm_fwd _ _ _ Hperm Hin) as (wc & Hinc & Hsc).
    destruct (claims_root qts w2 w' (proj1 Hs2)) as [C2 S2]. destruct (claims_root qts w wc (proj1 Hsc)) as [Cc Sc].
    unfold claims, score in *.
    assert (Hc2 : fst (compute_webservice_score O qts (tokenize (s_root w2))) = true) by congruence.
    assert (Hcc : fst (compute_webservice_score O qts (tokenize (s_root wc))) = true) by congruence.
    pose proof (Hmax w2 Hin2 Hc2) as L1. pose proof (Hmax' wc Hinc Hcc) as L2.
    assert (w = w2) by (apply Hnt; unfold claims, score; auto; lia). subst w2. exact Hs2.
  - rewrite detect_none_iff in E'. destruct (detect_web_service_max O _ _ _ E) as (Hin & Hc & _).
    destruct (tbl_perm_fwd _ _ _ Hperm Hin) as (wc & Hinc & Hsc).
    destruct (claims_root qts w wc (proj1 Hsc)) as [Cc _]. unfold claims in *. rewrite (E' wc Hinc) in Cc. congruence.
  - rewrite detect_none_iff in E. destruct (detect_web_service_max O _ _ _ E') as (Hin' & Hc' & _).
    destruct (tbl_perm_back _ _ _ Hperm Hin') as (w2 & Hin2 & Hs2).
    destruct (claims_root qts w2 w' (proj1 Hs2)) as [C2 _]. unfold claims in *. rewrite (E w2 Hin2) in C2. congruence.
  - exact Logic.I.
Qed.

Lemma select_route_curly t req :
  t_router t = Curly ->
  select_route O t req =
    match detect_web_service O (tokenize (rq_path req)) (t_services t) with
    | None => inr E404
    | Some w => match detect_route (map cc_route (curly_select_routes O w (tokenize (rq_path req)))) req with
                | inl r => inl (w, r)
                | inr e => inr e
                end
    end.
Proof.
  intros Hr. unfold select_route. rewrite Hr.
  destruct (detect_web_service O (tokenize (rq_path req)) (t_services t)) as [w|]; [|reflexivity].
  destruct (curly_select_routes O w (tokenize (rq_path req))); reflexivity.
Qed.

(* C03, order independence, CurlyRouter: a table and any re-ordering of its services and of the
   routes inside them answer every request alike — same route function with the same
   parameters, or the same error with the same Allow set — when no two routes of one method in
   a service have the same path and no two claiming services tie on the score *)
Theorem curly_order_independent t t' req :
  t_router t = Curly -> t_router t' = Curly ->
  tbl_perm t t' ->
  (forall w, In w (t_services t) -> NoDup (map (route_key w) (s_routes w))) ->
  no_tie O (tokenize (rq_path req)) (t_services t) ->
  routed_equiv_perm (route_request O t req) (route_request O t' req).
Proof.
  intros Hr Hr' Hperm Hkeys Hnt. unfold route_request.
  rewrite (select_route_curly t req Hr), (select_route_curly t' req Hr').
  pose proof (detect_perm t t' _ Hperm Hnt) as Hd.
  destruct (detect_web_service O (tokenize (rq_path req)) (t_services t)) as [w|] eqn:E;
  destruct (detect_web_service O (tokenize (rq_path req)) (t_services t')) as [w'|] eqn:E'; try contradiction; [|cbn; exact Logic.I].
  destruct Hd as [Hroot Hroutes].
  assert (Hin : In w (t_services t)) by (now apply detect_web_service_max in E as (Hin & _)).
  pose proof (curly_routes_order_independent O w w' (tokenize (rq_path req)) req Hroot Hroutes (Hkeys w Hin)) as He.
  destruct (detect_route (map cc_route (curly_select_routes O w (tokenize (rq_path req)))) req) as [r|e];
  destruct (detect_route (map cc_route (curly_select_routes O w' (tokenize (rq_path req)))) req) as [r'|e']; cbn in He; try contradiction.
  - subst r'. unfold extract_parameters. rewrite Hr, Hr'. unfold curly_extract_parameters, route_hcv, route_parts, route_path. rewrite <- Hroot.
    destruct (extract_loop _ 0 _ _ []); cbn; [|exact Logic.I]. repeat split; auto.
  - exact He.
Qed.
End CurlyTable.

(* ---- RouterJSR311, route level ---- *)
Section JsrOrder.
Variable O : oracles.

Definition jcand_of (w : service) (fin : str) (r : route) : list route_cand :=
  let pe := path_expression (r_rel r) in
  match jsr_match O (pe_toks pe) fin with
  | Some (caps, f2) =>
      if final_ok f2 then
        [{| rc_route := r; rc_matches := S (List.length caps) + pe_groups pe; rc_literal := pe_literal pe;
            rc_nondef := pe_vars pe; rc_path := route_path w r |}]
      else []
  | None => []
  end.

Lemma jcand_of_root w w' fin r : s_root w = s_root w' -> jcand_of w fin r = jcand_of w' fin r.
Proof. intros H. unfold jcand_of, route_path. now rewrite H. Qed.

Lemma In_jcand_of w fin r c : In c (jcand_of w fin r) -> rc_route c = r /\ rc_path c = route_path w r.
Proof.
  unfold jcand_of. cbv zeta. destruct (jsr_match O (pe_toks (path_expression (r_rel r))) fin) as [[caps f2]|]; [|contradiction].
  destruct (final_ok f2); [|contradiction]. intros H. destruct H as [<-|[]]. auto.
Qed.

Theorem jsr_routes_order_independent w w' fin req :
  s_root w = s_root w' -> Permutation (s_routes w) (s_routes w') ->
  NoDup (map (route_key w) (s_routes w)) ->
  detect_equiv (detect_route (map rc_route (jsr_select_routes O w fin)) req)
               (detect_route (map rc_route (jsr_select_routes O w' fin)) req).
Proof.
  intros Hroot Hperm Hnd.
  set (cs := flat_map (jcand_of w fin) (s_routes w)).
  set (cs' := flat_map (jcand_of w' fin) (s_routes w')).
  assert (Hcs : jsr_select_routes O w fin = sort_desc rc_lt cs) by reflexivity.
  assert (Hcs' : jsr_select_routes O w' fin = sort_desc rc_lt cs') by reflexivity.
  assert (Hp : Permutation cs cs').
  { subst cs cs'. rewrite (flat_map_ext _ _ (fun r => jcand_of_root w w' fin r Hroot)).
    clear -Hperm. induction Hperm; cbn [flat_map].
    - constructor.
    - now apply Permutation_app_head.
    - rewrite !app_assoc. apply Permutation_app_tail, Permutation_app_comm.
    - etransitivity; eauto. }
  assert (Hfind : find (fun c => passes req (rc_route c)) (sort_desc rc_lt cs)
                = find (fun c => passes req (rc_route c)) (sort_desc rc_lt cs')).
  { apply (sorted_find_perm rc_lt rc_lt_asym rc_lt_trans); [exact Hp|].
    intros a b Ha Hb Pa Pb Hab Hba.
    pose proof (rc_lt_tie a b Hab Hba) as Hpath.
    subst cs. apply in_flat_map in Ha as (ra & Hra & Hca). apply in_flat_map in Hb as (rb & Hrb & Hcb).
    pose proof (In_jcand_of _ _ _ _ Hca) as [Ea Epa]. pose proof (In_jcand_of _ _ _ _ Hcb) as [Eb Epb].
    assert (Hrr : ra = rb).
    { apply (NoDup_map_inj (route_key w) (s_routes w)); try assumption. unfold route_key.
      rewrite <- Epa, <- Epb, Hpath. f_equal.
      unfold passes in Pa, Pb. rewrite Ea in Pa. rewrite Eb in Pb.
      repeat (apply andb_true_iff in Pa as [Pa ?]). repeat (apply andb_true_iff in Pb as [Pb ?]).
      repeat match goal with H : str_eqb _ _ = true |- _ => apply str_eqb_eq in H end. congruence. }
    rewrite <- Hrr in Hcb. unfold jcand_of in Hca, Hcb. cbv zeta in Hca, Hcb.
    destruct (jsr_match O (pe_toks (path_expression (r_rel ra))) fin) as [[caps f2]|]; [|contradiction].
    destruct (final_ok f2); [|contradiction].
    cbn [In] in Hca, Hcb. destruct Hca as [Hca|[]]. destruct Hcb as [Hcb|[]]. congruence. }
  rewrite Hcs, Hcs'.
  pose proof (detect_route_find (map rc_route (sort_desc rc_lt cs)) req) as D.
  pose proof (detect_route_find (map rc_route (sort_desc rc_lt cs')) req) as D'.
  rewrite find_map in D, D'. rewrite <- Hfind in D'.
  destruct (find (fun c => passes req (rc_route c)) (sort_desc rc_lt cs)) as [c|]; cbn [option_map] in D, D'.
  - rewrite D, D'. reflexivity.
  - destruct D as (e & De). destruct D' as (e' & De'). rewrite De, De'. cbn.
    apply (meets_same_error (spec_cascade (map rc_route (sort_desc rc_lt cs)) req)).
    + rewrite <- De. apply detect_route_meets.
    + rewrite <- De'.
      rewrite (spec_cascade_perm (map rc_route (sort_desc rc_lt cs)) (map rc_route (sort_desc rc_lt cs')) req).
      * apply detect_route_meets.
      * apply Permutation_map. rewrite !(sort_desc_perm rc_lt). exact Hp.
Qed.
End JsrOrder.

(* ---- RouterJSR311, service level and the whole answer ---- *)
Lemma dc_lt_asym a b : dc_lt a b = true -> dc_lt b a = false.
Proof.
  unfold dc_lt.
  destruct (Nat.ltb_spec (dc_matches a) (dc_matches b)); destruct (Nat.ltb_spec (dc_matches b) (dc_matches a)); try lia; try discriminate; try reflexivity.
  destruct (Nat.ltb_spec (dc_literal a) (dc_literal b)); destruct (Nat.ltb_spec (dc_literal b) (dc_literal a)); try lia; try discriminate; try reflexivity.
  destruct (Nat.ltb_spec (dc_nondef a) (dc_nondef b)); destruct (Nat.ltb_spec (dc_nondef b) (dc_nondef a)); try lia; try discriminate; reflexivity.
Qed.

Lemma dc_lt_trans a b c : dc_lt a b = true -> dc_lt b c = true -> dc_lt a c = true.
Proof.
  unfold dc_lt.
  destruct (Nat.ltb_spec (dc_matches a) (dc_matches b)); destruct (Nat.ltb_spec (dc_matches b) (dc_matches a)); try lia; try discriminate;
  destruct (Nat.ltb_spec (dc_matches b) (dc_matches c)); destruct (Nat.ltb_spec (dc_matches c) (dc_matches b)); try lia; try discriminate;
  destruct (Nat.ltb_spec (dc_matches a) (dc_matches c)); destruct (Nat.ltb_spec (dc_matches c) (dc_matches a)); try lia; try reflexivity.
  destruct (Nat.ltb_spec (dc_literal a) (dc_literal b)); destruct (Nat.ltb_spec (dc_literal b) (dc_literal a)); try lia; try discriminate;
  destruct (Nat.ltb_spec (dc_literal b) (dc_literal c)); destruct (Nat.ltb_spec (dc_literal c) (dc_literal b)); try lia; try discriminate;
  destruct (Nat.ltb_spec (dc_literal a) (dc_literal c)); destruct (Nat.ltb_spec (dc_literal c) (dc_literal a)); try lia; try reflexivity.
  destruct (Nat.ltb_spec (dc_nondef a) (dc_nondef b)); destruct (Nat.ltb_spec (dc_nondef b) (dc_nondef c)); try lia; try discriminate.
  intros _ _. apply Nat.ltb_lt. lia.
Qed.

Lemma dc_lt_tie a b : dc_lt a b = false -> dc_lt b a = false ->
  dc_matches a = dc_matches b /\ dc_literal a = dc_literal b /\ dc_nondef a = dc_nondef b.
Proof.
  unfold dc_lt.
  destruct (Nat.ltb_spec (dc_matches a) (dc_matches b)); destruct (Nat.ltb_spec (dc_matches b) (dc_matches a)); try lia; try discriminate.
  destruct (Nat.ltb_spec (dc_literal a) (dc_literal b)); destruct (Nat.ltb_spec (dc_literal b) (dc_literal a)); try lia; try discriminate.
  destruct (Nat.ltb_spec (dc_nondef a) (dc_nondef b)); destruct (Nat.ltb_spec (dc_nondef b) (dc_nondef a)); try lia; try discriminate.
Qed.

Section JsrTable.
Variable O : oracles.

Definition dcand_of (path : str) (w : service) : list disp_cand :=
  let pe := path_expression (s_root w) in
  match jsr_match O (pe_toks pe) path with
  | Some (caps, fin) =>
      [{| dc_ws := w; dc_final := fin; dc_matches := S (S (List.length caps)) + pe_groups pe;
          dc_literal := pe_literal pe; dc_nondef := pe_vars pe |}]
  | None => []
  end.

Lemma In_dcand_of path w c : In c (dcand_of path w) -> dc_ws c = w /\ dcand_of path w = [c].
Proof.
  unfold dcand_of. cbv zeta. destruct (jsr_match O (pe_toks (path_expression (s_root w))) path) as [[caps fin]|]; [|contradiction].
  intros H. destruct H as [<-|[]]. auto.
Qed.

Lemma dcand_of_root path w w' c c' :
  s_root w = s_root w' -> In c (dcand_of path w) -> In c' (dcand_of path w') ->
  dc_matches c = dc_matches c' /\ dc_literal c = dc_literal c' /\ dc_nondef c = dc_nondef c'.
Proof.
  unfold dcand_of. cbv zeta. intros <-.
  destruct (jsr_match O (pe_toks (path_expression (s_root w))) path) as [[caps fin]|]; [|contradiction].
  intros H H'. destruct H as [<-|[]]. destruct H' as [<-|[]]. auto.
Qed.

Lemma head_find {A} (l : list A) : find (fun _ => true) l = match l with x :: _ => Some x | [] => None end.
Proof. destruct l; reflexivity. Qed.

Lemma detect_dispatcher_perm path l l' :
  Permutation l l' -> NoDup (map s_root l) -> jsr_no_tie O path l ->
  detect_dispatcher O path l = detect_dispatcher O path l'.
Proof.
  intros Hperm Hnd Hnt. unfold detect_dispatcher.
  change (dispatcher_cands O path l) with (flat_map (dcand_of path) l).
  change (dispatcher_cands O path l') with (flat_map (dcand_of path) l').
  assert (Hp : Permutation (flat_map (dcand_of path) l) (flat_map (dcand_of path) l')).
  { clear -Hperm. induction Hperm; cbn [flat_map].
    - constructor.
    - now apply Permutation_app_head.
    - rewrite !app_assoc. apply Permutation_app_tail, Permutation_app_comm.
    - etransitivity; eauto. }
  pose proof (sorted_find_perm dc_lt dc_lt_asym dc_lt_trans (fun _ => true) _ _ Hp) as Hf.
  rewrite !head_find in Hf.
  assert (Hcmp : forall a b, In a (flat_map (dcand_of path) l) -> In b (flat_map (dcand_of path) l) ->
                 true = true -> true = true -> dc_lt a b = false -> dc_lt b a = false -> a = b);
    [|specialize (Hf Hcmp);
      destruct (sort_desc dc_lt (flat_map (dcand_of path) l)), (sort_desc dc_lt (flat_map (dcand_of path) l')); try discriminate Hf;
      [reflexivity|now injection Hf as ->]].
  intros a b Ha Hb _ _ Hab Hba. destruct (dc_lt_tie a b Hab Hba) as (K1 & K2 & K3).
  apply in_flat_map in Ha as (wa & Hwa & Hca). apply in_flat_map in Hb as (wb & Hwb & Hcb).
  assert (Hroot : s_root wa = s_root wb).
  { apply (Hnt wa wb (dc_matches a, dc_literal a, dc_nondef a) Hwa Hwb).
    - unfold jsr_key, dcand_of in *. cbv zeta in *.
      destruct (jsr_match O (pe_toks (path_expression (s_root wa))) path) as [[caps fin]|]; [|contradiction].
      destruct Hca as [<-|[]]. reflexivity.
    - unfold jsr_key, dcand_of in *. cbv zeta in *.
      destruct (jsr_match O (pe_toks (path_expression (s_root wb))) path) as [[caps fin]|]; [|contradiction].
      destruct Hcb as [<-|[]]. cbn. now rewrite K1, K2, K3. }
  assert (wa = wb) by (apply (NoDup_map_inj s_root l); assumption). subst wb.
  destruct (In_dcand_of _ _ _ Hca) as [_ Ea]. rewrite Ea in Hcb. destruct Hcb as [<-|[]]. reflexivity.
Qed.

Lemma detect_dispatcher_svc_perm path l l' :
  Forall2 svc_perm l l' ->
  match detect_dispatcher O path l, detect_dispatcher O path l' with
  | Some (w, fin), Some (w', fin') => svc_perm w w' /\ fin = fin'
  | None, None => True
  | _, _ => False
  end.
Proof.
  intros Hf. unfold detect_dispatcher.
  pose proof (sort_desc_rel svc_perm _ _
                (dispatcher_cands_rel O svc_perm path _ _ (fun w w' H => proj1 H) Hf)) as Hs.
  destruct (sort_desc dc_lt (dispatcher_cands O path l)) as [|c cs];
  destruct (sort_desc dc_lt (dispatcher_cands O path l')) as [|c' cs']; inversion Hs as [|? ? ? ? Hc Hl]; subst; [exact Logic.I|].
  destruct Hc as (Hw & Hfin & _). auto.
Qed.

Lemma select_route_jsr t req :
  t_router t = Jsr311 ->
  select_route O t req =
    match detect_dispatcher O (rq_path req) (t_services t) with
    | None => inr E404
    | Some (w, fin) => match detect_route (map rc_route (jsr_select_routes O w fin)) req with
                       | inl r => inl (w, r)
                       | inr e => inr e
                       end
    end.
Proof.
  intros Hr. unfold select_route. rewrite Hr.
  destruct (detect_dispatcher O (rq_path req) (t_services t)) as [[w fin]|]; [|reflexivity].
  destruct (jsr_select_routes O w fin); reflexivity.
Qed.

Lemma map_root_svc_perm l l' : Forall2 svc_perm l l' -> map s_root l = map s_root l'.
Proof. induction 1 as [|a b la lb [Hab _] Hf IH]; [reflexivity|]. cbn. now rewrite Hab, IH. Qed.

(* C03, order independence, RouterJSR311 *)
Theorem jsr_order_independent t t' req :
  t_router t = Jsr311 -> t_router t' = Jsr311 ->
  tbl_perm t t' ->
  (forall w, In w (t_services t) -> NoDup (map (route_key w) (s_routes w))) ->
  NoDup (map s_root (t_services t)) -> jsr_no_tie O (rq_path req) (t_services t) ->
  routed_equiv_perm (route_request O t req) (route_request O t' req).
Proof.
  intros Hr Hr' (l & Hf & Hp) Hkeys Hnd Hnt. unfold route_request.
  rewrite (select_route_jsr t req Hr), (select_route_jsr t' req Hr').
  assert (Hroots : map s_root (t_services t) = map s_root l) by now apply map_root_svc_perm.
  assert (Hnd' : NoDup (map s_root l)) by now rewrite <- Hroots.
  assert (Hnt' : jsr_no_tie O (rq_path req) l).
  { intros w1 w2 k H1 H2 K1 K2.
    assert (Hback : forall w', In w' l -> exists w, In w (t_services t) /\ s_root w = s_root w').
    { clear -Hf. induction Hf as [|a b la lb [Hab _] Hf IH]; intros w' Hin; [contradiction|]. destruct Hin as [<-|Hin].
      - exists a. split; [now left|exact Hab].
      - destruct (IH _ Hin) as (w & Hw & Hs). exists w. split; [now right|exact Hs]. }
    destruct (Hback _ H1) as (v1 & Hv1 & E1). destruct (Hback _ H2) as (v2 & Hv2 & E2).
    rewrite <- E1, <- E2. apply (Hnt v1 v2 k); try assumption; congruence. }
  rewrite <- (detect_dispatcher_perm (rq_path req) l (t_services t') Hp Hnd' Hnt').
  pose proof (detect_dispatcher_svc_perm (rq_path req) _ _ Hf) as Hd.
  destruct (detect_dispatcher O (rq_path req) (t_services t)) as [[w fin]|] eqn:E;
  destruct (detect_dispatcher O (rq_path req) l) as [[w' fin']|] eqn:E'; try contradiction; [|cbn; exact Logic.I].
  destruct Hd as [[Hroot Hroutes] <-].
  assert (Hin : In w (t_services t)) by (now apply detect_dispatcher_sound in E as (Hin & _)).
  pose proof (jsr_routes_order_independent O w w' fin req Hroot Hroutes (Hkeys w Hin)) as He.
  destruct (detect_route (map rc_route (jsr_select_routes O w fin)) req) as [r|e];
  destruct (detect_route (map rc_route (jsr_select_routes O w' fin)) req) as [r'|e']; cbn in He; try contradiction.
  - subst r'. unfold extract_parameters. rewrite Hr, Hr'.
    assert (Hx : jsr_extract_parameters O w r (rq_path req) = jsr_extract_parameters O w' r (rq_path req))
      by (unfold jsr_extract_parameters; now rewrite Hroot).
    rewrite Hx. destruct (jsr_extract_parameters O w' r (rq_path req)); cbn [routed_equiv_perm]; [|exact Logic.I].
    repeat split; auto.
  - exact He.
Qed.
End JsrTable.

(* ---- the premises as booleans ---- *)
Lemma distinct_NoDup l : distinct l = true -> NoDup l.
Proof.
  induction l as [|x l IH]; [constructor|]. cbn. intros H. apply andb_true_iff in H as [Hx Hl].
  constructor; [|now apply IH]. intros Hin. apply mem_In in Hin. rewrite Hin in Hx. discriminate.
Qed.

Lemma keys_distinct_NoDup t : keys_distinct t = true ->
  forall w, In w (t_services t) -> NoDup (map (route_key w) (s_routes w)).
Proof. unfold keys_distinct. rewrite forallb_forall. intros H w Hw. apply distinct_NoDup, H, Hw. Qed.

Lemma fold_max_ge_acc l : forall a, a <= fold_left Nat.max l a.
Proof. induction l as [|y l IH]; intros a; cbn [fold_left]; [lia|]. etransitivity; [|apply IH]. lia. Qed.

Lemma fold_max_ge l : forall a x, In x l -> x <= fold_left Nat.max l a.
Proof.
  induction l as [|y l IH]; intros a x H; [contradiction|]. cbn [fold_left]. destruct H as [<-|H]; [|now apply IH].
  etransitivity; [|apply fold_max_ge_acc]. lia.
Qed.

Lemma fold_max_le l m : forall a, a <= m -> (forall x, In x l -> x <= m) -> fold_left Nat.max l a <= m.
Proof.
  induction l as [|y l IH]; intros a Ha H; cbn [fold_left]; [exact Ha|]. apply IH.
  - specialize (H y (or_introl eq_refl)). lia.
  - intros x Hx. apply H. now right.
Qed.

Lemma length_le1_eq {A} (l : list A) a b : List.length l <= 1 -> In a l -> In b l -> a = b.
Proof.
  destruct l as [|x [|y l]]; cbn; intros H Ha Hb.
  - contradiction.
  - destruct Ha as [<-|[]], Hb as [<-|[]]. reflexivity.
  - lia.
Qed.

Section Bool.
Variable O : oracles.

Lemma top_unique_no_tie qts wss : top_unique O qts wss = true -> no_tie O qts wss.
Proof.
  unfold top_unique. set (cl := flat_map _ wss). set (best := fold_left Nat.max cl 0). intros H. apply Nat.leb_le in H.
  intros w1 w2 H1 H2 C1 C2 Hs Hmax.
  assert (Hb : forall w, In w wss -> claims O qts w = true -> score O qts w <= score O qts w1 -> score O qts w1 <= score O qts w ->
                         In w (filter (fun w => claims O qts w && Nat.eqb (score O qts w) best) wss)).
  { intros w Hw Cw Hle Hge. apply filter_In. split; [exact Hw|]. rewrite Cw. cbn [andb]. apply Nat.eqb_eq.
    assert (Hin1 : In (score O qts w1) cl) by (subst cl; apply in_flat_map; exists w1; split; [exact H1|]; rewrite C1; now left).
    pose proof (fold_max_ge cl 0 _ Hin1) as G1. fold best in G1.
    assert (G2 : best <= score O qts w1).
    { subst best. apply fold_max_le; [lia|]. intros x Hx. subst cl. apply in_flat_map in Hx as (w3 & Hw3 & Hx).
      destruct (claims O qts w3) eqn:C3; [|contradiction]. destruct Hx as [<-|[]]. now apply Hmax. }
    lia. }
  apply (length_le1_eq _ w1 w2 H); apply Hb; auto; lia.
Qed.

Lemma key_eqb_refl k : key_eqb k k = true.
Proof. unfold key_eqb. now rewrite !Nat.eqb_refl. Qed.

Lemma jsr_keys_unique_sound path wss :
  jsr_keys_unique O path wss = true -> NoDup (map s_root wss) /\ jsr_no_tie O path wss.
Proof.
  unfold jsr_keys_unique. intros H. apply andb_true_iff in H as [Hd Hp]. split; [now apply distinct_NoDup|].
  intros w1 w2 k H1 H2 K1 K2.
  destruct (AgreeProofs.pairwise_In _ _ _ _ Hp H1 H2) as [->|[Hc|Hc]]; [reflexivity| |]; exfalso.
  - rewrite K1, K2, key_eqb_refl in Hc. discriminate.
  - rewrite K1, K2, key_eqb_refl in Hc. discriminate.
Qed.

Theorem curly_order_independent_b t t' req :
  t_router t = Curly -> t_router t' = Curly -> tbl_perm t t' ->
  keys_distinct t = true -> top_unique O (tokenize (rq_path req)) (t_services t) = true ->
  routed_equiv_perm (route_request O t req) (route_request O t' req).
Proof.
  intros Hr Hr' Hp Hk Ht. apply curly_order_independent; auto.
  - now apply keys_distinct_NoDup.
  - now apply top_unique_no_tie.
Qed.

Theorem jsr_order_independent_b t t' req :
  t_router t = Jsr311 -> t_router t' = Jsr311 -> tbl_perm t t' ->
  keys_distinct t = true -> jsr_keys_unique O (rq_path req) (t_services t) = true ->
  routed_equiv_perm (route_request O t req) (route_request O t' req).
Proof.
  intros Hr Hr' Hp Hk Hj. destruct (jsr_keys_unique_sound _ _ Hj) as [Hnd Hnt].
  apply jsr_order_independent; auto. now apply keys_distinct_NoDup.
Qed.
End Bool.

(* TwinProofs.v — C18: the routers also agree when eligible routes have the same shape
   (same literals in the same places, variables elsewhere): every count in either Less is
   then equal and both fall through to the same comparison of the path strings. *)
From Model Require Import Str Sexp Http Template Table Curly DetectRoute Jsr311 Router.
From Spec Require Import RouteSpec RankSpec.
From Proofs Require Import StrFacts TemplateFacts CurlyProofs RouterProofs ParamProofs OutcomeProofs
     JsrProofs JsrOutcomeProofs RankRouteProofs AgreeProofs OrderProofs SameServiceProofs.
From Coq Require Import Lia Permutation Sorted.

Definition count_nonlit (tpl : list vtok) : nat := List.length (filter (fun t => negb (is_lit t)) tpl).
Definition e_nonlit (l : list etok) : nat := List.length (filter (fun e => negb (e_is_lit e)) l).

Lemma count_split tpl : count_lit tpl + count_nonlit tpl = List.length tpl.
Proof.
  unfold count_lit, count_nonlit. induction tpl as [|t tpl IH]; [reflexivity|]. cbn. destruct (is_lit t); cbn; lia.
Qed.

Lemma tpl_ge_length a : forall b, tpl_ge a b = true -> List.length a = List.length b.
Proof.
  induction a as [|x a IH]; intros [|y b] H; try discriminate H; [reflexivity|].
  cbn in H. apply andb_true_iff in H as [_ H]. cbn. f_equal. now apply IH.
Qed.

Lemma same_shape_counts a b : tpl_ge a b = true -> tpl_ge b a = true ->
  count_lit a = count_lit b /\ count_nonlit a = count_nonlit b.
Proof.
  intros H1 H2. pose proof (tpl_ge_count _ _ H1). pose proof (tpl_ge_count _ _ H2).
  pose proof (tpl_ge_length _ _ H1). pose proof (count_split a). pose proof (count_split b). lia.
Qed.

Lemma etpl_ge_nonlit a : forall b, etpl_ge a b = true -> e_nonlit a <= e_nonlit b.
Proof.
  unfold e_nonlit. induction a as [|x a IH]; intros [|y b] H; try discriminate H; [cbn; lia|].
  cbn [etpl_ge] in H. apply andb_true_iff in H as [Hh Ht]. apply IH in Ht. cbn [filter].
  destruct y as [s'| | |]; cbn [e_is_lit negb].
  - destruct x as [s| | |]; try discriminate Hh. cbn [e_is_lit negb]. exact Ht.
  - destruct x; cbn [e_is_lit negb List.length]; lia.
  - destruct x; cbn [e_is_lit negb List.length]; lia.
  - destruct x; cbn [e_is_lit negb List.length]; lia.
Qed.

Lemma route_eq_dec_by_key w rc rj :
  NoDup (map (route_key w) (s_routes w)) -> In rc (s_routes w) -> In rj (s_routes w) ->
  rc = rj \/ route_key w rc <> route_key w rj.
Proof.
  intros Hnd H1 H2. destruct (str_eqb (route_key w rc) (route_key w rj)) eqn:E.
  - left. apply str_eqb_eq in E. exact (NoDup_map_inj (route_key w) _ _ _ Hnd H1 H2 E).
  - right. now apply str_eqb_neq.
Qed.

Section P.
Variable O : oracles.

(* ---- CurlyRouter: both counters of a plain template that matches ---- *)
Lemma loop_counts_plain tpl : forall segs pc sc pc' sc',
  forallb plain_ne tpl = true -> loop_counts O tpl segs pc sc = Some (pc', sc') ->
  pc' = pc + count_nonlit tpl /\ sc' = sc + count_lit tpl.
Proof.
  induction tpl as [|t tpl IH]; intros segs pc sc pc' sc' Hp H.
  - cbn in H. injection H as <- <-. unfold count_lit, count_nonlit. cbn. lia.
  - destruct segs as [|s segs]; [discriminate H|]. cbn [loop_counts] in H.
    cbn [forallb] in Hp. apply andb_true_iff in Hp as [Ht Hp].
    assert (Htail : is_tail t = false) by (unfold plain_ne in Ht; unfold is_tail; destruct (v_tk t); try reflexivity; destruct (v_verb t); discriminate Ht).
    rewrite Htail in H. destruct (vtok_admits O t s); [|discriminate H].
    apply IH in H; [|exact Hp]. destruct H as [-> ->].
    unfold next_pc, next_sc, is_param, count_lit, count_nonlit. cbn [filter]. unfold is_lit. unfold plain_ne in Ht.
    destruct (v_tk t); destruct (v_verb t); try discriminate Ht; cbn [negb List.length]; lia.
Qed.

Lemma matches_counts_plain w r qts pc sc :
  wf_route w r = true -> forallb plain_ne (route_tpl w r) = true ->
  matches_route_by_path_tokens O (route_parts w r) qts (route_hcv w r) = Some (pc, sc) ->
  pc = count_nonlit (route_tpl w r) /\ sc = count_lit (route_tpl w r).
Proof.
  unfold wf_route, wf_template, route_tpl. intros Hwf Hp H.
  apply andb_true_iff in Hwf as [Hw Hpos].
  pose proof (wf_positions_no_verb_on_tail _ Hpos) as Htv.
  unfold matches_route_by_path_tokens in H. destruct (_ && _); [discriminate H|].
  rewrite (match_tokens_eq O _ _ qts 0 0 Hw Htv) in H.
  apply (loop_counts_plain _ _ _ _ _ _ Hp) in H. lia.
Qed.

(* the candidate that wins under CurlyRouter is not below any other passing candidate *)
Lemma curly_selected_max w qts req r :
  detect_route (map cc_route (curly_select_routes O w qts)) req = inl r ->
  exists c, In c (curly_select_routes O w qts) /\ cc_route c = r /\
            forall c1, In c1 (curly_select_routes O w qts) -> passes req (cc_route c1) = true -> cc_lt c c1 = false \/ c1 = c.
Proof.
  intros H. apply detect_route_first in H as (tl & Hf).
  pose proof (find_filter_head (passes req) (map cc_route (curly_select_routes O w qts))) as Hh. rewrite Hf in Hh.
  rewrite find_map in Hh.
  destruct (find (fun x => passes req (cc_route x)) (curly_select_routes O w qts)) as [c|] eqn:E; [|discriminate Hh].
  cbn in Hh. injection Hh as Hr. exists c.
  unfold curly_select_routes in E |- *.
  destruct (find_sorted_max cc_lt _ _ c (sort_desc_ssorted cc_lt cc_lt_asym cc_lt_trans _) E) as (_ & Hin & Hmax).
  split; [exact Hin|]. split; [exact Hr|]. exact Hmax.
Qed.

Lemma jsr_selected_max w fin req r :
  detect_route (map rc_route (jsr_select_routes O w fin)) req = inl r ->
  exists c, In c (jsr_select_routes O w fin) /\ rc_route c = r /\
            forall c1, In c1 (jsr_select_routes O w fin) -> passes req (rc_route c1) = true -> rc_lt c c1 = false \/ c1 = c.
Proof.
  intros H. apply detect_route_first in H as (tl & Hf).
  pose proof (find_filter_head (passes req) (map rc_route (jsr_select_routes O w fin))) as Hh. rewrite Hf in Hh.
  rewrite find_map in Hh.
  destruct (find (fun x => passes req (rc_route x)) (jsr_select_routes O w fin)) as [c|] eqn:E; [|discriminate Hh].
  cbn in Hh. injection Hh as Hr. exists c.
  unfold jsr_select_routes in E |- *.
  destruct (find_sorted_max rc_lt _ _ c (sort_desc_ssorted rc_lt rc_lt_asym rc_lt_trans _) E) as (_ & Hin & Hmax).
  split; [exact Hin|]. split; [exact Hr|]. exact Hmax.
Qed.

(* ---- RouterJSR311: the keys of a candidate ---- *)
Lemma jsr_match_caps_len etoks : forall p caps fin,
  forallb (fun e => match e with EAll => false | _ => true end) etoks = true ->
  jsr_match O etoks p = Some (caps, fin) -> List.length caps = e_nonlit etoks.
Proof.
  unfold e_nonlit. induction etoks as [|e etoks IH]; intros p caps fin Hn H.
  - destruct p as [|c p]; cbn in H; [now injection H as <- _|]. destruct (Ascii.eqb c slash); [now injection H as <- _|discriminate].
  - cbn [forallb] in Hn. apply andb_true_iff in Hn as [He Hn].
    destruct p as [|c p1]; [discriminate H|]. cbn [jsr_match] in H. destruct (Ascii.eqb c slash); cbn [negb] in H; [|discriminate H].
    destruct e; try discriminate He; destruct (span_seg p1) as [seg rest];
      match type of H with (if negb ?b then _ else _) = _ => destruct b; cbn [negb] in H; [|discriminate H] end;
      destruct (jsr_match O etoks rest) as [[c2 f2]|] eqn:E; try discriminate H; injection H as <- _;
      cbn [filter e_is_lit negb List.length]; rewrite <- (IH _ _ _ Hn E); reflexivity.
Qed.

Lemma etok_of_named t :
  (match snd (etok_of t) with Some _ => true | None => false end) = negb (e_is_lit (fst (etok_of t))).
Proof.
  unfold etok_of. destruct (has_prefix t [lbrace]); [|reflexivity].
  destruct (index_char t colon); [|reflexivity]. cbn [fst snd].
  match goal with |- context [str_eqb ?a (L "*")] => destruct (str_eqb a (L "*")) end; reflexivity.
Qed.

Lemma pe_vars_nonlit template : pe_vars (path_expression template) = e_nonlit (pe_toks (path_expression template)).
Proof.
  unfold path_expression, e_nonlit. cbn [pe_vars pe_toks].
  induction (filter (fun t => negb (str_eqb t [])) (tokenize template)) as [|t l IH]; [reflexivity|].
  cbn [map filter]. rewrite etok_of_named. destruct (negb (e_is_lit (fst (etok_of t)))); cbn [List.length]; now rewrite IH.
Qed.

Definition groups_of_toks (l : list etok) : nat :=
  fold_right (fun e a => match e with ERx re => re_groups re + a | _ => a end) 0 l.

Lemma pe_groups_toks template : pe_groups (path_expression template) = groups_of_toks (pe_toks (path_expression template)).
Proof.
  unfold path_expression, groups_of_toks. cbn [pe_groups pe_toks].
  induction (map etok_of (filter (fun t => negb (str_eqb t [])) (tokenize template))) as [|e l IH]; [reflexivity|].
  cbn [map fold_right]. now rewrite IH.
Qed.

Lemma plain_no_groups etoks tpl :
  Forall2 tok_rel etoks tpl -> forallb plain_ne tpl = true -> groups_of_toks etoks = 0.
Proof.
  induction 1 as [|e v es vs Hev Hrest IH]; [reflexivity|]. cbn [forallb]. intros H. apply andb_true_iff in H as [Hv Hvs].
  unfold groups_of_toks in *. cbn [fold_right]. rewrite (IH Hvs). unfold tok_rel in Hev. unfold plain_ne in Hv.
  destruct (v_tk v); destruct (v_verb v); try discriminate Hv; cbn in Hev; injection Hev as <-; reflexivity.
Qed.

Lemma jsr_select_routes_keys w fin c :
  In c (jsr_select_routes O w fin) ->
  rc_path c = route_path w (rc_route c) /\
  rc_literal c = pe_literal (path_expression (r_rel (rc_route c))) /\
  rc_nondef c = pe_vars (path_expression (r_rel (rc_route c))) /\
  exists caps f2, jsr_match O (pe_toks (path_expression (r_rel (rc_route c)))) fin = Some (caps, f2)
                  /\ rc_matches c = S (List.length caps) + pe_groups (path_expression (r_rel (rc_route c))).
Proof.
  unfold jsr_select_routes. rewrite (sort_desc_In rc_lt), in_flat_map. intros (r & Hr & Hc). cbn zeta in Hc.
  destruct (jsr_match O (pe_toks (path_expression (r_rel r))) fin) as [[caps f2]|] eqn:Em; [|contradiction].
  destruct (final_ok f2); [|contradiction]. destruct Hc as [<-|[]]. cbn [rc_path rc_route rc_literal rc_nondef rc_matches].
  repeat split; eauto.
Qed.


Lemma plain_no_verbs tpl : forallb plain_ne tpl = true -> no_verbs tpl = true.
Proof.
  unfold no_verbs. rewrite !forallb_forall. intros H x Hx. specialize (H x Hx).
  unfold plain_ne in H. destruct (v_tk x); destruct (v_verb x); try discriminate H; reflexivity.
Qed.

Lemma plain_no_eall etoks tpl :
  Forall2 tok_rel etoks tpl -> forallb plain_ne tpl = true ->
  forallb (fun e => match e with EAll => false | _ => true end) etoks = true.
Proof.
  induction 1 as [|e v es vs Hev Hrest IH]; [reflexivity|]. cbn [forallb]. intros H. apply andb_true_iff in H as [Hv Hvs].
  rewrite (IH Hvs), andb_true_r. unfold tok_rel in Hev. unfold plain_ne in Hv.
  destruct (v_tk v); destruct (v_verb v); try discriminate Hv; cbn in Hev; injection Hev as <-; reflexivity.
Qed.

Lemma forallb_app_r {A} (p : A -> bool) a b : forallb p (a ++ b) = true -> forallb p b = true.
Proof. rewrite forallb_app. intros H. now apply andb_true_iff in H as [_ H]. Qed.

(* both routers run the same route *)
Lemma same_route_weak wss req w fin rc rj :
  let tc := {| t_router := Curly; t_services := wss |} in
  let tj := {| t_router := Jsr311; t_services := wss |} in
  detect_web_service O (tokenize (rq_path req)) wss = Some w ->
  detect_dispatcher O (rq_path req) wss = Some (w, fin) ->
  forallb (wf_route w) (s_routes w) = true -> jsr_all_agree w = true ->
  c18_service_ok w = true -> NoDup (map (route_key w) (s_routes w)) -> c18_chain_weak O w req = true ->
  select_route O tc req = inl (w, rc) -> select_route O tj req = inl (w, rj) ->
  In rc (s_routes w) -> In rj (s_routes w) ->
  admits O w rc req = true -> admits O w rj req = true ->
  jsr_admits O w rc req = true -> jsr_admits O w rj req = true -> rc = rj.
Proof.
  intros tc tj Hws Hdd Hwf Hag Hok Hnd Hchain Esc Esj Hinc Hinj Hadc Hadj' Hadc' Hadj.
  assert (Hwfc : wf_route w rc = true) by (rewrite forallb_forall in Hwf; now apply Hwf).
  assert (Hwfj : wf_route w rj = true) by (rewrite forallb_forall in Hwf; now apply Hwf).
  destruct (route_tpl_split w Hok rc Hinc) as [Sc Pc]. destruct (route_tpl_split w Hok rj Hinj) as [Sj Pj].
  unfold c18_chain_weak in Hchain.
  assert (H1 : In rc (filter (fun r => admits O w r req) (s_routes w))) by (apply filter_In; auto).
  assert (H2 : In rj (filter (fun r => admits O w r req) (s_routes w))) by (apply filter_In; auto).
  assert (Hcmp : rc = rj \/ tpl_ge (route_tpl w rc) (route_tpl w rj) = true \/ tpl_ge (route_tpl w rj) (route_tpl w rc) = true).
  { destruct (pairwise_In _ _ _ _ Hchain H1 H2) as [E|[D|D]]; [now left| |]; apply orb_true_iff in D; tauto. }
  destruct Hcmp as [E|Hcmp]; [exact E|].
  destruct (tpl_ge (route_tpl w rc) (route_tpl w rj)) eqn:Gcj; destruct (tpl_ge (route_tpl w rj) (route_tpl w rc)) eqn:Gjc.
  2:{ (* rc strictly dominates rj: RouterJSR311 would not have answered rj *)
      exfalso. assert (D : dominates (route_tpl w rc) (route_tpl w rj) = true) by (unfold dominates; now rewrite Gcj, Gjc).
      rewrite Sc, Sj, dominates_app_same in D.
      pose proof (jsr_select_route_not_dominated O tj req w rj eq_refl Esj Hag rc Hinc Hadc'). congruence. }
  2:{ exfalso. assert (D : dominates (route_tpl w rj) (route_tpl w rc) = true) by (unfold dominates; now rewrite Gcj, Gjc).
      pose proof (curly_select_route_not_dominated O tc req w rc eq_refl Esc rj Hinj Hwfj Hwfc (plain_no_verbs _ Pj) (plain_no_verbs _ Pc) Hadj').
      congruence. }
  2:{ destruct Hcmp; discriminate. }
  (* twins: every count is equal, the path strings decide, in both routers alike *)
  destruct (route_eq_dec_by_key w rc rj Hnd Hinc Hinj) as [E|Hne]; [exact E|]. exfalso.
  (* the two winners as greatest passing candidates *)
  unfold select_route in Esc, Esj. cbn [t_router t_services tc tj] in Esc, Esj. rewrite Hws in Esc. rewrite Hdd in Esj.
  destruct (curly_select_routes O w (tokenize (rq_path req))) as [|c0 cs0] eqn:Ecs; [discriminate Esc|]. rewrite <- Ecs in Esc.
  destruct (detect_route (map cc_route (curly_select_routes O w (tokenize (rq_path req)))) req) as [r0|e0] eqn:Edc; [|discriminate Esc].
  injection Esc as ->.
  destruct (jsr_select_routes O w fin) as [|j0 js0] eqn:Ejs; [discriminate Esj|]. rewrite <- Ejs in Esj.
  destruct (detect_route (map rc_route (jsr_select_routes O w fin)) req) as [r1|e1] eqn:Edj; [|discriminate Esj].
  injection Esj as ->.
  destruct (curly_selected_max w _ req rc Edc) as (cc & Hcc & Rcc & Mcc).
  destruct (jsr_selected_max w fin req rj Edj) as (jj & Hjj & Rjj & Mjj).
  (* passes *)
  assert (Ppass : forall r, admits O w r req = true -> passes req r = true).
  { intros r H. unfold admits in H. unfold passes.
    apply andb_true_iff in H as [H Hcond]. apply andb_true_iff in H as [H Hacc]. apply andb_true_iff in H as [H Hct].
    apply andb_true_iff in H as [Hm _]. now rewrite Hcond, Hm, Hct, Hacc. }
  (* CurlyRouter's candidate for rj, RouterJSR311's candidate for rc *)
  assert (Hcj : exists c, In c (curly_select_routes O w (tokenize (rq_path req))) /\ cc_route c = rj).
  { unfold admits in Hadj'. apply andb_true_iff in Hadj' as [H _]. apply andb_true_iff in H as [H _]. apply andb_true_iff in H as [H _].
    apply andb_true_iff in H as [_ Hpath].
    pose proof (matches_route_iff_admits O (route_hcv w rj) (route_parts w rj) (tokenize (rq_path req)) Hwfj) as Hi.
    fold (route_tpl w rj) in Hi. rewrite Hpath in Hi.
    destruct (matches_route_by_path_tokens O (route_parts w rj) (tokenize (rq_path req)) (route_hcv w rj)) as [[pc sc]|] eqn:Em; [|discriminate Hi].
    exists {| cc_route := rj; cc_param := pc; cc_static := sc; cc_path := route_path w rj |}. split; [|reflexivity].
    unfold curly_select_routes. rewrite (sort_desc_In cc_lt), in_flat_map. exists rj. split; [exact Hinj|]. rewrite Em. now left. }
  destruct Hcj as (cj & Hcj & Rcj).
  assert (Hagw : tokens_agree (s_root w) = true) by (now apply andb_true_iff in Hag as [? _]).
  assert (Hagr : forall r, In r (s_routes w) -> tokens_agree (r_rel r) = true).
  { intros r Hr. apply andb_true_iff in Hag as [_ Hrs]. rewrite forallb_forall in Hrs. now apply Hrs. }
  pose proof Hdd as Hdd2. apply detect_dispatcher_sound in Hdd2 as (_ & caps0 & Hm0).
  assert (Hjc : exists c, In c (jsr_select_routes O w fin) /\ rc_route c = rc).
  { pose proof (jsr_route_iff O w rc (rq_path req) caps0 fin Hagw (Hagr _ Hinc) Hm0) as Hiff.
    unfold jsr_admits in Hadc'. apply andb_true_iff in Hadc' as [H _]. apply andb_true_iff in H as [H _]. apply andb_true_iff in H as [H _].
    apply andb_true_iff in H as [_ Hpath]. rewrite Hpath in Hiff.
    destruct (jsr_match O (pe_toks (path_expression (r_rel rc))) fin) as [[c2 f2]|] eqn:Em; [|discriminate Hiff].
    exists {| rc_route := rc; rc_matches := S (List.length c2) + pe_groups (path_expression (r_rel rc)); rc_literal := pe_literal (path_expression (r_rel rc));
              rc_nondef := pe_vars (path_expression (r_rel rc)); rc_path := route_path w rc |}.
    split; [|reflexivity]. unfold jsr_select_routes. rewrite (sort_desc_In rc_lt), in_flat_map. exists rc. split; [exact Hinc|].
    cbn zeta. rewrite Em, Hiff. left. reflexivity. }
  destruct Hjc as (jc & Hjc & Rjc).
  (* keys under CurlyRouter *)
  destruct (curly_select_routes_In O w _ cc Hcc) as (_ & Pcc & Kcc). rewrite Rcc in Pcc, Kcc.
  destruct (curly_select_routes_In O w _ cj Hcj) as (_ & Pcj & Kcj). rewrite Rcj in Pcj, Kcj.
  destruct (matches_counts_plain w rc _ _ _ Hwfc Pc Kcc) as [Kc1 Kc2].
  destruct (matches_counts_plain w rj _ _ _ Hwfj Pj Kcj) as [Kj1 Kj2].
  destruct (same_shape_counts _ _ Gcj Gjc) as [Ql Qn].
  (* keys under RouterJSR311 *)
  destruct (jsr_select_routes_keys w fin jj Hjj) as (Pjj & L1 & N1 & capsj & f2j & Mj & C1). rewrite Rjj in *.
  destruct (jsr_select_routes_keys w fin jc Hjc) as (Pjc & L2 & N2 & capsc & f2c & Mc & C2). rewrite Rjc in *.
  pose proof (tokens_agree_rel _ (Hagr _ Hinc)) as Relc. pose proof (tokens_agree_rel _ (Hagr _ Hinj)) as Relj.
  assert (Gcj' : tpl_ge (jsr_tpl (r_rel rc)) (jsr_tpl (r_rel rj)) = true) by (rewrite Sc, Sj, tpl_ge_app_same in Gcj; exact Gcj).
  assert (Gjc' : tpl_ge (jsr_tpl (r_rel rj)) (jsr_tpl (r_rel rc)) = true) by (rewrite Sc, Sj, tpl_ge_app_same in Gjc; exact Gjc).
  rewrite (tpl_ge_rel _ _ _ _ Relc Relj) in Gcj'. rewrite (tpl_ge_rel _ _ _ _ Relj Relc) in Gjc'.
  pose proof (etpl_ge_chars _ _ Gcj') as Ch1. pose proof (etpl_ge_chars _ _ Gjc') as Ch2.
  pose proof (etpl_ge_nonlit _ _ Gcj') as Nl1. pose proof (etpl_ge_nonlit _ _ Gjc') as Nl2.
  assert (Pcrel : forallb plain_ne (jsr_tpl (r_rel rc)) = true) by (rewrite Sc in Pc; now apply forallb_app_r in Pc).
  assert (Pjrel : forallb plain_ne (jsr_tpl (r_rel rj)) = true) by (rewrite Sj in Pj; now apply forallb_app_r in Pj).
  pose proof (jsr_match_caps_len _ _ _ _ (plain_no_eall _ _ Relj Pjrel) Mj) as Lj.
  pose proof (jsr_match_caps_len _ _ _ _ (plain_no_eall _ _ Relc Pcrel) Mc) as Lc.
  (* the paths differ, so one is below the other *)
  assert (Hmeth : r_method rc = r_method rj).
  { pose proof (Ppass _ Hadc) as A. pose proof (Ppass _ Hadj') as B. unfold passes in A, B.
    repeat (apply andb_true_iff in A as [A ?]). repeat (apply andb_true_iff in B as [B ?]).
    repeat match goal with H : str_eqb _ _ = true |- _ => apply str_eqb_eq in H end. congruence. }
  assert (Hpath : route_path w rc <> route_path w rj).
  { intros E. apply Hne. unfold route_key. now rewrite Hmeth, E. }
  destruct (str_ltb (route_path w rc) (route_path w rj)) eqn:Lt1.
  - (* CurlyRouter would have preferred rj *)
    assert (Hlt : cc_lt cc cj = true).
    { unfold cc_lt. rewrite Pcc, Pcj. replace (cc_static cc) with (cc_static cj) by lia. replace (cc_param cc) with (cc_param cj) by lia.
      rewrite !Nat.ltb_irrefl. exact Lt1. }
    destruct (Mcc cj Hcj) as [H|H]; [rewrite Rcj; now apply Ppass|congruence|]. subst cj. congruence.
  - destruct (str_ltb (route_path w rj) (route_path w rc)) eqn:Lt2; [|now apply Hpath, str_ltb_total].
    assert (Hlt : rc_lt jj jc = true).
    { unfold rc_lt. rewrite Pjj, Pjc, L1, L2, !pe_literal_sum, C1, C2, N1, N2, !pe_vars_nonlit, !pe_groups_toks.
      rewrite (plain_no_groups _ _ Relj Pjrel), (plain_no_groups _ _ Relc Pcrel), !Nat.add_0_r.
      replace (lit_chars (pe_toks (path_expression (r_rel rj)))) with (lit_chars (pe_toks (path_expression (r_rel rc)))) by lia.
      replace (List.length capsj) with (List.length capsc) by lia.
      replace (e_nonlit (pe_toks (path_expression (r_rel rj)))) with (e_nonlit (pe_toks (path_expression (r_rel rc)))) by lia.
      rewrite !Nat.ltb_irrefl. exact Lt2. }
    destruct (Mjj jc Hjc) as [H|H]; [rewrite Rjc; now apply Ppass|congruence|]. subst jc. congruence.
Qed.

(* C18 with twins: the chain premise weakened, distinct (method, path) pairs added *)
Theorem routers_agree_twins wss req w fin :
  let tc := {| t_router := Curly; t_services := wss |} in
  let tj := {| t_router := Jsr311; t_services := wss |} in
  detect_web_service O (tokenize (rq_path req)) wss = Some w ->
  detect_dispatcher O (rq_path req) wss = Some (w, fin) ->
  forallb (wf_route w) (s_routes w) = true ->
  jsr_all_agree w = true -> forallb (jsr_names_agree w) (s_routes w) = true ->
  c18_service_ok w = true -> c18_clean (rq_path req) = true ->
  distinct (map (route_key w) (s_routes w)) = true -> c18_chain_weak O w req = true ->
  routed_equiv (route_request O tc req) (route_request O tj req).
Proof.
  intros tc tj Hws Hdd Hwf Hag Hna Hok Hclean Hd Hchain.
  apply (routers_agree_gen O wss req w fin Hws Hdd Hwf Hag Hna Hok Hclean).
  intros rc rj. apply (same_route_weak wss req w fin rc rj Hws Hdd Hwf Hag Hok (distinct_NoDup _ Hd) Hchain).
Qed.

(* ... and without assuming that both routers chose the same service *)
Theorem routers_agree_final wss req :
  roots_literal wss = true -> roots_distinct wss = true -> c18_clean (rq_path req) = true ->
  (forall w, detect_web_service O (tokenize (rq_path req)) wss = Some w ->
     forallb (wf_route w) (s_routes w) = true /\ jsr_all_agree w = true
     /\ forallb (jsr_names_agree w) (s_routes w) = true /\ c18_service_ok w = true
     /\ distinct (map (route_key w) (s_routes w)) = true /\ c18_chain_weak O w req = true) ->
  routed_equiv (route_request O {| t_router := Curly; t_services := wss |} req)
               (route_request O {| t_router := Jsr311; t_services := wss |} req).
Proof.
  intros Hl Hd Hc Hw. pose proof (same_service O wss (rq_path req) Hl Hd Hc) as Hs.
  destruct (detect_web_service O (tokenize (rq_path req)) wss) as [w|] eqn:E;
  destruct (detect_dispatcher O (rq_path req) wss) as [[w' fin]|] eqn:E'; try contradiction.
  - subst w'. destruct (Hw w eq_refl) as (H1 & H2 & H3 & H4 & H5 & H6).
    exact (routers_agree_twins wss req w fin E E' H1 H2 H3 H4 Hc H5 H6).
  - destruct (routers_agree_unclaimed O wss req E E') as [-> ->]. exact Logic.I.
Qed.

End P.

(* DispatchProofs.v — C06 (order of the chain), C07 (compressor discipline),
   C10 (panics) on the model of container.go / filter.go / compress.go *)
From Model Require Import Str Sexp Http Template Table Curly DetectRoute Jsr311 Router Dispatch.
From Spec Require Import DispatchSpec.
From Proofs Require Import StrFacts.
From Coq Require Import Lia.

(* ------------------------------------------------------------------ *)
(* an invariant-carrying view of the state: what scripts can and cannot touch *)

(* compressor bookkeeping seen by scripts: same ledger, same coding/closedness *)
Definition comp_shape (s : rstate) : option (coding * bool) :=
  match st_comp s with Some (c, _, cl) => Some (c, cl) | None => None end.
Definition book (s : rstate) : nat * nat * option (coding * bool) * nat :=
  (st_acq s, st_rel s, comp_shape s, st_recovered s).

Lemma book_write_header s n : book (write_header s n) = book s.
Proof. unfold write_header. destruct (st_status s); reflexivity. Qed.

Lemma book_write_body s b : book (write_body s b) = book s.
Proof.
  unfold write_body, book, comp_shape. destruct (st_comp s) as [[[c ch] [|]]|] eqn:E; cbn; rewrite ?E; try reflexivity.
  - unfold write_header. destruct (st_status s); cbn; reflexivity.
  - unfold write_header. destruct (st_status s); cbn; rewrite E; reflexivity.
Qed.

Lemma book_set_wrapper s p u : book (set_wrapper s p u) = book s. Proof. reflexivity. Qed.

Lemma book_run_action a s : book (state_of (run_action a s)) = book s.
Proof.
  destruct a; cbn; auto using book_write_header, book_write_body.
  now rewrite book_write_body, book_write_header.
Qed.

Lemma book_run_actions l s : book (state_of (run_actions l s)) = book s.
Proof.
  revert s; induction l as [|a l IH]; intros s; [reflexivity|]. cbn [run_actions].
  pose proof (book_run_action a s) as Ha. destruct (run_action a s) as [s1|m s1]; cbn [bind state_of] in *.
  - now rewrite IH.
  - exact Ha.
Qed.

Lemma book_upd_log s e : book (upd_log s e) = book s. Proof. reflexivity. Qed.
Lemma book_upd_attrs s a : book (upd_attrs s a) = book s. Proof. reflexivity. Qed.
Lemma book_upd_hdr s h : book (upd_hdr s h) = book s. Proof. reflexivity. Qed.

Lemma book_bind r k b :
  book (state_of r) = b -> (forall s, book s = b -> book (state_of (k s)) = b) ->
  book (state_of (bind r k)) = b.
Proof. destruct r; cbn; auto. Qed.

Lemma book_run_chain fs target s :
  (forall s0, book (state_of (target s0)) = book s0) ->
  book (state_of (run_chain fs target s)) = book s.
Proof.
  intros Ht. revert s. induction fs as [|f rest IH]; intros s; cbn [run_chain]; [apply Ht|].
  apply book_bind; [now rewrite book_run_actions, book_upd_log|].
  intros s1 H1. destruct (f_pass f).
  - apply book_bind.
    + destruct (f_fresh f), (f_wrap f); rewrite IH, ?book_set_wrapper, ?book_upd_attrs; exact H1.
    + intros s2 H2. apply book_bind.
      * destruct (f_fresh f), (f_wrap f); now rewrite book_run_actions, ?book_set_wrapper, ?book_upd_attrs.
      * intros s3 H3. cbn. exact H3.
  - apply book_bind; [now rewrite book_run_actions|]. intros s3 H3. cbn. exact H3.
Qed.

(* ------------------------------------------------------------------ *)
(* C07 / C10: every compressor that is acquired is released exactly once, the stream is
   closed on every exit path, and at most one is installed per response *)
Section Discipline.
Variable O : oracles.

Lemma book_write_service_error e s : book (state_of (write_service_error e s)) = book s.
Proof.
  unfold write_service_error. destruct e as [|a| |]; cbn; now rewrite book_write_body, book_write_header.
Qed.

Lemma book_install c s :
  book (install c s) = (S (st_acq s), st_rel s, Some (c, false), st_recovered s).
Proof. reflexivity. Qed.

(* the state dispatch_body leaves: ledger and compressor as decided before the chain ran *)
Lemma book_dispatch_body cfg req already s :
  book (state_of (dispatch_body O cfg req already s)) = book s \/
  (already = false /\ comp_shape s = comp_shape s /\ exists c,
     wants_compressed req s = Some c /\
     book (state_of (dispatch_body O cfg req already s)) = (S (st_acq s), st_rel s, Some (c, false), st_recovered s)).
Proof.
  unfold dispatch_body. destruct (cond_panic_hit O cfg req); [now left|].
  destruct (select_route O (d_table cfg) req) as [[w r]|e].
  - set (enabled := match r_enc r with Some b => b | None => d_encoding cfg end).
    destruct already.
    + left. destruct (extract_parameters O (d_table cfg) w r (rq_path req)); [|reflexivity].
      rewrite book_run_chain; [apply book_upd_attrs|].
      intros s0. now rewrite book_run_actions, book_upd_log.
    + destruct enabled.
      * destruct (wants_compressed req s) as [c|] eqn:Ew.
        -- right. split; [reflexivity|]. split; [reflexivity|]. exists c. split; [reflexivity|].
           destruct (extract_parameters O (d_table cfg) w r (rq_path req)); [|reflexivity].
           rewrite book_run_chain; [apply book_upd_attrs|].
           intros s0. now rewrite book_run_actions, book_upd_log.
        -- left. destruct (extract_parameters O (d_table cfg) w r (rq_path req)); [|reflexivity].
           rewrite book_run_chain; [apply book_upd_attrs|].
           intros s0. now rewrite book_run_actions, book_upd_log.
      * left. destruct (extract_parameters O (d_table cfg) w r (rq_path req)); [|reflexivity].
        rewrite book_run_chain; [apply book_upd_attrs|].
        intros s0. now rewrite book_run_actions, book_upd_log.
  - left. apply book_run_chain. intros s0. apply book_write_service_error.
Qed.

Lemma book_close_comp s :
  book (close_comp s) =
    match comp_shape s with
    | Some (c, false) => (st_acq s, S (st_rel s), Some (c, true), st_recovered s)
    | _ => book s
    end.
Proof.
  unfold close_comp, book, comp_shape. destruct (st_comp s) as [[[c ch] [|]]|] eqn:E; cbn; rewrite ?E; try reflexivity.
  unfold write_header. destruct (st_status s); cbn; reflexivity.
Qed.

Definition balanced (s : rstate) : Prop :=
  st_acq s = st_rel s /\ (match comp_shape s with Some (_, cl) => cl = true | None => True end).

(* after dispatch: started with a clean ledger and no compressor (or one installed by
   ServeHTTP and still open), the books are balanced — for every outcome *)
Lemma dispatch_books cfg req s :
  st_acq s = st_rel s -> comp_shape s = None ->
  let r := dispatch O cfg req false s in
  balanced (state_of r) /\ st_acq (state_of r) <= S (st_acq s) /\
  (forall c cl, comp_shape (state_of r) = Some (c, cl) ->
       wants_compressed req s = Some c /\ st_acq (state_of r) = S (st_acq s)) /\
  (comp_shape (state_of r) = None -> st_acq (state_of r) = st_acq s).
Proof.
  intros Hb Hn. cbn zeta. unfold dispatch.
  pose proof (book_dispatch_body cfg req false s) as Hbody.
  set (r1 := dispatch_body O cfg req false s) in *.
  (* the recover step does not touch the books except the recover counter *)
  set (r2 := match r1 with
             | Done s' => Done s'
             | Panicked m s' => if d_recover cfg then run_actions (d_recover_script cfg) _ else Panicked m s'
             end).
  assert (H2 : st_acq (state_of r2) = st_acq (state_of r1) /\ st_rel (state_of r2) = st_rel (state_of r1)
               /\ comp_shape (state_of r2) = comp_shape (state_of r1)).
  { subst r2. destruct r1 as [s'|m s']; cbn [state_of]; [auto|].
    destruct (d_recover cfg); cbn [state_of]; [|auto].
    match goal with |- context [run_actions ?l ?x] => pose proof (book_run_actions l x) as Hr end.
    unfold book in Hr. cbn in Hr. injection Hr as Ha Hr Hc _. auto. }
  destruct H2 as (Ha2 & Hr2 & Hc2).
  assert (Hfin : forall r, st_acq (state_of r) = st_acq (state_of r2) -> st_rel (state_of r) = st_rel (state_of r2) ->
            comp_shape (state_of r) = comp_shape (state_of r2) ->
            let rr := match r with Done s' => Done (close_comp s') | Panicked m s' => Panicked m (close_comp s') end in
            book (state_of rr) = book (close_comp (state_of r))).
  { intros r _ _ _. destruct r; reflexivity. }
  specialize (Hfin r2 eq_refl eq_refl eq_refl). cbn zeta in Hfin.
  match goal with |- balanced (state_of ?x) /\ _ => set (rfin := x) in * end.
  rewrite book_close_comp in Hfin. unfold book in Hfin.
  destruct Hbody as [Hsame|(_ & _ & c & Hw & Hinst)].
  - unfold book in Hsame. injection Hsame as A1 A2 A3 _.
    rewrite Hc2, A3, Hn in Hfin. injection Hfin as F1 F2 F3 _.
    split; [|split; [|split]].
    + unfold balanced. rewrite F3. split; [lia|exact Logic.I].
    + lia.
    + intros c0 cl0 H. rewrite F3 in H. discriminate H.
    + intros _. lia.
  - unfold book in Hinst. injection Hinst as A1 A2 A3 _.
    rewrite Hc2, A3 in Hfin. injection Hfin as F1 F2 F3 _.
    split; [|split; [|split]].
    + unfold balanced. rewrite F3. split; [lia|reflexivity].
    + lia.
    + intros c0 cl0 H. rewrite F3 in H. injection H as <- <-. split; [exact Hw|lia].
    + intros H. rewrite F3 in H. discriminate H.
Qed.

End Discipline.

(* ------------------------------------------------------------------ *)
(* C06: the order of the structural events *)
Definition slog (s : rstate) : list str := filter structural_event (st_log s).

Definition panic_free (l : list action) : bool := negb (existsb action_is_panic l).
Definition fscript_panic_free (f : fscript) : bool := negb (fscript_has_panic f).

Lemma see_not_structural k v : structural_event (L "see:" ++ k ++ L "=" ++ v) = false.
Proof. reflexivity. Qed.

Lemma slog_run_action a s :
  action_is_panic a = false -> exists s', run_action a s = Done s' /\ slog s' = slog s.
Proof.
  assert (Hwh : forall s0 n, st_log (write_header s0 n) = st_log s0)
    by (intros s0 n; unfold write_header; destruct (st_status s0); reflexivity).
  assert (Hwb : forall s0 b, st_log (write_body s0 b) = st_log s0).
  { intros s0 b. unfold write_body. destruct (st_comp s0) as [[[c ch] [|]]|]; cbn; unfold write_header;
      destruct (st_status s0); reflexivity. }
  destruct a as [k v|n|b|k v|k|m|k|b|c p]; cbn; intros H; try discriminate; eexists; (split; [reflexivity|]);
    unfold slog; try reflexivity.
  - now rewrite Hwh.
  - now rewrite Hwb.
  - cbn [upd_log st_log]. rewrite filter_app.
    replace (filter structural_event [L "see:" ++ k ++ L "=" ++ attr_get k (st_attrs s)]) with (@nil str) by reflexivity.
    now rewrite app_nil_r.
  - now rewrite Hwb, Hwh.
Qed.

Lemma slog_run_actions l s :
  panic_free l = true -> exists s', run_actions l s = Done s' /\ slog s' = slog s.
Proof.
  unfold panic_free. revert s; induction l as [|a l IH]; intros s H; [now exists s|].
  cbn [existsb] in H. apply negb_true_iff, orb_false_iff in H as [Ha Hl].
  destruct (slog_run_action a s Ha) as (s1 & E1 & L1). cbn [run_actions]. rewrite E1. cbn [bind].
  destruct (IH s1) as (s2 & E2 & L2); [now rewrite Hl|]. exists s2. split; [exact E2|congruence].
Qed.

Lemma slog_upd_log_structural s e : structural_event e = true -> slog (upd_log s e) = slog s ++ [e].
Proof. intros H. unfold slog. cbn [upd_log st_log]. rewrite filter_app. cbn [filter]. now rewrite H. Qed.

Lemma pre_structural id : structural_event (L "pre:" ++ id) = true. Proof. reflexivity. Qed.
Lemma post_structural id : structural_event (L "post:" ++ id) = true.
Proof. unfold structural_event. cbn. reflexivity. Qed.

Lemma slog_upd_attrs s a : slog (upd_attrs s a) = slog s. Proof. reflexivity. Qed.

(* C06, the chain: with scripts that do not panic, and a target that appends [tgt] to the
   structural log, the chain terminates normally and appends exactly chain_events *)
Theorem run_chain_events fs target tgt s :
  forallb fscript_panic_free fs = true ->
  (forall s0, exists s1, target s0 = Done s1 /\ slog s1 = slog s0 ++ tgt) ->
  exists s', run_chain fs target s = Done s' /\ slog s' = slog s ++ chain_events fs tgt.
Proof.
  intros Hpf Ht. revert s. induction fs as [|f rest IH]; intros s; cbn [run_chain chain_events].
  - destruct (Ht s) as (s1 & E & Lg). now exists s1.
  - cbn [forallb] in Hpf. apply andb_true_iff in Hpf as [Hf Hrest].
    unfold fscript_panic_free, fscript_has_panic in Hf. apply negb_true_iff, orb_false_iff in Hf as [Hpre Hpost].
    destruct (slog_run_actions (f_pre f) (upd_log s (L "pre:" ++ f_id f))) as (s1 & E1 & L1);
      [unfold panic_free; now rewrite Hpre|].
    rewrite E1. cbn [bind]. rewrite slog_upd_log_structural in L1 by apply pre_structural.
    destruct (f_pass f).
    + set (s1' := if f_fresh f then upd_attrs s1 [] else s1).
      set (s1'' := if f_wrap f then set_wrapper s1' true (S (st_upper s1')) else s1').
      destruct (IH Hrest s1'') as (s2 & E2 & L2).
      rewrite E2. cbn [bind].
      set (s2' := if f_fresh f then upd_attrs s2 (st_attrs s1) else s2).
      set (s2'' := if f_wrap f then set_wrapper s2' (st_pretty s1) (st_upper s1) else s2').
      destruct (slog_run_actions (f_post f) s2'') as (s3 & E3 & L3);
        [unfold panic_free; now rewrite Hpost|].
      rewrite E3. cbn [bind]. eexists. split; [reflexivity|].
      rewrite slog_upd_log_structural by apply post_structural. rewrite L3.
      replace (slog s2'') with (slog s2) by (subst s2'' s2'; destruct (f_fresh f), (f_wrap f); reflexivity).
      rewrite L2. replace (slog s1'') with (slog s1) by (subst s1'' s1'; destruct (f_fresh f), (f_wrap f); reflexivity).
      rewrite L1. cbn. now rewrite <- !app_assoc.
    + destruct (slog_run_actions (f_post f) s1) as (s3 & E3 & L3); [unfold panic_free; now rewrite Hpost|].
      rewrite E3. cbn [bind]. eexists. split; [reflexivity|].
      rewrite slog_upd_log_structural by apply post_structural. rewrite L3, L1. cbn. now rewrite <- !app_assoc.
Qed.

(* C10: with recovery on and a recover handler that does not panic itself, no panic
   escapes dispatch / ServeHTTP, and the handler runs at most once *)
Section Recover.
Variable O : oracles.

Lemma run_actions_panic_free_done l s : panic_free l = true -> exists s', run_actions l s = Done s'.
Proof. intros H. destruct (slog_run_actions l s H) as (s' & E & _). eauto. Qed.

Theorem dispatch_no_escape cfg req already s :
  d_recover cfg = true -> panic_free (d_recover_script cfg) = true ->
  exists s', dispatch O cfg req already s = Done s'.
Proof.
  intros Hr Hp. unfold dispatch. destruct (dispatch_body O cfg req already s) as [s1|m s1].
  - eauto.
  - rewrite Hr. match goal with |- context [run_actions ?l ?x] => destruct (run_actions_panic_free_done l x Hp) as (s2 & E) end.
    rewrite E. eauto.
Qed.

(* routed requests: the path is not one a plain handler is registered on (Handle / HandleWithFilter have no
   recovery by construction) *)
Definition routed_request (cfg : dcfg) (req : request) : Prop := assoc (rq_path req) (d_plain cfg) = None.

Theorem serve_no_escape cfg en req s :
  routed_request cfg req ->
  d_recover cfg = true -> panic_free (d_recover_script cfg) = true ->
  exists s', serve O cfg en req s = Done s'.
Proof.
  intros Hrt Hr Hp. unfold serve, mux_target. rewrite Hrt. destruct en; [apply dispatch_no_escape; assumption|].
  destruct (negb (d_encoding cfg)); [apply dispatch_no_escape; assumption|].
  match goal with |- context [dispatch O cfg req ?a ?x] => destruct (dispatch_no_escape cfg req a x Hr Hp) as (s2 & E) end.
  rewrite E. eauto.
Qed.

(* recovery off: the panic propagates to the caller unchanged *)
Theorem dispatch_propagates cfg req already s m s1 :
  d_recover cfg = false ->
  dispatch_body O cfg req already s = Panicked m s1 ->
  exists s', dispatch O cfg req already s = Panicked m s'.
Proof. intros Hr Hb. unfold dispatch. rewrite Hb, Hr. eauto. Qed.

Theorem recover_at_most_once cfg req already s :
  st_recovered (state_of (dispatch O cfg req already s)) <= S (st_recovered s).
Proof.
  unfold dispatch.
  assert (Hb : st_recovered (state_of (dispatch_body O cfg req already s)) = st_recovered s).
  { pose proof (book_dispatch_body O cfg req already s) as [H|(_ & _ & c & _ & H)]; unfold book in H; now injection H. }
  destruct (dispatch_body O cfg req already s) as [s1|m s1]; cbn [state_of] in *.
  - pose proof (book_close_comp s1) as Hc. unfold book in Hc. destruct (comp_shape s1) as [[c [|]]|]; injection Hc as _ _ _ Hc; lia.
  - destruct (d_recover cfg).
    + match goal with |- context [run_actions ?l ?x] => pose proof (book_run_actions l x) as Hr; set (rr := run_actions l x) in * end.
      unfold book in Hr. cbn in Hr. injection Hr as _ _ _ Hr.
      destruct rr as [s2|m2 s2]; cbn [state_of] in *;
        pose proof (book_close_comp s2) as Hc; unfold book in Hc; destruct (comp_shape s2) as [[c [|]]|]; injection Hc as _ _ _ Hc; lia.
    + cbn [state_of]. pose proof (book_close_comp s1) as Hc. unfold book in Hc. destruct (comp_shape s1) as [[c [|]]|]; injection Hc as _ _ _ Hc; lia.
Qed.

End Recover.

(* RouterProofs.v — candidate ordering, detectRoute, SelectRoute (CurlyRouter) *)
From Model Require Import Str Sexp Http Template Table Curly DetectRoute Jsr311 Router.
From Spec Require Import RouteSpec.
From Proofs Require Import StrFacts TemplateFacts CurlyProofs.
From Coq Require Import Lia Permutation.

(* ---- the candidate sort is a permutation ---- *)
Section SortFacts.
Context {X : Type} (lt : X -> X -> bool).

Lemma insert_desc_perm x l : Permutation (insert_desc lt x l) (x :: l).
Proof.
  induction l as [|y l IH]; cbn; [reflexivity|]. destruct (lt y x); [reflexivity|].
  rewrite IH. apply perm_swap.
Qed.

Lemma sort_desc_perm_acc l acc :
  Permutation (fold_left (fun a x => insert_desc lt x a) l acc) (acc ++ l).
Proof.
  revert acc; induction l as [|x l IH]; intros acc; cbn; [now rewrite app_nil_r|].
  rewrite IH. rewrite (insert_desc_perm x acc). cbn. apply Permutation_middle.
Qed.

Lemma sort_desc_perm l : Permutation (sort_desc lt l) l.
Proof. unfold sort_desc. now rewrite sort_desc_perm_acc. Qed.

Lemma sort_desc_In x l : In x (sort_desc lt l) <-> In x l.
Proof. split; apply Permutation_in; [apply sort_desc_perm | symmetry; apply sort_desc_perm]. Qed.

Lemma sort_desc_nil l : sort_desc lt l = [] <-> l = [].
Proof.
  split; intros H.
  - apply Permutation_nil. rewrite <- H. apply sort_desc_perm.
  - subst. reflexivity.
Qed.
End SortFacts.

(* ---- detectRoute ---- *)
Lemma detect_route_inl routes req r :
  detect_route routes req = inl r ->
  In r routes /\ conds_hold r = true
  /\ str_eqb (rq_method req) (r_method r) = true
  /\ matches_content_type r (hget req H_ContentType) = true
  /\ matches_accept r (effective_accept req) = true.
Proof.
  unfold detect_route, effective_accept, conds_hold.
  set (c0 := filter _ routes). destruct c0 as [|a0 c0'] eqn:E0; [discriminate|]. rewrite <- E0.
  set (c1 := filter _ c0). destruct c1 as [|a1 c1'] eqn:E1; [discriminate|]. rewrite <- E1.
  set (c2 := filter _ c1).
  set (accept := match hget req H_Accept with [] => L "*/*" | _ => hget req H_Accept end).
  assert (Hmain : forall rr, In rr (filter (fun r0 => matches_accept r0 accept) c2) ->
            In rr routes /\ forallb (fun b => b) (r_conds rr) = true
            /\ str_eqb (rq_method req) (r_method rr) = true
            /\ matches_content_type rr (hget req H_ContentType) = true
            /\ matches_accept rr accept = true).
  { intros rr H. apply filter_In in H as [H Ha]. subst c2. apply filter_In in H as [H Hc].
    subst c1. apply filter_In in H as [H Hm]. subst c0. apply filter_In in H as [H H0]. auto. }
  assert (Hacc : accept = match hget req H_Accept with [] => L "*/*" | a :: l => a :: l end).
  { subst accept. destruct (hget req H_Accept); reflexivity. }
  rewrite <- Hacc.
  destruct c2 as [|a2 c2'] eqn:E2.
  - destruct (Z.ltb 0 (rq_clen req)); [discriminate|]. cbn [filter].
    destruct (_ && _); discriminate.
  - rewrite <- E2 in *. 
    assert (Hgoal : match filter (fun r0 => matches_accept r0 accept) c2 with
                    | [] => if (str_eqb (rq_method req) (L "POST") || str_eqb (rq_method req) (L "PUT")
                                || str_eqb (rq_method req) (L "PATCH"))
                               && (str_eqb (hget req H_ContentLength) [] || str_eqb (hget req H_ContentLength) (L "0"))
                            then inr E415 else inr E406
                    | r0 :: _ => inl r0 end = inl r -> In r (filter (fun r0 => matches_accept r0 accept) c2)).
    { destruct (filter _ c2) as [|r0 l]; [destruct (_ && _); discriminate|]. intros [= ->]. now left. }
    destruct (Z.ltb 0 (rq_clen req)); intros H; apply Hgoal in H; now apply Hmain.
Qed.

Section P.
Variable O : oracles.

(* ---- CurlyRouter: service detection ---- *)
Lemma detect_ws_loop_In qts wss best score w :
  detect_ws_loop O qts wss best score = Some w -> In w wss \/ best = Some w.
Proof.
  revert best score; induction wss as [|x wss IH]; intros best score; cbn [detect_ws_loop]; [auto|].
  destruct (compute_webservice_score O qts (tokenize (s_root x))) as [m sc].
  destruct (m && Z.ltb score (Z.of_nat sc)); intros H; apply IH in H as [H|H]; auto.
  - left; now right.
  - injection H as ->. left; now left.
  - left; now right.
Qed.

Lemma detect_web_service_In qts wss w : detect_web_service O qts wss = Some w -> In w wss.
Proof. intros H. apply detect_ws_loop_In in H as [H|H]; [exact H|discriminate]. Qed.

(* ---- CurlyRouter: SelectRoute is sound w.r.t. the structural reading ---- *)
Lemma curly_select_routes_In w qts c :
  In c (curly_select_routes O w qts) ->
  In (cc_route c) (s_routes w) /\ cc_path c = route_path w (cc_route c) /\
  matches_route_by_path_tokens O (route_parts w (cc_route c)) qts (route_hcv w (cc_route c))
    = Some (cc_param c, cc_static c).
Proof.
  unfold curly_select_routes. rewrite sort_desc_In, in_flat_map. intros (r & Hr & Hc).
  destruct (matches_route_by_path_tokens O (route_parts w r) qts (route_hcv w r)) as [[pc sc]|] eqn:E; [|contradiction].
  destruct Hc as [<-|[]]. cbn. auto.
Qed.

Theorem curly_select_route_sound t req w r :
  t_router t = Curly ->
  select_route O t req = inl (w, r) ->
  In w (t_services t) /\ In r (s_routes w)
  /\ is_some (matches_route_by_path_tokens O (route_parts w r) (tokenize (rq_path req)) (route_hcv w r)) = true
  /\ conds_hold r = true
  /\ str_eqb (rq_method req) (r_method r) = true
  /\ matches_content_type r (hget req H_ContentType) = true
  /\ matches_accept r (effective_accept req) = true.
Proof.
  unfold select_route. intros -> H.
  destruct (detect_web_service O (tokenize (rq_path req)) (t_services t)) as [w0|] eqn:Ew; [|discriminate].
  destruct (curly_select_routes O w0 (tokenize (rq_path req))) as [|c0 cs] eqn:Ec; [discriminate|].
  rewrite <- Ec in H.
  destruct (detect_route (map cc_route (curly_select_routes O w0 (tokenize (rq_path req)))) req) as [r0|e] eqn:Ed; [|discriminate].
  injection H as -> ->.
  apply detect_route_inl in Ed as (Hin & Hc & Hm & Hct & Ha).
  apply in_map_iff in Hin as (c & <- & Hc0). apply curly_select_routes_In in Hc0 as (Hr & _ & Hmatch).
  split; [now apply detect_web_service_In in Ew|]. split; [exact Hr|].
  split; [now rewrite Hmatch|]. auto.
Qed.

(* C01, CurlyRouter: an invoked route admits the request *)
Theorem curly_invoked_admits t req w r ps :
  t_router t = Curly ->
  route_request O t req = RInvoke w r ps ->
  In w (t_services t) /\ In r (s_routes w) /\
  (wf_route w r = true -> admits O w r req = true).
Proof.
  unfold route_request. intros Ht H.
  destruct (select_route O t req) as [[w0 r0]|e] eqn:Es; [|discriminate].
  destruct (extract_parameters O t w0 r0 (rq_path req)); [|discriminate]. injection H as -> -> _.
  destruct (curly_select_route_sound t req w r Ht Es) as (Hw & Hr & Hm & Hc & Hme & Hct & Ha).
  split; [exact Hw|]. split; [exact Hr|]. intros Hwf. unfold admits, route_tpl.
  unfold wf_route in Hwf. rewrite <- (matches_route_iff_admits O _ _ _ Hwf), Hm, Hme, Hct, Ha, Hc. reflexivity.
Qed.

End P.

(* ---- C14, CurlyRouter: everything is a function of the path tokens ---- *)
Definition with_path (req : request) (p : str) : request :=
  {| rq_method := rq_method req; rq_path := p; rq_headers := rq_headers req; rq_clen := rq_clen req |}.

Lemma detect_route_with_path routes req p :
  detect_route routes (with_path req p) = detect_route routes req.
Proof. reflexivity. Qed.

Section C14.
Variable O : oracles.

Lemma curly_route_request_tokens t req p q :
  t_router t = Curly -> tokenize p = tokenize q ->
  route_request O t (with_path req p) = route_request O t (with_path req q).
Proof.
  intros Ht Hpq. unfold route_request, select_route, extract_parameters, curly_extract_parameters. rewrite Ht.
  cbn [rq_path with_path]. rewrite Hpq.
  change (fun r => detect_route r {| rq_method := rq_method req; rq_path := p; rq_headers := rq_headers req; rq_clen := rq_clen req |})
    with (fun r => detect_route r (with_path req p)).
  reflexivity.
Qed.

Theorem curly_trailing_slash t req p :
  t_router t = Curly ->
  existsb (fun x => negb (Ascii.eqb x slash)) p = true ->
  route_request O t (with_path req (p ++ [slash])) = route_request O t (with_path req p).
Proof. intros Ht Hp. apply curly_route_request_tokens; [exact Ht|]. now apply tokenize_trailing_slash. Qed.
End C14.

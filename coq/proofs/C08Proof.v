From Model Require Import Str Sexp Http Cors.
From Spec Require Import CorsSpec.
From Proofs Require Import StrFacts CorsProofs.
From Coq Require Import Lia.

Lemma C08_proof :
  forall (O : oracles) (c : cors_cfg) (computed : list str) (req : request),
    let origin := hget req H_Origin in
    let hs := fst (cors_decide O c computed req) in
    (forall k v, In (k, v) hs -> is_grant_name k = true) /\
    (hs <> [] -> allowed O c origin) /\
    (hs <> [] -> count_key H_ACAllowOrigin hs = 1) /\
    (forall v, In (H_ACAllowOrigin, v) hs -> v = origin) /\
    (forall v, In (H_ACAllowCredentials, v) hs -> c_cookies c = true) /\
    (~ allowed O c origin ->
     forall (resp : Type) (add : headers -> resp -> resp) (r : resp)
            (next : request -> resp -> resp),
       (forall r0, add [] r0 = r0) ->
       cors_filter O add c computed req r next = next req r).
Proof.
  intros O c computed req origin hs.
  pose proof (cors_decide_cases O c computed req) as Hc. cbn zeta in Hc. fold origin in Hc.
  destruct (allowedb O c origin) eqn:Ea; cbn [negb] in Hc.
  - (* allowed *)
    assert (Hall : allowed O c origin) by now apply allowedb_spec.
    assert (Hio : is_origin_allowed O c origin = true) by now rewrite is_origin_allowed_allowedb.
    destruct (is_preflight req); cbn [negb] in Hc.
    + destruct (preflight_grantedb O c computed req).
      * subst hs. rewrite Hc. cbn [fst].
        refine (conj _ (conj _ (conj _ (conj _ (conj _ _))))).
        -- intros k v [H|[H|H]]; [injection H as <- _; reflexivity|injection H as <- _; reflexivity|].
           eapply opts_suffix_keys; eauto.
        -- intros _; exact Hall.
        -- intros _. rewrite count_key_app, opts_suffix_origin_count1 by exact Hio. reflexivity.
        -- intros v [H|[H|H]]; [discriminate H|discriminate H|].
           now apply opts_suffix_origin in H as [-> _].
        -- intros v [H|[H|H]]; [discriminate H|discriminate H|].
           eapply opts_suffix_credentials; eauto.
        -- intros Hn; contradiction.
      * subst hs. rewrite Hc. cbn [fst].
        refine (conj _ (conj _ (conj _ (conj _ (conj _ _))))).
        -- intros ? ? [].
        -- intros H; congruence.
        -- intros H; congruence.
        -- intros ? [].
        -- intros ? [].
        -- intros Hn; contradiction.
    + subst hs. rewrite Hc. cbn [fst].
      refine (conj _ (conj _ (conj _ (conj _ (conj _ _))))).
      * intros k v H. eapply opts_suffix_keys; eauto.
      * intros _; exact Hall.
      * intros _. now apply opts_suffix_origin_count1.
      * intros v H. now apply opts_suffix_origin in H as [-> _].
      * intros v H. eapply opts_suffix_credentials; eauto.
      * intros Hn; contradiction.
  - (* not allowed: transparent *)
    subst hs. rewrite Hc. cbn [fst].
    refine (conj _ (conj _ (conj _ (conj _ (conj _ _))))).
    + intros ? ? [].
    + intros H; congruence.
    + intros H; congruence.
    + intros ? [].
    + intros ? [].
    + intros _ resp add r next Hadd. unfold cors_filter. rewrite Hc. now rewrite Hadd.
Qed.

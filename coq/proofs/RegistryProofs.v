(* RegistryProofs.v — C11: after any history of Add / Remove / Route / RemoveRoute /
   Handle the container answers like a freshly built one with the same content, and Add
   never panics for pairwise different roots. *)
From Model Require Import Str Sexp Http Template Table Curly DetectRoute Jsr311 Router Registry.
From Proofs Require Import StrFacts.
From Coq Require Import Lia.

(* ------------------------------------------------------------------ *)
(* the mux as a finite map: lookups depend only on which (pattern, target) pairs it holds *)
Definition keys_unique (m : mux) : Prop := forall p t1 t2, In (p, t1) m -> In (p, t2) m -> t1 = t2.
Definition mux_equiv (m1 m2 : mux) : Prop := forall e, In e m1 <-> In e m2.

Lemma mux_has_In m p : mux_has m p = true <-> exists t, In (p, t) m.
Proof.
  unfold mux_has. rewrite existsb_exists. split.
  - intros ([q t] & Hin & He). cbn in He. apply str_eqb_eq in He. subst. eauto.
  - intros (t & Hin). exists (p, t). split; [exact Hin|]. cbn. apply str_eqb_refl.
Qed.

Lemma mux_has_equiv m1 m2 p : mux_equiv m1 m2 -> mux_has m1 p = mux_has m2 p.
Proof.
  intros H. destruct (mux_has m1 p) eqn:E1; destruct (mux_has m2 p) eqn:E2; try reflexivity.
  - apply mux_has_In in E1 as (t & Ht). apply H in Ht. assert (mux_has m2 p = true) by (apply mux_has_In; eauto). congruence.
  - apply mux_has_In in E2 as (t & Ht). apply H in Ht. assert (mux_has m1 p = true) by (apply mux_has_In; eauto). congruence.
Qed.

Lemma find_exact_spec (m : mux) path :
  match find (fun e => str_eqb (fst e) path) m with
  | Some e => In e m /\ fst e = path
  | None => forall t, ~ In (path, t) m
  end.
Proof.
  destruct (find (fun e => str_eqb (fst e) path) m) as [e|] eqn:E.
  - apply find_some in E as [H1 H2]. apply str_eqb_eq in H2. auto.
  - intros t Hin. pose proof (find_none _ _ E _ Hin) as H. cbn in H. now rewrite str_eqb_refl in H.
Qed.

Definition cand (path : str) (e : str * target) : bool := ends_with_slash (fst e) && has_prefix path (fst e).

Definition lstep (path : str) (best : option (str * target)) (e : str * target) : option (str * target) :=
  if ends_with_slash (fst e) && has_prefix path (fst e) &&
     match best with None => true | Some b => Nat.ltb (length (fst b)) (length (fst e)) end
  then Some e else best.
Definition longest (m : mux) (path : str) : option (str * target) := fold_left (lstep path) m None.

Lemma lstep_cases path best x :
  (lstep path best x = Some x /\ cand path x = true /\ (forall b, best = Some b -> length (fst b) < length (fst x))) \/
  (lstep path best x = best /\ (cand path x = false \/ exists b, best = Some b /\ length (fst x) <= length (fst b))).
Proof.
  unfold lstep, cand. destruct (ends_with_slash (fst x) && has_prefix path (fst x)); cbn [andb].
  - destruct best as [b|].
    + destruct (Nat.ltb (length (fst b)) (length (fst x))) eqn:El.
      * left. apply Nat.ltb_lt in El. repeat split; auto. intros b0 H; injection H as <-; exact El.
      * right. apply Nat.ltb_ge in El. split; [reflexivity|]. right. eauto.
    + left. repeat split; auto. discriminate.
  - right. auto.
Qed.

Lemma longest_spec_gen (m : mux) path : forall best0,
  (match best0 with Some b => cand path b = true | None => True end) ->
  match fold_left (lstep path) m best0 with
  | Some e => (In e m \/ best0 = Some e) /\ cand path e = true /\
              (forall e', In e' m -> cand path e' = true -> length (fst e') <= length (fst e)) /\
              (forall b, best0 = Some b -> length (fst b) <= length (fst e))
  | None => best0 = None /\ forall e', In e' m -> cand path e' = false
  end.
Proof.
  induction m as [|x m IH]; intros best0 Hb; cbn [fold_left].
  - destruct best0 as [b|].
    + split; [now right|]. split; [exact Hb|]. split; [intros e' []|]. intros b0 H. injection H as <-. apply Nat.le_refl.
    + split; [reflexivity|]. intros e' [].
  - assert (Hnb : match lstep path best0 x with Some b => cand path b = true | None => True end).
    { destruct (lstep_cases path best0 x) as [(E & C & _)|(E & _)]; rewrite E; auto. }
    specialize (IH (lstep path best0 x) Hnb).
    destruct (fold_left (lstep path) m (lstep path best0 x)) as [e|].
    + destruct IH as (Hin & Hc & Hmax & Hbest). split; [|split; [exact Hc|split]].
      * destruct Hin as [Hin|Hin]; [left; now right|].
        destruct (lstep_cases path best0 x) as [(E & _)|(E & _)]; rewrite E in Hin.
        -- injection Hin as <-. left. now left.
        -- now right.
      * intros e' [<-|Hin'] Hc'; [|now apply Hmax].
        destruct (lstep_cases path best0 x) as [(E & _)|(E & [C|(b & Eb & Hl)])].
        -- apply (Hbest x E).
        -- congruence.
        -- rewrite E in Hbest. specialize (Hbest b Eb). lia.
      * intros b Hb0. destruct (lstep_cases path best0 x) as [(E & _ & Hl)|(E & _)].
        -- specialize (Hbest x E). specialize (Hl b Hb0). lia.
        -- rewrite E in Hbest. now apply Hbest.
    + destruct IH as (Hn & Hnone).
      destruct (lstep_cases path best0 x) as [(E & _)|(E & [C|(b & Eb & _)])].
      * congruence.
      * rewrite E in Hn. split; [exact Hn|]. intros e' [<-|Hin']; [exact C|now apply Hnone].
      * rewrite E in Hn. congruence.
Qed.

Lemma longest_spec (m : mux) path :
  match longest m path with
  | Some e => In e m /\ cand path e = true /\
              (forall e', In e' m -> cand path e' = true -> length (fst e') <= length (fst e))
  | None => forall e', In e' m -> cand path e' = false
  end.
Proof.
  pose proof (longest_spec_gen m path None Logic.I) as H. unfold longest.
  destruct (fold_left (lstep path) m None) as [e|].
  - destruct H as ([Hin|Hin] & Hc & Hmax & _); [|discriminate]. auto.
  - apply H.
Qed.

Lemma mux_match_longest m path :
  mux_match m path = match find (fun e => str_eqb (fst e) path) m with Some e => Some e | None => longest m path end.
Proof. reflexivity. Qed.

Lemma prefix_same_length (path a b : str) :
  has_prefix path a = true -> has_prefix path b = true -> length a = length b -> a = b.
Proof.
  intros Ha Hb Hl. apply has_prefix_spec in Ha as (ta & ->). apply has_prefix_spec in Hb as (tb & Hb).
  revert b Hb Hl. induction a as [|x a IH]; intros [|y b] Hb Hl; cbn in *; try discriminate; auto.
  injection Hb as -> Hb. f_equal. apply IH; [exact Hb|lia].
Qed.

Lemma mux_match_equiv m1 m2 path :
  mux_equiv m1 m2 -> keys_unique m1 -> keys_unique m2 ->
  option_map snd (mux_match m1 path) = option_map snd (mux_match m2 path).
Proof.
  intros He K1 K2. rewrite !mux_match_longest.
  pose proof (find_exact_spec m1 path) as F1. pose proof (find_exact_spec m2 path) as F2.
  destruct (find (fun e => str_eqb (fst e) path) m1) as [[p1 t1]|];
  destruct (find (fun e => str_eqb (fst e) path) m2) as [[p2 t2]|]; cbn [fst] in *.
  - destruct F1 as [I1 ->], F2 as [I2 ->]. apply He in I1. cbn. f_equal. eapply K2; eauto.
  - destruct F1 as [I1 ->]. apply He in I1. now contradiction (F2 t1).
  - destruct F2 as [I2 ->]. apply He in I2. now contradiction (F1 t2).
  - pose proof (longest_spec m1 path) as L1. pose proof (longest_spec m2 path) as L2.
    destruct (longest m1 path) as [[p1 t1]|], (longest m2 path) as [[p2 t2]|]; cbn [option_map snd]; try reflexivity.
    + destruct L1 as (I1 & C1 & M1), L2 as (I2 & C2 & M2).
      assert (Hlen : length p1 = length p2).
      { pose proof (M1 _ (proj2 (He _) I2) C2). pose proof (M2 _ (proj1 (He _) I1) C1). cbn in *. lia. }
      unfold cand in C1, C2. cbn [fst] in *. apply andb_true_iff in C1 as [_ C1], C2 as [_ C2].
      pose proof (prefix_same_length path p1 p2 C1 C2 Hlen). subst p2. f_equal. apply He in I1. eapply K2; eauto.
    + destruct L1 as (I1 & C1 & _). apply He in I1. rewrite (L2 _ I1) in C1. discriminate.
    + destruct L2 as (I2 & C2 & _). apply He in I2. rewrite (L1 _ I2) in C2. discriminate.
Qed.

Lemma mux_serve_equiv m1 m2 url :
  mux_equiv m1 m2 -> keys_unique m1 -> keys_unique m2 -> mux_serve m1 url = mux_serve m2 url.
Proof.
  intros He K1 K2. unfold mux_serve. rewrite !(mux_has_equiv m1 m2 _ He).
  destruct (negb (mux_has m2 (clean_path url)) && mux_has m2 (clean_path url ++ [slash]) && negb (ends_with_slash (clean_path url))); [reflexivity|].
  destruct (negb (str_eqb (clean_path url) url)); [reflexivity|].
  pose proof (mux_match_equiv m1 m2 url He K1 K2) as H.
  destruct (mux_match m1 url) as [[p1 t1]|], (mux_match m2 url) as [[p2 t2]|]; cbn in H; try discriminate; try reflexivity.
  now injection H as ->.
Qed.

(* ------------------------------------------------------------------ *)
(* which patterns a list of registered roots puts on the mux *)
Definition is_rootpat (root : str) : bool :=
  let p := fixed_prefix root in str_eqb p [slash] || str_eqb p [].

Fixpoint nonroot_prefix (reg : list str) : list str :=
  match reg with
  | [] => []
  | r :: rest => if is_rootpat r then [] else r :: nonroot_prefix rest
  end.
Definition has_rootsvc (reg : list str) : bool := existsb is_rootpat reg.

(* the specification of the mux content for registered roots [reg] and plain handlers [plain] *)
Definition mux_spec (reg : list str) (plain : list (str * Z)) (e : str * target) : Prop :=
  (snd e = TDispatch /\ ((fst e = [slash] /\ has_rootsvc reg = true) \/ pattern_mapped (fst e) (nonroot_prefix reg) = true))
  \/ (exists id, snd e = TPlain id /\ In (fst e, id) plain).

Record mux_ok (m : mux) (isroot : bool) (reg : list str) (plain : list (str * Z)) : Prop := {
  mo_spec : forall e, In e m <-> mux_spec reg plain e;
  mo_keys : keys_unique m;
  mo_root : isroot = has_rootsvc reg
}.

Lemma nonroot_prefix_app_rooted reg r : has_rootsvc reg = true -> nonroot_prefix (reg ++ [r]) = nonroot_prefix reg.
Proof.
  induction reg as [|x reg IH]; cbn; [discriminate|]. destruct (is_rootpat x); cbn; [reflexivity|].
  intros H. now rewrite IH.
Qed.
Lemma nonroot_prefix_noroot reg : has_rootsvc reg = false -> nonroot_prefix reg = reg.
Proof.
  induction reg as [|x reg IH]; cbn; [reflexivity|]. destruct (is_rootpat x); cbn; [discriminate|].
  intros H. now rewrite IH.
Qed.
Lemma nonroot_prefix_app_noroot reg r :
  has_rootsvc reg = false -> nonroot_prefix (reg ++ [r]) = if is_rootpat r then reg else reg ++ [r].
Proof.
  induction reg as [|x reg IH]; cbn.
  - destruct (is_rootpat r); reflexivity.
  - destruct (is_rootpat x); cbn; [discriminate|]. intros H. rewrite IH by exact H. destruct (is_rootpat r); reflexivity.
Qed.
Lemma has_rootsvc_app reg r : has_rootsvc (reg ++ [r]) = has_rootsvc reg || is_rootpat r.
Proof. unfold has_rootsvc. rewrite existsb_app. cbn. now rewrite orb_false_r. Qed.

Lemma pattern_mapped_app p a b : pattern_mapped p (a ++ b) = pattern_mapped p a || pattern_mapped p b.
Proof. unfold pattern_mapped. apply existsb_app. Qed.

Lemma ends_with_slash_app s : ends_with_slash (s ++ [slash]) = true.
Proof. unfold ends_with_slash. rewrite rev_app_distr. reflexivity. Qed.

(* a non-root service never maps "/" *)
Lemma pattern_mapped_slash l : has_rootsvc l = false -> pattern_mapped [slash] l = false.
Proof.
  unfold has_rootsvc, pattern_mapped. induction l as [|r l IH]; cbn; [reflexivity|].
  intros H. apply orb_false_iff in H as [Hr Hl]. rewrite (IH Hl), orb_false_r.
  unfold is_rootpat in Hr. apply orb_false_iff in Hr as [H1 H2]. rewrite H1. cbn.
  destruct (fixed_prefix r) as [|c q]; [discriminate|]. cbn. destruct (negb (ends_with_slash (c :: q))); [|reflexivity]. cbn.
  destruct (Ascii.eqb c slash); [|reflexivity]. cbn. destruct q; reflexivity.
Qed.

Lemma plain_compatible_spec roots p r :
  plain_compatible roots p = true -> In r roots ->
  p <> [] /\ p <> [slash] /\ fixed_prefix r <> p /\ fixed_prefix r ++ [slash] <> p.
Proof.
  unfold plain_compatible. intros H Hin. apply andb_true_iff in H as [H H3]. apply andb_true_iff in H as [H1 H2].
  rewrite forallb_forall in H3. specialize (H3 r Hin). apply andb_true_iff in H3 as [H3 H4].
  repeat split; intros E; subst.
  - discriminate.
  - discriminate.
  - now rewrite str_eqb_refl in H3.
  - now rewrite str_eqb_refl in H4.
Qed.

Lemma pattern_mapped_not_plain roots p l :
  plain_compatible roots p = true -> (forall r, In r l -> In r roots) -> pattern_mapped p l = false.
Proof.
  intros Hc Hsub. unfold pattern_mapped. destruct (existsb _ l) eqn:E; [|reflexivity].
  apply existsb_exists in E as (r & Hin & Hr). destruct (plain_compatible_spec roots p r Hc (Hsub r Hin)) as (_ & _ & A & B).
  apply orb_true_iff in Hr as [Hr|Hr].
  - apply str_eqb_eq in Hr. contradiction.
  - apply andb_true_iff in Hr as [_ Hr]. apply str_eqb_eq in Hr. contradiction.
Qed.

Lemma mux_handle_spec m p t m' :
  mux_handle m p t = Some m' -> mux_has m p = false /\ m' = m ++ [(p, t)].
Proof.
  unfold mux_handle. destruct p; [discriminate|]. destruct (mux_has m (a :: p)); [discriminate|].
  intros H; injection H as <-. auto.
Qed.
Lemma mux_handle_ok m p t : p <> [] -> mux_has m p = false -> mux_handle m p t = Some (m ++ [(p, t)]).
Proof. unfold mux_handle. destruct p; [congruence|]. now intros _ ->. Qed.

Lemma keys_unique_snoc m p t : keys_unique m -> mux_has m p = false -> keys_unique (m ++ [(p, t)]).
Proof.
  intros K H q t1 t2 H1 H2. apply in_app_iff in H1, H2.
  assert (Hno : forall t0, ~ In (p, t0) m).
  { intros t0 Hin. assert (mux_has m p = true) by (apply mux_has_In; eauto). congruence. }
  destruct H1 as [H1|[H1|[]]], H2 as [H2|[H2|[]]].
  - eapply K; eauto.
  - injection H2 as <- <-. now contradiction (Hno t1).
  - injection H1 as <- <-. now contradiction (Hno t2).
  - congruence.
Qed.

(* ------------------------------------------------------------------ *)
(* one service gets mapped (Container.Add when not yet on root; one round of Remove's loop) *)
Section Universe.
Variable roots : list str.       (* every root the history registers *)

Definition plain_ok (plain : list (str * Z)) : Prop :=
  forall p id, In (p, id) plain -> plain_compatible roots p = true.

Lemma add_handler_ok m reg plain r :
  mux_ok m false reg plain -> plain_ok plain -> (forall x, In x (reg ++ [r]) -> In x roots) ->
  exists m' b, add_handler r m reg = Some (m', b) /\ mux_ok m' b (reg ++ [r]) plain.
Proof.
  intros [Hspec Hkeys Hroot] Hpl Hsub. symmetry in Hroot.
  pose proof (nonroot_prefix_noroot reg Hroot) as Hnr.
  assert (Hsubreg : forall x, In x reg -> In x roots) by (intros x Hx; apply Hsub, in_app_iff; now left).
  assert (Hr : In r roots) by (apply Hsub, in_app_iff; right; now left).
  (* when is a pattern absent from the mux *)
  assert (Habsent : forall p, pattern_mapped p reg = false ->
                    (forall id, In (p, id) plain -> False) -> mux_has m p = false).
  { intros p Hpm Hnp. destruct (mux_has m p) eqn:E; [|reflexivity]. apply mux_has_In in E as (t & Hin).
    apply Hspec in Hin as [(Ht & [[_ Hx]|Hx])|(id & Ht & Hx)]; cbn [fst snd] in *.
    - congruence.
    - rewrite Hnr in Hx. congruence.
    - now contradiction (Hnp id). }
  assert (Hplain_not : forall p, (p = fixed_prefix r \/ p = fixed_prefix r ++ [slash] \/ p = [slash]) ->
                                 forall id, In (p, id) plain -> False).
  { intros p Hp id Hin. destruct (plain_compatible_spec roots p r (Hpl _ _ Hin) Hr) as (A & B & C & D).
    destruct Hp as [Hp|[Hp|Hp]]; subst p; congruence. }
  unfold add_handler. destruct (str_eqb (fixed_prefix r) [slash] || str_eqb (fixed_prefix r) []) eqn:Eroot.
  - (* the service sits on "/" *)
    assert (Hno : mux_has m [slash] = false).
    { apply Habsent; [now apply pattern_mapped_slash|]. apply Hplain_not. auto. }
    rewrite (mux_handle_ok m [slash] TDispatch) by (discriminate || exact Hno). do 2 eexists. split; [reflexivity|].
    constructor.
    + intros [p t]. rewrite in_app_iff, Hspec. unfold mux_spec. cbn [fst snd In].
      rewrite has_rootsvc_app, Hroot, (nonroot_prefix_app_noroot reg r Hroot). unfold is_rootpat. rewrite Eroot. cbn [orb].
      rewrite Hnr. split.
      * intros [[(Ht & [[_ Hx]|Hx])|Hx]|[Hx|[]]]; try discriminate; [left; auto|right; exact Hx|injection Hx as <- <-; left; auto].
      * intros [(Ht & [[Hp _]|Hx])|Hx]; [right; left; subst; reflexivity|left; left; auto|left; right; exact Hx].
    + now apply keys_unique_snoc.
    + rewrite has_rootsvc_app. unfold is_rootpat. rewrite Eroot. now rewrite orb_true_r.
  - (* an ordinary prefix: pattern and pattern + "/" unless already mapped *)
    apply orb_false_iff in Eroot as [Er1 Er2].
    assert (Hpne : fixed_prefix r <> []) by (intros E; rewrite E in Er2; discriminate).
    set (p := fixed_prefix r) in *.
    assert (Hisroot : is_rootpat r = false) by (unfold is_rootpat; fold p; now rewrite Er1, Er2).
    (* first registration *)
    assert (S1 : exists m1, (if pattern_mapped p reg then Some m else mux_handle m p TDispatch) = Some m1 /\
                  (forall e, In e m1 <-> In e m \/ (pattern_mapped p reg = false /\ e = (p, TDispatch))) /\ keys_unique m1).
    { destruct (pattern_mapped p reg) eqn:Ep.
      - exists m. split; [reflexivity|]. split; [|exact Hkeys]. intros e. split; [auto|]. intros [H|[H _]]; [exact H|discriminate].
      - assert (Hno : mux_has m p = false) by (apply Habsent; auto; apply Hplain_not; auto).
        rewrite (mux_handle_ok m p TDispatch Hpne Hno). eexists. split; [reflexivity|]. split; [|now apply keys_unique_snoc].
        intros e. rewrite in_app_iff. cbn [In]. split; [intros [H|[H|[]]]; auto|intros [H|[_ H]]; auto]. }
    destruct S1 as (m1 & E1 & Hin1 & K1). rewrite E1.
    assert (Hfinal : forall m2 (added2 : bool),
              (forall e, In e m2 <-> In e m1 \/ (added2 = true /\ e = (p ++ [slash], TDispatch))) ->
              keys_unique m2 ->
              added2 = negb (ends_with_slash p) && negb (pattern_mapped (p ++ [slash]) reg) ->
              mux_ok m2 false (reg ++ [r]) plain).
    { intros m2 added2 Hin2 K2 Ha. constructor; [|exact K2|rewrite has_rootsvc_app, Hroot, Hisroot; reflexivity].
      intros [q t]. rewrite Hin2, Hin1, Hspec. unfold mux_spec. cbn [fst snd].
      rewrite has_rootsvc_app, Hroot, Hisroot. cbn [orb].
      rewrite (nonroot_prefix_app_noroot reg r Hroot), Hisroot, Hnr, pattern_mapped_app.
      assert (Hone : pattern_mapped q [r] = str_eqb p q || (negb (ends_with_slash p) && str_eqb (p ++ [slash]) q)).
      { unfold pattern_mapped. cbn. fold p. now rewrite orb_false_r. }
      rewrite Hone. split.
      - intros [[[(Ht & [[_ Hx]|Hx])|Hx]|(Hpm & Hx)]|(Ha2 & Hx)].
        + discriminate.
        + left. split; [exact Ht|]. right. now rewrite Hx.
        + now right.
        + injection Hx as -> ->. left. split; [reflexivity|]. right. now rewrite str_eqb_refl, orb_true_r.
        + injection Hx as -> ->. left. split; [reflexivity|]. right. rewrite Ha in Ha2. apply andb_true_iff in Ha2 as [A2 _].
          now rewrite A2, str_eqb_refl, !orb_true_r.
      - intros [(Ht & [[_ Hx]|Hx])|Hx]; [discriminate| |left; left; now right].
        destruct (pattern_mapped q reg) eqn:Eq.
        + left. left. left. split; [exact Ht|]. now right.
        + cbn [orb] in Hx. apply orb_true_iff in Hx as [Hx|Hx].
          * apply str_eqb_eq in Hx. subst q. left. right. split; [exact Eq|]. destruct t; [reflexivity|discriminate].
          * apply andb_true_iff in Hx as [A2 Hx]. apply str_eqb_eq in Hx. subst q. right.
            split; [rewrite Ha, A2, Eq; reflexivity|]. destruct t; [reflexivity|discriminate]. }
    destruct (negb (ends_with_slash p) && negb (pattern_mapped (p ++ [slash]) reg)) eqn:E2.
    + (* pattern + "/" is registered too *)
      apply andb_true_iff in E2 as [E2a E2b]. apply negb_true_iff in E2b.
      assert (Hno1 : mux_has m1 (p ++ [slash]) = false).
      { destruct (mux_has m1 (p ++ [slash])) eqn:E; [|reflexivity]. apply mux_has_In in E as (t & Hin).
        apply Hin1 in Hin as [Hin|[_ Hin]].
        - assert (mux_has m (p ++ [slash]) = true) by (apply mux_has_In; eauto).
          rewrite Habsent in H; auto. intros id. apply Hplain_not. auto.
        - injection Hin as Hin _. exfalso. apply (f_equal (@length _)) in Hin. rewrite app_length in Hin. cbn in Hin. lia. }
      rewrite (mux_handle_ok m1 (p ++ [slash]) TDispatch) by (try exact Hno1; destruct p; discriminate).
      do 2 eexists. split; [reflexivity|]. apply (Hfinal _ true).
      * intros e. rewrite in_app_iff. cbn [In]. split; [intros [H|[H|[]]]; auto|intros [H|[_ H]]; auto].
      * now apply keys_unique_snoc.
      * reflexivity.
    + do 2 eexists. split; [reflexivity|]. apply (Hfinal _ false).
      * intros e. split; [auto|]. intros [H|[H _]]; [exact H|discriminate].
      * exact K1.
      * reflexivity.
Qed.

(* once a service sits on "/", later ones add nothing *)
Lemma mux_ok_rooted_app m reg plain r : mux_ok m true reg plain -> mux_ok m true (reg ++ [r]) plain.
Proof.
  intros [Hspec Hkeys Hroot]. symmetry in Hroot. constructor; [|exact Hkeys|now rewrite has_rootsvc_app, Hroot].
  intros e. rewrite Hspec. unfold mux_spec. now rewrite has_rootsvc_app, Hroot, (nonroot_prefix_app_rooted reg r Hroot).
Qed.

Lemma rebuild_ok rest : forall m isroot reg plain,
  mux_ok m isroot reg plain -> plain_ok plain -> (forall x, In x (reg ++ rest) -> In x roots) ->
  exists m' b, rebuild rest m isroot reg = Some (m', b) /\ mux_ok m' b (reg ++ rest) plain.
Proof.
  induction rest as [|r rest IH]; intros m isroot reg plain Hok Hpl Hsub; cbn [rebuild].
  - rewrite app_nil_r. eauto.
  - assert (Hsub' : forall x, In x ((reg ++ [r]) ++ rest) -> In x roots) by (intros x; rewrite <- app_assoc; apply Hsub).
    destruct isroot.
    + destruct (IH m true (reg ++ [r]) plain (mux_ok_rooted_app _ _ _ r Hok) Hpl Hsub') as (m' & b & E & Hok').
      rewrite <- app_assoc in Hok'. eauto.
    + destruct (add_handler_ok m reg plain r Hok Hpl) as (m1 & b1 & E1 & Hok1).
      { intros x Hx. apply Hsub. rewrite in_app_iff in *. destruct Hx as [Hx|[<-|[]]]; [now left|right; now left]. }
      rewrite E1. destruct (IH m1 b1 (reg ++ [r]) plain Hok1 Hpl Hsub') as (m' & b & E & Hok').
      rewrite <- app_assoc in Hok'. eauto.
Qed.

(* a plain handler *)
Lemma handle_ok m isroot reg plain p id :
  mux_ok m isroot reg plain -> (forall x, In x reg -> In x roots) ->
  plain_compatible roots p = true -> (forall id0, ~ In (p, id0) plain) ->
  exists m', mux_handle m p (TPlain id) = Some m' /\ mux_ok m' isroot reg (plain ++ [(p, id)]).
Proof.
  intros [Hspec Hkeys Hroot] Hsub Hc Hfresh.
  assert (Hpne : p <> [] /\ p <> [slash]).
  { unfold plain_compatible in Hc. apply andb_true_iff in Hc as [Hc _]. apply andb_true_iff in Hc as [H1 H2].
    split; intros ->; discriminate. }
  assert (Hno : mux_has m p = false).
  { destruct (mux_has m p) eqn:E; [|reflexivity]. apply mux_has_In in E as (t & Hin).
    apply Hspec in Hin as [(Ht & [[Hx _]|Hx])|(id0 & Ht & Hx)]; cbn [fst snd] in *.
    - now destruct Hpne.
    - rewrite (pattern_mapped_not_plain roots p _ Hc) in Hx; [discriminate|].
      intros r Hr. apply Hsub. clear -Hr. induction reg as [|x reg IH]; cbn in *; [contradiction|].
      destruct (is_rootpat x); [contradiction|]. destruct Hr as [<-|Hr]; auto.
    - now contradiction (Hfresh id0). }
  rewrite (mux_handle_ok m p (TPlain id) (proj1 Hpne) Hno). eexists. split; [reflexivity|].
  constructor; [|now apply keys_unique_snoc|exact Hroot].
  intros [q t]. rewrite in_app_iff, Hspec. unfold mux_spec. cbn [fst snd In]. split.
  - intros [[H|(id0 & Ht & Hx)]|[H|[]]].
    + now left.
    + right. exists id0. split; [exact Ht|]. apply in_app_iff. now left.
    + injection H as <- <-. right. exists id. split; [reflexivity|]. apply in_app_iff. right. now left.
  - intros [H|(id0 & Ht & Hx)]; [left; now left|]. apply in_app_iff in Hx as [Hx|[Hx|[]]].
    + left. right. eauto.
    + injection Hx as <- <-. right. left. now rewrite Ht.
Qed.

Lemma handle_all_ok plain2 : forall m isroot reg plain,
  mux_ok m isroot reg plain -> (forall x, In x reg -> In x roots) ->
  (forall p id, In (p, id) plain2 -> plain_compatible roots p = true) ->
  NoDup (map fst (plain ++ plain2)) ->
  exists m', handle_all plain2 m = Some m' /\ mux_ok m' isroot reg (plain ++ plain2).
Proof.
  induction plain2 as [|[p id] rest IH]; intros m isroot reg plain Hok Hsub Hc Hnd; cbn [handle_all].
  - rewrite app_nil_r. eauto.
  - destruct (handle_ok m isroot reg plain p id Hok Hsub) as (m1 & E1 & Hok1).
    + apply (Hc p id). now left.
    + intros id0 Hin. rewrite map_app in Hnd. cbn in Hnd. apply NoDup_remove_2 in Hnd. apply Hnd.
      apply in_app_iff. left. apply in_map_iff. exists (p, id0). auto.
    + rewrite E1. destruct (IH m1 isroot reg (plain ++ [(p, id)]) Hok1 Hsub) as (m' & E & Hok').
      * intros q i Hin. apply (Hc q i). now right.
      * now rewrite <- app_assoc.
      * rewrite <- app_assoc in Hok'. eauto.
Qed.

End Universe.

(* ------------------------------------------------------------------ *)
(* histories *)
Lemma norm_root_idem r : norm_root (norm_root r) = norm_root r.
Proof. unfold norm_root, ws_path. destruct r; reflexivity. Qed.

Lemma assoc_obj_set_same objs root l : assoc root (obj_set objs root l) = Some l.
Proof.
  induction objs as [|[k v] objs IH]; cbn.
  - now rewrite str_eqb_refl.
  - destruct (str_eqb k root) eqn:E; cbn.
    + apply str_eqb_eq in E. subst. now rewrite str_eqb_refl.
    + rewrite str_eqb_sym, E. exact IH.
Qed.
Lemma assoc_obj_set_other objs root l x : x <> root -> assoc x (obj_set objs root l) = assoc x objs.
Proof.
  intros Hne. induction objs as [|[k v] objs IH]; cbn.
  - destruct (str_eqb x root) eqn:E; [apply str_eqb_eq in E; contradiction|reflexivity].
  - destruct (str_eqb k root) eqn:E; cbn.
    + apply str_eqb_eq in E. subst k. destruct (str_eqb x root) eqn:E2; [apply str_eqb_eq in E2; contradiction|reflexivity].
    + destruct (str_eqb x k); [reflexivity|exact IH].
Qed.
Lemma obj_set_noop objs root l : assoc root objs = Some l -> obj_set objs root l = objs.
Proof.
  induction objs as [|[k v] objs IH]; cbn; [discriminate|].
  destruct (str_eqb root k) eqn:E.
  - intros H; injection H as ->. apply str_eqb_eq in E. subst. now rewrite str_eqb_refl.
  - intros H. rewrite str_eqb_sym, E. now rewrite IH.
Qed.

Lemma mux_ok_empty : mux_ok [] false [] [].
Proof.
  constructor; [|intros p t1 t2 []|reflexivity].
  intros e. split; [intros []|]. unfold mux_spec. cbn.
  intros [(_ & [[_ H]|H])|(id & _ & [])]; discriminate.
Qed.

Lemma NoDup_snoc {A} (l : list A) x : NoDup l -> ~ In x l -> NoDup (l ++ [x]).
Proof.
  induction l as [|y l IH]; cbn; intros Hnd Hni.
  - constructor; [intros []|constructor].
  - inversion Hnd as [|? ? Hy Hl]; subst. constructor.
    + rewrite in_app_iff. intros [H|[H|[]]]; [contradiction|subst; apply Hni; now left].
    + apply IH; [exact Hl|]. intros H. apply Hni. now right.
Qed.

Lemma NoDup_filter {A} (f : A -> bool) l : NoDup l -> NoDup (filter f l).
Proof.
  induction 1 as [|x l Hx Hl IH]; cbn; [constructor|]. destruct (f x); [|exact IH].
  constructor; [|exact IH]. rewrite filter_In. tauto.
Qed.

Section History.
Variable roots : list str.         (* the roots a history may register *)
Variable plainU : list str.        (* the patterns it may hand to Container.Handle *)

Definition universe_ok : bool := forallb (plain_compatible roots) plainU.

(* the premise of the property, operation by operation (Model.Registry.reg_op_ok / reg_ops_ok) *)
Definition op_ok := reg_op_ok roots plainU.
Definition ops_ok := reg_ops_ok roots plainU.

Record cs_inv (s : cstate) : Prop := {
  ci_mux : mux_ok (cs_mux s) (cs_root s) (cs_reg s) (cs_plain s);
  ci_reg : forall x, In x (cs_reg s) -> In x roots /\ norm_root x = x /\ assoc x (cs_objs s) <> None;
  ci_regnd : NoDup (cs_reg s);
  ci_plain : forall p id, In (p, id) (cs_plain s) -> plain_compatible roots p = true;
  ci_plainnd : NoDup (map fst (cs_plain s))
}.

Lemma cs_inv_init objs : cs_inv {| cs_objs := objs; cs_reg := []; cs_mux := []; cs_root := false; cs_plain := [] |}.
Proof.
  constructor; cbn.
  - apply mux_ok_empty.
  - intros x [].
  - constructor.
  - intros p id [].
  - constructor.
Qed.

Lemma reg_sub s : cs_inv s -> forall x, In x (cs_reg s) -> In x roots.
Proof. intros H x Hx. now destruct (ci_reg s H x Hx). Qed.

Lemma step_ok s o :
  universe_ok = true -> cs_inv s -> op_ok s o = true -> exists s', cs_step s o = inl s' /\ cs_inv s'.
Proof.
  intros HU Hinv Hop. pose proof Hinv as [Hmux Hreg Hnd Hpl Hpnd].
  destruct o as [root0 routes|root0|root0 r|root0 path method|p id]; unfold op_ok in Hop; cbn [cs_step reg_op_ok] in *.
  - (* Add *)
    apply andb_true_iff in Hop as [Hnew Hin]. apply negb_true_iff in Hnew. rewrite Hnew.
    apply mem_In in Hin. set (root := norm_root root0) in *.
    assert (Hnotin : ~ In root (cs_reg s)) by (intros H; apply mem_In in H; congruence).
    set (objs' := obj_set (cs_objs s) root (obj_routes (cs_objs s) root ++ routes)).
    assert (Hreg' : forall x, In x (cs_reg s ++ [root]) -> In x roots /\ norm_root x = x /\ assoc x objs' <> None).
    { intros x Hx. apply in_app_iff in Hx as [Hx|[<-|[]]].
      - destruct (Hreg x Hx) as (A & B & C). repeat split; auto. unfold objs'. rewrite assoc_obj_set_other; [exact C|].
        intros ->. contradiction.
      - repeat split; auto; [apply norm_root_idem|]. unfold objs'. rewrite assoc_obj_set_same. discriminate. }
    pose proof (NoDup_snoc _ _ Hnd Hnotin) as Hnd'.
    destruct (cs_root s) eqn:Eroot.
    + eexists. split; [reflexivity|]. constructor; cbn [cs_mux cs_root cs_reg cs_plain cs_objs]; [apply mux_ok_rooted_app; exact Hmux|exact Hreg'|exact Hnd'|exact Hpl|exact Hpnd].
    + destruct (add_handler_ok roots (cs_mux s) (cs_reg s) (cs_plain s) root Hmux) as (m' & b & E & Hok).
      * exact Hpl.
      * intros x Hx. now destruct (Hreg' x Hx).
      * rewrite E. eexists. split; [reflexivity|]. constructor; cbn [cs_mux cs_root cs_reg cs_plain cs_objs]; [exact Hok|exact Hreg'|exact Hnd'|exact Hpl|exact Hpnd].
  - (* Remove: a new mux is built for the remaining services, then the plain handlers again *)
    set (root := norm_root root0). set (remaining := filter (fun r => negb (str_eqb r root)) (cs_reg s)).
    assert (Hrem : forall x, In x remaining -> In x (cs_reg s)) by (intros x Hx; apply filter_In in Hx; tauto).
    destruct (rebuild_ok roots remaining [] false [] [] mux_ok_empty) as (m1 & b & E1 & Hok1).
    + intros q i [].
    + intros x Hx. cbn in Hx. now apply (reg_sub s Hinv), Hrem.
    + rewrite E1. cbn [app] in Hok1.
      destruct (handle_all_ok roots (cs_plain s) m1 b remaining [] Hok1) as (m2 & E2 & Hok2).
      * intros x Hx. now apply (reg_sub s Hinv), Hrem.
      * exact Hpl.
      * exact Hpnd.
      * rewrite E2. eexists. split; [reflexivity|].
        constructor; cbn [cs_mux cs_root cs_reg cs_plain cs_objs]; [exact Hok2|intros x Hx; apply Hreg, Hrem, Hx|now apply NoDup_filter|exact Hpl|exact Hpnd].
  - (* Route *)
    eexists. split; [reflexivity|]. constructor; cbn [cs_mux cs_root cs_reg cs_plain cs_objs]; [exact Hmux| |exact Hnd|exact Hpl|exact Hpnd].
    intros x Hx. destruct (Hreg x Hx) as (A & B & C). repeat split; auto.
    destruct (str_eqb_spec x (norm_root root0)) as [->|Hne].
    + rewrite assoc_obj_set_same. discriminate.
    + now rewrite assoc_obj_set_other.
  - (* RemoveRoute *)
    eexists. split; [reflexivity|]. constructor; cbn [cs_mux cs_root cs_reg cs_plain cs_objs]; [exact Hmux| |exact Hnd|exact Hpl|exact Hpnd].
    intros x Hx. destruct (Hreg x Hx) as (A & B & C). repeat split; auto.
    destruct (str_eqb_spec x (norm_root root0)) as [->|Hne].
    + rewrite assoc_obj_set_same. discriminate.
    + now rewrite assoc_obj_set_other.
  - (* Handle *)
    apply andb_true_iff in Hop as [Hin Hfresh]. apply mem_In in Hin. apply negb_true_iff in Hfresh.
    assert (Hc : plain_compatible roots p = true).
    { unfold universe_ok in HU. rewrite forallb_forall in HU. now apply HU. }
    assert (Hnot : forall id0, ~ In (p, id0) (cs_plain s)).
    { intros id0 Hx. assert (existsb (fun ph => str_eqb (fst ph) p) (cs_plain s) = true); [|congruence].
      apply existsb_exists. exists (p, id0). split; [exact Hx|apply str_eqb_refl]. }
    destruct (handle_ok roots (cs_mux s) (cs_root s) (cs_reg s) (cs_plain s) p id Hmux (reg_sub s Hinv) Hc Hnot) as (m' & E & Hok).
    rewrite E. eexists. split; [reflexivity|]. constructor; cbn [cs_mux cs_root cs_reg cs_plain cs_objs]; [exact Hok|exact Hreg|exact Hnd| |].
    + intros q i Hx. apply in_app_iff in Hx as [Hx|[Hx|[]]]; [eauto|]. now injection Hx as <- <-.
    + rewrite map_app. cbn. apply NoDup_snoc; [exact Hpnd|]. intros Hx. apply in_map_iff in Hx as ([q i] & Hq & Hx).
      cbn in Hq. subst q. now apply (Hnot i).
Qed.

Lemma run_ok ops : forall s k,
  universe_ok = true -> cs_inv s -> ops_ok s ops = true -> exists s', cs_run s ops k = (s', None) /\ cs_inv s'.
Proof.
  induction ops as [|o rest IH]; intros s k HU Hinv Hok; unfold ops_ok in *; cbn [cs_run reg_ops_ok] in *; [eauto|].
  apply andb_true_iff in Hok as [Hop Hrest]. destruct (step_ok s o HU Hinv Hop) as (s1 & E & Hinv1).
  rewrite E in *. now apply IH.
Qed.

(* building the fresh container: the registered services one by one ... *)
Lemma fresh_adds rest : forall s k,
  universe_ok = true -> cs_inv s -> NoDup (cs_reg s ++ rest) ->
  (forall x, In x rest -> In x roots /\ norm_root x = x /\ assoc x (cs_objs s) <> None) ->
  exists s', cs_run s (map (fun root => RAdd root []) rest) k = (s', None) /\ cs_inv s' /\
             cs_reg s' = cs_reg s ++ rest /\ cs_objs s' = cs_objs s /\ cs_plain s' = cs_plain s.
Proof.
  induction rest as [|r rest IH]; intros s k HU Hinv Hnd Hrest; cbn [map cs_run].
  - exists s. rewrite app_nil_r. auto.
  - destruct (Hrest r (or_introl eq_refl)) as (Hr1 & Hr2 & Hr3).
    assert (Hop : op_ok s (RAdd r []) = true).
    { cbn. rewrite Hr2. apply andb_true_iff. split.
      - apply negb_true_iff. destruct (mem r (cs_reg s)) eqn:E; [|reflexivity]. apply mem_In in E.
        apply NoDup_remove_2 in Hnd. exfalso. apply Hnd. apply in_app_iff. now left.
      - now apply mem_In. }
    destruct (step_ok s (RAdd r []) HU Hinv Hop) as (s1 & E & Hinv1). rewrite E.
    assert (Hs1 : cs_reg s1 = cs_reg s ++ [r] /\ cs_objs s1 = cs_objs s /\ cs_plain s1 = cs_plain s).
    { cbn [cs_step] in E. rewrite Hr2 in E.
      assert (Hobj : obj_set (cs_objs s) r (obj_routes (cs_objs s) r ++ []) = cs_objs s).
      { rewrite app_nil_r. unfold obj_routes. destruct (assoc r (cs_objs s)) as [l|] eqn:Ea; [|now contradiction Hr3].
        now apply obj_set_noop. }
      rewrite Hobj in E. destruct (mem r (cs_reg s)); [discriminate|]. destruct (cs_root s).
      - injection E as <-. auto.
      - destruct (add_handler r (cs_mux s) (cs_reg s)) as [[m b]|]; [|discriminate]. injection E as <-. auto. }
    destruct Hs1 as (R1 & O1 & P1).
    destruct (IH s1 (S k) HU Hinv1) as (s2 & E2 & Hinv2 & R2 & O2 & P2).
    + rewrite R1, <- app_assoc. exact Hnd.
    + intros x Hx. rewrite O1. apply Hrest. now right.
    + exists s2. rewrite E2, R2, O2, P2, R1, O1, P1, <- app_assoc. auto.
Qed.

(* ... then the plain handlers *)
Lemma fresh_handles rest : forall s k,
  universe_ok = true -> cs_inv s -> NoDup (map fst (cs_plain s ++ rest)) ->
  (forall p id, In (p, id) rest -> In p plainU) ->
  exists s', cs_run s (map (fun ph => RHandle (fst ph) (snd ph)) rest) k = (s', None) /\ cs_inv s' /\
             cs_reg s' = cs_reg s /\ cs_objs s' = cs_objs s /\ cs_plain s' = cs_plain s ++ rest.
Proof.
  induction rest as [|[p id] rest IH]; intros s k HU Hinv Hnd Hrest; cbn [map cs_run fst snd].
  - exists s. rewrite app_nil_r. auto.
  - assert (Hop : op_ok s (RHandle p id) = true).
    { cbn. apply andb_true_iff. split; [apply mem_In; eapply Hrest; now left|].
      apply negb_true_iff. destruct (existsb (fun ph => str_eqb (fst ph) p) (cs_plain s)) eqn:E; [|reflexivity].
      apply existsb_exists in E as ([q i] & Hq & Hx). cbn in Hx. apply str_eqb_eq in Hx. subst q.
      rewrite map_app in Hnd. cbn in Hnd. apply NoDup_remove_2 in Hnd. exfalso. apply Hnd. apply in_app_iff. left.
      apply in_map_iff. exists (p, i). auto. }
    destruct (step_ok s (RHandle p id) HU Hinv Hop) as (s1 & E & Hinv1). rewrite E.
    assert (Hs1 : cs_reg s1 = cs_reg s /\ cs_objs s1 = cs_objs s /\ cs_plain s1 = cs_plain s ++ [(p, id)]).
    { cbn [cs_step] in E. destruct (mux_handle (cs_mux s) p (TPlain id)); [|discriminate]. injection E as <-. auto. }
    destruct Hs1 as (R1 & O1 & P1).
    destruct (IH s1 (S k) HU Hinv1) as (s2 & E2 & Hinv2 & R2 & O2 & P2).
    + rewrite P1, <- app_assoc. exact Hnd.
    + intros q i Hx. eapply Hrest. right. exact Hx.
    + exists s2. rewrite E2, R2, O2, P2, R1, O1, P1, <- app_assoc. auto.
Qed.

Lemma plain_in_universe s : cs_inv s -> True. Proof. auto. Qed.

(* two states with the same registered roots, objects and plain handlers, both satisfying the
   invariant, answer every request alike *)
Lemma same_content_same_answers O rt s1 s2 req :
  cs_inv s1 -> cs_inv s2 -> cs_reg s1 = cs_reg s2 -> cs_objs s1 = cs_objs s2 -> cs_plain s1 = cs_plain s2 ->
  serve_http O rt s1 req = serve_http O rt s2 req /\ serve_dispatch O rt s1 req = serve_dispatch O rt s2 req.
Proof.
  intros H1 H2 Hr Ho Hp.
  assert (Ht : cs_table rt s1 = cs_table rt s2) by (unfold cs_table; now rewrite Hr, Ho).
  split; [|unfold serve_dispatch; now rewrite Ht].
  unfold serve_http. rewrite Ht.
  destruct (ci_mux s1 H1) as [S1 K1 _]. destruct (ci_mux s2 H2) as [S2 K2 _].
  rewrite (mux_serve_equiv (cs_mux s1) (cs_mux s2)); auto.
  intros e. rewrite S1, S2, Hr, Hp. tauto.
Qed.

End History.

(* the plain patterns a history registers are those it hands to Handle *)
Fixpoint handled (ops : list regop) : list str :=
  match ops with
  | [] => []
  | RHandle p _ :: rest => p :: handled rest
  | _ :: rest => handled rest
  end.

Lemma plain_sub ops : forall s k s',
  cs_run s ops k = (s', None) ->
  forall p id, In (p, id) (cs_plain s') -> In (p, id) (cs_plain s) \/ In p (handled ops).
Proof.
  induction ops as [|o rest IH]; intros s k s' Hrun p id Hin; cbn [cs_run handled] in *.
  - injection Hrun as <-. now left.
  - destruct (cs_step s o) as [s1|f] eqn:E; [|discriminate].
    destruct (IH s1 (S k) s' Hrun p id Hin) as [H|H].
    + destruct o; cbn [cs_step] in E.
      * destruct (mem _ _); [discriminate|]. destruct (cs_root s); [injection E as <-; now left|].
        destruct (add_handler _ _ _) as [[m b]|]; [|discriminate]. injection E as <-. now left.
      * destruct (rebuild _ _ _ _) as [[m b]|]; [|discriminate]. destruct (handle_all _ _); [|discriminate]. injection E as <-. now left.
      * injection E as <-. now left.
      * injection E as <-. now left.
      * destruct (mux_handle _ _ _); [|discriminate]. injection E as <-. cbn in H. apply in_app_iff in H as [H|[H|[]]].
        -- now left.
        -- injection H as <- <-. right. now left.
    + right. destruct o; cbn; auto.
Qed.

(* ------------------------------------------------------------------ *)
(* C11 *)
Theorem registration_equals_fresh (O : oracles) (rt : router) (roots plainU : list str) (ops : list regop) :
  universe_ok roots plainU = true -> (forall p, In p (handled ops) -> In p plainU) ->
  ops_ok roots plainU cs_init ops = true ->
  exists s sf,
    cs_run cs_init ops 0 = (s, None) /\ cs_fresh s = (sf, None) /\
    forall req, serve_http O rt s req = serve_http O rt sf req /\ serve_dispatch O rt s req = serve_dispatch O rt sf req.
Proof.
  intros HU Hhandled Hok.
  destruct (run_ok roots plainU ops cs_init 0 HU (cs_inv_init roots [])) as (s & Hrun & Hinv); [exact Hok|].
  exists s. unfold cs_fresh.
  set (s0 := {| cs_objs := cs_objs s; cs_reg := []; cs_mux := []; cs_root := false; cs_plain := [] |}).
  (* the adds *)
  assert (Hrun_app : forall a b st k st1, cs_run st a k = (st1, None) -> cs_run st (a ++ b) k = cs_run st1 b (k + length a)).
  { induction a as [|o a IH]; intros b st k st1 H; cbn [cs_run app length] in *.
    - injection H as <-. now rewrite Nat.add_0_r.
    - destruct (cs_step st o) as [st'|f]; [|discriminate]. rewrite (IH b st' (S k) st1 H). f_equal. lia. }
  destruct (fresh_adds roots plainU (cs_reg s) s0 0 HU (cs_inv_init roots (cs_objs s))) as (s1 & E1 & Hinv1 & R1 & O1 & P1).
  { cbn. apply (ci_regnd _ s Hinv). }
  { intros x Hx. cbn. apply (ci_reg _ s Hinv x Hx). }
  rewrite (Hrun_app _ _ _ _ _ E1).
  destruct (fresh_handles roots plainU (cs_plain s) s1 (0 + length (map (fun root => RAdd root []) (cs_reg s))) HU Hinv1)
    as (s2 & E2 & Hinv2 & R2 & O2 & P2).
  { rewrite P1. cbn. apply (ci_plainnd _ s Hinv). }
  { intros p id Hx. apply Hhandled. destruct (plain_sub ops cs_init 0 s Hrun p id Hx) as [[]|H]. exact H. }
  exists s2. split; [exact Hrun|]. split; [exact E2|].
  intros req. apply (same_content_same_answers roots O rt s s2 req Hinv Hinv2).
  - rewrite R2, R1. reflexivity.
  - rewrite O2, O1. reflexivity.
  - rewrite P2, P1. reflexivity.
Qed.

(* adding WebServices with pairwise different roots never panics or exits, whatever their
   templates have in common *)
Theorem adds_never_fail (roots : list str) (routes : str -> list route) :
  NoDup (map norm_root roots) ->
  exists s, cs_run cs_init (map (fun r => RAdd r (routes r)) roots) 0 = (s, None) /\ cs_reg s = map norm_root roots.
Proof.
  intros Hnd.
  assert (G : forall rest s k, cs_inv (map norm_root roots) s -> NoDup (cs_reg s ++ map norm_root rest) ->
              (forall x, In x rest -> In (norm_root x) (map norm_root roots)) ->
              exists s', cs_run s (map (fun r => RAdd r (routes r)) rest) k = (s', None) /\ cs_reg s' = cs_reg s ++ map norm_root rest).
  { induction rest as [|r rest IH]; intros s k Hinv Hn Hsub; cbn [map cs_run].
    - exists s. now rewrite app_nil_r.
    - assert (Hop : op_ok (map norm_root roots) [] s (RAdd r (routes r)) = true).
      { cbn. apply andb_true_iff. split.
        - apply negb_true_iff. destruct (mem (norm_root r) (cs_reg s)) eqn:E; [|reflexivity]. apply mem_In in E.
          cbn in Hn. apply NoDup_remove_2 in Hn. exfalso. apply Hn. apply in_app_iff. now left.
        - apply mem_In. apply Hsub. now left. }
      destruct (step_ok (map norm_root roots) [] s (RAdd r (routes r)) eq_refl Hinv Hop) as (s1 & E & Hinv1). rewrite E.
      assert (R1 : cs_reg s1 = cs_reg s ++ [norm_root r]).
      { cbn [cs_step] in E. destruct (mem _ _); [discriminate|]. destruct (cs_root s); [injection E as <-; reflexivity|].
        destruct (add_handler _ _ _) as [[m b]|]; [|discriminate]. injection E as <-. reflexivity. }
      destruct (IH s1 (S k) Hinv1) as (s2 & E2 & R2).
      + rewrite R1, <- app_assoc. exact Hn.
      + intros x Hx. apply Hsub. now right.
      + exists s2. rewrite E2, R2, R1, <- app_assoc. auto. }
  destruct (G roots cs_init 0 (cs_inv_init _ [])) as (s & E & R); [exact Hnd| |eauto].
  intros x Hx. now apply in_map.
Qed.

(* ---- histories with refused calls ---- *)
Lemma cs_run_index_irrelevant ops : forall s k k',
  fst (cs_run s ops k) = fst (cs_run s ops k') /\
  (snd (cs_run s ops k) = None <-> snd (cs_run s ops k') = None).
Proof.
  induction ops as [|o ops IH]; intros s k k'; cbn [cs_run]; [split; [reflexivity|tauto]|].
  destruct (cs_step s o) as [s1|f]; [apply IH|]. cbn. split; [reflexivity|]. split; discriminate.
Qed.

(* the state after a history with refused calls is the state after the history without them, and one fails iff the
   other does: theorem C11 (registration_equals_fresh) speaks about it through [accepted_ops] *)
Theorem run_skip_is_run_of_accepted ops : forall s k anom,
  fst (fst (cs_run_skip s ops k anom)) = fst (cs_run s (accepted_ops ops) 0) /\
  (snd (fst (cs_run_skip s ops k anom)) = None <-> snd (cs_run s (accepted_ops ops) 0) = None).
Proof.
  unfold accepted_ops.
  induction ops as [|[refused o] ops IH]; intros s k anom; cbn [cs_run_skip filter map fst snd negb cs_run].
  - split; [reflexivity|tauto].
  - destruct refused; cbn [negb filter map cs_run].
    + destruct (cs_step s o); apply IH.
    + cbn [snd]. destruct (cs_step s o) as [s1|f].
      * destruct (IH s1 (S k) anom) as [E1 E2].
        destruct (cs_run_index_irrelevant (map snd (filter (fun x => negb (fst x)) ops)) s1 0 1) as [F1 F2].
        rewrite E1, E2, F1, F2. split; [reflexivity|tauto].
      * cbn. split; [reflexivity|]. split; discriminate.
Qed.

(* a refused call the model agrees had to be refused leaves no anomaly: the count only grows where the model would
   have carried the call out *)
Lemma run_skip_anomalies_monotone ops : forall s k anom, anom <= snd (cs_run_skip s ops k anom).
Proof.
  induction ops as [|[refused o] ops IH]; intros s k anom; cbn [cs_run_skip]; [apply le_n|].
  destruct refused, (cs_step s o); cbn [snd]; try apply IH; try apply le_n.
  eapply Nat.le_trans; [apply Nat.le_succ_diag_r|apply IH].
Qed.

(* SlashServeProofs.v — C14 through Container.ServeHTTP: whenever the mux built by ANY registration history hands
   both p and p/ to the container's dispatch, the two answers are the same. *)
From Model Require Import Str Sexp Http Template Table Curly DetectRoute Jsr311 Router Registry.
From Spec Require Import RouteSpec.
From Proofs Require Import TemplateFacts RouterProofs JsrProofs SlashJsrProofs.

Section P.
Variable O : oracles.

Lemma cs_table_router rt s : t_router (cs_table rt s) = rt.
Proof. reflexivity. Qed.

Theorem curly_slash_servehttp s req p :
  existsb (fun x => negb (Ascii.eqb x slash)) p = true ->
  mux_serve (cs_mux s) p = MTarget TDispatch ->
  mux_serve (cs_mux s) (p ++ [slash]) = MTarget TDispatch ->
  serve_http O Curly s (with_path req (p ++ [slash])) = serve_http O Curly s (with_path req p).
Proof.
  intros Hp H1 H2. unfold serve_http. cbn [rq_path with_path]. rewrite H1, H2. f_equal.
  apply (curly_trailing_slash O (cs_table Curly s) req p (cs_table_router Curly s) Hp).
Qed.

Theorem jsr_slash_servehttp s req p :
  table_plain O (cs_table Jsr311 s) = true -> ends_slash p = false -> p <> [] ->
  mux_serve (cs_mux s) p = MTarget TDispatch ->
  mux_serve (cs_mux s) (p ++ [slash]) = MTarget TDispatch ->
  serve_http O Jsr311 s (with_path req (p ++ [slash])) = serve_http O Jsr311 s (with_path req p).
Proof.
  intros Ht He Hn H1 H2. unfold serve_http. cbn [rq_path with_path]. rewrite H1, H2. f_equal.
  apply (jsr_trailing_slash O (cs_table Jsr311 s) req p (cs_table_router Jsr311 s) Ht He Hn).
Qed.

End P.

(* PoolProofs.v — C13 on the transition system of Pool.v *)
From Model Require Import Pool.
From Coq Require Import List Arith Bool Lia Permutation.
Import ListNotations.

(* ---- list plumbing ---- *)
Lemma nth_error_set_nth {A} (l : list A) i j x :
  nth_error (set_nth i x l) j = if Nat.eqb i j then (match nth_error l i with Some _ => Some x | None => None end) else nth_error l j.
Proof.
  revert i j. induction l as [|y l IH]; intros i j; cbn.
  - destruct (Nat.eqb i j); destruct i, j; reflexivity.
  - destruct i, j; cbn; try reflexivity. apply IH.
Qed.

Lemma set_nth_split {A} (l : list A) i x c :
  nth_error l i = Some c -> exists a b, l = a ++ c :: b /\ set_nth i x l = a ++ x :: b /\ length a = i.
Proof.
  revert i. induction l as [|y l IH]; intros [|i]; cbn; try discriminate.
  - intros H; injection H as ->. exists [], l. auto.
  - intros H. destruct (IH i H) as (a & b & -> & E & L). exists (y :: a), b. cbn. rewrite E, L. auto.
Qed.

Lemma length_set_nth {A} (l : list A) i x : length (set_nth i x l) = length l.
Proof. revert i. induction l as [|y l IH]; intros [|i]; cbn; auto. Qed.

(* ---- non-blocking ---- *)
Lemma nb_client_step cap ch next c :
  nb_prog (c_prog c) = true -> unfinished c = true ->
  exists ch' next' c', client_step cap ch next c = Some (ch', next', c') /\ nb_prog (c_prog c') = true.
Proof.
  unfold nb_prog, unfinished, client_step. destruct (c_prog c) as [|p k]; [discriminate|]. cbn [forallb].
  intros H _. apply andb_true_iff in H as [Hp Hk].
  destruct p; cbn in Hp; try discriminate.
  - destruct ch; eauto 6.
  - destruct (Nat.ltb (length ch) cap); [|eauto 6]. do 3 eexists. split; [reflexivity|]. cbn. now rewrite forallb_app, Hp, Hk.
  - destruct (Nat.ltb (length ch) cap); eauto 6.
  - destruct ch; eauto 6.
  - eauto 6.
Qed.

Definition all_nb (s : pstate) : Prop := Forall (fun c => nb_prog (c_prog c) = true) (ps_clients s).

Lemma Forall_set_nth {A} (P : A -> Prop) l i x : Forall P l -> P x -> Forall P (set_nth i x l).
Proof.
  intros H Hx. revert i. induction H as [|y l Hy Hl IH]; intros [|i]; cbn; constructor; auto.
Qed.

Lemma all_nb_step s i s' : all_nb s -> pstep_at s i = Some s' -> all_nb s'.
Proof.
  unfold all_nb, pstep_at. intros H. destruct (nth_error (ps_clients s) i) as [c|] eqn:E; [|discriminate].
  assert (Hc : nb_prog (c_prog c) = true) by (rewrite Forall_forall in H; apply H; eauto using nth_error_In).
  destruct (client_step (ps_cap s) (ps_chan s) (ps_next s) c) as [[[ch next] c']|] eqn:Es; [|discriminate].
  intros Hs; injection Hs as <-. cbn. apply Forall_set_nth; [exact H|].
  destruct (unfinished c) eqn:Eu.
  - destruct (nb_client_step (ps_cap s) (ps_chan s) (ps_next s) c Hc Eu) as (a & b & c2 & E2 & N2). congruence.
  - unfold unfinished in Eu. unfold client_step in Es. destruct (c_prog c); [discriminate|discriminate].
Qed.

Lemma all_nb_run sched s : all_nb s -> all_nb (prun s sched).
Proof.
  revert s. induction sched as [|i rest IH]; intros s H; cbn; [exact H|].
  destruct (pstep_at s i) eqn:E; eauto using all_nb_step.
Qed.

Lemma all_nb_init cap progs : Forall (fun p => nb_prog p = true) progs -> all_nb (pinit cap progs).
Proof. unfold all_nb, pinit. cbn. intros H. rewrite Forall_map. exact H. Qed.

(* in every reachable state, under every schedule, for every capacity and every number of
   clients: no client is ever blocked *)
Theorem nonblocking cap progs sched i :
  Forall (fun p => nb_prog p = true) progs -> blocked (prun (pinit cap progs) sched) i = false.
Proof.
  intros H. pose proof (all_nb_run sched _ (all_nb_init cap progs H)) as Hall.
  set (s := prun (pinit cap progs) sched) in *. unfold blocked.
  destruct (nth_error (ps_clients s) i) as [c|] eqn:E; [|reflexivity].
  destruct (unfinished c) eqn:Eu; [|reflexivity]. cbn.
  assert (Hc : nb_prog (c_prog c) = true) by (unfold all_nb in Hall; rewrite Forall_forall in Hall; apply Hall; eauto using nth_error_In).
  destruct (nb_client_step (ps_cap s) (ps_chan s) (ps_next s) c Hc Eu) as (a & b & c2 & E2 & _).
  unfold pstep_at. now rewrite E, E2.
Qed.

Lemma rounds_nb acq rel n : nb_prog acq = true -> nb_prog rel = true -> nb_prog (rounds_prog acq rel n) = true.
Proof. intros Ha Hr. induction n; cbn; [reflexivity|]. unfold nb_prog in *. now rewrite !forallb_app, Ha, Hr, IHn. Qed.

(* ---- exclusivity: no object is idle and held, or held twice, in any reachable state ---- *)
Definition held_of (c : client) : list nat := match c_held c with Some x => [x] | None => [] end.
Definition cnt (l : list nat) (x : nat) : nat := count_occ Nat.eq_dec l x.

Lemma cnt_app a b x : cnt (a ++ b) x = cnt a x + cnt b x.
Proof. apply count_occ_app. Qed.
Lemma cnt_cons y l x : cnt (y :: l) x = (if Nat.eq_dec y x then 1 else 0) + cnt l x.
Proof. unfold cnt. cbn. destruct (Nat.eq_dec y x); reflexivity. Qed.
Lemma cnt_nil x : cnt [] x = 0. Proof. reflexivity. Qed.

Lemma held_list_split a c b :
  flat_map held_of (a ++ c :: b) = flat_map held_of a ++ held_of c ++ flat_map held_of b.
Proof. now rewrite flat_map_app. Qed.

(* every object identity occurs at most once among the idle and the held ones, and all
   identities in use are below the next fresh one *)
Definition excl (s : pstate) : Prop :=
  (forall x, cnt (ps_chan s) x + cnt (held_list s) x <= 1) /\ (forall x, 0 < cnt (ps_chan s) x + cnt (held_list s) x -> x < ps_next s).

Lemma excl_step s i s' : excl s -> pstep_at s i = Some s' -> excl s'.
Proof.
  unfold pstep_at. intros [H1 H2]. destruct (nth_error (ps_clients s) i) as [c|] eqn:E; [|discriminate].
  destruct (client_step (ps_cap s) (ps_chan s) (ps_next s) c) as [[[ch next] c']|] eqn:Es; [|discriminate].
  intros Hs; injection Hs as <-.
  destruct (set_nth_split (ps_clients s) i c' c E) as (a & b & Hcs & Hset & _).
  unfold excl, held_list in *. cbn [ps_chan ps_next ps_clients]. rewrite Hset. rewrite Hcs in H1, H2.
  rewrite held_list_split in *.
  assert (K1 : forall x, cnt (ps_chan s) x + (cnt (flat_map held_of a) x + (cnt (held_of c) x + cnt (flat_map held_of b) x)) <= 1)
    by (intros x; specialize (H1 x); now rewrite !cnt_app in H1).
  assert (K2 : forall x, 0 < cnt (ps_chan s) x + (cnt (flat_map held_of a) x + (cnt (held_of c) x + cnt (flat_map held_of b) x)) -> x < ps_next s)
    by (intros x; specialize (H2 x); now rewrite !cnt_app in H2).
  clear H1 H2.
  assert (G : forall x,
     (cnt ch x + (cnt (flat_map held_of a) x + (cnt (held_of c') x + cnt (flat_map held_of b) x)) <= 1) /\ (0 < cnt ch x + (cnt (flat_map held_of a) x + (cnt (held_of c') x + cnt (flat_map held_of b) x)) -> x < next)).
  { intros x.
    assert (Kfresh : x = ps_next s -> cnt (ps_chan s) x + (cnt (flat_map held_of a) x + (cnt (held_of c) x + cnt (flat_map held_of b) x)) = 0).
    { intros ->. pose proof (K2 (ps_next s)) as Kn. lia. }
    specialize (K1 x). specialize (K2 x).
    unfold client_step in Es. destruct (c_prog c) as [|p k]; [discriminate|].
    destruct p.
    - destruct (ps_chan s) as [|y chs] eqn:Ech; injection Es as <- <- <-; unfold held_of in *; cbn [c_held] in *.
      + rewrite ?cnt_cons, ?cnt_nil in *. destruct (Nat.eq_dec (ps_next s) x); destruct (c_held c); rewrite ?cnt_cons, ?cnt_nil in *; try destruct (Nat.eq_dec n x); lia.
      + rewrite ?cnt_cons, ?cnt_nil in *. destruct (Nat.eq_dec y x); destruct (c_held c); rewrite ?cnt_cons, ?cnt_nil in *; try destruct (Nat.eq_dec n x); lia.
    - destruct (Nat.ltb (length (ps_chan s)) (ps_cap s)); injection Es as <- <- <-; unfold held_of in *; cbn [c_held] in *.
      + lia.
      + destruct (c_held c); rewrite ?cnt_cons, ?cnt_nil in *; try destruct (Nat.eq_dec n x); lia.
    - destruct (Nat.ltb (length (ps_chan s)) (ps_cap s)); [|discriminate]. injection Es as <- <- <-; unfold held_of in *; cbn [c_held] in *.
      destruct (c_held c); rewrite ?cnt_app, ?cnt_cons, ?cnt_nil in *; try destruct (Nat.eq_dec n x); lia.
    - destruct (Nat.ltb (length (ps_chan s)) (ps_cap s)); injection Es as <- <- <-; unfold held_of in *; cbn [c_held] in *;
      destruct (c_held c); rewrite ?cnt_app, ?cnt_cons, ?cnt_nil in *; try destruct (Nat.eq_dec n x); lia.
    - destruct (ps_chan s) as [|y chs] eqn:Ech; injection Es as <- <- <-; unfold held_of in *; cbn [c_held] in *.
      + rewrite ?cnt_cons, ?cnt_nil in *. destruct (Nat.eq_dec (ps_next s) x); destruct (c_held c); rewrite ?cnt_cons, ?cnt_nil in *; try destruct (Nat.eq_dec n x); lia.
      + rewrite ?cnt_cons, ?cnt_nil in *. destruct (Nat.eq_dec y x); destruct (c_held c); rewrite ?cnt_cons, ?cnt_nil in *; try destruct (Nat.eq_dec n x); lia.
    - injection Es as <- <- <-; unfold held_of in *; cbn [c_held] in *.
      destruct (c_held c); rewrite ?cnt_app, ?cnt_cons, ?cnt_nil in *; try destruct (Nat.eq_dec n x); lia.
    - discriminate. }
  split; intros x; rewrite !cnt_app; apply G.
Qed.

Lemma excl_run sched s : excl s -> excl (prun s sched).
Proof.
  revert s. induction sched as [|i rest IH]; intros s H; cbn; [exact H|].
  destruct (pstep_at s i) eqn:E; eauto using excl_step.
Qed.

Lemma cnt_seq_le n k x : cnt (seq k n) x <= 1.
Proof.
  revert k. induction n as [|n IH]; intros k; cbn [seq]; [cbn; lia|]. rewrite cnt_cons.
  destruct (Nat.eq_dec k x) as [->|]; [|specialize (IH (S k)); lia].
  assert (cnt (seq (S x) n) x = 0); [|lia]. apply count_occ_not_In. rewrite in_seq. lia.
Qed.

Lemma excl_init cap progs : excl (pinit cap progs).
Proof.
  unfold excl, pinit, held_list. cbn [ps_chan ps_next ps_clients].
  assert (Hh : forall x, cnt (flat_map (fun c => match c_held c with Some x0 => [x0] | None => [] end)
                    (map (fun p => {| c_held := None; c_prog := p |}) progs)) x = 0).
  { intros x. induction progs as [|p l IH]; cbn; auto. }
  split; intros x; rewrite Hh.
  - pose proof (cnt_seq_le cap 0 x). lia.
  - intros H. assert (In x (seq 0 cap)) by (apply (count_occ_In Nat.eq_dec); unfold cnt in H; lia).
    apply in_seq in H0. lia.
Qed.

(* whatever the programs (even blocking ones), whatever the schedule: the provider never
   hands out an object that is still held, and no object is idle twice *)
Theorem exclusivity cap progs sched :
  NoDup (ps_chan (prun (pinit cap progs) sched) ++ held_list (prun (pinit cap progs) sched)).
Proof.
  destruct (excl_run sched _ (excl_init cap progs)) as [H _].
  apply (NoDup_count_occ Nat.eq_dec). intros x. specialize (H x). fold (cnt (ps_chan (prun (pinit cap progs) sched) ++ held_list (prun (pinit cap progs) sched)) x).
  rewrite cnt_app. exact H.
Qed.

(* ---- the check-then-send release blocks: capacity 1, two clients ---- *)
Definition acq_prog : list pstep := [PTryRecvElseNew].
Definition rel_check_then_send : list pstep := [PIfLenLtCap [PSend]].

Theorem check_then_send_deadlocks :
  exists sched,
    deadlocked (prun (pinit 1 [rounds_prog acq_prog rel_check_then_send 1; rounds_prog acq_prog rel_check_then_send 1]) sched) = true.
Proof. exists [0; 1; 0; 1; 0]. vm_compute. reflexivity. Qed.

(* RankProofs.v — C03: the web-service score and its maximisation *)
From Model Require Import Str Sexp Http Template Table Curly DetectRoute Jsr311 Router.
From Spec Require Import RouteSpec RankSpec.
From Proofs Require Import StrFacts.
From Coq Require Import Lia.

Section P.
Variable O : oracles.

(* ---- detectWebService returns a claiming service of maximal score ---- *)
Lemma detect_ws_loop_max qts wss best score w :
  (match best with
   | Some b => fst (compute_webservice_score O qts (tokenize (s_root b))) = true
               /\ score = Z.of_nat (snd (compute_webservice_score O qts (tokenize (s_root b))))
   | None => score = (-1)%Z
   end) ->
  detect_ws_loop O qts wss best score = Some w ->
  fst (compute_webservice_score O qts (tokenize (s_root w))) = true /\
  (Z.le score (Z.of_nat (snd (compute_webservice_score O qts (tokenize (s_root w)))))) /\
  forall w', In w' wss -> fst (compute_webservice_score O qts (tokenize (s_root w'))) = true ->
             snd (compute_webservice_score O qts (tokenize (s_root w'))) <=
             snd (compute_webservice_score O qts (tokenize (s_root w))).
Proof.
  revert best score. induction wss as [|x wss IH]; intros best score Hb; cbn [detect_ws_loop].
  - intros ->. destruct Hb as [Hb1 Hb2]. split; [exact Hb1|]. split; [lia|]. intros w' [].
  - destruct (compute_webservice_score O qts (tokenize (s_root x))) as [m sc] eqn:Ex.
    destruct (m && Z.ltb score (Z.of_nat sc)) eqn:Ec.
    + apply andb_true_iff in Ec as [-> Hlt]. apply Z.ltb_lt in Hlt.
      intros H. apply IH in H; [|rewrite Ex; cbn; split; reflexivity].
      destruct H as (H1 & H2 & H3). split; [exact H1|]. split; [lia|].
      intros w' [<-|Hin] Hc; [rewrite Ex; cbn; lia|now apply H3].
    + intros H. pose proof H as H'. apply IH in H; [|exact Hb].
      destruct H as (H1 & H2 & H3). split; [exact H1|]. split; [exact H2|].
      intros w' [<-|Hin] Hc; [|now apply H3]. rewrite Ex in *. cbn in Hc. subst m. cbn [andb] in Ec.
      apply Z.ltb_ge in Ec. cbn [snd]. lia.
Qed.

Lemma detect_ws_loop_In' qts wss best score w :
  detect_ws_loop O qts wss best score = Some w -> In w wss \/ best = Some w.
Proof.
  revert best score; induction wss as [|x wss IH]; intros best score; cbn [detect_ws_loop]; [auto|].
  destruct (compute_webservice_score O qts (tokenize (s_root x))) as [m sc].
  destruct (m && Z.ltb score (Z.of_nat sc)); intros H; apply IH in H as [H|H]; auto.
  - left; now right.
  - injection H as ->. left; now left.
  - left; now right.
Qed.

Theorem detect_web_service_max qts wss w :
  detect_web_service O qts wss = Some w ->
  In w wss /\ fst (compute_webservice_score O qts (tokenize (s_root w))) = true /\
  forall w', In w' wss -> fst (compute_webservice_score O qts (tokenize (s_root w'))) = true ->
             snd (compute_webservice_score O qts (tokenize (s_root w'))) <=
             snd (compute_webservice_score O qts (tokenize (s_root w))).
Proof.
  unfold detect_web_service. intros H. split.
  - apply detect_ws_loop_In' in H as [H|H]; [exact H|discriminate].
  - apply detect_ws_loop_max in H; [|reflexivity]. destruct H as (H1 & _ & H3). auto.
Qed.

(* ---- the score as a sum of per-position weights ---- *)
(* weight of root token [other] against request token [each] at position i of n; None = no match *)
Definition tok_weight (n i : nat) (each other : str) : option nat :=
  match each, other with
  | [], [] => Some 1
  | _, _ =>
    if has_prefix other [lbrace] then
      match each with
      | [] => None
      | _ => match index_char other colon with
             | Some c => if fst (regular_matches_path_token O other c each) then Some 1 else None
             | None => Some 1
             end
      end
    else if str_eqb each other then Some ((n - i) * 10) else None
  end.

Fixpoint weights (n i : nat) (qts toks : list str) {struct toks} : option nat :=
  match toks with
  | [] => Some 0
  | other :: toks' =>
    match qts with
    | [] => None
    | each :: qts' =>
      match tok_weight n i each other, weights n (S i) qts' toks' with
      | Some a, Some b => Some (a + b)
      | _, _ => None
      end
    end
  end.

Lemma ws_score_loop_weights n qts toks i score :
  fst (ws_score_loop O n qts toks i score) = true ->
  exists s, weights n i qts toks = Some s /\ snd (ws_score_loop O n qts toks i score) = score + s.
Proof.
  revert qts i score. induction toks as [|other toks IH]; intros qts i score; cbn [ws_score_loop weights].
  - intros _. exists 0. split; [reflexivity|cbn; lia].
  - destruct qts as [|each qts]; [discriminate|]. unfold tok_weight.
    destruct each as [|e0 er], other as [|o0 or].
    + intros H. destruct (IH _ _ _ H) as (s & Hs & Hsc). exists (1 + s). rewrite Hs. split; [reflexivity|]. rewrite Hsc. lia.
    + destruct (has_prefix (o0 :: or) [lbrace]); [discriminate|].
      destruct (str_eqb [] (o0 :: or)) eqn:E; [apply str_eqb_eq in E; discriminate|discriminate].
    + cbn [has_prefix]. destruct (str_eqb (e0 :: er) []) eqn:E; [apply str_eqb_eq in E; discriminate|discriminate].
    + destruct (has_prefix (o0 :: or) [lbrace]).
      * destruct (index_char (o0 :: or) colon) as [c|].
        -- destruct (fst (regular_matches_path_token O (o0 :: or) c (e0 :: er))); [|discriminate].
           intros H. destruct (IH _ _ _ H) as (s & Hs & Hsc). exists (1 + s). rewrite Hs. split; [reflexivity|]. rewrite Hsc. lia.
        -- intros H. destruct (IH _ _ _ H) as (s & Hs & Hsc). exists (1 + s). rewrite Hs. split; [reflexivity|]. rewrite Hsc. lia.
      * destruct (str_eqb (e0 :: er) (o0 :: or)); [|discriminate].
        intros H. destruct (IH _ _ _ H) as (s & Hs & Hsc). exists ((n - i) * 10 + s). rewrite Hs. split; [reflexivity|]. rewrite Hsc. lia.
Qed.

Lemma score_weights qts toks :
  fst (compute_webservice_score O qts toks) = true ->
  List.length toks <= List.length qts /\
  exists s, weights (List.length toks) 0 qts toks = Some s /\ snd (compute_webservice_score O qts toks) = s.
Proof.
  unfold compute_webservice_score. destruct (Nat.ltb (List.length qts) (List.length toks)) eqn:E; [discriminate|].
  apply Nat.ltb_ge in E. intros H. split; [exact E|].
  destruct (ws_score_loop_weights _ _ _ _ _ H) as (s & Hs & Hsc). exists s. split; [exact Hs|]. rewrite Hsc. lia.
Qed.

(* weights of a concatenation *)
Lemma weights_app n i qts a b s :
  weights n i qts (a ++ b) = Some s ->
  exists sa sb, weights n i (firstn (List.length a) qts) a = Some sa
                /\ weights n (i + List.length a) (skipn (List.length a) qts) b = Some sb /\ s = sa + sb.
Proof.
  revert i qts s. induction a as [|x a IH]; intros i qts s; cbn [app List.length firstn skipn weights].
  - intros H. exists 0, s. rewrite Nat.add_0_r. auto.
  - destruct qts as [|q qts]; [discriminate|].
    destruct (tok_weight n i q x) as [wx|] eqn:Ex; [|discriminate].
    destruct (weights n (S i) qts (a ++ b)) as [r|] eqn:Er; [|discriminate]. intros [= <-].
    destruct (IH _ _ _ Er) as (sa & sb & Ha & Hb & ->). exists (wx + sa), sb.
    rewrite Ha. replace (i + S (List.length a)) with (S i + List.length a) by lia.
    split; [reflexivity|]. split; [exact Hb|lia].
Qed.

(* a larger n only raises weights (same tokens, same positions) *)
Lemma weights_mono n n' i qts toks s :
  n <= n' -> weights n i qts toks = Some s -> exists s', weights n' i qts toks = Some s' /\ s <= s'.
Proof.
  intros Hn. revert i qts s. induction toks as [|x toks IH]; intros i qts s; cbn [weights].
  - intros [= <-]. exists 0. auto.
  - destruct qts as [|q qts]; [discriminate|].
    destruct (tok_weight n i q x) as [wx|] eqn:Ex; [|discriminate].
    destruct (weights n (S i) qts toks) as [r|] eqn:Er; [|discriminate]. intros [= <-].
    destruct (IH _ _ _ Er) as (r' & Hr' & Hle). rewrite Hr'.
    assert (Hw : exists wx', tok_weight n' i q x = Some wx' /\ wx <= wx').
    { unfold tok_weight in *. destruct q, x; try (eexists; split; [eassumption|lia]).
      - destruct (has_prefix (a :: x) [lbrace]); [discriminate|]. destruct (str_eqb [] (a :: x)); [|discriminate].
        injection Ex as <-. eexists; split; [reflexivity|nia].
      - cbn [has_prefix] in *. destruct (str_eqb (a :: q) []); [|discriminate]. injection Ex as <-. eexists; split; [reflexivity|nia].
      - destruct (has_prefix (a0 :: x) [lbrace]).
        + eexists; split; [eassumption|lia].
        + destruct (str_eqb (a :: q) (a0 :: x)); [|discriminate]. injection Ex as <-. eexists; split; [reflexivity|nia]. }
    destruct Hw as (wx' & Hwx & Hle'). rewrite Hwx. eexists; split; [reflexivity|lia].
Qed.

Lemma weights_pos n i qts toks s :
  toks <> [] -> i + List.length toks <= n -> weights n i qts toks = Some s -> 1 <= s.
Proof.
  destruct toks as [|x toks]; [congruence|]. intros _ Hlen. cbn [weights List.length] in *.
  destruct qts as [|q qts]; [discriminate|].
  destruct (tok_weight n i q x) as [wx|] eqn:Ex; [|discriminate].
  destruct (weights n (S i) qts toks) as [r|]; [|discriminate]. intros [= <-].
  assert (1 <= wx); [|lia]. unfold tok_weight in Ex.
  destruct q, x; try (injection Ex as <-; lia).
  - destruct (has_prefix (a :: x) [lbrace]); [discriminate|]. destruct (str_eqb [] (a :: x)); [|discriminate]. injection Ex as <-. nia.
  - cbn [has_prefix] in Ex. destruct (str_eqb (a :: q) []); [|discriminate]. injection Ex as <-. nia.
  - destruct (has_prefix (a0 :: x) [lbrace]).
    + destruct (index_char (a0 :: x) colon); [destruct (fst _); [|discriminate]|]; injection Ex as <-; lia.
    + destruct (str_eqb (a :: q) (a0 :: x)); [|discriminate]. injection Ex as <-. nia.
Qed.

Theorem score_longer_root_beats_prefix qts root ext :
  ext <> [] ->
  fst (compute_webservice_score O qts root) = true ->
  fst (compute_webservice_score O qts (root ++ ext)) = true ->
  snd (compute_webservice_score O qts root) < snd (compute_webservice_score O qts (root ++ ext)).
Proof.
  intros Hext H1 H2.
  destruct (score_weights _ _ H1) as (Hl1 & s1 & Hw1 & ->).
  destruct (score_weights _ _ H2) as (Hl2 & s2 & Hw2 & ->).
  destruct (weights_app _ _ _ _ _ _ Hw2) as (sa & sb & Ha & Hb & ->).
  rewrite app_length in *.
  (* the prefix part: same tokens against the same request tokens, larger n *)
  assert (Hsame : exists sa', weights (List.length root + List.length ext) 0 qts root = Some sa' /\ s1 <= sa').
  { apply (weights_mono (List.length root)); [lia|exact Hw1]. }
  destruct Hsame as (sa' & Hsa' & Hle).
  assert (Hfirst : forall n i q t, weights n i (firstn (List.length t) q) t = weights n i q t \/ weights n i q t = None).
  { intros n i q t. revert n i q. induction t as [|x t IHt]; intros n i q; [left; reflexivity|].
    destruct q as [|q0 q]; [left; reflexivity|]. cbn [List.length firstn weights].
    destruct (tok_weight n i q0 x); [|right; reflexivity].
    destruct (IHt n (S i) q) as [-> | ->]; [left|right]; reflexivity. }
  destruct (Hfirst (List.length root + List.length ext) 0 qts root) as [Hf|Hf]; [|congruence].
  rewrite Hf, Hsa' in Ha. injection Ha as <-.
  assert (1 <= sb) by (eapply weights_pos; [exact Hext| |exact Hb]; lia). lia.
Qed.

Theorem score_literal_beats_variable qts pre post lit var :
  has_prefix var [lbrace] = true -> index_char var colon = None ->
  has_prefix lit [lbrace] = false ->
  fst (compute_webservice_score O qts (pre ++ lit :: post)) = true ->
  fst (compute_webservice_score O qts (pre ++ var :: post)) = true ->
  snd (compute_webservice_score O qts (pre ++ var :: post)) <
  snd (compute_webservice_score O qts (pre ++ lit :: post)).
Proof.
  intros Hv Hvc Hl H1 H2.
  destruct (score_weights _ _ H1) as (Hl1 & s1 & Hw1 & ->).
  destruct (score_weights _ _ H2) as (Hl2 & s2 & Hw2 & ->).
  rewrite !app_length in *. cbn [List.length] in *.
  destruct (weights_app _ _ _ _ _ _ Hw1) as (sa & sb & Ha & Hb & ->).
  destruct (weights_app _ _ _ _ _ _ Hw2) as (sa' & sb' & Ha' & Hb' & ->).
  rewrite Ha in Ha'. injection Ha' as <-.
  cbn [weights] in Hb, Hb'.
  destruct (skipn (List.length pre) qts) as [|q qrest]; [discriminate|].
  destruct (tok_weight _ _ q lit) as [wl|] eqn:El; [|discriminate].
  destruct (tok_weight _ _ q var) as [wv|] eqn:Ev; [|discriminate].
  destruct (weights _ _ qrest post) as [r|]; [|discriminate].
  injection Hb as <-. injection Hb' as <-.
  assert (wv = 1).
  { unfold tok_weight in Ev. destruct q, var; try (injection Ev as <-; reflexivity); try discriminate;
      rewrite Hv in Ev; try discriminate. rewrite Hvc in Ev. now injection Ev as <-. }
  assert (10 <= wl).
  { unfold tok_weight in El. rewrite Hl in El. destruct q, lit; try discriminate.
    - unfold tok_weight in Ev. destruct var; [discriminate|]. rewrite Hv in Ev. discriminate.
    - destruct (str_eqb (a :: q) (a0 :: lit)); [|discriminate]. injection El as <-. nia. }
  lia.
Qed.

End P.

(* SlashJsrProofs.v — C14 for RouterJSR311: appending one "/" to the request path changes nothing
   (templates without tail wildcard, regex variables that do not match the empty string). *)
From Model Require Import Str Sexp Http Template Table Curly DetectRoute Jsr311 Router.
From Spec Require Import RouteSpec.
From Proofs Require Import StrFacts RouterProofs JsrProofs.
From Coq Require Import Lia.

Section Slash.
Variable O : oracles.

Lemma span_seg_app_slash p1 seg rest :
  span_seg p1 = (seg, rest) -> span_seg (p1 ++ [slash]) = (seg, rest ++ [slash]).
Proof.
  revert seg rest. induction p1 as [|c p IH]; intros seg rest H; cbn in *.
  - injection H as <- <-. reflexivity.
  - destruct (Ascii.eqb c slash); [injection H as <- <-; reflexivity|].
    destruct (span_seg p) as [a b]. injection H as <- <-. now rewrite (IH a b eq_refl).
Qed.

(* the compiled expression on p ++ "/": the same captures, the final group one slash longer *)
Lemma jsr_match_app_slash toks : forall p,
  forallb (etok_plain O) toks = true ->
  jsr_match O toks (p ++ [slash]) =
    match jsr_match O toks p with Some (caps, fin) => Some (caps, fin ++ [slash]) | None => None end.
Proof.
  induction toks as [|t toks IH]; intros p Hpl.
  - destruct p as [|c p]; [reflexivity|]. cbn [app jsr_match].
    destruct (Ascii.eqb c slash); reflexivity.
  - cbn [forallb] in Hpl. apply andb_true_iff in Hpl as [Ht Hrest].
    destruct p as [|c p1].
    + (* the path ended: the extra slash opens an empty segment, which no plain token accepts *)
      cbn [app jsr_match]. rewrite Ascii.eqb_refl. cbn [negb span_seg].
      destruct t; cbn in Ht; try discriminate Ht; cbn [str_eqb].
      * destruct s; [discriminate Ht|reflexivity].
      * reflexivity.
      * apply negb_true_iff in Ht. now rewrite Ht.
    + cbn [app jsr_match]. destruct (Ascii.eqb c slash); [|reflexivity]. cbn [negb].
      destruct t; cbn in Ht; try discriminate Ht.
      * destruct (span_seg p1) as [seg rest] eqn:Es. rewrite (span_seg_app_slash p1 seg rest Es).
        destruct (negb (str_eqb seg s)); [reflexivity|]. rewrite (IH rest Hrest).
        destruct (jsr_match O toks rest) as [[caps fin]|]; reflexivity.
      * destruct (span_seg p1) as [seg rest] eqn:Es. rewrite (span_seg_app_slash p1 seg rest Es).
        destruct (negb (negb (str_eqb seg []))); [reflexivity|]. rewrite (IH rest Hrest).
        destruct (jsr_match O toks rest) as [[caps fin]|]; reflexivity.
      * destruct (span_seg p1) as [seg rest] eqn:Es. rewrite (span_seg_app_slash p1 seg rest Es).
        destruct (negb (o_rxfull O re seg)); [reflexivity|]. rewrite (IH rest Hrest).
        destruct (jsr_match O toks rest) as [[caps fin]|]; reflexivity.
Qed.

(* the final group is what is left of the path *)
Lemma span_seg_app p1 seg rest : span_seg p1 = (seg, rest) -> p1 = seg ++ rest.
Proof.
  revert seg rest. induction p1 as [|c p IH]; intros seg rest H; cbn in H.
  - injection H as <- <-. reflexivity.
  - destruct (Ascii.eqb c slash); [injection H as <- <-; reflexivity|].
    destruct (span_seg p) as [a b]. injection H as <- <-. cbn. now rewrite (IH a b eq_refl).
Qed.

Lemma jsr_match_final_suffix toks : forall p caps fin,
  jsr_match O toks p = Some (caps, fin) -> exists pre, p = pre ++ fin.
Proof.
  induction toks as [|t toks IH]; intros p caps fin H.
  - destruct p as [|c p]; cbn [jsr_match] in H.
    + injection H as <- <-. exists []. reflexivity.
    + destruct (Ascii.eqb c slash); [|discriminate H]. injection H as <- <-. exists []. reflexivity.
  - destruct p as [|c p1]; [cbn in H; discriminate H|]. cbn [jsr_match] in H.
    destruct (Ascii.eqb c slash); cbn [negb] in H; [|discriminate H].
    destruct t.
    + destruct (span_seg p1) as [seg rest] eqn:Es. destruct (negb (str_eqb seg s)); [discriminate H|].
      destruct (jsr_match O toks rest) as [[caps' fin']|] eqn:Em; [|discriminate H]. injection H as <- <-.
      destruct (IH rest caps' fin' Em) as (pre & ->). exists (c :: seg ++ pre).
      rewrite (span_seg_app p1 seg _ Es). cbn. now rewrite <- app_assoc.
    + destruct (span_seg p1) as [seg rest] eqn:Es. destruct (negb (negb (str_eqb seg []))); [discriminate H|].
      destruct (jsr_match O toks rest) as [[caps' fin']|] eqn:Em; [|discriminate H]. injection H as <- <-.
      destruct (IH rest caps' fin' Em) as (pre & ->). exists (c :: seg ++ pre).
      rewrite (span_seg_app p1 seg _ Es). cbn. now rewrite <- app_assoc.
    + destruct (span_seg p1) as [seg rest] eqn:Es. destruct (negb (o_rxfull O re seg)); [discriminate H|].
      destruct (jsr_match O toks rest) as [[caps' fin']|] eqn:Em; [|discriminate H]. injection H as <- <-.
      destruct (IH rest caps' fin' Em) as (pre & ->). exists (c :: seg ++ pre).
      rewrite (span_seg_app p1 seg _ Es). cbn. now rewrite <- app_assoc.
    + destruct toks; [|discriminate H]. injection H as <- <-.
      exists (c :: p1). now rewrite app_nil_r.
Qed.

Definition ends_slash (p : str) : bool := match rev p with c :: _ => Ascii.eqb c slash | [] => false end.

Lemma ends_slash_suffix pre fin : fin <> [] -> ends_slash (pre ++ fin) = ends_slash fin.
Proof.
  intros H. unfold ends_slash. rewrite rev_app_distr. destruct (rev fin) as [|c l] eqn:E; [|reflexivity].
  apply (f_equal (@rev _)) in E. rewrite rev_involutive in E. now contradiction H.
Qed.

(* ---- the dispatcher ---- *)
Definition slash_rel (c c' : disp_cand) : Prop :=
  dc_ws c' = dc_ws c /\ dc_final c' = dc_final c ++ [slash] /\ dc_matches c' = dc_matches c /\
  dc_literal c' = dc_literal c /\ dc_nondef c' = dc_nondef c.

Lemma dc_lt_slash a a' b b' : slash_rel a a' -> slash_rel b b' -> dc_lt a' b' = dc_lt a b.
Proof. intros (_ & _ & A1 & A2 & A3) (_ & _ & B1 & B2 & B3). unfold dc_lt. now rewrite A1, A2, A3, B1, B2, B3. Qed.

Lemma insert_desc_slash x x' l l' :
  slash_rel x x' -> Forall2 slash_rel l l' -> Forall2 slash_rel (insert_desc dc_lt x l) (insert_desc dc_lt x' l').
Proof.
  intros Hx H. induction H as [|y y' l l' Hy Hl IH]; cbn.
  - constructor; [exact Hx|constructor].
  - rewrite (dc_lt_slash y y' x x' Hy Hx). destruct (dc_lt y x).
    + constructor; [exact Hx|]. constructor; assumption.
    + constructor; [exact Hy|exact IH].
Qed.

Lemma sort_desc_slash l l' : Forall2 slash_rel l l' -> Forall2 slash_rel (sort_desc dc_lt l) (sort_desc dc_lt l').
Proof.
  unfold sort_desc. intros H.
  assert (G : forall acc acc', Forall2 slash_rel acc acc' ->
              Forall2 slash_rel (fold_left (fun a x => insert_desc dc_lt x a) l acc) (fold_left (fun a x => insert_desc dc_lt x a) l' acc')).
  { induction H as [|x x' l l' Hx Hl IH]; intros acc acc' Ha; cbn [fold_left]; [exact Ha|]. apply IH. now apply insert_desc_slash. }
  apply G. constructor.
Qed.

Lemma dispatcher_cands_slash p wss :
  forallb (fun w => template_plain O (s_root w)) wss = true ->
  Forall2 slash_rel (dispatcher_cands O p wss) (dispatcher_cands O (p ++ [slash]) wss).
Proof.
  unfold dispatcher_cands. induction wss as [|w wss IH]; intros H; cbn [flat_map forallb] in *; [constructor|].
  apply andb_true_iff in H as [Hw Hrest]. cbn zeta. unfold template_plain in Hw.
  rewrite (jsr_match_app_slash _ p Hw).
  destruct (jsr_match O (pe_toks (path_expression (s_root w))) p) as [[caps fin]|]; cbn [app]; [|now apply IH].
  constructor; [|now apply IH]. unfold slash_rel. cbn. auto.
Qed.

Lemma detect_dispatcher_slash p wss :
  forallb (fun w => template_plain O (s_root w)) wss = true ->
  detect_dispatcher O (p ++ [slash]) wss =
    match detect_dispatcher O p wss with Some (w, fin) => Some (w, fin ++ [slash]) | None => None end.
Proof.
  intros H. unfold detect_dispatcher. pose proof (sort_desc_slash _ _ (dispatcher_cands_slash p wss H)) as Hs.
  destruct (sort_desc dc_lt (dispatcher_cands O p wss)) as [|c l];
  destruct (sort_desc dc_lt (dispatcher_cands O (p ++ [slash]) wss)) as [|c' l']; inversion Hs as [|? ? ? ? Hc Hl]; subst; [reflexivity|].
  destruct Hc as (A & B & _). now rewrite A, B.
Qed.

(* ---- the routes of the dispatcher, on the root's final group ---- *)
Lemma jsr_select_routes_slash w fin :
  forallb (fun r => template_plain O (r_rel r)) (s_routes w) = true ->
  ends_slash fin = false ->
  jsr_select_routes O w (fin ++ [slash]) = jsr_select_routes O w fin.
Proof.
  intros Hpl Hend. unfold jsr_select_routes. f_equal.
  induction (s_routes w) as [|r l IH]; cbn [flat_map forallb] in *; [reflexivity|].
  apply andb_true_iff in Hpl as [Hr Hrest]. rewrite (IH Hrest). f_equal. cbn zeta. unfold template_plain in Hr.
  rewrite (jsr_match_app_slash _ fin Hr).
  destruct (jsr_match O (pe_toks (path_expression (r_rel r))) fin) as [[caps fin2]|] eqn:Em; [|reflexivity].
  (* the route's final group: "" before, "/" after; "/" before is impossible (the path would end in "/") *)
  destruct (jsr_match_final_suffix _ _ _ _ Em) as (pre & Hp).
  unfold final_ok. destruct fin2 as [|c2 f2].
  - cbn. reflexivity.
  - assert (Hne : c2 :: f2 <> []) by discriminate. rewrite Hp, (ends_slash_suffix pre (c2 :: f2) Hne) in Hend.
    destruct (str_eqb (c2 :: f2) [slash]) eqn:E1.
    + apply str_eqb_eq in E1. rewrite E1 in Hend. discriminate Hend.
    + assert (E2 : str_eqb ((c2 :: f2) ++ [slash]) [slash] = false).
      { destruct (str_eqb ((c2 :: f2) ++ [slash]) [slash]) eqn:E2; [|reflexivity].
        apply str_eqb_eq in E2. apply (f_equal (@length _)) in E2. rewrite app_length in E2. cbn in E2. lia. }
      rewrite E2. reflexivity.
Qed.

Lemma dispatcher_in path wss w fin : detect_dispatcher O path wss = Some (w, fin) -> In w wss.
Proof. intros H. now destruct (detect_dispatcher_sound O path wss w fin H). Qed.

(* C14, RouterJSR311: the same route (or the same error), the same parameters *)
Theorem jsr_trailing_slash t req p :
  t_router t = Jsr311 -> table_plain O t = true -> ends_slash p = false -> p <> [] ->
  route_request O t (with_path req (p ++ [slash])) = route_request O t (with_path req p).
Proof.
  intros Hr Hpl Hend Hne. unfold route_request, select_route. rewrite Hr. cbn [with_path rq_path].
  assert (Hroots : forallb (fun w => template_plain O (s_root w)) (t_services t) = true).
  { unfold table_plain in Hpl. rewrite forallb_forall in *. intros w Hw. specialize (Hpl w Hw). now apply andb_true_iff in Hpl as [A _]. }
  rewrite (detect_dispatcher_slash p _ Hroots).
  destruct (detect_dispatcher O p (t_services t)) as [[w fin]|] eqn:Ed; [|reflexivity].
  assert (Hw : forallb (fun r => template_plain O (r_rel r)) (s_routes w) = true).
  { unfold table_plain in Hpl. rewrite forallb_forall in Hpl. specialize (Hpl w (dispatcher_in _ _ _ _ Ed)). now apply andb_true_iff in Hpl as [_ B]. }
  assert (Hfin : ends_slash fin = false).
  { destruct (detect_dispatcher_sound O p _ w fin Ed) as (_ & caps & Hm).
    destruct (jsr_match_final_suffix _ _ _ _ Hm) as (pre & Hp). destruct fin as [|c f]; [reflexivity|].
    rewrite Hp, ends_slash_suffix in Hend by discriminate. exact Hend. }
  rewrite (jsr_select_routes_slash w fin Hw Hfin).
  destruct (jsr_select_routes O w fin) as [|c0 cs] eqn:Ec; [reflexivity|]. rewrite <- Ec.
  rewrite !detect_route_with_path.
  destruct (detect_route (map rc_route (jsr_select_routes O w fin)) req) as [r|e] eqn:Edr; [|reflexivity].
  (* the parameters: the captures do not change *)
  unfold extract_parameters. rewrite Hr. unfold jsr_extract_parameters. cbv zeta.
  assert (Hwpl : template_plain O (s_root w) = true).
  { rewrite forallb_forall in Hroots. apply Hroots. exact (dispatcher_in _ _ _ _ Ed). }
  unfold template_plain in Hwpl. rewrite (jsr_match_app_slash _ p Hwpl).
  destruct (detect_dispatcher_sound O p _ w fin Ed) as (_ & caps & Hm). rewrite Hm.
  assert (Hrpl : template_plain O (r_rel r) = true).
  { apply detect_route_inl in Edr as (Hin & _). apply in_map_iff in Hin as (c & <- & Hcin).
    apply jsr_select_routes_sound in Hcin as (Hrin & _). rewrite forallb_forall in Hw. now apply Hw. }
  unfold template_plain in Hrpl. rewrite (jsr_match_app_slash _ fin Hrpl).
  destruct (jsr_match O (pe_toks (path_expression (r_rel r))) fin) as [[rcaps rfin]|]; reflexivity.
Qed.

End Slash.

(* EntityProofs.v — C16: the glue of ReadEntity around the codecs *)
From Model Require Import Str Sexp Entity.
From Proofs Require Import StrFacts.

Section Entity.
Variable V : Type.
Variable decode : codec -> str -> option V.
Variable gunzip inflate : str -> option str.
Variable inflate_open : str -> bool.
Variable marshal : codec -> V -> str.              (* EntityReaderWriter.Write, either pretty setting *)
Variable gzip deflate : str -> str.

(* the codec contracts (premises, not proved: they are the standard library's) *)
Hypothesis decode_marshal : forall c v, decode c (marshal c v) = Some v.
Hypothesis gunzip_gzip : forall b, gunzip (gzip b) = Some b.
Hypothesis inflate_deflate : forall b, inflate (deflate b) = Some b /\ inflate_open (deflate b) = true.

Definition encode_body (ce : str) (b : str) : str :=
  if str_eqb ce (L "gzip") then gzip b else if str_eqb ce (L "deflate") then deflate b else b.

(* write then read: whatever the pooled reader held before, whatever else is registered, for
   every Content-Type that resolves to the codec the value was written with (exact key or a
   spelling with parameters), every declared encoding *)
Theorem round_trip reg dflt ct ce c v pooled pick :
  pick (accessor_at reg ct) = Some c ->
  fst (read_entity V decode gunzip inflate inflate_open reg dflt ct ce (encode_body ce (marshal c v)) pooled pick) = ROk v.
Proof.
  intros Hp. unfold read_entity, entity_lookup, entity_bytes, entity_result, encode_body. cbn [fst]. rewrite Hp.
  destruct (str_eqb ce (L "gzip")) eqn:Eg.
  - rewrite andb_false_r. cbn [andb negb]. unfold gz_read_all, gz_reset. cbn. rewrite gunzip_gzip. cbn. now rewrite decode_marshal.
  - destruct (str_eqb ce (L "deflate")) eqn:Ed.
    + destruct (inflate_deflate (marshal c v)) as [E1 E2]. rewrite E1, E2. cbn. now rewrite decode_marshal.
    + cbn. now rewrite decode_marshal.
Qed.

(* the answer never depends on what an earlier request left in the pooled reader *)
Theorem pooled_state_irrelevant reg dflt ct ce body p1 p2 pick :
  read_entity V decode gunzip inflate inflate_open reg dflt ct ce body p1 pick =
  read_entity V decode gunzip inflate inflate_open reg dflt ct ce body p2 pick.
Proof. unfold read_entity, entity_bytes, gz_read_all, gz_reset. reflexivity. Qed.

(* a broken body or label yields an error value, never the panic outcome; the gzip reader is
   acquired exactly when the label is "gzip" (and released by the deferred call) *)
Theorem never_panics reg dflt ct ce body pooled pick :
  fst (read_entity V decode gunzip inflate inflate_open reg dflt ct ce body pooled pick) <> RPanicked /\
  snd (read_entity V decode gunzip inflate inflate_open reg dflt ct ce body pooled pick) = str_eqb ce (L "gzip").
Proof.
  unfold read_entity. cbn [fst snd]. split; [|reflexivity]. unfold entity_result.
  destruct (str_eqb ce (L "deflate") && negb (str_eqb ce (L "gzip")) && negb (inflate_open body)); [discriminate|].
  destruct (entity_lookup reg dflt ct pick) as [c|]; destruct (entity_bytes gunzip inflate inflate_open ce body pooled) as [b|];
    try discriminate.
  destruct (decode c b); discriminate.
Qed.

(* a Content-Type with parameters resolves to the one registered key it contains *)
Theorem accessor_with_parameters (reg : registry) k c params :
  assoc (k ++ params) reg = None ->
  (forall k' c', In (k', c') reg -> contains (k ++ params) k' = true -> k' = k) ->
  In (k, c) reg -> (forall c', In (k, c') reg -> c' = c) ->
  forall x, In x (accessor_at reg (k ++ params)) -> x = c.
Proof.
  intros Hn Honly Hin Huniq x Hx. unfold accessor_at in Hx. rewrite Hn in Hx.
  apply in_map_iff in Hx as ([k' c'] & <- & Hf). apply filter_In in Hf as [Hf1 Hf2]. cbn in *.
  pose proof (Honly k' c' Hf1 Hf2). subst k'. now apply Huniq.
Qed.

End Entity.

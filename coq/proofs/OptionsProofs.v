(* OptionsProofs.v — C09 (preflight) and C17 (Allow headers tell the truth) *)
From Model Require Import Str Sexp Http Cors Template Table Curly DetectRoute Jsr311 Router Options.
From Spec Require Import CorsSpec RouteSpec.
From Proofs Require Import StrFacts CorsProofs RouterProofs OutcomeProofs.
From Coq Require Import Lia Permutation.

(* ------------------------------ C09 ------------------------------ *)
Section C09.
Variable O : oracles.

Lemma opts_suffix_keys_nodup c origin : NoDup (map fst (opts_suffix O c origin)).
Proof.
  unfold opts_suffix, set_options_headers, hadd.
  destruct (c_expose c); destruct (is_origin_allowed O c origin); destruct (c_cookies c);
    destruct (Z.ltb 0 (c_maxage c)); cbn;
    repeat (constructor; [cbn; intros H; repeat (destruct H as [H|H]; [discriminate H|]); exact H|]);
    constructor.
Qed.

Lemma C09_proof :
  forall (c : cors_cfg) (computed : list str) (req : request),
    let origin := hget req H_Origin in
    allowed O c origin ->
    let d := cors_decide O c computed req in
    if is_preflight req then
      snd d = false /\
      (forall (resp : Type) (add : headers -> resp -> resp) (r : resp) next next',
          cors_filter O add c computed req r next = cors_filter O add c computed req r next') /\
      fst d = if preflight_grantedb O c computed req
              then [(H_ACAllowMethods, join [comma] (match c_methods c with [] => computed | m => m end));
                    (H_ACAllowHeaders, hget req H_ACRequestHeaders)] ++ opts_suffix O c origin
              else []
    else
      snd d = true /\ fst d = opts_suffix O c origin /\
      (forall (resp : Type) (add : headers -> resp -> resp) (r : resp) next,
          cors_filter O add c computed req r next = next req (add (opts_suffix O c origin) r)).
Proof.
  intros c computed req origin Hall d.
  pose proof (cors_decide_cases O c computed req) as Hc. cbn zeta in Hc. fold origin in Hc.
  apply allowedb_spec in Hall. rewrite Hall in Hc. cbn [negb] in Hc.
  subst d. destruct (is_preflight req); cbn [negb] in Hc.
  - destruct (preflight_grantedb O c computed req); rewrite Hc; cbn [fst snd];
      (split; [reflexivity|]); (split; [|reflexivity]); intros; unfold cors_filter; rewrite Hc; reflexivity.
  - rewrite Hc. cbn [fst snd]. split; [reflexivity|]. split; [reflexivity|].
    intros. unfold cors_filter. rewrite Hc. reflexivity.
Qed.

(* the boolean test is the property's condition *)
Lemma preflight_granted_spec c computed req :
  preflight_grantedb O c computed req = true <->
  In (hget req H_ACRequestMethod) (match c_methods c with [] => computed | m => m end) /\
  (forall hd, In hd (requested_headers req) ->
     In (L "*") (c_headers c) \/ exists e, In e (c_headers c) /\ o_lower O e = o_lower O hd).
Proof.
  unfold preflight_grantedb. rewrite andb_true_iff, mem_In, forallb_forall.
  split; intros [H1 H2]; (split; [exact H1|]); intros hd Hin; specialize (H2 hd Hin).
  - unfold header_allowedb in H2. apply orb_true_iff in H2 as [H2|H2]; [left; now apply mem_In|].
    right. apply existsb_exists in H2 as (e & He & Heq). exists e. split; [exact He|]. now apply str_eqb_eq.
  - unfold header_allowedb. apply orb_true_iff. destruct H2 as [H2|(e & He & Heq)]; [left; now apply mem_In|].
    right. apply existsb_exists. exists e. split; [exact He|]. now apply str_eqb_eq.
Qed.
End C09.

(* ------------------------------ C17 ------------------------------ *)
Definition with_method (req : request) (m : str) : request :=
  {| rq_method := m; rq_path := rq_path req; rq_headers := rq_headers req; rq_clen := rq_clen req |}.

Definition is_404_405 (d : route + rerr) : bool :=
  match d with inr E404 => true | inr (E405 _) => true | _ => false end.

Lemma detect_route_not_404_405 l req :
  filter (fun r => str_eqb (rq_method req) (r_method r)) (filter (fun r => forallb (fun b => b) (r_conds r)) l) <> [] ->
  is_404_405 (detect_route l req) = false.
Proof.
  unfold detect_route. intros H1.
  destruct (filter (fun r => forallb (fun b => b) (r_conds r)) l) as [|a0 c0'] eqn:E0; [cbn in H1; congruence|].
  rewrite <- E0 in *.
  destruct (filter (fun r => str_eqb (rq_method req) (r_method r)) _) as [|a1 c1'] eqn:E1; [congruence|]. rewrite <- E1.
  repeat match goal with |- context [match ?x with _ => _ end] => destruct x; try reflexivity end.
Qed.

Definition conds_ok (l : list route) : list route := filter (fun r => forallb (fun b => b) (r_conds r)) l.
Definition with_m (m : str) (l : list route) : list route := filter (fun r => str_eqb m (r_method r)) l.

Lemma detect_route_405_inv l req allow :
  detect_route l req = inr (E405 allow) ->
  conds_ok l <> [] /\ with_m (rq_method req) (conds_ok l) = [] /\ allow = dedup (map r_method (conds_ok l)) [].
Proof.
  unfold detect_route, conds_ok, with_m.
  destruct (filter (fun r => forallb (fun b => b) (r_conds r)) l) as [|a0 c0'] eqn:E0; [discriminate|]. rewrite <- E0.
  destruct (filter (fun r => str_eqb (rq_method req) (r_method r)) _) as [|a1 c1'] eqn:E1.
  - intros [= <-]. rewrite E0. split; [discriminate|]. split; reflexivity.
  - rewrite <- E1. intros H. exfalso. revert H.
    repeat match goal with |- context [match ?x with _ => _ end] => destruct x; try discriminate end.
Qed.

Lemma detect_route_405_when l req :
  conds_ok l <> [] -> with_m (rq_method req) (conds_ok l) = [] ->
  detect_route l req = inr (E405 (dedup (map r_method (conds_ok l)) [])).
Proof.
  unfold detect_route, conds_ok, with_m. intros H0 H1.
  destruct (filter (fun r => forallb (fun b => b) (r_conds r)) l) as [|a0 c0'] eqn:E0; [congruence|]. rewrite <- E0 in *.
  rewrite H1. reflexivity.
Qed.

(* detectRoute: the Allow list of a 405 is exactly the set of methods that are not answered 404/405 *)
Lemma detect_route_allow_truth l req allow :
  detect_route l req = inr (E405 allow) ->
  forall m, In m allow <-> is_404_405 (detect_route l (with_method req m)) = false.
Proof.
  intros H m. apply detect_route_405_inv in H as (H0 & _ & ->).
  rewrite dedup_In.
  assert (Hm : In m (map r_method (conds_ok l)) <-> with_m m (conds_ok l) <> []).
  { unfold with_m. split.
    - intros Hin. apply in_map_iff in Hin as (r & <- & Hr). intros Hn.
      assert (Hf : In r (filter (fun r0 => str_eqb (r_method r) (r_method r0)) (conds_ok l)))
        by (apply filter_In; split; [exact Hr|apply str_eqb_refl]).
      rewrite Hn in Hf. contradiction.
    - intros Hn. destruct (filter (fun r => str_eqb m (r_method r)) (conds_ok l)) as [|r rest] eqn:Ef; [contradiction|].
      assert (Hr : In r (filter (fun r => str_eqb m (r_method r)) (conds_ok l))) by (rewrite Ef; now left).
      apply filter_In in Hr as [Hr Heq]. apply str_eqb_eq in Heq. subst m. now apply in_map. }
  destruct (with_m m (conds_ok l)) as [|r1 rest] eqn:Ec.
  - rewrite (detect_route_405_when l (with_method req m) H0 Ec). cbn.
    split; [intros [Hin _]; apply Hm in Hin; contradiction|discriminate].
  - split; [|intros _; split; [apply Hm; discriminate|tauto]].
    intros _. apply detect_route_not_404_405. cbn [rq_method with_method]. fold (conds_ok l). fold (with_m m (conds_ok l)).
    rewrite Ec. discriminate.
Qed.

Section C17.
Variable O : oracles.

Definition status_class (x : routed) : bool :=   (* answered 404 or 405 *)
  match x with RError E404 => true | RError (E405 _) => true | _ => false end.

(* selection of service and candidates does not look at the method *)
Lemma select_route_405_truth t req allow :
  select_route O t req = inr (E405 allow) ->
  forall m, In m allow <->
            (match select_route O t (with_method req m) with
             | inr E404 => true | inr (E405 _) => true | _ => false end) = false.
Proof.
  unfold select_route. cbn [rq_path with_method]. destruct (t_router t).
  - destruct (detect_web_service O (tokenize (rq_path req)) (t_services t)) as [w|]; [|discriminate].
    destruct (curly_select_routes O w (tokenize (rq_path req))) as [|c0 cs] eqn:Ec; [discriminate|]. rewrite <- Ec.
    intros H m.
    destruct (detect_route (map cc_route (curly_select_routes O w (tokenize (rq_path req)))) req) as [r|e] eqn:Ed; [discriminate|].
    injection H as ->. rewrite (detect_route_allow_truth _ _ _ Ed m).
    destruct (detect_route _ (with_method req m)) as [r|[]]; reflexivity.
  - destruct (detect_dispatcher O (rq_path req) (t_services t)) as [[w fin]|]; [|discriminate].
    destruct (jsr_select_routes O w fin) as [|c0 cs] eqn:Ec; [discriminate|]. rewrite <- Ec.
    intros H m.
    destruct (detect_route (map rc_route (jsr_select_routes O w fin)) req) as [r|e] eqn:Ed; [discriminate|].
    injection H as ->. rewrite (detect_route_allow_truth _ _ _ Ed m).
    destruct (detect_route _ (with_method req m)) as [r|[]]; reflexivity.
Qed.

(* C17, 405 part, both routers, every table: m is listed iff a request with method m
   to the same URL is not answered 404 or 405 (a panic in parameter extraction is
   neither; on well-formed tables C02 excludes it) *)
Theorem allow405_truth t req allow :
  route_request O t req = RError (E405 allow) ->
  forall m, In m allow <-> status_class (route_request O t (with_method req m)) = false.
Proof.
  unfold route_request. destruct (select_route O t req) as [[w r]|e] eqn:Es.
  - destruct (extract_parameters O t w r (rq_path req)); discriminate.
  - intros [= ->] m. rewrite (select_route_405_truth t req allow Es m).
    destruct (select_route O t (with_method req m)) as [[w r]|[]]; try reflexivity.
    cbn [rq_path with_method]. destruct (extract_parameters O t w r (rq_path req)); reflexivity.
Qed.

(* the OPTIONS filter answers OPTIONS itself and leaves every other method untouched *)
Theorem options_filter_behaviour t req :
  (rq_method req = L "OPTIONS" ->
     snd (options_decide O t req) = false /\
     hvalues H_Allow (fst (options_decide O t req)) = [join [comma] (compute_allowed_methods O t (rq_path req))] /\
     hvalues H_ACAllowMethods (fst (options_decide O t req)) = [join [comma] (compute_allowed_methods O t (rq_path req))]) /\
  (rq_method req <> L "OPTIONS" -> options_decide O t req = ([], true)).
Proof.
  unfold options_decide. split.
  - intros ->. cbn. auto.
  - intros Hn. apply str_eqb_neq in Hn. now rewrite Hn.
Qed.

End C17.

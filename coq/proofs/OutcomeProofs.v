(* OutcomeProofs.v — C02 for CurlyRouter: the outcome of routing is exactly the
   declarative cascade over the routes of the detected service whose template
   admits the path; no panic on well-formed tables. *)
From Model Require Import Str Sexp Http Template Table Curly DetectRoute Jsr311 Router.
From Spec Require Import RouteSpec.
From Proofs Require Import StrFacts TemplateFacts CurlyProofs RouterProofs ParamProofs.
From Coq Require Import Lia Permutation.

Lemma Permutation_filter {A} (f : A -> bool) l l' :
  Permutation l l' -> Permutation (filter f l) (filter f l').
Proof.
  induction 1 as [|x l l' H IH|x y l|l l' l'' H1 IH1 H2 IH2]; cbn.
  - constructor.
  - destruct (f x); [now constructor|exact IH].
  - destruct (f x), (f y); try reflexivity. apply perm_swap.
  - now transitivity (filter f l').
Qed.

Lemma dedup_In l seen m : In m (dedup l seen) <-> In m l /\ ~ In m seen.
Proof.
  revert seen; induction l as [|x l IH]; intros seen; cbn [dedup In]; [tauto|].
  destruct (mem x seen) eqn:E.
  - rewrite IH. apply mem_In in E. split; [tauto|]. intros [[->|H] Hn]; [contradiction|tauto].
  - apply mem_false in E. cbn [In]. rewrite IH. cbn [In]. split.
    + intros [->|[H Hn]]; [tauto|]. split; [tauto|]. intros Hs. apply Hn. now right.
    + intros [[->|H] Hn]; [now left|]. destruct (str_eqb_spec x m) as [->|Hne]; [now left|].
      right. split; [exact H|]. intros [Hx|Hs]; [congruence|contradiction].
Qed.

(* how an outcome is observed: (class, status, Allow, invoked route ids) *)
Definition routed_view (x : routed) : Z * Z * list str * list Z :=
  match x with
  | RInvoke _ r _ => (0, 200, [], [r_id r])
  | RError E404 => (1, 404, [], [])
  | RError (E405 a) => (1, 405, a, [])
  | RError E415 => (1, 415, [], [])
  | RError E406 => (1, 406, [], [])
  | RPanic => (2, 0, [], [])
  end%Z.

Definition meets (s : soutcome) (v : Z * Z * list str * list Z) : bool :=
  let '(c, st, al, inv) := v in outcome_meets s c st al inv.

Definition detect_view (d : route + rerr) : Z * Z * list str * list Z :=
  match d with
  | inl r => (0, 200, [], [r_id r])
  | inr E404 => (1, 404, [], [])
  | inr (E405 a) => (1, 405, a, [])
  | inr E415 => (1, 415, [], [])
  | inr E406 => (1, 406, [], [])
  end%Z.

Lemma forallb_mem_refl l : forallb (fun m => mem m l) l = true.
Proof. apply forallb_forall. intros x H. now apply mem_In. Qed.

(* detectRoute on a list is the cascade on that list *)
Lemma detect_route_meets l req : meets (spec_cascade l req) (detect_view (detect_route l req)) = true.
Proof.
  unfold detect_route, spec_cascade, effective_accept, conds_hold.
  set (c0 := filter _ l). destruct c0 as [|a0 c0'] eqn:E0; [reflexivity|]. rewrite <- E0.
  set (c1 := filter _ c0). destruct c1 as [|a1 c1'] eqn:E1.
  - cbn. apply andb_true_iff. split; apply forallb_forall; intros m Hm; apply mem_In.
    + apply dedup_In. split; [exact Hm|tauto].
    + now apply dedup_In in Hm as [Hm _].
  - rewrite <- E1.
    set (c2 := filter _ c1).
    set (accept := match hget req H_Accept with [] => L "*/*" | _ => hget req H_Accept end).
    assert (Hacc : match hget req H_Accept with [] => L "*/*" | a :: l0 => a :: l0 end = accept).
    { subst accept. destruct (hget req H_Accept); reflexivity. }
    rewrite Hacc.
    set (cond := (str_eqb (rq_method req) (L "POST") || str_eqb (rq_method req) (L "PUT")
                  || str_eqb (rq_method req) (L "PATCH")) && (str_eqb (hget req H_ContentLength) []
                  || str_eqb (hget req H_ContentLength) (L "0"))).
    destruct (filter (fun r => matches_accept r accept) c2) as [|r0 rest] eqn:E3;
      destruct c2 as [|a2 c2'] eqn:E2;
      destruct (Z.ltb 0 (rq_clen req));
      try (cbn in E3; discriminate E3);
      destruct cond; cbn; rewrite ?Z.eqb_refl; reflexivity.
Qed.

Lemma Permutation_nil_cons_false {A} (l l' : list A) :
  Permutation l l' -> (match l with [] => true | _ => false end) = (match l' with [] => true | _ => false end).
Proof.
  intros H. destruct l, l'; try reflexivity.
  - apply Permutation_nil in H. discriminate.
  - symmetry in H. apply Permutation_nil in H. discriminate.
Qed.

Lemma existsb_perm {A} (p : A -> bool) l l' : Permutation l l' -> existsb p l = existsb p l'.
Proof.
  intros H. destruct (existsb p l) eqn:E; symmetry.
  - apply existsb_exists in E as (x & Hx & Hp). apply existsb_exists. exists x. split; [|exact Hp].
    now apply (Permutation_in _ H).
  - destruct (existsb p l') eqn:E'; [|reflexivity]. apply existsb_exists in E' as (x & Hx & Hp).
    assert (existsb p l = true); [|congruence]. apply existsb_exists. exists x. split; [|exact Hp].
    now apply (Permutation_in _ (Permutation_sym H)).
Qed.

Lemma forallb_perm {A} (p : A -> bool) l l' : Permutation l l' -> forallb p l = forallb p l'.
Proof.
  induction 1; cbn; try congruence.
  - destruct (p x), (p y); reflexivity.
Qed.

Lemma mem_perm m l l' : Permutation l l' -> mem m l = mem m l'.
Proof.
  intros H. destruct (mem m l) eqn:E; symmetry.
  - apply mem_In. apply mem_In in E. now apply (Permutation_in _ H).
  - apply mem_false. apply mem_false in E. intros Hin. apply E. now apply (Permutation_in _ (Permutation_sym H)).
Qed.

(* the cascade does not depend on the order of the routes, as far as [meets] can see *)
Lemma spec_cascade_perm l l' req v :
  Permutation l l' -> meets (spec_cascade l req) v = meets (spec_cascade l' req) v.
Proof.
  intros H. unfold spec_cascade.
  pose proof (Permutation_filter conds_hold _ _ H) as H0.
  set (R0 := filter conds_hold l) in *. set (R0' := filter conds_hold l') in *.
  pose proof (Permutation_filter (fun r => str_eqb (rq_method req) (r_method r)) _ _ H0) as H1.
  set (R1 := filter _ R0) in *. set (R1' := filter _ R0') in *.
  pose proof (Permutation_filter (fun r => matches_content_type r (hget req H_ContentType)) _ _ H1) as H2.
  set (R2 := filter _ R1) in *. set (R2' := filter _ R1') in *.
  pose proof (Permutation_filter (fun r => matches_accept r (effective_accept req)) _ _ H2) as H3.
  set (R3 := filter _ R2) in *. set (R3' := filter _ R2') in *.
  destruct v as [[[c st] al] inv].
  pose proof (Permutation_nil_cons_false _ _ H0) as N0.
  pose proof (Permutation_nil_cons_false _ _ H1) as N1.
  pose proof (Permutation_nil_cons_false _ _ H2) as N2.
  pose proof (Permutation_nil_cons_false _ _ H3) as N3.
  destruct R0 as [|x0 R0t], R0' as [|y0 R0t']; try discriminate N0; [reflexivity|].
  destruct R1 as [|x1 R1t], R1' as [|y1 R1t']; try discriminate N1.
  - cbn [meets outcome_meets]. f_equal; [f_equal|].
    + apply forallb_perm. now apply Permutation_map.
    + apply forallb_ext. intros m. apply mem_perm. now apply Permutation_map.
  - destruct R3 as [|x3 R3t], R3' as [|y3 R3t']; try discriminate N3.
    + destruct R2 as [|x2 R2t], R2' as [|y2 R2t']; try discriminate N2; reflexivity.
    + cbn [meets outcome_meets]. destruct inv as [|id [|id2 inv]]; try reflexivity.
      f_equal. apply existsb_perm. now apply Permutation_map.
Qed.

Section P.
Variable O : oracles.

Lemma curly_candidates_perm w qts :
  forallb (wf_route w) (s_routes w) = true ->
  Permutation (map cc_route (curly_select_routes O w qts))
              (filter (fun r => admits_path O (route_tpl w r) qts) (s_routes w)).
Proof.
  intros Hwf. unfold curly_select_routes. rewrite (sort_desc_perm cc_lt).
  induction (s_routes w) as [|r rs IH]; [constructor|].
  cbn [forallb] in Hwf. apply andb_true_iff in Hwf as [Hr Hrs].
  cbn [flat_map filter]. rewrite map_app.
  unfold route_tpl at 1. rewrite <- (matches_route_iff_admits O _ _ qts Hr).
  destruct (matches_route_by_path_tokens O (route_parts w r) qts (route_hcv w r)) as [[pc sc]|]; cbn [is_some map app].
  - constructor. now apply IH.
  - now apply IH.
Qed.

(* the routing part of dispatch, CurlyRouter *)
Definition curly_expected (t : table) (req : request) : soutcome :=
  match detect_web_service O (tokenize (rq_path req)) (t_services t) with
  | None => SStatus 404 []
  | Some w => spec_cascade (filter (fun r => admits_path O (route_tpl w r) (tokenize (rq_path req))) (s_routes w)) req
  end.

Definition best_wf (t : table) (req : request) : bool :=
  match detect_web_service O (tokenize (rq_path req)) (t_services t) with
  | None => true
  | Some w => forallb (wf_route w) (s_routes w)
  end.

Theorem curly_outcome_exact t req :
  t_router t = Curly -> best_wf t req = true ->
  route_request O t req <> RPanic /\
  meets (curly_expected t req) (routed_view (route_request O t req)) = true.
Proof.
  intros Ht Hwf. unfold best_wf, curly_expected in *.
  unfold route_request. destruct (select_route O t req) as [[w r]|e] eqn:Es.
  - (* a route is selected: extraction cannot panic, and the route is in R3 *)
    pose proof (curly_select_route_sound O t req w r Ht Es) as (Hw & Hr & Hm & Hc & Hme & Hct & Ha).
    unfold select_route in Es. rewrite Ht in Es.
    destruct (detect_web_service O (tokenize (rq_path req)) (t_services t)) as [w0|] eqn:Ew; [|discriminate].
    destruct (curly_select_routes O w0 (tokenize (rq_path req))) as [|c0 cs] eqn:Ec; [discriminate|]. rewrite <- Ec in Es.
    destruct (detect_route (map cc_route (curly_select_routes O w0 (tokenize (rq_path req)))) req) as [r0|e0] eqn:Ed; [|discriminate].
    injection Es as -> ->.
    assert (Hwfr : wf_route w r = true) by (eapply forallb_forall in Hwf; eauto).
    assert (Hadm : admits_path O (route_tpl w r) (tokenize (rq_path req)) = true).
    { unfold route_tpl. now rewrite <- (matches_route_iff_admits O _ _ _ Hwfr). }
    unfold extract_parameters. rewrite Ht. rewrite (curly_extract_parameters_spec O w r _ Hwfr Hadm).
    split; [discriminate|].
    rewrite <- (spec_cascade_perm _ _ req _ (curly_candidates_perm w _ Hwf)).
    pose proof (detect_route_meets (map cc_route (curly_select_routes O w (tokenize (rq_path req)))) req) as Hd.
    rewrite Ed in Hd. exact Hd.
  - split; [discriminate|].
    unfold select_route in Es. rewrite Ht in Es.
    destruct (detect_web_service O (tokenize (rq_path req)) (t_services t)) as [w0|] eqn:Ew.
    2:{ injection Es as <-. reflexivity. }
    rewrite <- (spec_cascade_perm _ _ req _ (curly_candidates_perm w0 _ Hwf)).
    destruct (curly_select_routes O w0 (tokenize (rq_path req))) as [|c0 cs] eqn:Ec.
    + injection Es as <-. reflexivity.
    + rewrite <- Ec in *.
      pose proof (detect_route_meets (map cc_route (curly_select_routes O w0 (tokenize (rq_path req)))) req) as Hd.
      destruct (detect_route (map cc_route (curly_select_routes O w0 (tokenize (rq_path req)))) req) as [r0|e0] eqn:Ed; [discriminate|].
      injection Es as <-. destruct e0; exact Hd.
Qed.

End P.

Section C04.
Variable O : oracles.

Theorem curly_invoked_params t req w r ps :
  t_router t = Curly ->
  route_request O t req = RInvoke w r ps ->
  wf_route w r = true ->
  ps = pset_all (bindings (route_tpl w r) (tokenize (rq_path req))) [].
Proof.
  intros Ht H Hwf.
  destruct (curly_invoked_admits O t req w r ps Ht H) as (_ & _ & Hadm). specialize (Hadm Hwf).
  unfold admits in Hadm.
  apply andb_true_iff in Hadm as [Hadm _]. apply andb_true_iff in Hadm as [Hadm _].
  apply andb_true_iff in Hadm as [Hadm _]. apply andb_true_iff in Hadm as [_ Hadm].
  unfold route_request in H. destruct (select_route O t req) as [[w0 r0]|e]; [|discriminate].
  destruct (extract_parameters O t w0 r0 (rq_path req)) as [ps0|] eqn:Ee; [|discriminate].
  injection H as -> -> ->. unfold extract_parameters in Ee. rewrite Ht in Ee.
  rewrite (curly_extract_parameters_spec O w r _ Hwf Hadm) in Ee. now injection Ee as <-.
Qed.
End C04.

(* C06: the response wrapper a filter passes on is in force exactly for what follows in the chain: when the chain
   returns to the filter, the filter's own wrapper (its stack of upper-casing writers) is back in place. *)
From Coq Require Import List ZArith Bool Arith.
From Model Require Import Str Sexp Http Template Table Curly DetectRoute Jsr311 Router Dispatch.
Import ListNotations.

Lemma upper_write_header s n : st_upper (write_header s n) = st_upper s.
Proof. unfold write_header. destruct (st_status s); reflexivity. Qed.
Lemma upper_write_body s b : st_upper (write_body s b) = st_upper s.
Proof.
  unfold write_body. destruct (st_comp s) as [[[c ch] [|]]|]; cbn; try reflexivity;
    unfold write_header; destruct (st_status s); reflexivity.
Qed.

Lemma upper_run_action a s : st_upper (state_of (run_action a s)) = st_upper s.
Proof.
  destruct a; cbn; auto using upper_write_header, upper_write_body.
  now rewrite upper_write_body, upper_write_header.
Qed.

Lemma upper_run_actions l : forall s, st_upper (state_of (run_actions l s)) = st_upper s.
Proof.
  induction l as [|a l IH]; intros s; cbn [run_actions]; [reflexivity|].
  pose proof (upper_run_action a s) as Ha. destruct (run_action a s) as [s1|m s1]; cbn [bind state_of] in *.
  - now rewrite IH.
  - exact Ha.
Qed.

(* a chain that returns normally leaves the wrapper stack as it found it, whatever wrapping filters it contains *)
Theorem chain_restores_wrapper fs : forall target s s',
  (forall s0 s1, target s0 = Done s1 -> st_upper s1 = st_upper s0) ->
  run_chain fs target s = Done s' -> st_upper s' = st_upper s.
Proof.
  induction fs as [|f rest IH]; intros target s s' Ht; cbn [run_chain]; [apply Ht|].
  pose proof (upper_run_actions (f_pre f) (upd_log s (L "pre:" ++ f_id f))) as Hpre.
  destruct (run_actions (f_pre f) (upd_log s (L "pre:" ++ f_id f))) as [s1|m s1]; cbn [bind state_of] in *; [|discriminate].
  change (st_upper (upd_log s (L "pre:" ++ f_id f))) with (st_upper s) in Hpre.
  destruct (f_pass f).
  - set (s1' := if f_fresh f then upd_attrs s1 [] else s1).
    set (s1'' := if f_wrap f then set_wrapper s1' true (S (st_upper s1')) else s1').
    destruct (run_chain rest target s1'') as [s2|m s2] eqn:E2; cbn [bind]; [|discriminate].
    set (s2' := if f_fresh f then upd_attrs s2 (st_attrs s1) else s2).
    set (s2'' := if f_wrap f then set_wrapper s2' (st_pretty s1) (st_upper s1) else s2').
    pose proof (upper_run_actions (f_post f) s2'') as Hpost.
    destruct (run_actions (f_post f) s2'') as [s3|m s3]; cbn [bind state_of] in *; [|discriminate].
    intros H. inversion H; subst s'. cbn [upd_log st_upper].
    rewrite Hpost. subst s2''. destruct (f_wrap f) eqn:Ew.
    + cbn. exact Hpre.
    + (* not a wrapping filter: the inner chain restored what it was given *)
      pose proof (IH target s1'' s2 Ht E2) as Hin. subst s1''.
      subst s2' s1'. destruct (f_fresh f); cbn in *; congruence.
  - pose proof (upper_run_actions (f_post f) s1) as Hpost.
    destruct (run_actions (f_post f) s1) as [s3|m s3]; cbn [bind state_of] in *; [|discriminate].
    intros H. inversion H; subst s'. cbn [upd_log st_upper]. congruence.
Qed.

(* inside a wrapping filter the route function writes through one more upper-casing writer *)
Lemma wrapping_filter_wraps f target s :
  f_wrap f = true -> f_pass f = true -> f_pre f = [] -> f_fresh f = false ->
  run_chain [f] target s =
    bind (target (set_wrapper (upd_log s (L "pre:" ++ f_id f)) true (S (st_upper s))))
         (fun s2 => bind (run_actions (f_post f) (set_wrapper s2 (st_pretty s) (st_upper s)))
                         (fun s3 => Done (upd_log s3 (L "post:" ++ f_id f)))).
Proof. intros Hw Hp Hpre Hf. cbn [run_chain]. rewrite Hw, Hp, Hpre, Hf. reflexivity. Qed.

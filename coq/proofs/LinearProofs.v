(* LinearProofs.v — C12, linearisation: under every schedule, a finished request was answered
   according to the registration state recorded in its ghost field, i.e. the global service
   list at the moment it read the claiming service's routes. *)
From Model Require Import Str Sexp Http Template Table Curly DetectRoute Jsr311 Router Linear.
From Spec Require Import RouteSpec.
From Proofs Require Import StrFacts RouterProofs FrameProofs.
From Coq Require Import Lia.

Section P.
Variable O : oracles.
Variable rtr : router.

Notation tbl l := {| t_router := rtr; t_services := l |}.

(* ---- the claiming root depends on the roots only ---- *)
Lemma detect_dispatcher_root path wss wss' :
  Forall2 same_root wss wss' ->
  option_map (fun wf => s_root (fst wf)) (detect_dispatcher O path wss)
  = option_map (fun wf => s_root (fst wf)) (detect_dispatcher O path wss').
Proof.
  intros Hf. unfold detect_dispatcher.
  pose proof (sort_desc_rel same_root _ _ (dispatcher_cands_rel O same_root path _ _ (fun w w' H => H) Hf)) as Hs.
  destruct (sort_desc dc_lt (dispatcher_cands O path wss)) as [|c l];
  destruct (sort_desc dc_lt (dispatcher_cands O path wss')) as [|c' l']; inversion Hs as [|? ? ? ? Hc Hl]; subst; [reflexivity|].
  destruct Hc as (Hw & _). cbn. now rewrite Hw.
Qed.

Lemma claim_root_roots req wss wss' :
  Forall2 same_root wss wss' -> claim_root O rtr req wss = claim_root O rtr req wss'.
Proof.
  intros Hf. unfold claim_root. destruct rtr.
  - pose proof (detect_web_service_rel O (tokenize (rq_path req)) _ _ Hf) as H.
    destruct (detect_web_service O (tokenize (rq_path req)) wss), (detect_web_service O (tokenize (rq_path req)) wss'); cbn in *; try contradiction; [|reflexivity].
    now rewrite H.
  - now apply detect_dispatcher_root.
Qed.

Definition touched_of (rt : option str) (r : str) : bool :=
  match rt with Some x => negb (str_eqb r x) | None => true end.

Lemma reread_rel rt snap : forall cur,
  map s_root snap = map s_root cur ->
  Forall2 (untouched_same (touched_of rt)) (reread rt snap cur) cur.
Proof.
  induction snap as [|s snap IH]; intros [|c cur] H; try discriminate H; [constructor|].
  cbn in H. injection H as Hr Hrest. cbn [reread]. constructor; [|now apply IH].
  unfold untouched_same, touched_of. destruct rt as [r|].
  - destruct (str_eqb (s_root s) r) eqn:E.
    + split; reflexivity.
    + split; [exact Hr|]. rewrite E. discriminate.
  - split; [exact Hr|discriminate].
Qed.

Lemma untouched_same_root touched l l' : Forall2 (untouched_same touched) l l' -> Forall2 same_root l l'.
Proof. apply Forall2_impl. intros a b [H _]. exact H. Qed.

Lemma Forall2_same_root_of_map l : forall l', map s_root l = map s_root l' -> Forall2 same_root l l'.
Proof.
  induction l as [|a l IH]; intros [|b l'] H; try discriminate H; constructor.
  - now injection H.
  - apply IH. now injection H.
Qed.

Lemma Forall2_sym_same_root l l' : Forall2 same_root l l' -> Forall2 same_root l' l.
Proof. induction 1; constructor; auto. unfold same_root in *. congruence. Qed.

Lemma Forall2_trans_same_root l1 : forall l2 l3, Forall2 same_root l1 l2 -> Forall2 same_root l2 l3 -> Forall2 same_root l1 l3.
Proof.
  induction l1 as [|a l1 IH]; intros l2 l3 H1 H2; inversion H1; subst; inversion H2; subst; constructor.
  - unfold same_root in *. congruence.
  - eapply IH; eauto.
Qed.

(* the answer computed from the thread's view is the answer of the state at its routes read *)
Lemma view_answer req snap cur :
  map s_root snap = map s_root cur ->
  select_route O (tbl (reread (claim_root O rtr req snap) snap cur)) req = select_route O (tbl cur) req.
Proof.
  intros Hroots. remember (claim_root O rtr req snap) as rt eqn:Hrt.
  pose proof (reread_rel rt snap cur Hroots) as Hrel.
  assert (Hclaim : claim_root O rtr req (reread rt snap cur) = rt).
  { rewrite Hrt at 2. apply claim_root_roots.
    eapply Forall2_trans_same_root; [apply (untouched_same_root _ _ _ Hrel)|].
    apply Forall2_sym_same_root. now apply Forall2_same_root_of_map. }
  clear Hrt. destruct rtr eqn:Er.
  - apply (curly_frame O (touched_of rt)); [reflexivity|reflexivity|exact Hrel|].
    cbn [t_services]. intros w Hw. unfold claim_root in Hclaim. rewrite Hw in Hclaim. cbn in Hclaim.
    rewrite <- Hclaim. unfold touched_of. now rewrite str_eqb_refl.
  - apply (jsr_frame O (touched_of rt)); [reflexivity|reflexivity|exact Hrel|].
    cbn [t_services]. intros w fin Hw. unfold claim_root in Hclaim. rewrite Hw in Hclaim. cbn in Hclaim.
    rewrite <- Hclaim. unfold touched_of. now rewrite str_eqb_refl.
Qed.

(* ---- counting threads ---- *)
Definition holds_read (t : thread) : nat :=
  match t with TReq _ QHeld | TReq _ (QSnap _) | TReq _ (QView _ _) => 1 | _ => 0 end.
Definition holds_write (t : thread) : nat := match t with TMut (Some _) _ => 1 | _ => 0 end.
Definition total (f : thread -> nat) (l : list thread) : nat := fold_right (fun t a => f t + a) 0 l.

Lemma total_upd f i t' : forall l t,
  nth_error l i = Some t -> total f (upd i t' l) + f t = total f l + f t'.
Proof.
  induction i as [|i IH]; intros [|y l] t H; try discriminate H; cbn [nth_error] in H; cbn [upd]; unfold total; cbn [fold_right]; fold (total f l).
  - injection H as ->. lia.
  - fold (total f (upd i t' l)). specialize (IH l t H). lia.
Qed.

Lemma In_upd {A} i (x : A) : forall l y, In y (upd i x l) -> y = x \/ In y l.
Proof.
  induction i as [|i IH]; intros [|z l] y H; cbn in *; try contradiction.
  - destruct H as [<-|H]; auto.
  - destruct H as [<-|H]; auto. destruct (IH l y H); auto.
Qed.

Lemma total_zero_none f l t : total f l = 0 -> In t l -> f t = 0.
Proof.
  unfold total. induction l as [|y l IH]; [contradiction|]. cbn [fold_right In]. intros H [<-|Hin]; [lia|]. apply IH; [lia|exact Hin].
Qed.

(* ---- the invariant ---- *)
Definition good_thread (g : gs) (t : thread) : Prop :=
  match t with
  | TReq req (QSnap snap) => map s_root snap = map s_root (g_svcs g)
  | TReq req (QView view lin) => select_route O (tbl view) req = select_route O (tbl lin) req
  | TReq req (QDone ans lin) => ans = select_route O (tbl lin) req
  | _ => True
  end.

Definition Inv (st : gs * list thread) : Prop :=
  let (g, ths) := st in
  g_cr g = total holds_read ths /\
  (g_cw g = true -> g_cr g = 0) /\
  total holds_write ths = (if g_cw g then 1 else 0) /\
  (forall t, In t ths -> good_thread g t).

(* changing the lock words or the routes keeps snapshots valid; changing the roots happens
   only when nobody holds a snapshot *)
Lemma good_thread_same_roots g g' t :
  map s_root (g_svcs g') = map s_root (g_svcs g) -> good_thread g t -> good_thread g' t.
Proof. destruct t as [req [| |snap|view lin|ans lin]|h ops]; cbn; auto. intros ->. auto. Qed.

Lemma good_thread_no_reader g g' t : holds_read t = 0 -> good_thread g t -> good_thread g' t.
Proof. destruct t as [req [| |snap|view lin|ans lin]|h ops]; cbn; auto; discriminate. Qed.

Lemma set_routes_roots root rs wss : map s_root (apply_op (OSetRoutes root rs) wss) = map s_root wss.
Proof.
  cbn. induction wss as [|w wss IH]; [reflexivity|]. cbn. rewrite IH. destruct (str_eqb (s_root w) root); reflexivity.
Qed.

Lemma step_inv st i : Inv st -> Inv (sstep O rtr st i).
Proof.
  destruct st as [g ths]. unfold sstep. cbn [fst snd].
  destruct (nth_error ths i) as [t|] eqn:Ei; [|auto].
  destruct (tstep O rtr g t) as [[g' t']|] eqn:Es; [|auto].
  intros (Hcr & Hcw & Hw & Hgood).
  assert (Hin : In t ths) by (eapply nth_error_In; eauto).
  pose proof (total_upd holds_read i t' ths t Ei) as Tr.
  pose proof (total_upd holds_write i t' ths t Ei) as Tw.
  pose proof (Hgood t Hin) as Hgt.
  unfold Inv.
  destruct t as [req [| |snap|view lin|ans lin]|[op|] ops]; cbn [tstep] in Es.
  - (* RLock *)
    destruct (g_cw g) eqn:Ecw; [discriminate Es|]. injection Es as <- <-. cbn [g_cr g_cw g_svcs] in *. cbn in Tr, Tw.
    repeat split; try lia; try discriminate.
    intros x Hx. apply In_upd in Hx as [->|Hx]; [exact Logic.I|]. eapply good_thread_same_roots; [|apply Hgood, Hx]. reflexivity.
  - (* read the service list *)
    injection Es as <- <-. cbn in Tr, Tw. repeat split; try lia; auto; try (destruct (g_cw g); lia).
    intros x Hx. apply In_upd in Hx as [->|Hx]; [reflexivity|]. now apply Hgood.
  - (* read the claiming service's routes *)
    injection Es as <- <-. cbn in Tr, Tw. repeat split; try lia; auto; try (destruct (g_cw g); lia).
    intros x Hx. apply In_upd in Hx as [->|Hx]; [|now apply Hgood]. cbn. now apply view_answer.
  - (* RUnlock, answer *)
    injection Es as <- <-. cbn [g_cr g_cw g_svcs] in *. cbn in Tr, Tw.
    repeat split; try lia; try (destruct (g_cw g); lia); try (intros H; specialize (Hcw H); lia).
    intros x Hx. apply In_upd in Hx as [->|Hx]; [cbn; exact Hgt|]. eapply good_thread_same_roots; [|apply Hgood, Hx]. reflexivity.
  - discriminate Es.
  - (* a mutator holding the write lock: change and Unlock *)
    injection Es as <- <-. cbn [g_cr g_cw g_svcs] in *. cbn in Tr, Tw.
    assert (Ecw : g_cw g = true) by (destruct (g_cw g); [reflexivity|lia]).
    pose proof (Hcw Ecw) as Hz. rewrite Ecw in Hw.
    repeat split; try lia; try discriminate.
    intros x Hx. apply In_upd in Hx as [->|Hx]; [exact Logic.I|].
    eapply good_thread_no_reader; [|apply Hgood, Hx]. apply (total_zero_none holds_read ths); [lia|exact Hx].
  - (* a mutator not holding the lock *)
    destruct ops as [|op ops]; [discriminate Es|].
    destruct (needs_lock op) eqn:En.
    + destruct (g_cw g) eqn:Ecw; [discriminate Es|]. cbn [orb] in Es.
      destruct (Nat.eqb (g_cr g) 0) eqn:Ecr; [|discriminate Es]. cbn [negb] in Es. injection Es as <- <-.
      apply Nat.eqb_eq in Ecr. cbn [g_cr g_cw g_svcs] in *. cbn in Tr, Tw. repeat split; try lia.
      intros x Hx. apply In_upd in Hx as [->|Hx]; [exact Logic.I|]. eapply good_thread_same_roots; [|apply Hgood, Hx]. reflexivity.
    + injection Es as <- <-. cbn [g_cr g_cw g_svcs] in *. cbn in Tr, Tw.
      repeat split; try lia; auto; try (destruct (g_cw g); lia).
      intros x Hx. apply In_upd in Hx as [->|Hx]; [exact Logic.I|].
      eapply good_thread_same_roots; [|apply Hgood, Hx]. cbn [g_svcs].
      destruct op as [w|root|root rs]; try discriminate En. apply set_routes_roots.
Qed.

Lemma run_inv sched : forall st, Inv st -> Inv (srun O rtr sched st).
Proof.
  induction sched as [|i sched IH]; intros st H; [exact H|]. cbn [srun fold_left]. apply IH, step_inv, H.
Qed.

Lemma init_inv wss ths :
  forallb fresh_thread ths = true -> Inv ({| g_svcs := wss; g_cw := false; g_cr := 0 |}, ths).
Proof.
  intros H. rewrite forallb_forall in H. unfold Inv. cbn [g_cr g_cw g_svcs].
  assert (Hr : total holds_read ths = 0 /\ total holds_write ths = 0).
  { induction ths as [|t ths IH]; [split; reflexivity|].
    destruct IH as [I1 I2]; [intros x Hx; apply H; now right|].
    specialize (H t (or_introl eq_refl)). unfold total in *. cbn [fold_right]. rewrite I1, I2.
    destruct t as [req [| | | |]|[|] ops]; try discriminate H; split; reflexivity. }
  destruct Hr as [-> ->]. repeat split; try discriminate.
  intros t Ht. specialize (H t Ht). destruct t as [req [| | | |]|[|] ops]; try discriminate H; exact Logic.I.
Qed.

(* ---- C12, linearisation ---- *)
Theorem linearisable wss ths sched req ans lin :
  forallb fresh_thread ths = true ->
  In (TReq req (QDone ans lin)) (snd (srun O rtr sched ({| g_svcs := wss; g_cw := false; g_cr := 0 |}, ths))) ->
  ans = select_route O (tbl lin) req.
Proof.
  intros Hf Hin. pose proof (run_inv sched _ (init_inv wss ths Hf)) as H.
  destruct (srun O rtr sched _) as [g ths']. destruct H as (_ & _ & _ & Hg). exact (Hg _ Hin).
Qed.

(* the ghost state is the global service list at one of the request's own steps: it is
   written by the step QSnap -> QView, with the list as it is at that step *)
Lemma ghost_is_current g req snap g' t' :
  tstep O rtr g (TReq req (QSnap snap)) = Some (g', t') ->
  exists view, t' = TReq req (QView view (g_svcs g)) /\ g' = g.
Proof. cbn. intros H. injection H as <- <-. eauto. Qed.

(* mutual exclusion, for the record: a writer and a reader never hold the lock together *)
Theorem no_reader_while_writing wss ths sched :
  forallb fresh_thread ths = true ->
  let st := srun O rtr sched ({| g_svcs := wss; g_cw := false; g_cr := 0 |}, ths) in
  total holds_write (snd st) <= 1 /\ (total holds_write (snd st) = 1 -> total holds_read (snd st) = 0).
Proof.
  intros Hf st. pose proof (run_inv sched _ (init_inv wss ths Hf)) as H. fold st in H.
  destruct st as [g ths']. destruct H as (Hcr & Hcw & Hw & _). cbn [snd]. rewrite Hw.
  destruct (g_cw g); split; try lia; try discriminate; intros _; rewrite <- Hcr; now apply Hcw.
Qed.

End P.

(* TemplateFacts.v — custom verbs and tokenisation *)
From Model Require Import Str Template.
From Proofs Require Import StrFacts.
From Coq Require Import Lia.

Lemma span_letters_spec s :
  let '(a, b) := span_letters s in
  s = a ++ b /\ forallb is_letter a = true /\
  match b with [] => True | c :: _ => is_letter c = false end.
Proof.
  induction s as [|c s IH]; cbn; [auto|].
  destruct (is_letter c) eqn:E.
  - destruct (span_letters s) as [a b]. destruct IH as (-> & H2 & H3). cbn. rewrite E, H2. auto.
  - cbn. auto.
Qed.

Lemma span_letters_app a c b :
  forallb is_letter a = true -> is_letter c = false -> span_letters (a ++ c :: b) = (a, c :: b).
Proof.
  induction a as [|x a IH]; cbn; intros Ha Hc.
  - now rewrite Hc.
  - apply andb_true_iff in Ha as [H1 H2]. now rewrite H1, IH.
Qed.

Lemma forallb_rev {A} (p : A -> bool) l : forallb p (rev l) = forallb p l.
Proof.
  induction l as [|x l IH]; cbn; [reflexivity|]. rewrite forallb_app, IH. cbn.
  destruct (p x), (forallb p l); reflexivity.
Qed.

Lemma verb_split_inv s b v :
  verb_split s = Some (b, v) -> s = b ++ colon :: v /\ v <> [] /\ forallb is_letter v = true.
Proof.
  unfold verb_split. pose proof (span_letters_spec (rev s)) as H.
  destruct (span_letters (rev s)) as [ls rest]. destruct H as (H1 & H2 & H3).
  destruct ls as [|l0 ls]; [discriminate|]. destruct rest as [|c rest]; [discriminate|].
  destruct (Ascii.eqb c colon) eqn:Ec; [|discriminate]. apply Ascii.eqb_eq in Ec. subst c.
  intros [= <- <-]. apply (f_equal (@rev _)) in H1. rewrite rev_involutive in H1.
  rewrite H1. rewrite rev_app_distr. cbn [rev]. rewrite <- !app_assoc. cbn.
  split; [reflexivity|]. split.
  - intros E. apply (f_equal (@List.length _)) in E. rewrite app_length in E. cbn in E. lia.
  - change (rev ls ++ [l0]) with (rev (l0 :: ls)). now rewrite forallb_rev.
Qed.

Lemma is_letter_colon : is_letter colon = false.
Proof. reflexivity. Qed.

Lemma verb_split_app b v :
  v <> [] -> forallb is_letter v = true -> verb_split (b ++ colon :: v) = Some (b, v).
Proof.
  intros Hv Hl. unfold verb_split. rewrite rev_app_distr. cbn [rev]. rewrite <- app_assoc. cbn [app].
  rewrite span_letters_app; [| now rewrite forallb_rev | apply is_letter_colon].
  destruct (rev v) as [|r0 rv] eqn:Er.
  - apply (f_equal (@rev _)) in Er. rewrite rev_involutive in Er. cbn in Er. contradiction.
  - rewrite Ascii.eqb_refl. rewrite <- Er, !rev_involutive. reflexivity.
Qed.

Lemma has_custom_verb_true s : has_custom_verb s = true <-> exists b v, verb_split s = Some (b, v).
Proof.
  unfold has_custom_verb. destruct (verb_split s) as [[b v]|]; split; try discriminate; eauto.
  intros (b' & v' & H); discriminate.
Qed.

(* stripping ":verb" from a token that ends with it *)
Lemma remove_custom_verb_suffix qt v :
  v <> [] -> forallb is_letter v = true -> has_suffix qt (colon :: v) = true ->
  remove_custom_verb qt = firstn (List.length qt - List.length v - 1) qt.
Proof.
  intros Hv Hl Hs. apply has_suffix_spec in Hs as [t ->].
  unfold remove_custom_verb. rewrite verb_split_app by assumption.
  rewrite app_length. cbn [List.length].
  replace (List.length t + S (List.length v) - List.length v - 1) with (List.length t) by lia.
  now rewrite firstn_app, Nat.sub_diag, firstn_all, firstn_O, app_nil_r.
Qed.

(* ---- tokenisation and the trailing slash (C14) ---- *)
Lemma trim_left_app_not_all c s t :
  existsb (fun x => negb (Ascii.eqb x c)) s = true -> trim_left c (s ++ t) = trim_left c s ++ t.
Proof.
  induction s as [|x s IH]; cbn; [discriminate|]. destruct (Ascii.eqb x c); cbn; [apply IH|reflexivity].
Qed.

Lemma trim_left_all c s :
  existsb (fun x => negb (Ascii.eqb x c)) s = false -> trim_left c s = [].
Proof.
  induction s as [|x s IH]; cbn; [reflexivity|]. destruct (Ascii.eqb x c); cbn; [apply IH|discriminate].
Qed.

Lemma existsb_rev {A} (p : A -> bool) l : existsb p (rev l) = existsb p l.
Proof.
  induction l as [|x l IH]; cbn; [reflexivity|]. rewrite existsb_app, IH. cbn.
  destruct (p x), (existsb p l); reflexivity.
Qed.

Lemma trim_app_sep c s : trim c (s ++ [c]) = trim c s.
Proof.
  unfold trim, trim_right.
  destruct (existsb (fun x => negb (Ascii.eqb x c)) s) eqn:E.
  - rewrite trim_left_app_not_all by exact E. rewrite rev_app_distr. cbn [rev app trim_left].
    rewrite Ascii.eqb_refl. reflexivity.
  - rewrite (trim_left_all c s E). assert (E' : existsb (fun x => negb (Ascii.eqb x c)) (s ++ [c]) = false).
    { rewrite existsb_app, E. cbn. now rewrite Ascii.eqb_refl. }
    rewrite (trim_left_all c _ E'). reflexivity.
Qed.

(* a path with a non-slash byte is not "/" *)
Lemma not_slash_path p :
  existsb (fun x => negb (Ascii.eqb x slash)) p = true -> str_eqb p [slash] = false.
Proof.
  intros H. apply str_eqb_neq. intros ->. cbn in H. discriminate.
Qed.

Lemma tokenize_trailing_slash p :
  existsb (fun x => negb (Ascii.eqb x slash)) p = true ->
  tokenize (p ++ [slash]) = tokenize p.
Proof.
  intros H. unfold tokenize. rewrite (not_slash_path p H).
  rewrite not_slash_path by (rewrite existsb_app, H; reflexivity).
  now rewrite trim_app_sep.
Qed.

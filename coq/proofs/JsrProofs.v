(* JsrProofs.v — RouterJSR311: the segment-wise matcher of the compiled template
   expressions is sound for the structural admission of RouteSpec (C01, C02 for the
   second router). *)
From Model Require Import Str Sexp Http Template Table Curly DetectRoute Jsr311 Router.
From Spec Require Import RouteSpec.
From Proofs Require Import StrFacts RouterProofs.
From Coq Require Import Lia.

Definition tok_rel (e : etok) (v : vtok) : Prop := conv (v_tk v) = Some e.

Lemma etok_eqb_eq a b : etok_eqb a b = true -> a = b.
Proof. destruct a, b; cbn; try discriminate; try reflexivity; intros H; apply str_eqb_eq in H; now subst. Qed.

Lemma tokens_agree_rel template :
  tokens_agree template = true -> Forall2 tok_rel (pe_toks (path_expression template)) (jsr_tpl template).
Proof.
  unfold tokens_agree, path_expression, jsr_tpl. cbn [pe_toks].
  induction (filter (fun t => negb (str_eqb t [])) (tokenize template)) as [|s l IH]; cbn; [constructor|].
  intros H. apply andb_true_iff in H as [Hs Hl]. constructor; [|now apply IH].
  unfold tok_rel. change (v_tk (jsr_parse_tok s)) with (jsr_parse_tk s) in *. destruct (conv (jsr_parse_tk s)) as [e|] eqn:Ec.
  - apply etok_eqb_eq in Hs. now rewrite Hs.
  - discriminate Hs.
Qed.

Section Jsr.
Variable O : oracles.

(* ---- span_seg and split ---- *)
Lemma span_seg_split p1 seg rest :
  span_seg p1 = (seg, rest) ->
  (rest = [] /\ split slash p1 = [seg]) \/ (exists r1, rest = slash :: r1 /\ split slash p1 = seg :: split slash r1).
Proof.
  revert seg rest. induction p1 as [|c p IH]; intros seg rest H; cbn in H.
  - injection H as <- <-. left. auto.
  - destruct (Ascii.eqb c slash) eqn:E.
    + injection H as <- <-. apply Ascii.eqb_eq in E. subst c. right. exists p. split; [reflexivity|].
      cbn. reflexivity.
    + destruct (span_seg p) as [a b] eqn:Es. injection H as <- <-. cbn [split]. rewrite E.
      destruct (IH a b eq_refl) as [[-> Hs]|(r1 & -> & Hs)]; rewrite Hs; [left|right; exists r1]; auto.
Qed.

Lemma join_split c s : join [c] (split c s) = s.
Proof.
  induction s as [|x s IH]; [reflexivity|]. cbn [split]. destruct (Ascii.eqb x c) eqn:E.
  - apply Ascii.eqb_eq in E. subst x. destruct (split c s) as [|h t] eqn:Es; [now contradiction (split_not_nil c s)|].
    cbn [join app]. cbn in IH. now rewrite IH.
  - destruct (split c s) as [|h t] eqn:Es; [now contradiction (split_not_nil c s)|].
    destruct t; cbn in *; now rewrite <- IH.
Qed.

Lemma tok_admits e v seg :
  tok_rel e v -> e <> EAll ->
  (match e with ELit s => str_eqb seg s | EVar => negb (str_eqb seg []) | ERx re => o_rxfull O re seg | EAll => false end) = true ->
  tk_admits_jsr O (v_tk v) seg = true /\ is_tail v = false.
Proof.
  unfold tok_rel, is_tail. destruct (v_tk v); cbn; intros H Hne Hok; try discriminate H; injection H as <-; try (now contradiction Hne); auto.
Qed.

(* ---- the route expression on the remainder: one phase ---- *)
Lemma match_route_sound etoks : forall vtoks p1 caps fin,
  Forall2 tok_rel etoks vtoks ->
  jsr_match O etoks (slash :: p1) = Some (caps, fin) -> final_ok fin = true ->
  jsr_admits_segs O vtoks (split slash p1) = true.
Proof.
  induction etoks as [|e etoks IH]; intros vtoks p1 caps fin Hrel Hm Hf; inversion Hrel as [|? v ? vt Hv Hrest]; subst; cbn [jsr_match] in Hm.
  - rewrite Ascii.eqb_refl in Hm. injection Hm as <- <-.
    unfold final_ok in Hf. cbn in Hf. destruct p1; [reflexivity|discriminate Hf].
  - rewrite Ascii.eqb_refl in Hm. cbn [negb] in Hm.
    destruct (split slash p1) as [|s0 segs0] eqn:Esp; [now contradiction (split_not_nil slash p1)|].
    destruct e.
    + destruct (span_seg p1) as [seg rest] eqn:Es. destruct (str_eqb seg s) eqn:Eok; cbn [negb] in Hm; [|discriminate].
      destruct (jsr_match O etoks rest) as [[caps' fin']|] eqn:Em; [|discriminate]. injection Hm as <- <-.
      destruct (tok_admits (ELit s) v seg Hv ltac:(discriminate) Eok) as [Ha Ht].
      destruct (span_seg_split p1 seg rest Es) as [[-> Hs]|(r1 & -> & Hs)]; rewrite Hs in Esp; injection Esp as <- <-; cbn [jsr_admits_segs]; rewrite Ht, Ha; cbn [andb].
      * destruct etoks; [inversion Hrest; reflexivity|discriminate].
      * eapply IH; eauto.
    + destruct (span_seg p1) as [seg rest] eqn:Es. destruct (negb (str_eqb seg [])) eqn:Eok; cbn [negb] in Hm; [|discriminate].
      destruct (jsr_match O etoks rest) as [[caps' fin']|] eqn:Em; [|discriminate]. injection Hm as <- <-.
      destruct (tok_admits EVar v seg Hv ltac:(discriminate) Eok) as [Ha Ht].
      destruct (span_seg_split p1 seg rest Es) as [[-> Hs]|(r1 & -> & Hs)]; rewrite Hs in Esp; injection Esp as <- <-; cbn [jsr_admits_segs]; rewrite Ht, Ha; cbn [andb].
      * destruct etoks; [inversion Hrest; reflexivity|discriminate].
      * eapply IH; eauto.
    + destruct (span_seg p1) as [seg rest] eqn:Es. destruct (o_rxfull O re seg) eqn:Eok; cbn [negb] in Hm; [|discriminate].
      destruct (jsr_match O etoks rest) as [[caps' fin']|] eqn:Em; [|discriminate]. injection Hm as <- <-.
      destruct (tok_admits (ERx re) v seg Hv ltac:(discriminate) Eok) as [Ha Ht].
      destruct (span_seg_split p1 seg rest Es) as [[-> Hs]|(r1 & -> & Hs)]; rewrite Hs in Esp; injection Esp as <- <-; cbn [jsr_admits_segs]; rewrite Ht, Ha; cbn [andb].
      * destruct etoks; [inversion Hrest; reflexivity|discriminate].
      * eapply IH; eauto.
    + (* the tail wildcard takes everything *)
      destruct etoks; [|discriminate]. inversion Hrest; subst.
      cbn [jsr_admits_segs]. assert (Ht : is_tail v = true).
      { unfold tok_rel in Hv. unfold is_tail. destruct (v_tk v); cbn in Hv; try discriminate; reflexivity. }
      rewrite Ht. reflexivity.
Qed.

(* ---- root expression, then route expression on the root's final group: two phases ---- *)
Lemma match_two_phase ra : forall rt p1 c1 f1 rb tt c2 f2,
  Forall2 tok_rel ra rt -> Forall2 tok_rel rb tt ->
  jsr_match O ra (slash :: p1) = Some (c1, f1) ->
  jsr_match O rb f1 = Some (c2, f2) -> final_ok f2 = true ->
  jsr_admits_segs O (rt ++ tt) (split slash p1) = true.
Proof.
  induction ra as [|e ra IH]; intros rt p1 c1 f1 rb tt c2 f2 Hra Hrb Hm1 Hm2 Hf; inversion Hra as [|? v ? vt Hv Hrest]; subst; cbn [jsr_match] in Hm1.
  - rewrite Ascii.eqb_refl in Hm1. injection Hm1 as <- <-.
    cbn [app]. eapply match_route_sound; eauto.
  - rewrite Ascii.eqb_refl in Hm1. cbn [negb] in Hm1.
    destruct (split slash p1) as [|s0 segs0] eqn:Esp; [now contradiction (split_not_nil slash p1)|].
    assert (Hstep : forall seg rest,
              span_seg p1 = (seg, rest) -> e <> EAll ->
              tk_admits_jsr O (v_tk v) seg = true -> is_tail v = false ->
              forall c1', jsr_match O ra rest = Some (c1', f1) ->
              jsr_admits_segs O ((v :: vt) ++ tt) (s0 :: segs0) = true).
    { intros seg rest Es Hne Ha Ht c1' Em.
      destruct (span_seg_split p1 seg rest Es) as [[-> Hs]|(r1 & -> & Hs)]; rewrite Hs in Esp; injection Esp as <- <-;
        cbn [app jsr_admits_segs]; rewrite Ht, Ha; cbn [andb].
      - (* the path ends with this segment: the root expression ends here too, and the route template is empty *)
        destruct ra; [|discriminate]. inversion Hrest; subst. cbn in Em. injection Em as <- <-.
        destruct rb; [|discriminate]. inversion Hrb; subst. reflexivity.
      - exact (IH vt r1 c1' f1 rb tt c2 f2 Hrest Hrb Em Hm2 Hf). }
    destruct e.
    + destruct (span_seg p1) as [seg rest] eqn:Es. destruct (str_eqb seg s) eqn:Eok; cbn [negb] in Hm1; [|discriminate].
      destruct (jsr_match O ra rest) as [[c1' f1']|] eqn:Em; [|discriminate]. injection Hm1 as <- <-.
      destruct (tok_admits (ELit s) v seg Hv ltac:(discriminate) Eok) as [Ha Ht]. eapply Hstep; eauto. discriminate.
    + destruct (span_seg p1) as [seg rest] eqn:Es. destruct (negb (str_eqb seg [])) eqn:Eok; cbn [negb] in Hm1; [|discriminate].
      destruct (jsr_match O ra rest) as [[c1' f1']|] eqn:Em; [|discriminate]. injection Hm1 as <- <-.
      destruct (tok_admits EVar v seg Hv ltac:(discriminate) Eok) as [Ha Ht]. eapply Hstep; eauto. discriminate.
    + destruct (span_seg p1) as [seg rest] eqn:Es. destruct (o_rxfull O re seg) eqn:Eok; cbn [negb] in Hm1; [|discriminate].
      destruct (jsr_match O ra rest) as [[c1' f1']|] eqn:Em; [|discriminate]. injection Hm1 as <- <-.
      destruct (tok_admits (ERx re) v seg Hv ltac:(discriminate) Eok) as [Ha Ht]. eapply Hstep; eauto. discriminate.
    + (* a root ending in a tail wildcard: nothing is left for the route template, which must be empty *)
      destruct ra; [|discriminate]. inversion Hrest; subst.
      injection Hm1 as <- <-.
      destruct rb; [|discriminate]. inversion Hrb; subst.
      assert (Ht : is_tail v = true).
      { unfold tok_rel in Hv. unfold is_tail. destruct (v_tk v); cbn in Hv; try discriminate; reflexivity. }
      cbn [app jsr_admits_segs]. rewrite Ht. reflexivity.
Qed.

(* ---- assembling: what RouterJSR311.SelectRoute returns ---- *)
Lemma jsr_match_nonempty_path etoks c p caps fin :
  jsr_match O etoks (c :: p) = Some (caps, fin) -> c = slash.
Proof.
  destruct etoks as [|e etoks]; cbn.
  - destruct (Ascii.eqb c slash) eqn:E; cbn; [intros _; now apply Ascii.eqb_eq|discriminate].
  - destruct (Ascii.eqb c slash) eqn:E; cbn; [intros _; now apply Ascii.eqb_eq|discriminate].
Qed.

Lemma detect_dispatcher_sound path wss w fin :
  detect_dispatcher O path wss = Some (w, fin) ->
  In w wss /\ exists caps, jsr_match O (pe_toks (path_expression (s_root w))) path = Some (caps, fin).
Proof.
  unfold detect_dispatcher. destruct (sort_desc dc_lt (dispatcher_cands O path wss)) as [|c l] eqn:Es; [discriminate|].
  intros H; injection H as <- <-.
  assert (Hin : In c (dispatcher_cands O path wss)) by (apply (sort_desc_In dc_lt); rewrite Es; now left).
  unfold dispatcher_cands in Hin. apply in_flat_map in Hin as (w0 & Hw & Hc). cbn zeta in Hc.
  destruct (jsr_match O (pe_toks (path_expression (s_root w0))) path) as [[caps fin]|] eqn:Em; [|contradiction].
  destruct Hc as [<-|[]]. cbn. eauto.
Qed.

Lemma jsr_select_routes_sound w remainder c :
  In c (jsr_select_routes O w remainder) ->
  In (rc_route c) (s_routes w) /\
  exists caps fin, jsr_match O (pe_toks (path_expression (r_rel (rc_route c)))) remainder = Some (caps, fin) /\ final_ok fin = true.
Proof.
  unfold jsr_select_routes. rewrite (sort_desc_In rc_lt), in_flat_map. intros (r & Hr & Hc). cbn zeta in Hc.
  destruct (jsr_match O (pe_toks (path_expression (r_rel r))) remainder) as [[caps fin]|] eqn:Em; [|contradiction].
  destruct (final_ok fin) eqn:Ef; [|contradiction]. destruct Hc as [<-|[]]. cbn. eauto.
Qed.

(* C01 for RouterJSR311: a selected route admits the request *)
Theorem jsr_select_route_sound t req w r :
  t_router t = Jsr311 -> select_route O t req = inl (w, r) -> jsr_tokens_agree w r = true ->
  In w (t_services t) /\ In r (s_routes w) /\ jsr_admits O w r req = true.
Proof.
  unfold select_route. intros -> H Hag. apply andb_true_iff in Hag as [Hagw Hagr].
  destruct (detect_dispatcher O (rq_path req) (t_services t)) as [[w0 fin]|] eqn:Ed; [|discriminate].
  destruct (jsr_select_routes O w0 fin) as [|c0 cs] eqn:Ec; [discriminate|]. rewrite <- Ec in H.
  destruct (detect_route (map rc_route (jsr_select_routes O w0 fin)) req) as [r0|e] eqn:Edr; [|discriminate].
  injection H as -> ->.
  apply detect_route_inl in Edr as (Hin & Hc & Hm & Hct & Ha).
  apply in_map_iff in Hin as (c & <- & Hcin). apply jsr_select_routes_sound in Hcin as (Hr & caps2 & fin2 & Hm2 & Hf2).
  apply detect_dispatcher_sound in Ed as (Hw & caps1 & Hm1).
  split; [exact Hw|]. split; [exact Hr|].
  unfold jsr_admits. rewrite Hm, Hct, Ha, Hc, !andb_true_r. cbn [andb].
  pose proof (tokens_agree_rel _ Hagw) as Rw. pose proof (tokens_agree_rel _ Hagr) as Rr.
  unfold jsr_admits_path. destruct (rq_path req) as [|ch p1] eqn:Ep.
  - (* the empty path: both expressions are empty *)
    destruct (pe_toks (path_expression (s_root w))) as [|e l] eqn:E1; [|discriminate].
    cbn in Hm1. injection Hm1 as <- <-.
    destruct (pe_toks (path_expression (r_rel (rc_route c)))) as [|e l] eqn:E2; [|discriminate].
    inversion Rw; inversion Rr; reflexivity.
  - pose proof (jsr_match_nonempty_path _ _ _ _ _ Hm1). subst ch. unfold path_segs. rewrite Ascii.eqb_refl.
    exact (match_two_phase _ _ _ _ _ _ _ _ _ Rw Rr Hm1 Hm2 Hf2).
Qed.

(* C02 for RouterJSR311: parameter extraction cannot panic on a selected route *)
Theorem jsr_selected_never_panics t req w r :
  t_router t = Jsr311 -> select_route O t req = inl (w, r) -> route_request O t req <> RPanic.
Proof.
  intros Hr Hs. unfold route_request. rewrite Hs. unfold extract_parameters. rewrite Hr.
  unfold select_route in Hs. rewrite Hr in Hs.
  destruct (detect_dispatcher O (rq_path req) (t_services t)) as [[w0 fin]|] eqn:Ed; [|discriminate].
  destruct (jsr_select_routes O w0 fin) as [|c0 cs] eqn:Ec; [discriminate|]. rewrite <- Ec in Hs.
  destruct (detect_route (map rc_route (jsr_select_routes O w0 fin)) req) as [r0|e]; [|discriminate]. injection Hs as -> ->.
  apply detect_dispatcher_sound in Ed as (_ & caps & Hm). unfold jsr_extract_parameters. rewrite Hm. discriminate.
Qed.

End Jsr.

(* ------------------------------------------------------------------ *)
(* C04 for RouterJSR311: the capture groups, paired with VarNames, are the structural bindings *)
Definition tok_rel2 (en : etok * option str) (v : vtok) : Prop :=
  conv (v_tk v) = Some (fst en) /\ snd en = tk_name (v_tk v).
Definition names_of (ets : list (etok * option str)) : list str :=
  flat_map (fun e => match snd e with Some n => [n] | None => [] end) ets.

Lemma opt_str_eqb_eq a b : opt_str_eqb a b = true -> a = b.
Proof. destruct a, b; cbn; try discriminate; try reflexivity. intros H. apply str_eqb_eq in H. now subst. Qed.

Lemma agree_rel2 template :
  tokens_agree template = true -> names_agree template = true ->
  Forall2 tok_rel2 (map etok_of (filter (fun t => negb (str_eqb t [])) (tokenize template))) (jsr_tpl template).
Proof.
  unfold tokens_agree, names_agree, jsr_tpl.
  induction (filter (fun t => negb (str_eqb t [])) (tokenize template)) as [|s l IH]; cbn [forallb map]; [constructor|].
  intros H1 H2. apply andb_true_iff in H1 as [Hs Hl]. apply andb_true_iff in H2 as [Hn Hln].
  constructor; [|now apply IH]. unfold tok_rel2. split.
  - change (v_tk (jsr_parse_tok s)) with (jsr_parse_tk s) in *. destruct (conv (jsr_parse_tk s)) as [e|] eqn:Ec; [|discriminate Hs].
    apply etok_eqb_eq in Hs. now rewrite Hs.
  - now apply opt_str_eqb_eq.
Qed.

Lemma rel2_rel ets vtoks : Forall2 tok_rel2 ets vtoks -> Forall2 tok_rel (map fst ets) vtoks.
Proof. induction 1 as [|e v l l' [H _] Hl IH]; cbn; constructor; auto. Qed.

Section JsrParams.
Variable O : oracles.

Lemma bind_step (en : etok * option str) v seg caps (rest_names : list str) rest_b :
  tok_rel2 en v -> fst en <> EAll ->
  zip_params (match snd en with Some n => [n] | None => [] end ++ rest_names)
             (match fst en with ELit _ => caps | _ => seg :: caps end)
  = match v_tk v with
    | TLit _ => zip_params rest_names caps
    | TVar n | TRx n _ | TSuf n _ => (n, seg) :: zip_params rest_names caps
    | TTail n => rest_b
    end.
Proof.
  destruct en as [e n]. unfold tok_rel2. cbn [fst snd]. intros [Hc Hn] Hne. subst n.
  destruct (v_tk v); cbn in Hc; try discriminate Hc; injection Hc as <-; cbn; try reflexivity. now contradiction Hne.
Qed.

Lemma route_bindings_sound ets : forall vtoks p1 caps fin,
  Forall2 tok_rel2 ets vtoks ->
  jsr_match O (map fst ets) (slash :: p1) = Some (caps, fin) ->
  zip_params (names_of ets) caps = jsr_bindings vtoks (split slash p1).
Proof.
  induction ets as [|en ets IH]; intros vtoks p1 caps fin Hrel Hm; inversion Hrel as [|? v ? vt Hv Hrest]; subst; cbn [map jsr_match] in Hm.
  - rewrite Ascii.eqb_refl in Hm. injection Hm as <- <-. reflexivity.
  - rewrite Ascii.eqb_refl in Hm. cbn [negb] in Hm.
    destruct (split slash p1) as [|s0 segs0] eqn:Esp; [now contradiction (split_not_nil slash p1)|].
    assert (Hgen : forall seg rest caps', span_seg p1 = (seg, rest) -> fst en <> EAll ->
              jsr_match O (map fst ets) rest = Some (caps', fin) ->
              caps = (match fst en with ELit _ => caps' | _ => seg :: caps' end) ->
              zip_params (names_of (en :: ets)) caps = jsr_bindings (v :: vt) (s0 :: segs0)).
    { intros seg rest caps' Es Hne Em ->. unfold names_of. cbn [flat_map jsr_bindings]. fold (names_of ets).
      rewrite (bind_step en v seg caps' (names_of ets) [] Hv Hne).
      destruct (span_seg_split p1 seg rest Es) as [[-> Hs]|(r1 & -> & Hs)]; rewrite Hs in Esp; injection Esp as <- <-.
      - destruct ets; [|discriminate Em]. inversion Hrest; subst. cbn in Em. injection Em as <- <-.
        destruct Hv as [Hc _]. destruct (v_tk v); cbn in *; try reflexivity; try discriminate Hc. injection Hc as Hc. exfalso. apply Hne. now symmetry.
      - rewrite (IH vt r1 caps' fin Hrest Em).
        destruct Hv as [Hc _]. destruct (v_tk v); cbn in *; try reflexivity; try discriminate Hc. injection Hc as Hc. exfalso. apply Hne. now symmetry. }
    destruct (fst en) eqn:Ee.
    + destruct (span_seg p1) as [seg rest] eqn:Es. destruct (str_eqb seg s); cbn [negb] in Hm; [|discriminate Hm].
      destruct (jsr_match O (map fst ets) rest) as [[caps' fin']|] eqn:Em; [|discriminate Hm]. injection Hm as <- <-.
      eapply Hgen; eauto. discriminate.
    + destruct (span_seg p1) as [seg rest] eqn:Es. destruct (negb (str_eqb seg [])); cbn [negb] in Hm; [|discriminate Hm].
      destruct (jsr_match O (map fst ets) rest) as [[caps' fin']|] eqn:Em; [|discriminate Hm]. injection Hm as <- <-.
      eapply Hgen; eauto. discriminate.
    + destruct (span_seg p1) as [seg rest] eqn:Es. destruct (o_rxfull O re seg); cbn [negb] in Hm; [|discriminate Hm].
      destruct (jsr_match O (map fst ets) rest) as [[caps' fin']|] eqn:Em; [|discriminate Hm]. injection Hm as <- <-.
      eapply Hgen; eauto. discriminate.
    + destruct ets; [|discriminate Hm]. inversion Hrest; subst. cbn [map] in Hm.
      injection Hm as <- <-.
      destruct Hv as [Hc Hn]. rewrite ?Ee in Hc. unfold names_of. cbn [flat_map]. rewrite Hn.
      destruct (v_tk v) eqn:Ev; cbn in Hc; try discriminate Hc. cbn [tk_name app zip_params jsr_bindings]. rewrite Ev.
      now rewrite <- Esp, join_split.
Qed.

Lemma two_phase_bindings ra : forall rt p1 c1 f1 rb tt c2 f2,
  Forall2 tok_rel2 ra rt -> Forall2 tok_rel2 rb tt ->
  jsr_match O (map fst ra) (slash :: p1) = Some (c1, f1) ->
  jsr_match O (map fst rb) f1 = Some (c2, f2) ->
  zip_params (names_of ra) c1 ++ zip_params (names_of rb) c2 = jsr_bindings (rt ++ tt) (split slash p1).
Proof.
  induction ra as [|en ra IH]; intros rt p1 c1 f1 rb tt c2 f2 Hra Hrb Hm1 Hm2; inversion Hra as [|? v ? vt Hv Hrest]; subst; cbn [map jsr_match] in Hm1.
  - rewrite Ascii.eqb_refl in Hm1. injection Hm1 as <- <-.
    cbn [app names_of flat_map zip_params]. eapply route_bindings_sound; eauto.
  - rewrite Ascii.eqb_refl in Hm1. cbn [negb] in Hm1.
    destruct (split slash p1) as [|s0 segs0] eqn:Esp; [now contradiction (split_not_nil slash p1)|].
    assert (Hgen : forall seg rest caps', span_seg p1 = (seg, rest) -> fst en <> EAll ->
              jsr_match O (map fst ra) rest = Some (caps', f1) ->
              c1 = (match fst en with ELit _ => caps' | _ => seg :: caps' end) ->
              zip_params (names_of (en :: ra)) c1 ++ zip_params (names_of rb) c2 = jsr_bindings ((v :: vt) ++ tt) (s0 :: segs0)).
    { intros seg rest caps' Es Hne Em ->. unfold names_of. cbn [flat_map app jsr_bindings]. fold (names_of ra).
      rewrite (bind_step en v seg caps' (names_of ra) [] Hv Hne).
      destruct (span_seg_split p1 seg rest Es) as [[-> Hs]|(r1 & -> & Hs)]; rewrite Hs in Esp; injection Esp as <- <-.
      - destruct ra; [|discriminate Em]. inversion Hrest; subst. cbn in Em. injection Em as <- <-.
        destruct rb; [|discriminate Hm2]. inversion Hrb; subst. cbn in Hm2. injection Hm2 as <- <-.
        destruct Hv as [Hc _]. destruct (v_tk v); cbn in *; try reflexivity; try discriminate Hc. injection Hc as Hc. exfalso. apply Hne. now symmetry.
      - pose proof (IH vt r1 caps' f1 rb tt c2 f2 Hrest Hrb Em Hm2) as Hrec.
        destruct Hv as [Hc _]. destruct (v_tk v); cbn in *; try (now rewrite <- Hrec); try discriminate Hc. injection Hc as Hc. exfalso. apply Hne. now symmetry. }
    destruct (fst en) eqn:Ee.
    + destruct (span_seg p1) as [seg rest] eqn:Es. destruct (str_eqb seg s); cbn [negb] in Hm1; [|discriminate Hm1].
      destruct (jsr_match O (map fst ra) rest) as [[caps' fin']|] eqn:Em; [|discriminate Hm1]. injection Hm1 as <- <-.
      eapply Hgen; eauto. discriminate.
    + destruct (span_seg p1) as [seg rest] eqn:Es. destruct (negb (str_eqb seg [])); cbn [negb] in Hm1; [|discriminate Hm1].
      destruct (jsr_match O (map fst ra) rest) as [[caps' fin']|] eqn:Em; [|discriminate Hm1]. injection Hm1 as <- <-.
      eapply Hgen; eauto. discriminate.
    + destruct (span_seg p1) as [seg rest] eqn:Es. destruct (o_rxfull O re seg); cbn [negb] in Hm1; [|discriminate Hm1].
      destruct (jsr_match O (map fst ra) rest) as [[caps' fin']|] eqn:Em; [|discriminate Hm1]. injection Hm1 as <- <-.
      eapply Hgen; eauto. discriminate.
    + destruct ra; [|discriminate Hm1]. inversion Hrest; subst. cbn [map] in Hm1.
      injection Hm1 as <- <-.
      destruct rb; [|discriminate Hm2]. inversion Hrb; subst. cbn in Hm2. injection Hm2 as <- <-.
      destruct Hv as [Hc Hn]. rewrite ?Ee in Hc. unfold names_of. cbn [flat_map]. rewrite Hn.
      destruct (v_tk v) eqn:Ev; cbn in Hc; try discriminate Hc. cbn [tk_name app zip_params jsr_bindings]. rewrite Ev.
      cbn [names_of flat_map zip_params app]. now rewrite <- Esp, join_split.
Qed.

Lemma pe_toks_map template :
  pe_toks (path_expression template) = map fst (map etok_of (filter (fun t => negb (str_eqb t [])) (tokenize template))).
Proof. reflexivity. Qed.
Lemma pe_names_map template :
  pe_names (path_expression template) = names_of (map etok_of (filter (fun t => negb (str_eqb t [])) (tokenize template))).
Proof. reflexivity. Qed.

(* the parameters RouterJSR311 hands to the route function are the structural bindings of root + route
   template on the path's segments *)
Theorem jsr_invoked_params t req w r ps :
  t_router t = Jsr311 -> route_request O t req = RInvoke w r ps ->
  jsr_tokens_agree w r = true -> jsr_names_agree w r = true ->
  ps = fold_left (fun m kv => pset (fst kv) (snd kv) m) (jsr_route_bindings w r (rq_path req)) [].
Proof.
  intros Hr H Hag Hna. unfold route_request in H.
  destruct (select_route O t req) as [[w0 r0]|e] eqn:Hs; [|discriminate H].
  unfold extract_parameters in H. rewrite Hr in H.
  destruct (jsr_extract_parameters O w0 r0 (rq_path req)) as [l|] eqn:He; [|discriminate H]. injection H as -> -> <-.
  f_equal.
  apply andb_true_iff in Hag as [Hagw Hagr]. apply andb_true_iff in Hna as [Hnaw Hnar].
  pose proof (agree_rel2 _ Hagw Hnaw) as Rw. pose proof (agree_rel2 _ Hagr Hnar) as Rr.
  (* what selection established *)
  unfold select_route in Hs. rewrite Hr in Hs.
  destruct (detect_dispatcher O (rq_path req) (t_services t)) as [[w1 fin]|] eqn:Ed; [|discriminate Hs].
  destruct (jsr_select_routes O w1 fin) as [|c0 cs] eqn:Ec; [discriminate Hs|]. rewrite <- Ec in Hs.
  destruct (detect_route (map rc_route (jsr_select_routes O w1 fin)) req) as [r1|e] eqn:Edr; [|discriminate Hs].
  injection Hs as -> ->.
  apply detect_route_inl in Edr as (Hin & _). apply in_map_iff in Hin as (c & <- & Hcin).
  apply jsr_select_routes_sound in Hcin as (_ & caps2 & fin2 & Hm2 & _).
  apply detect_dispatcher_sound in Ed as (_ & caps1 & Hm1).
  unfold jsr_extract_parameters in He. cbv zeta in He. rewrite Hm1, Hm2 in He. injection He as <-.
  unfold jsr_route_bindings. rewrite pe_toks_map in Hm1, Hm2.
  fold (names_of (map etok_of (filter (fun t0 : str => negb (str_eqb t0 [])) (tokenize (s_root w))))).
  fold (names_of (map etok_of (filter (fun t0 : str => negb (str_eqb t0 [])) (tokenize (r_rel (rc_route c)))))).
  destruct (rq_path req) as [|ch p1] eqn:Ep.
  - destruct (map etok_of (filter (fun t0 => negb (str_eqb t0 [])) (tokenize (s_root w)))) as [|e l]; [|discriminate Hm1].
    cbn in Hm1. injection Hm1 as <- <-.
    destruct (map etok_of (filter (fun t0 => negb (str_eqb t0 [])) (tokenize (r_rel (rc_route c))))) as [|e l]; [|discriminate Hm2].
    cbn in Hm2. injection Hm2 as <- <-. reflexivity.
  - pose proof (jsr_match_nonempty_path O _ _ _ _ _ Hm1). subst ch. unfold path_segs. rewrite Ascii.eqb_refl.
    eapply two_phase_bindings; eauto.
Qed.

End JsrParams.

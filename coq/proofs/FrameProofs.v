(* FrameProofs.v — C12, frame clause: the answer to a request depends on the registration state only through the
   ordered list of root paths and the routes of the ONE service that claims the URL; routes added to or removed
   from any other service, at any moment, cannot change it. *)
From Model Require Import Str Sexp Http Template Table Curly DetectRoute Jsr311 Router.
From Proofs Require Import StrFacts.
From Coq Require Import Lia.

Section Frame.
Variable O : oracles.

Definition same_root (w w' : service) : Prop := s_root w = s_root w'.
Definition opt_rel {A} (R : A -> A -> Prop) (a b : option A) : Prop :=
  match a, b with Some x, Some y => R x y | None, None => True | _, _ => False end.

(* CurlyRouter.detectWebService looks at root paths only *)
Lemma detect_ws_loop_rel qts wss wss' : forall best best' score,
  Forall2 same_root wss wss' -> opt_rel same_root best best' ->
  opt_rel same_root (detect_ws_loop O qts wss best score) (detect_ws_loop O qts wss' best' score).
Proof.
  intros best best' score H. revert best best' score. induction H as [|w w' l l' Hw Hl IH]; intros best best' score Hb; cbn [detect_ws_loop].
  - exact Hb.
  - unfold same_root in Hw. rewrite <- Hw.
    destruct (compute_webservice_score O qts (tokenize (s_root w))) as [m sc].
    destruct (m && Z.ltb score (Z.of_nat sc)); apply IH; [exact Hw|exact Hb].
Qed.

Lemma detect_web_service_rel qts wss wss' :
  Forall2 same_root wss wss' ->
  opt_rel same_root (detect_web_service O qts wss) (detect_web_service O qts wss').
Proof. intros H. unfold detect_web_service. now apply detect_ws_loop_rel. Qed.

(* the position-wise relation "same root, and identical unless touched" *)
Definition untouched_same (touched : str -> bool) (w w' : service) : Prop :=
  s_root w = s_root w' /\ (touched (s_root w) = false -> w = w').

Lemma Forall2_impl {A} (R S : A -> A -> Prop) l l' : (forall a b, R a b -> S a b) -> Forall2 R l l' -> Forall2 S l l'.
Proof. intros H. induction 1; constructor; auto. Qed.

Lemma detect_ws_loop_untouched touched qts wss wss' : forall best best' score,
  Forall2 (untouched_same touched) wss wss' -> opt_rel (untouched_same touched) best best' ->
  opt_rel (untouched_same touched) (detect_ws_loop O qts wss best score) (detect_ws_loop O qts wss' best' score).
Proof.
  intros best best' score H. revert best best' score. induction H as [|w w' l l' Hw Hl IH]; intros best best' score Hb; cbn [detect_ws_loop].
  - exact Hb.
  - destruct Hw as [Hr Hu]. rewrite <- Hr.
    destruct (compute_webservice_score O qts (tokenize (s_root w))) as [m sc].
    destruct (m && Z.ltb score (Z.of_nat sc)); apply IH; [split; assumption|exact Hb].
Qed.

Theorem curly_frame (touched : str -> bool) (t t' : table) (req : request) :
  t_router t = Curly -> t_router t' = Curly ->
  Forall2 (untouched_same touched) (t_services t) (t_services t') ->
  (forall w, detect_web_service O (tokenize (rq_path req)) (t_services t) = Some w -> touched (s_root w) = false) ->
  select_route O t req = select_route O t' req.
Proof.
  intros Hr Hr' Hf Hunt. unfold select_route. rewrite Hr, Hr'.
  pose proof (detect_ws_loop_untouched touched (tokenize (rq_path req)) _ _ None None (-1)%Z Hf Logic.I) as Hd.
  fold (detect_web_service O (tokenize (rq_path req)) (t_services t)) in Hd.
  fold (detect_web_service O (tokenize (rq_path req)) (t_services t')) in Hd.
  destruct (detect_web_service O (tokenize (rq_path req)) (t_services t)) as [w|] eqn:E;
  destruct (detect_web_service O (tokenize (rq_path req)) (t_services t')) as [w'|] eqn:E'; cbn in Hd; try contradiction; [|reflexivity].
  destruct Hd as [_ Hsame]. rewrite <- (Hsame (Hunt w eq_refl)). reflexivity.
Qed.

(* RouterJSR311.detectDispatcher: the candidates carry the service along, the order looks at the root expression only *)
Definition cand_rel (R : service -> service -> Prop) (c c' : disp_cand) : Prop :=
  R (dc_ws c) (dc_ws c') /\ dc_final c = dc_final c' /\ dc_matches c = dc_matches c' /\
  dc_literal c = dc_literal c' /\ dc_nondef c = dc_nondef c'.

Lemma dc_lt_rel R a a' b b' : cand_rel R a a' -> cand_rel R b b' -> dc_lt a b = dc_lt a' b'.
Proof. intros (_ & _ & A1 & A2 & A3) (_ & _ & B1 & B2 & B3). unfold dc_lt. now rewrite A1, A2, A3, B1, B2, B3. Qed.

Lemma insert_desc_rel R x x' l l' :
  cand_rel R x x' -> Forall2 (cand_rel R) l l' -> Forall2 (cand_rel R) (insert_desc dc_lt x l) (insert_desc dc_lt x' l').
Proof.
  intros Hx H. induction H as [|y y' l l' Hy Hl IH]; cbn.
  - constructor; [exact Hx|constructor].
  - rewrite (dc_lt_rel R y y' x x' Hy Hx). destruct (dc_lt y' x').
    + constructor; [exact Hx|]. constructor; assumption.
    + constructor; [exact Hy|exact IH].
Qed.

Lemma sort_desc_rel R l l' : Forall2 (cand_rel R) l l' -> Forall2 (cand_rel R) (sort_desc dc_lt l) (sort_desc dc_lt l').
Proof.
  unfold sort_desc. intros H.
  assert (G : forall acc acc', Forall2 (cand_rel R) acc acc' ->
              Forall2 (cand_rel R) (fold_left (fun a x => insert_desc dc_lt x a) l acc) (fold_left (fun a x => insert_desc dc_lt x a) l' acc')).
  { induction H as [|x x' l l' Hx Hl IH]; intros acc acc' Ha; cbn [fold_left]; [exact Ha|].
    apply IH. now apply insert_desc_rel. }
  apply G. constructor.
Qed.

Lemma dispatcher_cands_rel (R : service -> service -> Prop) path wss wss' :
  (forall w w', R w w' -> s_root w = s_root w') -> Forall2 R wss wss' ->
  Forall2 (cand_rel R) (dispatcher_cands O path wss) (dispatcher_cands O path wss').
Proof.
  intros HR H. unfold dispatcher_cands. induction H as [|w w' l l' Hw Hl IH]; cbn [flat_map]; [constructor|].
  cbn zeta. rewrite <- (HR w w' Hw).
  destruct (jsr_match O (pe_toks (path_expression (s_root w))) path) as [[caps fin]|]; cbn [app]; [|exact IH].
  constructor; [|exact IH]. unfold cand_rel. cbn. auto.
Qed.

Theorem jsr_frame (touched : str -> bool) (t t' : table) (req : request) :
  t_router t = Jsr311 -> t_router t' = Jsr311 ->
  Forall2 (untouched_same touched) (t_services t) (t_services t') ->
  (forall w fin, detect_dispatcher O (rq_path req) (t_services t) = Some (w, fin) -> touched (s_root w) = false) ->
  select_route O t req = select_route O t' req.
Proof.
  intros Hr Hr' Hf Hunt. unfold select_route. rewrite Hr, Hr'.
  assert (Hd : match detect_dispatcher O (rq_path req) (t_services t), detect_dispatcher O (rq_path req) (t_services t') with
               | Some (w, fin), Some (w', fin') => untouched_same touched w w' /\ fin = fin'
               | None, None => True
               | _, _ => False
               end).
  { unfold detect_dispatcher.
    pose proof (sort_desc_rel (untouched_same touched) _ _
                  (dispatcher_cands_rel (untouched_same touched) (rq_path req) _ _ (fun w w' H => proj1 H) Hf)) as Hs.
    destruct (sort_desc dc_lt (dispatcher_cands O (rq_path req) (t_services t))) as [|c l];
    destruct (sort_desc dc_lt (dispatcher_cands O (rq_path req) (t_services t'))) as [|c' l']; inversion Hs as [|? ? ? ? Hc Hl]; subst; [exact Logic.I|].
    destruct Hc as (Hw & Hfin & _). auto. }
  destruct (detect_dispatcher O (rq_path req) (t_services t)) as [[w fin]|] eqn:E;
  destruct (detect_dispatcher O (rq_path req) (t_services t')) as [[w' fin']|] eqn:E'; try contradiction; [|reflexivity].
  destruct Hd as [[_ Hsame] <-]. rewrite <- (Hsame (Hunt w fin eq_refl)). reflexivity.
Qed.

End Frame.

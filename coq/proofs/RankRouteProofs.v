(* RankRouteProofs.v — C03, route level, CurlyRouter: among the routes of the chosen
   service that are eligible for the request, one whose template has a literal where
   another has a variable (same shape otherwise) is never passed over for that other.
   Ingredients: the candidate sort orders by static count; detectRoute answers the
   first candidate that passes its four filters; the static count of a matching
   verb-free template is its number of literal segments. *)
From Model Require Import Str Sexp Http Template Table Curly DetectRoute Jsr311 Router.
From Spec Require Import RouteSpec RankSpec.
From Proofs Require Import StrFacts TemplateFacts CurlyProofs RouterProofs.
From Coq Require Import Lia Permutation Sorted.

(* ---- the candidate sort orders by any key the comparison refines ---- *)
Section KeySort.
Context {X : Type} (lt : X -> X -> bool) (k : X -> nat).
Hypothesis lt_le : forall a b, lt a b = true -> k a <= k b.
Hypothesis lt_of : forall a b, k a < k b -> lt a b = true.

Definition desc (a b : X) : Prop := k b <= k a.

Lemma insert_desc_forall x l (P : X -> Prop) :
  P x -> Forall P l -> Forall P (insert_desc lt x l).
Proof.
  intros Hx Hl. induction Hl as [|y l Hy Hl IH]; cbn [insert_desc]; [now constructor|].
  destruct (lt y x); repeat constructor; auto.
Qed.

Lemma insert_desc_sorted x l :
  StronglySorted desc l -> StronglySorted desc (insert_desc lt x l).
Proof.
  induction 1 as [|y l Hs IH Hy]; cbn [insert_desc]; [repeat constructor|].
  destruct (lt y x) eqn:E.
  - constructor; [now constructor|]. apply lt_le in E.
    constructor; [exact E|]. eapply Forall_impl; [|exact Hy]. unfold desc. intros z Hz. lia.
  - constructor; [exact IH|]. apply insert_desc_forall; [|exact Hy].
    unfold desc. destruct (Nat.le_gt_cases (k x) (k y)) as [H|H]; [exact H|].
    apply lt_of in H. rewrite H in E. discriminate.
Qed.

Lemma sort_desc_sorted_acc l acc :
  StronglySorted desc acc -> StronglySorted desc (fold_left (fun a x => insert_desc lt x a) l acc).
Proof.
  revert acc. induction l as [|x l IH]; intros acc H; cbn [fold_left]; [exact H|].
  apply IH, insert_desc_sorted, H.
Qed.

Lemma sort_desc_sorted l : StronglySorted desc (sort_desc lt l).
Proof. apply sort_desc_sorted_acc. constructor. Qed.

(* in a list sorted by key, the first element that passes a test has the greatest
   key among those that pass *)
Lemma sorted_first_max (P : X -> bool) l la c lb c1 :
  StronglySorted desc l -> l = la ++ c :: lb ->
  forallb (fun x => negb (P x)) la = true ->
  In c1 l -> P c1 = true -> k c1 <= k c.
Proof.
  intros Hs -> Hla Hin Hp. apply in_app_or in Hin as [Hin|[<-|Hin]].
  - rewrite forallb_forall in Hla. specialize (Hla _ Hin). rewrite Hp in Hla. discriminate.
  - lia.
  - revert Hs. clear -Hin. induction la as [|a la IH]; cbn [app]; intros Hs.
    + apply StronglySorted_inv in Hs as [_ Hf]. rewrite Forall_forall in Hf. apply Hf, Hin.
    + apply StronglySorted_inv in Hs as [Hs _]. now apply IH.
Qed.
End KeySort.

(* ---- detectRoute answers the first route that passes all four filters ---- *)
Definition passes (req : request) (r : route) : bool :=
  conds_hold r && str_eqb (rq_method req) (r_method r)
  && matches_content_type r (hget req H_ContentType)
  && matches_accept r (effective_accept req).

Lemma filter_filter {A} (p q : A -> bool) l :
  filter q (filter p l) = filter (fun x => p x && q x) l.
Proof.
  induction l as [|x l IH]; [reflexivity|]. cbn [filter].
  destruct (p x); cbn [filter andb]; [destruct (q x); now rewrite IH|exact IH].
Qed.

Lemma filter_first {A} (P : A -> bool) l r tl :
  filter P l = r :: tl ->
  exists l1 l2, l = l1 ++ r :: l2 /\ forallb (fun x => negb (P x)) l1 = true /\ P r = true.
Proof.
  induction l as [|x l IH]; [discriminate|]. cbn [filter]. destruct (P x) eqn:E.
  - intros H. injection H as -> _. exists [], l. auto.
  - intros H. destruct (IH H) as (l1 & l2 & -> & H1 & H2). exists (x :: l1), l2.
    cbn [app forallb]. rewrite E. auto.
Qed.

Lemma detect_route_first routes req r :
  detect_route routes req = inl r ->
  exists tl, filter (passes req) routes = r :: tl.
Proof.
  unfold detect_route.
  set (c0 := filter _ routes). destruct c0 as [|a0 c0'] eqn:E0; [discriminate|]. rewrite <- E0.
  set (c1 := filter _ c0). destruct c1 as [|a1 c1'] eqn:E1; [discriminate|]. rewrite <- E1.
  set (c2 := filter _ c1).
  assert (Hacc : match hget req H_Accept with [] => L "*/*" | a :: l => a :: l end = effective_accept req).
  { unfold effective_accept. destruct (hget req H_Accept); reflexivity. }
  rewrite Hacc.
  assert (Hc3 : filter (fun r0 => matches_accept r0 (effective_accept req)) c2 = filter (passes req) routes).
  { subst c2 c1 c0. rewrite !filter_filter. apply filter_ext. intros x. unfold passes, conds_hold. now rewrite !andb_assoc. }
  destruct c2 as [|a2 c2'] eqn:E2.
  - destruct (Z.ltb 0 (rq_clen req)); [discriminate|]. cbn [filter]. destruct (_ && _); discriminate.
  - cbv beta iota. rewrite Hc3.
    destruct (filter (passes req) routes) as [|r0 tl] eqn:Ef.
    + destruct (_ && _); discriminate.
    + intros H. injection H as ->. now exists tl.
Qed.

Section P.
Variable O : oracles.

(* ---- static count of a matching verb-free template = its literal segments ---- *)
Definition count_lit (tpl : list vtok) : nat := List.length (filter is_lit tpl).

Lemma loop_counts_static tpl segs pc sc pc' sc' :
  wf_positions tpl = true -> no_verbs tpl = true ->
  loop_counts O tpl segs pc sc = Some (pc', sc') -> sc' = sc + count_lit tpl.
Proof.
  revert segs pc sc. induction tpl as [|t tpl IH]; intros segs pc sc Hwf Hnv H.
  - cbn in H. injection H as _ <-. unfold count_lit. cbn. lia.
  - destruct segs as [|s segs]; [discriminate H|]. cbn [loop_counts] in H.
    unfold no_verbs in Hnv. cbn [forallb] in Hnv. apply andb_true_iff in Hnv as [Hv Hnv].
    destruct (is_tail t) eqn:Et.
    + injection H as _ <-. rewrite (wf_positions_tail_last t tpl Hwf Et).
      unfold count_lit. cbn [filter]. unfold is_lit. unfold is_tail in Et.
      destruct (v_tk t); try discriminate Et. cbn. lia.
    + destruct (vtok_admits O t s); [|discriminate H].
      apply IH in H; [|apply (wf_positions_tail (t :: tpl) Hwf)|exact Hnv].
      subst sc'. unfold next_sc, is_param, count_lit. cbn [filter]. unfold is_lit.
      destruct (v_verb t); [discriminate Hv|]. destruct (v_tk t); cbn [List.length]; lia.
Qed.

Lemma tpl_ge_count a b : tpl_ge a b = true -> count_lit b <= count_lit a.
Proof.
  revert b. induction a as [|x a IH]; intros [|y b] H; try discriminate H; [unfold count_lit; cbn; lia|].
  cbn [tpl_ge] in H. apply andb_true_iff in H as [Hh Ht]. apply IH in Ht.
  unfold count_lit in *. cbn [filter]. destruct (is_lit y) eqn:Ey.
  - assert (Hx : is_lit x = true).
    { unfold is_lit in *. destruct (v_tk x); try reflexivity; destruct (v_tk y); discriminate. }
    rewrite Hx. cbn [List.length]. lia.
  - destruct (is_lit x); cbn [List.length]; lia.
Qed.

Lemma dominates_count a b : dominates a b = true -> count_lit b < count_lit a.
Proof.
  unfold dominates. intros H. apply andb_true_iff in H as [Hab Hba]. apply negb_true_iff in Hba.
  revert b Hab Hba. induction a as [|x a IH]; intros [|y b] Hab Hba; try discriminate.
  cbn [tpl_ge] in Hab, Hba. apply andb_true_iff in Hab as [Hh Ht].
  pose proof (tpl_ge_count _ _ Ht) as Hle.
  unfold count_lit in *. cbn [filter].
  destruct (tpl_ge b a) eqn:Etl.
  - (* the heads differ: x is a literal and y is not *)
    rewrite andb_true_r in Hba.
    destruct (is_lit x) eqn:Ex; [|discriminate Hba].
    destruct (is_lit y) eqn:Ey.
    + exfalso. unfold is_lit in Ex, Ey. destruct (v_tk x) as [sx| | | |]; try discriminate Ex.
      destruct (v_tk y) as [sy| | | |]; try discriminate Ey. rewrite str_eqb_sym, Hh in Hba. discriminate.
    + cbn [List.length]. lia.
  - specialize (IH b Ht Etl).
    destruct (is_lit y) eqn:Ey.
    + assert (Hx : is_lit x = true).
      { unfold is_lit in *. destruct (v_tk x); try reflexivity; destruct (v_tk y); discriminate. }
      rewrite Hx. cbn [List.length]. lia.
    + destruct (is_lit x); cbn [List.length]; lia.
Qed.

(* the static count CurlyRouter computes for a well-formed verb-free template that matches *)
Lemma matches_static w r qts pc sc :
  wf_route w r = true -> no_verbs (route_tpl w r) = true ->
  matches_route_by_path_tokens O (route_parts w r) qts (route_hcv w r) = Some (pc, sc) ->
  sc = count_lit (route_tpl w r).
Proof.
  unfold wf_route, wf_template, route_tpl. intros Hwf Hnv H.
  apply andb_true_iff in Hwf as [Hw Hpos].
  pose proof (wf_positions_no_verb_on_tail _ Hpos) as Htv.
  unfold matches_route_by_path_tokens in H. destruct (_ && _); [discriminate H|].
  rewrite (match_tokens_eq O _ _ qts 0 0 Hw Htv) in H.
  apply (loop_counts_static _ _ _ _ _ _ Hpos Hnv) in H. lia.
Qed.

Lemma cc_lt_le a b : cc_lt a b = true -> cc_static a <= cc_static b.
Proof.
  unfold cc_lt. destruct (Nat.ltb_spec (cc_static a) (cc_static b)); [lia|].
  destruct (Nat.ltb_spec (cc_static b) (cc_static a)); [discriminate|lia].
Qed.
Lemma cc_lt_of a b : cc_static a < cc_static b -> cc_lt a b = true.
Proof. unfold cc_lt. intros H. apply Nat.ltb_lt in H. now rewrite H. Qed.

(* ---- C03, route level, CurlyRouter ---- *)
Theorem curly_literal_route_wins w req r1 r2 :
  In r1 (s_routes w) ->
  wf_route w r1 = true -> wf_route w r2 = true ->
  no_verbs (route_tpl w r1) = true -> no_verbs (route_tpl w r2) = true ->
  admits O w r1 req = true ->
  dominates (route_tpl w r1) (route_tpl w r2) = true ->
  detect_route (map cc_route (curly_select_routes O w (tokenize (rq_path req)))) req <> inl r2.
Proof.
  intros Hin1 Hwf1 Hwf2 Hnv1 Hnv2 Had Hdom Hsel.
  unfold admits in Had.
  apply andb_true_iff in Had as [Had Hcond]. apply andb_true_iff in Had as [Had Hacc].
  apply andb_true_iff in Had as [Had Hct]. apply andb_true_iff in Had as [Hmeth Hpath].
  set (qts := tokenize (rq_path req)) in *.
  set (l := curly_select_routes O w qts) in *.
  (* r1 is a candidate *)
  assert (Hm1 : exists pc1 sc1, matches_route_by_path_tokens O (route_parts w r1) qts (route_hcv w r1) = Some (pc1, sc1)).
  { pose proof (matches_route_iff_admits O (route_hcv w r1) (route_parts w r1) qts Hwf1) as Hi.
    fold (route_tpl w r1) in Hi. rewrite Hpath in Hi.
    destruct (matches_route_by_path_tokens O (route_parts w r1) qts (route_hcv w r1)) as [[pc1 sc1]|]; [now exists pc1, sc1|discriminate Hi]. }
  destruct Hm1 as (pc1 & sc1 & Hm1).
  set (c1 := {| cc_route := r1; cc_param := pc1; cc_static := sc1; cc_path := route_path w r1 |}).
  assert (Hc1 : In c1 l).
  { subst l. unfold curly_select_routes. rewrite sort_desc_In, in_flat_map. exists r1. split; [exact Hin1|].
    rewrite Hm1. now left. }
  assert (Hp1 : passes req (cc_route c1) = true).
  { unfold passes. cbn [cc_route c1]. rewrite Hcond, Hmeth, Hct, Hacc. reflexivity. }
  (* the answer is the first candidate that passes *)
  apply detect_route_first in Hsel as (tl & Hf).
  apply filter_first in Hf as (l1 & l2 & Hl & Hnone & Hp2).
  apply map_eq_app in Hl as (la & lb' & Hl & Hla & Hlb).
  destruct lb' as [|c2 lb]; [discriminate Hlb|]. cbn [map] in Hlb. injection Hlb as Hc2 Hlb.
  assert (Hnone' : forallb (fun c => negb (passes req (cc_route c))) la = true).
  { rewrite <- Hla in Hnone. now rewrite forallb_map in Hnone. }
  pose proof (sorted_first_max cc_static (fun c => passes req (cc_route c)) l la c2 lb c1
                (sort_desc_sorted cc_lt cc_static cc_lt_le cc_lt_of _) Hl Hnone' Hc1 Hp1) as Hle.
  (* but r1 has strictly more literal segments *)
  assert (Hc2in : In c2 l) by (rewrite Hl; apply in_or_app; right; now left).
  apply curly_select_routes_In in Hc2in as (_ & _ & Hm2). rewrite Hc2 in Hm2.
  apply (matches_static w r2 qts _ _ Hwf2 Hnv2) in Hm2.
  apply (matches_static w r1 qts _ _ Hwf1 Hnv1) in Hm1.
  apply dominates_count in Hdom. cbn [cc_static c1] in Hle. lia.
Qed.

(* the same at the level of SelectRoute *)
Theorem curly_select_route_not_dominated t req w r2 :
  t_router t = Curly ->
  select_route O t req = inl (w, r2) ->
  forall r1, In r1 (s_routes w) ->
    wf_route w r1 = true -> wf_route w r2 = true ->
    no_verbs (route_tpl w r1) = true -> no_verbs (route_tpl w r2) = true ->
    admits O w r1 req = true ->
    dominates (route_tpl w r1) (route_tpl w r2) = false.
Proof.
  unfold select_route. intros -> H r1 Hin Hwf1 Hwf2 Hnv1 Hnv2 Had.
  destruct (detect_web_service O (tokenize (rq_path req)) (t_services t)) as [w0|] eqn:Ew; [|discriminate].
  destruct (curly_select_routes O w0 (tokenize (rq_path req))) as [|c0 cs] eqn:Ec; [discriminate|].
  rewrite <- Ec in H.
  destruct (detect_route (map cc_route (curly_select_routes O w0 (tokenize (rq_path req)))) req) as [r0|e] eqn:Ed; [|discriminate].
  injection H as -> ->.
  destruct (dominates (route_tpl w r1) (route_tpl w r2)) eqn:Edom; [|reflexivity].
  exfalso. exact (curly_literal_route_wins w req r1 r2 Hin Hwf1 Hwf2 Hnv1 Hnv2 Had Edom Ed).
Qed.

(* ... and of the routing answer *)
Theorem curly_invoked_not_dominated t req w r2 ps :
  t_router t = Curly ->
  route_request O t req = RInvoke w r2 ps ->
  forall r1, In r1 (s_routes w) ->
    wf_route w r1 = true -> wf_route w r2 = true ->
    no_verbs (route_tpl w r1) = true -> no_verbs (route_tpl w r2) = true ->
    admits O w r1 req = true ->
    dominates (route_tpl w r1) (route_tpl w r2) = false.
Proof.
  unfold route_request. intros Ht H.
  destruct (select_route O t req) as [[w0 r0]|e] eqn:Es; [|discriminate H].
  destruct (extract_parameters O t w0 r0 (rq_path req)); [|discriminate H]. injection H as -> -> _.
  exact (curly_select_route_not_dominated t req w r2 Ht Es).
Qed.

End P.

(* ------------------------------------------------------------------------- *)
(* RouterJSR311: the candidates are ordered by the literal characters of the    *)
(* route's own template first, so the same holds there.                         *)
From Proofs Require Import JsrProofs JsrOutcomeProofs.

Definition e_is_lit (e : etok) : bool := match e with ELit _ => true | _ => false end.
Fixpoint etpl_ge (a b : list etok) : bool :=
  match a, b with
  | [], [] => true
  | x :: a', y :: b' =>
      (match y with
       | ELit s' => match x with ELit s => str_eqb s s' | _ => false end
       | _ => true
       end) && etpl_ge a' b'
  | _, _ => false
  end.
Definition edominates (a b : list etok) : bool := etpl_ge a b && negb (etpl_ge b a).

Definition lit_chars (l : list etok) : nat :=
  fold_right (fun e a => match e with ELit s => List.length s + a | _ => a end) 0 l.
Definition lits_nonempty (l : list etok) : bool :=
  forallb (fun e => match e with ELit [] => false | _ => true end) l.

Lemma pe_literal_fold (ets : list (etok * option str)) acc :
  fold_left (fun a e => match fst e with ELit s => a + List.length s | _ => a end) ets acc
  = acc + lit_chars (map fst ets).
Proof.
  revert acc. induction ets as [|e ets IH]; intros acc; cbn [fold_left map lit_chars fold_right]; [lia|].
  rewrite IH. fold (lit_chars (map fst ets)). destruct (fst e); lia.
Qed.

Lemma pe_literal_sum template :
  pe_literal (path_expression template) = lit_chars (pe_toks (path_expression template)).
Proof. unfold path_expression. cbn [pe_literal pe_toks]. now rewrite pe_literal_fold. Qed.

Lemma pe_toks_lits_nonempty template : lits_nonempty (pe_toks (path_expression template)) = true.
Proof.
  unfold path_expression, lits_nonempty. cbn [pe_toks]. rewrite map_map, forallb_map.
  apply forallb_forall. intros t Ht. apply filter_In in Ht as [_ Hne].
  unfold etok_of. destruct (has_prefix t [lbrace]).
  - destruct (index_char t colon); cbn [fst]; [destruct (str_eqb (trim_space _) _)|]; reflexivity.
  - cbn [fst]. destruct t; [discriminate Hne|reflexivity].
Qed.

Lemma etpl_ge_chars a b : etpl_ge a b = true -> lit_chars b <= lit_chars a.
Proof.
  revert b. induction a as [|x a IH]; intros [|y b] H; try discriminate H; [cbn; lia|].
  cbn [etpl_ge] in H. apply andb_true_iff in H as [Hh Ht]. apply IH in Ht.
  cbn [lit_chars fold_right]. fold (lit_chars a). fold (lit_chars b).
  destruct y as [s'| | |]; try (destruct x; lia).
  destruct x as [s| | |]; try discriminate Hh. apply str_eqb_eq in Hh. subst. lia.
Qed.

Lemma edominates_chars a b :
  lits_nonempty a = true -> edominates a b = true -> lit_chars b < lit_chars a.
Proof.
  unfold edominates. intros Hne H. apply andb_true_iff in H as [Hab Hba]. apply negb_true_iff in Hba.
  revert b Hne Hab Hba. induction a as [|x a IH]; intros [|y b] Hne Hab Hba; try discriminate.
  cbn [etpl_ge] in Hab, Hba. apply andb_true_iff in Hab as [Hh Ht].
  unfold lits_nonempty in Hne. cbn [forallb] in Hne. apply andb_true_iff in Hne as [Hx Hne].
  pose proof (etpl_ge_chars _ _ Ht) as Hle.
  cbn [lit_chars fold_right]. fold (lit_chars a). fold (lit_chars b).
  destruct (etpl_ge b a) eqn:Etl.
  - rewrite andb_true_r in Hba.
    destruct x as [s| | |]; try discriminate Hba.
    destruct y as [s'| | |]; try (destruct s; [discriminate Hx|cbn [List.length]; lia]).
    rewrite str_eqb_sym, Hh in Hba. discriminate.
  - specialize (IH b Hne Ht Etl).
    destruct y as [s'| | |]; try (destruct x; lia).
    destruct x as [s| | |]; try discriminate Hh. apply str_eqb_eq in Hh. subst. lia.
Qed.

Section PJ.
Variable O : oracles.

Lemma rc_lt_le a b : rc_lt a b = true -> rc_literal a <= rc_literal b.
Proof.
  unfold rc_lt. destruct (Nat.ltb_spec (rc_literal a) (rc_literal b)); [lia|].
  destruct (Nat.ltb_spec (rc_literal b) (rc_literal a)); [discriminate|lia].
Qed.
Lemma rc_lt_of a b : rc_literal a < rc_literal b -> rc_lt a b = true.
Proof. unfold rc_lt. intros H. apply Nat.ltb_lt in H. now rewrite H. Qed.

Lemma jsr_select_routes_literal w fin c :
  In c (jsr_select_routes O w fin) -> rc_literal c = pe_literal (path_expression (r_rel (rc_route c))).
Proof.
  unfold jsr_select_routes. rewrite (sort_desc_In rc_lt), in_flat_map. intros (r & Hr & Hc). cbn zeta in Hc.
  destruct (jsr_match O (pe_toks (path_expression (r_rel r))) fin) as [[caps f2]|]; [|contradiction].
  destruct (final_ok f2); [|contradiction]. destruct Hc as [<-|[]]. reflexivity.
Qed.

(* r1's own expression matches what the root left over, r1 passes the four filters, and
   r1's template has a literal where r2's has a variable: r2 is not the answer *)
Theorem jsr_literal_route_wins w fin req r1 r2 caps f2 :
  In r1 (s_routes w) ->
  jsr_match O (pe_toks (path_expression (r_rel r1))) fin = Some (caps, f2) -> final_ok f2 = true ->
  passes req r1 = true ->
  edominates (pe_toks (path_expression (r_rel r1))) (pe_toks (path_expression (r_rel r2))) = true ->
  detect_route (map rc_route (jsr_select_routes O w fin)) req <> inl r2.
Proof.
  intros Hin1 Hm1 Hf1 Hp1 Hdom Hsel.
  set (l := jsr_select_routes O w fin) in *.
  set (c1 := {| rc_route := r1; rc_matches := S (List.length caps) + pe_groups (path_expression (r_rel r1));
                rc_literal := pe_literal (path_expression (r_rel r1));
                rc_nondef := pe_vars (path_expression (r_rel r1)); rc_path := route_path w r1 |}).
  assert (Hc1 : In c1 l).
  { subst l. unfold jsr_select_routes. rewrite (sort_desc_In rc_lt), in_flat_map. exists r1. split; [exact Hin1|].
    cbn zeta. rewrite Hm1, Hf1. now left. }
  apply detect_route_first in Hsel as (tl & Hf).
  apply filter_first in Hf as (l1 & l2 & Hl & Hnone & Hp2).
  apply map_eq_app in Hl as (la & lb' & Hl & Hla & Hlb).
  destruct lb' as [|c2 lb]; [discriminate Hlb|]. cbn [map] in Hlb. injection Hlb as Hc2 Hlb.
  assert (Hnone' : forallb (fun c => negb (passes req (rc_route c))) la = true).
  { rewrite <- Hla in Hnone. now rewrite forallb_map in Hnone. }
  pose proof (sorted_first_max rc_literal (fun c => passes req (rc_route c)) l la c2 lb c1
                (sort_desc_sorted rc_lt rc_literal rc_lt_le rc_lt_of _) Hl Hnone' Hc1 Hp1) as Hle.
  assert (Hc2in : In c2 l) by (rewrite Hl; apply in_or_app; right; now left).
  apply jsr_select_routes_literal in Hc2in. rewrite Hc2 in Hc2in.
  apply edominates_chars in Hdom; [|apply pe_toks_lits_nonempty].
  rewrite <- !pe_literal_sum in Hdom. cbn [rc_literal c1] in Hle. lia.
Qed.

(* literal-over-variable on the structural tokens is the same relation on the expression's
   tokens when they agree (the measured premise tokens_agree) *)
Lemma tpl_ge_rel ea : forall a eb b,
  Forall2 tok_rel ea a -> Forall2 tok_rel eb b -> tpl_ge a b = etpl_ge ea eb.
Proof.
  induction ea as [|ex ea IH]; intros a eb b Ha Hb; inversion Ha as [|? x ? a' Hx Ha']; subst;
    inversion Hb as [|ey y eb' b' Hy Hb']; subst; try reflexivity.
  cbn [tpl_ge etpl_ge]. rewrite (IH _ _ _ Ha' Hb'). f_equal.
  unfold tok_rel in Hx, Hy. unfold is_lit.
  destruct (v_tk y); cbn in Hy; try discriminate Hy; injection Hy as <-;
    destruct (v_tk x); cbn in Hx; try discriminate Hx; injection Hx as <-; reflexivity.
Qed.

Lemma dominates_rel ea a eb b :
  Forall2 tok_rel ea a -> Forall2 tok_rel eb b -> dominates a b = edominates ea eb.
Proof. intros Ha Hb. unfold dominates, edominates. now rewrite (tpl_ge_rel _ _ _ _ Ha Hb), (tpl_ge_rel _ _ _ _ Hb Ha). Qed.

(* at the level of SelectRoute, in the terms of the specification *)
Theorem jsr_select_route_not_dominated t req w r2 :
  t_router t = Jsr311 ->
  select_route O t req = inl (w, r2) ->
  jsr_all_agree w = true ->
  forall r1, In r1 (s_routes w) ->
    jsr_admits O w r1 req = true ->
    dominates (jsr_tpl (r_rel r1)) (jsr_tpl (r_rel r2)) = false.
Proof.
  unfold select_route. intros -> H Hag r1 Hin1 Had.
  destruct (detect_dispatcher O (rq_path req) (t_services t)) as [[w0 fin]|] eqn:Ed; [|discriminate].
  destruct (jsr_select_routes O w0 fin) as [|c0 cs] eqn:Ec; [discriminate|]. rewrite <- Ec in H.
  destruct (detect_route (map rc_route (jsr_select_routes O w0 fin)) req) as [r0|e] eqn:Edr; [|discriminate].
  injection H as -> ->.
  assert (Hin2 : In r2 (s_routes w)).
  { pose proof (detect_route_inl _ _ _ Edr) as (Hi & _). apply in_map_iff in Hi as (c & <- & Hc).
    now apply jsr_select_routes_sound in Hc as (Hc & _). }
  destruct (dominates (jsr_tpl (r_rel r1)) (jsr_tpl (r_rel r2))) eqn:Edom; [|reflexivity]. exfalso.
  apply andb_true_iff in Hag as [Hw Hrs]. rewrite forallb_forall in Hrs.
  pose proof (Hrs _ Hin1) as Hr1. pose proof (Hrs _ Hin2) as Hr2.
  apply detect_dispatcher_sound in Ed as (_ & caps & Hm).
  unfold jsr_admits in Had.
  apply andb_true_iff in Had as [Had Hcond]. apply andb_true_iff in Had as [Had Hacc].
  apply andb_true_iff in Had as [Had Hct]. apply andb_true_iff in Had as [Hmeth Hpath].
  pose proof (jsr_route_iff O w r1 (rq_path req) caps fin Hw Hr1 Hm) as Hiff. rewrite Hpath in Hiff.
  destruct (jsr_match O (pe_toks (path_expression (r_rel r1))) fin) as [[c2 f2]|] eqn:Em1; [|discriminate Hiff].
  rewrite (dominates_rel _ _ _ _ (tokens_agree_rel _ Hr1) (tokens_agree_rel _ Hr2)) in Edom.
  refine (jsr_literal_route_wins w fin req r1 r2 c2 f2 Hin1 Em1 Hiff _ Edom Edr).
  unfold passes. now rewrite Hcond, Hmeth, Hct, Hacc.
Qed.

Theorem jsr_invoked_not_dominated t req w r2 ps :
  t_router t = Jsr311 ->
  route_request O t req = RInvoke w r2 ps ->
  jsr_all_agree w = true ->
  forall r1, In r1 (s_routes w) ->
    jsr_admits O w r1 req = true ->
    dominates (jsr_tpl (r_rel r1)) (jsr_tpl (r_rel r2)) = false.
Proof.
  unfold route_request. intros Ht H Hag.
  destruct (select_route O t req) as [[w0 r0]|e] eqn:Es; [|discriminate H].
  destruct (extract_parameters O t w0 r0 (rq_path req)); [|discriminate H]. injection H as -> -> _.
  exact (jsr_select_route_not_dominated t req w r2 Ht Es Hag).
Qed.

End PJ.

(* Registration-time values: what a route inherited from its WebService is fixed when the route is added. *)
From Coq Require Import List ZArith Lia.
From Model Require Import Str Table Builder.
Import ListNotations.

Lemma ws_run_app s a b : ws_run s (a ++ b) = ws_run (ws_run s a) b.
Proof. unfold ws_run. apply fold_left_app. Qed.

(* later calls only ever append: the routes a state has are a prefix of the routes of every later state *)
Lemma routes_prefix ops : forall s, exists added, w_routes (ws_run s ops) = w_routes s ++ added.
Proof.
  induction ops as [|op ops IH]; intros s; cbn [ws_run fold_left].
  - exists []. now rewrite app_nil_r.
  - destruct (IH (ws_step s op)) as [added Ha]. unfold ws_run in Ha. rewrite Ha.
    destruct op as [l|l|r]; cbn [ws_step w_routes].
    + now exists added.
    + now exists added.
    + exists (copy_defaults s r :: added). now rewrite <- app_assoc.
Qed.

Lemma w_prod_run ops : forall s, w_prod (ws_run s ops) = last_produces ops (w_prod s).
Proof.
  induction ops as [|op ops IH]; intros s; cbn [ws_run fold_left last_produces]; [reflexivity|].
  unfold ws_run in IH. rewrite IH. destruct op; reflexivity.
Qed.
Lemma w_cons_run ops : forall s, w_cons (ws_run s ops) = last_consumes ops (w_cons s).
Proof.
  induction ops as [|op ops IH]; intros s; cbn [ws_run fold_left last_consumes]; [reflexivity|].
  unfold ws_run in IH. rewrite IH. destruct op; reflexivity.
Qed.

(* the route added after the history [before] is, in the finished service and whatever calls follow, the builder's
   route with the lists that were in force after [before] *)
Theorem route_keeps_what_it_inherited before r after :
  let s := ws_build before in
  nth_error (w_routes (ws_build (before ++ BRoute r :: after))) (length (w_routes s)) = Some (copy_defaults s r)
  /\ firstn (length (w_routes s)) (w_routes (ws_build (before ++ BRoute r :: after))) = w_routes s.
Proof.
  intros s. unfold ws_build. rewrite ws_run_app. fold (ws_build before). fold s.
  change (ws_run s (BRoute r :: after)) with (ws_run (ws_step s (BRoute r)) after).
  destruct (routes_prefix after (ws_step s (BRoute r))) as [added Ha]. rewrite Ha.
  cbn [ws_step w_routes]. rewrite <- app_assoc. split.
  - rewrite nth_error_app2 by lia. now rewrite Nat.sub_diag.
  - rewrite firstn_app, Nat.sub_diag, firstn_all. cbn [firstn]. now rewrite app_nil_r.
Qed.

Theorem inherited_lists before r :
  let s := ws_build before in
  r_produces (copy_defaults s r) = inherit (last_produces before []) (r_produces r) /\
  r_consumes (copy_defaults s r) = inherit (last_consumes before []) (r_consumes r).
Proof.
  intros s. unfold s, ws_build. cbn [copy_defaults r_produces r_consumes].
  now rewrite w_prod_run, w_cons_run.
Qed.

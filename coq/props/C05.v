(* C05 — the written entity's media type is produced by the route and best for Accept. *)
From Model Require Import Str Sexp Http Template Table DetectRoute Negotiate Builder.
From Proofs Require Import NegotiateProofs BuilderProofs.

(* Ranking.  For every predicate "this range selects a writer" and every list of parsed
   ranges: the first selecting range in sortedMimes' order is [best]: a selecting range of
   maximal quality ([best_spec]) and, among equals, the earliest in the header ([best_earliest]). *)
Definition C05_ranking_statement : Prop :=
  forall (P : str * Z -> bool) (ranges : list (str * Z)),
    find P (sort_ranges ranges) = best P ranges /\
    match best P ranges with
    | None => forall e, In e ranges -> P e = false
    | Some r => In r ranges /\ P r = true /\ forall e, In e ranges -> P e = true -> (snd e <= snd r)%Z
    end.
Theorem C05_ranking : C05_ranking_statement.
Proof. intros P ranges. split; [apply find_sorted_is_best|apply best_spec]. Qed.
Print Assumptions C05_ranking.

Definition C05_ties_statement : Prop :=
  forall (P : str * Z -> bool) pre r post,
    P r = true -> (forall e, In e pre -> P e = true -> (snd e < snd r)%Z) ->
    (forall e, In e post -> P e = true -> (snd e <= snd r)%Z) ->
    best P (pre ++ r :: post) = Some r.
Theorem C05_ties : C05_ties_statement.
Proof. exact best_earliest. Qed.
Print Assumptions C05_ties.

(* The writer.  For every ParseFloat oracle, every registered-writer set, every non-empty
   Produces list over registered types, every default content type and every Accept header
   (absent = the wildcard range): when some range selects a writer, EntityWriter answers exactly ONE type
   (whatever the map iteration order), it is in Produces and registered, and it is what the
   best range stands for: its own media type, or, for the wildcard range, the first Produces entry. *)
Definition C05_writer_statement : Prop :=
  forall (qrank : str -> option Z) (reg produces : list str) (dflt accept0 : str) (r : str * Z),
    premise reg produces ->
    best (selects reg produces) (parsed_ranges qrank (match accept0 with [] => L "*/*" | _ => accept0 end)) = Some r ->
    exists k, entity_writer qrank reg produces dflt accept0 = [k] /\ In k produces /\ mem k reg = true /\
              (k = fst r \/ (fst r = L "*/*" /\ exists rest, produces = k :: rest)).
Theorem C05_writer : C05_writer_statement.
Proof. exact entity_writer_sound. Qed.
Print Assumptions C05_writer.

(* A request the router admitted on Accept grounds (route.go matchesAccept, the model of
   C01/C02) is never answered 406 by the entity writer — for headers whose q values parse. *)
Definition C05_never_406_statement : Prop :=
  forall (qrank : str -> option Z) (reg produces : list str) (dflt accept0 : str) (rt : route),
    premise reg produces -> r_produces rt = produces ->
    let accept := match accept0 with [] => L "*/*" | _ => accept0 end in
    all_q_parse qrank accept -> matches_accept rt accept = true ->
    exists k, entity_writer qrank reg produces dflt accept0 = [k] /\ In k produces /\ mem k reg = true.
Theorem C05_never_406 : C05_never_406_statement.
Proof. exact admitted_never_406. Qed.
Print Assumptions C05_never_406.

(* Optional whitespace around "," ";" "=" and the position of q among the parameters do not
   change what a range means. *)
Definition C05_ows_statement : Prop :=
  forall qrank (s1 s2 s3 s4 s5 s6 m v : str) (others : list str) z,
    spaces s1 -> spaces s2 -> spaces s3 -> spaces s4 -> spaces s5 -> spaces s6 ->
    no_char semi m -> no_char semi v -> no_char equals s3 ->
    (match m with c :: _ => c <> space | [] => True end) -> (match rev m with c :: _ => c <> space | [] => True end) ->
    (match v with c :: _ => c <> space | [] => True end) -> (match rev v with c :: _ => c <> space | [] => True end) ->
    no_char semi s1 -> no_char semi s2 -> no_char semi s3 -> no_char semi s4 -> no_char semi s5 -> no_char semi s6 ->
    Forall (fun p => no_char semi p /\ match split_eq p with Some (k, _) => trim space k <> L "q" | None => True end) others ->
    qrank v = Some z ->
    parse_range qrank (s1 ++ m ++ s2 ++ concat (map (fun p => semi :: p) others) ++
                       semi :: (s3 ++ L "q" ++ s4 ++ equals :: s5 ++ v ++ s6)) = Some (m, z).
Theorem C05_ows : C05_ows_statement.
Proof. exact parse_range_ows. Qed.
Print Assumptions C05_ows.

(* "the same request always gets the same representation": for EVERY registry, Produces list, default type and Accept
   header (inside the premise or not, q values parsable or not) the entity writer has at most one possible answer.
   (Before fix F10 the reverse lookup ranged over a map and the model returned the set of possible answers.) *)
Definition C05_single_answer_statement : Prop :=
  forall qrank reg produces dflt accept0, length (entity_writer qrank reg produces dflt accept0) <= 1.
Theorem C05_single_answer : C05_single_answer_statement.
Proof. exact entity_writer_single. Qed.
Print Assumptions C05_single_answer.

Example C05_example :
  let qrank (s : str) := if str_eqb s (L "1") then Some 2%Z else if str_eqb s (L "0.9") then Some 1%Z else None in
  let reg := [L "application/json"; L "application/xml"] in
  premise reg [L "application/xml"; L "application/json"] /\
  entity_writer qrank reg [L "application/xml"; L "application/json"] [] (L "text/html, application/json ; v=1 ;q = 0.9 ,  application/xml") = [L "application/xml"] /\
  entity_writer qrank reg [L "application/xml"; L "application/json"] [] (L "application/json, application/xml") = [L "application/json"] /\
  entity_writer qrank reg [L "application/xml"; L "application/json"] (L "application/json") [] = [L "application/xml"].
Proof. vm_compute. repeat split; try reflexivity; try discriminate. intros p [<-|[<-|[]]]; reflexivity. Qed.

(* "the route's declared Produces": what a route that declares nothing itself inherits from its WebService is fixed
   when the route is added. For every history of ws.Produces / ws.Consumes / ws.Route calls before it and EVERY history
   after it, the route sits where it was put, the routes before it are untouched, and its lists are its own or, where
   it declared none, the last ones the service had declared by then. *)
Definition C05_registration_time_statement : Prop :=
  forall (before after : list bop) (r : route),
    let s := ws_build before in
    let final := ws_build (before ++ BRoute r :: after) in
    nth_error (w_routes final) (length (w_routes s)) = Some (copy_defaults s r) /\
    firstn (length (w_routes s)) (w_routes final) = w_routes s /\
    r_produces (copy_defaults s r) = inherit (last_produces before []) (r_produces r) /\
    r_consumes (copy_defaults s r) = inherit (last_consumes before []) (r_consumes r).
Theorem C05_registration_time : C05_registration_time_statement.
Proof.
  intros before after r s final.
  destruct (route_keeps_what_it_inherited before r after) as [H1 H2].
  destruct (inherited_lists before r) as [H3 H4]. repeat split; assumption.
Qed.
Print Assumptions C05_registration_time.

Example C05_registration_time_example :
  let mk own := {| r_id := 1; r_method := L "GET"; r_rel := L "/v"; r_consumes := []; r_produces := own;
                   r_conds := []; r_noct := []; r_enc := None |} in
  map r_produces (w_routes (ws_build [BProduces [L "application/json"; L "application/xml"]; BRoute (mk []);
                                      BProduces [L "application/xml"]; BRoute (mk []); BRoute (mk [L "text/plain"])]))
  = [[L "application/json"; L "application/xml"]; [L "application/xml"]; [L "text/plain"]].
Proof. vm_compute. reflexivity. Qed.

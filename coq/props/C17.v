(* C17 — Allow headers tell the truth about which methods are routable. *)
From Model Require Import Str Sexp Http Template Table Curly DetectRoute Jsr311 Router Options.
From Spec Require Import RouteSpec.
From Proofs Require Import OptionsProofs.

(* 405 part — proved at full strength, for both routers and EVERY table (not only the
   common fragment): the Allow list of a 405 response names exactly the methods for which
   a request to the same URL (same headers) is not answered 404 or 405. *)
Definition C17_allow405_statement : Prop :=
  forall (O : oracles) (t : table) (req : request) (allow : list str),
    route_request O t req = RError (E405 allow) ->
    forall m, In m allow <-> status_class (route_request O t (with_method req m)) = false.
Theorem C17_allow405 : C17_allow405_statement.
Proof. exact allow405_truth. Qed.
Print Assumptions C17_allow405.

(* the OPTIONS filter answers OPTIONS requests itself (does not pass control on, so no
   route function runs), listing computeAllowedMethods in Allow and
   Access-Control-Allow-Methods; every other method passes untouched *)
Definition C17_options_filter_statement : Prop :=
  forall (O : oracles) (t : table) (req : request),
  (rq_method req = L "OPTIONS" ->
     snd (options_decide O t req) = false /\
     hvalues H_Allow (fst (options_decide O t req)) = [join [comma] (compute_allowed_methods O t (rq_path req))] /\
     hvalues H_ACAllowMethods (fst (options_decide O t req)) = [join [comma] (compute_allowed_methods O t (rq_path req))]) /\
  (rq_method req <> L "OPTIONS" -> options_decide O t req = ([], true)).
Theorem C17_options_filter : C17_options_filter_statement.
Proof. exact options_filter_behaviour. Qed.
Print Assumptions C17_options_filter.

(* The full statement for the OPTIONS filter — "the listed set equals the routable set,
   for every table of the fragment and every URL" — is FALSE of the faithful model and of
   the code (known findings K-C17-1, K-C17-2): *)
Definition C17_options_full_statement : Prop :=
  forall (O : oracles) (t : table) (req : request) (m : str),
    In m (compute_allowed_methods O t (rq_path req)) <->
    status_class (route_request O t (with_method req m)) = false.

Definition O0 : oracles := {| o_lower := lower_ascii; o_rx := fun _ _ => false; o_rxfull := fun _ _ => false |}.
Definition mk (id : Z) (m rel : string) : route :=
  {| r_id := id; r_method := L m; r_rel := L rel; r_consumes := []; r_produces := [];
     r_conds := []; r_noct := []; r_enc := None |}.
Definition rq0 (p : string) : request := {| rq_method := L "OPTIONS"; rq_path := L p; rq_headers := []; rq_clen := 0 |}.

(* nested literal roots: the filter lists GET although GET is answered 405 *)
Theorem C17_refuted_nested_roots : ~ C17_options_full_statement.
Proof.
  intros H.
  specialize (H O0 {| t_router := Curly;
                      t_services := [ {| s_root := L "/a"; s_routes := [mk 1 "GET" "/b/c"] |};
                                      {| s_root := L "/a/b"; s_routes := [mk 2 "POST" "/c"] |} ] |}
                (rq0 "/a/b/c") (L "GET")).
  vm_compute in H. destruct H as [H _]. assert (F : false = true -> False) by discriminate. apply F.
  symmetry. apply H. left. reflexivity.
Qed.
Print Assumptions C17_refuted_nested_roots.

(* an empty segment under CurlyRouter: GET /a//b is routed, the filter lists nothing *)
Theorem C17_refuted_empty_segment : ~ C17_options_full_statement.
Proof.
  intros H.
  specialize (H O0 {| t_router := Curly;
                      t_services := [ {| s_root := L "/a"; s_routes := [mk 1 "GET" "/{v}/b"] |} ] |}
                (rq0 "/a//b") (L "GET")).
  vm_compute in H. destruct H as [_ H]. exact (H eq_refl).
Qed.
Print Assumptions C17_refuted_empty_segment.

(* a route whose If-condition fails: every method is answered 404, the filter still lists the route's method
   (known finding K-C17-3: computeAllowedMethods does not consult conditions) *)
Theorem C17_refuted_failing_condition : ~ C17_options_full_statement.
Proof.
  intros H.
  specialize (H O0 {| t_router := Curly;
                      t_services := [ {| s_root := L "/"; s_routes :=
                         [ {| r_id := 1; r_method := L "GETALL"; r_rel := L "/"; r_consumes := []; r_produces := [];
                              r_conds := [false]; r_noct := []; r_enc := None |} ] |} ] |}
                (rq0 "/") (L "GETALL")).
  vm_compute in H. destruct H as [H _]. assert (F : false = true -> False) by discriminate. apply F.
  symmetry. apply H. left. reflexivity.
Qed.
Print Assumptions C17_refuted_failing_condition.

(* C10 — a panic anywhere in the chain becomes one 500 and leaves the container usable.
   (partial: Go's panic/defer/recover is modelled as the [Done]/[Panicked] result with the
   defers of dispatch written out in registration order) *)
From Model Require Import Str Sexp Http Template Table Curly DetectRoute Jsr311 Router Dispatch.
From Spec Require Import DispatchSpec.
From Proofs Require Import DispatchProofs ServeProofs PurityProofs.
From Coq Require Import Lia List.

(* recovery on (and a recover handler that does not panic itself): no panic escapes
   Dispatch / ServeHTTP, wherever it is raised — any filter before or after passing control
   on, the route function before or after writing, parameter extraction *)
Definition C10_no_escape_statement : Prop :=
  forall (O : oracles) (cfg : dcfg) (en : entry) (req : request) (s : rstate),
    routed_request cfg req -> d_recover cfg = true -> panic_free (d_recover_script cfg) = true ->
    exists s', serve O cfg en req s = Done s'.
Theorem C10_no_escape : C10_no_escape_statement.
Proof. exact serve_no_escape. Qed.
Print Assumptions C10_no_escape.

(* the recover handler is called at most once per request, and exactly once with the
   status it sets reaching the client when nothing had been written before the panic *)
Definition C10_once_statement : Prop :=
  (forall O cfg req already s,
     st_recovered (state_of (dispatch O cfg req already s)) <= S (st_recovered s)) /\
  (forall O cfg req already s m s1 n rest,
     d_recover cfg = true -> d_recover_script cfg = AStatus n :: rest ->
     dispatch_body O cfg req already s = Panicked m s1 -> st_status s1 = None ->
     st_status (state_of (dispatch O cfg req already s)) = Some n /\
     st_recovered (state_of (dispatch O cfg req already s)) = S (st_recovered s1)).
Theorem C10_once : C10_once_statement.
Proof. exact (conj recover_at_most_once recovered_status). Qed.
Print Assumptions C10_once.

(* recovery off: the panic reaches the caller with the same value *)
Definition C10_propagates_statement : Prop :=
  forall O cfg req already s m s1,
    d_recover cfg = false -> dispatch_body O cfg req already s = Panicked m s1 ->
    exists s', dispatch O cfg req already s = Panicked m s'.
Theorem C10_propagates : C10_propagates_statement.
Proof. exact dispatch_propagates. Qed.
Print Assumptions C10_propagates.

(* no compressor lost: after EVERY request — panicking or not, recovered or not, through
   either entry point — every acquired compressor has been released exactly once and its
   stream is closed (complete frame); so over any history of requests the ledger stays
   balanced (the invariant is re-established by each request from any balanced state) *)
Definition C10_ledger_statement : Prop :=
  forall O cfg en req s, clean s -> balanced (state_of (serve O cfg en req s)).
Theorem C10_ledger : C10_ledger_statement.
Proof. intros O cfg en req s H. exact (proj1 (serve_books O cfg en req s H)). Qed.
Print Assumptions C10_ledger.

Example C10_example :
  let O := {| o_lower := lower_ascii; o_rx := fun _ _ => false; o_rxfull := fun _ _ => false |} in
  let cfg := {| d_table := {| t_router := Curly; t_services := [ {| s_root := L "/"; s_routes :=
                   [ {| r_id := 1; r_method := L "GET"; r_rel := L "/a"; r_consumes := []; r_produces := [];
                        r_conds := []; r_noct := []; r_enc := None |} ] |} ] |};
                d_cfilters := [ {| f_id := L "c0"; f_pre := []; f_pass := true; f_post := [APanic (L "late")]; f_fresh := false; f_mw := 0; f_wrap := false |} ];
                d_sfilters := []; d_rfilters := []; d_handlers := [(1%Z, [AWrite (L "partial")])];
                d_encoding := true; d_recover := true; d_recover_script := [AStatus 500; AWrite (L "<r>")]; d_condpanic := []; d_plain := [] |} in
  let req := {| rq_method := L "GET"; rq_path := L "/a"; rq_headers := [(H_AcceptEncoding, L "gzip")]; rq_clen := 0 |} in
  let s := state_of (serve O cfg EServeHTTP req (st0 [])) in
  st_recovered s = 1 /\ st_acq s = 1 /\ st_rel s = 1 /\
  st_comp s = Some (Gzip, [L "partial"; L "<r>"], true) /\ st_status s = Some 200%Z.
Proof. vm_compute. repeat split; reflexivity. Qed.

(* "afterwards the container serves every following request exactly as it would have otherwise": in any history,
   with any number of panicking requests in it (recovered, or propagated to a caller that goes on using the
   container), raised anywhere, before or after output — every request is answered exactly as alone on a fresh
   container.  (serve_all carries the log and the acquire / release / recover counters on from request to request;
   this is the instance of C19_history that C10 states.) *)
Definition C10_following_requests_statement : Prop :=
  forall O cfg hs w i en req h,
    nth_error hs i = Some (en, req, h) ->
    exists wi r, nth_error (fst (serve_all O cfg hs w)) i = Some (wi, r) /\
                 answer_in wi r = answer (serve O cfg en req (st0 h)).
Theorem C10_following_requests : C10_following_requests_statement.
Proof. exact history_independent. Qed.
Print Assumptions C10_following_requests.

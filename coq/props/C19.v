(* C19 — serving a request is a pure function of configuration and request.
   (partial: sequential histories by construction + frame; concurrency by the
   differential run under the race detector) *)
From Model Require Import Str Sexp Http Template Table Curly DetectRoute Jsr311 Router Dispatch.
From Spec Require Import DispatchSpec.
From Proofs Require Import DispatchProofs ServeProofs.

(* The model of Container.dispatch / ServeHTTP takes the configuration, the request and the
   per-request state (fresh recorder) and nothing else: go-restful keeps no other state
   across requests (the FilterChain, the Request/Response wrappers, the parameter map and the
   candidate list are allocated inside dispatch; the CORS filter works on a copy of its
   value, see C09_once).  What DOES outlive a request is the compressor pool; its
   discipline is re-established by every request whatever happened before: *)
Definition C19_pool_invariant_statement : Prop :=
  forall O cfg en req s, clean s -> balanced (state_of (serve O cfg en req s)).
Theorem C19_pool_invariant : C19_pool_invariant_statement.
Proof. intros O cfg en req s H. exact (proj1 (serve_books O cfg en req s H)). Qed.
Print Assumptions C19_pool_invariant.

(* the structural answer (which filters and which route function ran, in which order) is a
   function of configuration and request alone, from any starting state *)
Definition C19_events_statement : Prop :=
  forall O cfg en req s1 s2,
    routed_request cfg req -> cfg_has_panic cfg = false -> route_request O (d_table cfg) req <> RPanic ->
    exists a b, serve O cfg en req s1 = Done a /\ serve O cfg en req s2 = Done b /\
                skipn (length (slog s1)) (slog a) = skipn (length (slog s2)) (slog b).
Theorem C19_events : C19_events_statement.
Proof.
  intros O cfg en req s1 s2 Hr Hp Hn.
  destruct (serve_events O cfg en req s1 Hr Hp Hn) as (a & Ea & La).
  destruct (serve_events O cfg en req s2 Hr Hp Hn) as (b & Eb & Lb).
  exists a, b. repeat split; auto. rewrite La, Lb.
  rewrite !skipn_app, !skipn_all, !PeanoNat.Nat.sub_diag. reflexivity.
Qed.
Print Assumptions C19_events.

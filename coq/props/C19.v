(* C19 — serving a request is a pure function of configuration and request.
   (partial: sequential histories by construction + frame; concurrency by the
   differential run under the race detector) *)
From Model Require Import Str Sexp Http Template Table Curly DetectRoute Jsr311 Router Dispatch.
From Spec Require Import DispatchSpec.
From Proofs Require Import DispatchProofs ServeProofs PurityProofs.
From Coq Require Import List ZArith.
Import ListNotations.

(* The model of Container.dispatch / ServeHTTP takes the configuration, the request and the
   per-request state (fresh recorder) and nothing else: go-restful keeps no other state
   across requests (the FilterChain, the Request/Response wrappers, the parameter map and the
   candidate list are allocated inside dispatch; the CORS filter works on a copy of its
   value, see C09_once).  What DOES outlive a request is the compressor pool; its
   discipline is re-established by every request whatever happened before: *)
Definition C19_pool_invariant_statement : Prop :=
  forall O cfg en req s, clean s -> balanced (state_of (serve O cfg en req s)).
Theorem C19_pool_invariant : C19_pool_invariant_statement.
Proof. intros O cfg en req s H. exact (proj1 (serve_books O cfg en req s H)). Qed.
Print Assumptions C19_pool_invariant.

(* the structural answer (which filters and which route function ran, in which order) is a
   function of configuration and request alone, from any starting state *)
Definition C19_events_statement : Prop :=
  forall O cfg en req s1 s2,
    routed_request cfg req -> cfg_has_panic cfg = false -> route_request O (d_table cfg) req <> RPanic ->
    exists a b, serve O cfg en req s1 = Done a /\ serve O cfg en req s2 = Done b /\
                skipn (length (slog s1)) (slog a) = skipn (length (slog s2)) (slog b).
Theorem C19_events : C19_events_statement.
Proof.
  intros O cfg en req s1 s2 Hr Hp Hn.
  destruct (serve_events O cfg en req s1 Hr Hp Hn) as (a & Ea & La).
  destruct (serve_events O cfg en req s2 Hr Hp Hn) as (b & Eb & Lb).
  exists a, b. repeat split; auto. rewrite La, Lb.
  rewrite !skipn_app, !skipn_all, !PeanoNat.Nat.sub_diag. reflexivity.
Qed.
Print Assumptions C19_events.

(* C19 in full for sequential histories.  A history is a list of (entry point, request, headers on the writer at
   arrival); [serve_all] serves it from a world [w] (the event log written so far, the provider's acquire / release
   counters, the number of recover-handler calls), every request on a fresh recorder, the world carried on from request
   to request.  Whatever the configuration (panicking scripts, recovery on or off, content encoding, plain handlers,
   both routers), whatever the history and the world it starts from: every request of the history gets exactly the
   answer (panic value, status, headers, raw chunks, compressor contents, attributes, its own events incl. the path
   parameters and selected route the handler saw) it gets alone on a fresh container. *)
Definition C19_history_statement : Prop :=
  forall O cfg hs w i en req h,
    nth_error hs i = Some (en, req, h) ->
    exists wi r, nth_error (fst (serve_all O cfg hs w)) i = Some (wi, r) /\
                 answer_in wi r = answer (serve O cfg en req (st0 h)).
Theorem C19_history : C19_history_statement.
Proof. exact history_independent. Qed.
Print Assumptions C19_history.

(* "whichever other requests were served before": the same request in two histories — another order, other company,
   another starting world — gets the same answer *)
Definition C19_any_order_statement : Prop :=
  forall O cfg hs hs' w w' i j en req h,
    nth_error hs i = Some (en, req, h) -> nth_error hs' j = Some (en, req, h) ->
    exists wi ri wj rj, nth_error (fst (serve_all O cfg hs w)) i = Some (wi, ri) /\
                        nth_error (fst (serve_all O cfg hs' w')) j = Some (wj, rj) /\
                        answer_in wi ri = answer_in wj rj.
Theorem C19_any_order : C19_any_order_statement.
Proof. exact same_answer_in_any_history. Qed.
Print Assumptions C19_any_order.

(* the law behind it: serving commutes with shifting the world it starts from *)
Definition C19_frame_statement : Prop :=
  forall O w cfg en req s, serve O cfg en req (PurityProofs.shift w s) = shift_res w (serve O cfg en req s).
Theorem C19_frame : C19_frame_statement.
Proof. exact serve_shift. Qed.
Print Assumptions C19_frame.

(* not vacuous: a history of an encoded request, a request that panics late (recovered) and the first one again;
   the third answer equals the first although log and counters have moved on *)
Example C19_history_example :
  let O := {| o_lower := lower_ascii; o_rx := fun _ _ => false; o_rxfull := fun _ _ => false |} in
  let cfg := {| d_table := {| t_router := Curly; t_services := [ {| s_root := L "/"; s_routes :=
                   [ {| r_id := 1; r_method := L "GET"; r_rel := L "/a"; r_consumes := []; r_produces := [];
                        r_conds := []; r_noct := []; r_enc := None |};
                     {| r_id := 2; r_method := L "GET"; r_rel := L "/p/{x}"; r_consumes := []; r_produces := [];
                        r_conds := []; r_noct := []; r_enc := None |} ] |} ] |};
                d_cfilters := [ {| f_id := L "c0"; f_pre := [AAttr (L "k") (L "v")]; f_pass := true; f_post := []; f_fresh := false; f_mw := 0; f_wrap := false |} ];
                d_sfilters := []; d_rfilters := [];
                d_handlers := [(1%Z, [ASee (L "k"); AWrite (L "body")]); (2%Z, [AWrite (L "partial"); APanic (L "boom")])];
                d_encoding := true; d_recover := true; d_recover_script := [AStatus 500; AWrite (L "<r>")]; d_condpanic := []; d_plain := [] |} in
  let ra := {| rq_method := L "GET"; rq_path := L "/a"; rq_headers := [(H_AcceptEncoding, L "gzip")]; rq_clen := 0 |} in
  let rp := {| rq_method := L "GET"; rq_path := L "/p/7"; rq_headers := []; rq_clen := 0 |} in
  let hs := [(EServeHTTP, ra, []); (EDispatch, rp, []); (EServeHTTP, ra, [])] in
  let '(out, wf) := serve_all O cfg hs w0 in
  w_acq wf = 2 /\ w_rel wf = 2 /\ w_rec wf = 1 /\ length (w_log wf) = 14 /\
  match out with
  | [(w1, r1); (w2, r2); (w3, r3)] =>
      answer_in w1 r1 = answer_in w3 r3 /\ w_log w3 <> [] /\
      snd (fst (fst (snd (answer_in w3 r3)))) = Some (Gzip, [L "body"], true) /\
      fst (fst (fst (fst (fst (snd (answer_in w2 r2)))))) = Some 200%Z
  | _ => False
  end.
Proof. vm_compute. repeat split; try reflexivity. discriminate. Qed.

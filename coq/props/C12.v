(* C12 — services and routes can change while requests are being served.
   (partial: the lock / access table comes from the translator; Go's memory model and the
   sync.RWMutex implementation are assumed; the behavioural half rests on the stress run) *)
From Model Require Import Str Sexp Http Template Table Curly DetectRoute Jsr311 Router Conc.
From Proofs Require Import ConcProofs FrameProofs.
From Coq Require Import List String. Import ListNotations.
Open Scope string_scope.

(* No data race: for ANY table of access paths that passes the per-path check (every write
   holds the lock guarding its location exclusively, every read holds it at least shared),
   any number of threads each running any of the paths, and any schedule: no two threads are
   ever simultaneously about to perform conflicting accesses to the same location. *)
Definition C12_no_race_statement : Prop :=
  forall (paths : list (list ev)) (sched : list nat) i j ti tj a b,
    forallb (check_path hempty) paths = true ->
    let ts := crun (init_threads paths) sched in
    i <> j -> nth_error ts i = Some ti -> nth_error ts j = Some tj ->
    next_ev ti = Some a -> next_ev tj = Some b -> conflicting a b = false.
Theorem C12_no_race : C12_no_race_statement.
Proof. exact lockset_sound. Qed.
Print Assumptions C12_no_race.

(* No deadlock: under the same check (no lock re-acquired while held, the container lock
   never requested while a routes lock is held, everything released at the end) some thread
   can always move unless all have finished. *)
Definition C12_no_deadlock_statement : Prop :=
  forall (paths : list (list ev)) (sched : list nat),
    forallb (check_path hempty) paths = true ->
    let ts := crun (init_threads paths) sched in
    (exists i t, nth_error ts i = Some t /\ snd t <> []) -> exists i ts', cstep ts i = Some ts'.
Theorem C12_no_deadlock : C12_no_deadlock_statement.
Proof. exact lockset_no_deadlock. Qed.
Print Assumptions C12_no_deadlock.

(* Frame: requests to services that are not being changed are answered as if no change were happening.
   For both routers: two registration states with the same roots in the same order whose services are identical
   except those marked [touched] give the same routing answer to every request whose URL is claimed by an
   untouched service — whatever was added to or removed from the touched ones. (Route selection reads the service
   list once, under the container's read lock, and the routes of the claiming service once, under its routes
   lock: the answer is that of the state in which those reads happened.) *)
Definition C12_frame_statement : Prop :=
  forall (O : oracles) (touched : str -> bool) (t t' : table) (req : request),
    t_router t = t_router t' ->
    Forall2 (untouched_same touched) (t_services t) (t_services t') ->
    (forall w, match t_router t with
               | Curly => detect_web_service O (tokenize (rq_path req)) (t_services t) = Some w
               | Jsr311 => exists fin, detect_dispatcher O (rq_path req) (t_services t) = Some (w, fin)
               end -> touched (s_root w) = false) ->
    select_route O t req = select_route O t' req.
Theorem C12_frame : C12_frame_statement.
Proof.
  intros O touched t t' req Hr Hf Hu. destruct (t_router t) eqn:E.
  - apply (curly_frame O touched); auto.
  - apply (jsr_frame O touched); auto. intros w fin H. apply Hu. eauto.
Qed.
Print Assumptions C12_frame.

(* the check is not vacuous, and it rejects an unguarded read *)
Example C12_example :
  check_path hempty [Acq WS R; Rd LWebServices "a"; Acq RT R; Rd LRoutes "b"; Rel RT R; Rel WS R] = true /\
  check_path hempty [Acq WS R; Rd LWebServices "a"; Rd LRoutes "curly.go:49"; Rel WS R] = false /\
  check_path hempty [Acq RT W; Acq WS R; Rel WS R; Rel RT W] = false.
Proof. repeat split; reflexivity. Qed.

(* C12 — services and routes can change while requests are being served.
   (partial: the lock / access table comes from the translator; Go's memory model and the
   sync.RWMutex implementation are assumed; the behavioural half rests on the stress run) *)
From Model Require Import Conc.
From Proofs Require Import ConcProofs.
From Coq Require Import List String. Import ListNotations.
Open Scope string_scope.

(* No data race: for ANY table of access paths that passes the per-path check (every write
   holds the lock guarding its location exclusively, every read holds it at least shared),
   any number of threads each running any of the paths, and any schedule: no two threads are
   ever simultaneously about to perform conflicting accesses to the same location. *)
Definition C12_no_race_statement : Prop :=
  forall (paths : list (list ev)) (sched : list nat) i j ti tj a b,
    forallb (check_path hempty) paths = true ->
    let ts := crun (init_threads paths) sched in
    i <> j -> nth_error ts i = Some ti -> nth_error ts j = Some tj ->
    next_ev ti = Some a -> next_ev tj = Some b -> conflicting a b = false.
Theorem C12_no_race : C12_no_race_statement.
Proof. exact lockset_sound. Qed.
Print Assumptions C12_no_race.

(* No deadlock: under the same check (no lock re-acquired while held, the container lock
   never requested while a routes lock is held, everything released at the end) some thread
   can always move unless all have finished. *)
Definition C12_no_deadlock_statement : Prop :=
  forall (paths : list (list ev)) (sched : list nat),
    forallb (check_path hempty) paths = true ->
    let ts := crun (init_threads paths) sched in
    (exists i t, nth_error ts i = Some t /\ snd t <> []) -> exists i ts', cstep ts i = Some ts'.
Theorem C12_no_deadlock : C12_no_deadlock_statement.
Proof. exact lockset_no_deadlock. Qed.
Print Assumptions C12_no_deadlock.

(* the check is not vacuous, and it rejects an unguarded read *)
Example C12_example :
  check_path hempty [Acq WS R; Rd LWebServices "a"; Acq RT R; Rd LRoutes "b"; Rel RT R; Rel WS R] = true /\
  check_path hempty [Acq WS R; Rd LWebServices "a"; Rd LRoutes "curly.go:49"; Rel WS R] = false /\
  check_path hempty [Acq RT W; Acq WS R; Rel WS R; Rel RT W] = false.
Proof. repeat split; reflexivity. Qed.

(* C12 — services and routes can change while requests are being served.
   (partial: the lock / access table comes from the translator; Go's memory model and the
   sync.RWMutex implementation are assumed; the behavioural half rests on the stress run) *)
From Model Require Import Str Sexp Http Template Table Curly DetectRoute Jsr311 Router Conc Linear.
From Proofs Require Import ConcProofs FrameProofs LinearProofs.
From Coq Require Import List String. Import ListNotations.
Open Scope string_scope.

(* No data race: for ANY table of access paths that passes the per-path check (every write
   holds the lock guarding its location exclusively, every read holds it at least shared),
   any number of threads each running any of the paths, and any schedule: no two threads are
   ever simultaneously about to perform conflicting accesses to the same location. *)
Definition C12_no_race_statement : Prop :=
  forall (paths : list (list ev)) (sched : list nat) i j ti tj a b,
    forallb (check_path hempty) paths = true ->
    let ts := crun (init_threads paths) sched in
    i <> j -> nth_error ts i = Some ti -> nth_error ts j = Some tj ->
    next_ev ti = Some a -> next_ev tj = Some b -> conflicting a b = false.
Theorem C12_no_race : C12_no_race_statement.
Proof. exact lockset_sound. Qed.
Print Assumptions C12_no_race.

(* No deadlock: under the same check (no lock re-acquired while held, the container lock
   never requested while a routes lock is held, everything released at the end) some thread
   can always move unless all have finished. *)
Definition C12_no_deadlock_statement : Prop :=
  forall (paths : list (list ev)) (sched : list nat),
    forallb (check_path hempty) paths = true ->
    let ts := crun (init_threads paths) sched in
    (exists i t, nth_error ts i = Some t /\ snd t <> []) -> exists i ts', cstep ts i = Some ts'.
Theorem C12_no_deadlock : C12_no_deadlock_statement.
Proof. exact lockset_no_deadlock. Qed.
Print Assumptions C12_no_deadlock.

(* Frame: requests to services that are not being changed are answered as if no change were happening.
   For both routers: two registration states with the same roots in the same order whose services are identical
   except those marked [touched] give the same routing answer to every request whose URL is claimed by an
   untouched service — whatever was added to or removed from the touched ones. (Route selection reads the service
   list once, under the container's read lock, and the routes of the claiming service once, under its routes
   lock: the answer is that of the state in which those reads happened.) *)
Definition C12_frame_statement : Prop :=
  forall (O : oracles) (touched : str -> bool) (t t' : table) (req : request),
    t_router t = t_router t' ->
    Forall2 (untouched_same touched) (t_services t) (t_services t') ->
    (forall w, match t_router t with
               | Curly => detect_web_service O (tokenize (rq_path req)) (t_services t) = Some w
               | Jsr311 => exists fin, detect_dispatcher O (rq_path req) (t_services t) = Some (w, fin)
               end -> touched (s_root w) = false) ->
    select_route O t req = select_route O t' req.
Theorem C12_frame : C12_frame_statement.
Proof.
  intros O touched t t' req Hr Hf Hu. destruct (t_router t) eqn:E.
  - apply (curly_frame O touched); auto.
  - apply (jsr_frame O touched); auto. intros w fin H. apply Hu. eauto.
Qed.
Print Assumptions C12_frame.

(* the check is not vacuous, and it rejects an unguarded read *)
Example C12_example :
  check_path hempty [Acq WS R; Rd LWebServices "a"; Acq RT R; Rd LRoutes "b"; Rel RT R; Rel WS R] = true /\
  check_path hempty [Acq WS R; Rd LWebServices "a"; Rd LRoutes "curly.go:49"; Rel WS R] = false /\
  check_path hempty [Acq RT W; Acq WS R; Rel WS R; Rel RT W] = false.
Proof. repeat split; reflexivity. Qed.

(* Linearisation: every request is answered according to a registration state that existed at
   some moment during that request.  Model/Linear.v: requests (RLock; read the service list; let
   the router find the claiming service and read its routes; RUnlock) interleaved, one atomic
   step at a time under ANY schedule, with any number of mutator threads performing Add /
   Remove (under the write lock) and Route / RemoveRoute (replacing a service's routes, no
   container lock).  A finished request carries its answer and the ghost [lin]: the global
   service list at its own step "read the routes of the claiming service" — a state that
   existed during the request.  The answer is SelectRoute's answer in exactly that state, for
   both routers.  (The proof needs the read lock twice: roots cannot change while a snapshot is
   held; and the frame theorem: routes of other services changing meanwhile do not matter.) *)
Definition C12_linearisation_statement : Prop :=
  forall (O : oracles) (rtr : router) (wss : list service) (ths : list thread) (sched : list nat)
         (req : request) (ans : (service * route) + rerr) (lin : list service),
    forallb fresh_thread ths = true ->
    In (TReq req (QDone ans lin)) (snd (srun O rtr sched ({| g_svcs := wss; g_cw := false; g_cr := 0 |}, ths))) ->
    ans = select_route O {| t_router := rtr; t_services := lin |} req.
Theorem C12_linearisation : C12_linearisation_statement.
Proof. exact linearisable. Qed.
Print Assumptions C12_linearisation.

(* ... and while a mutator holds the write lock no request holds a snapshot *)
Definition C12_exclusion_statement : Prop :=
  forall (O : oracles) (rtr : router) (wss : list service) (ths : list thread) (sched : list nat),
    forallb fresh_thread ths = true ->
    let st := srun O rtr sched ({| g_svcs := wss; g_cw := false; g_cr := 0 |}, ths) in
    total holds_write (snd st) <= 1 /\ (total holds_write (snd st) = 1 -> total holds_read (snd st) = 0).
Theorem C12_exclusion : C12_exclusion_statement.
Proof. exact no_reader_while_writing. Qed.
Print Assumptions C12_exclusion.

(* a concrete schedule: a request to /a/x is interleaved with RemoveRoute on its own service
   (after its routes were read: still served) and with Remove of the service; a second request
   starts after the removal and is answered 404; the writer is blocked while the first holds
   the read lock *)
Example C12_linearisation_example :
  let O := {| o_lower := lower_ascii; o_rx := fun _ _ => false; o_rxfull := fun _ _ => false |} in
  let L s := list_ascii_of_string s in
  let r1 := {| r_id := 1%Z; r_method := L "GET"; r_rel := L "/x"; r_consumes := []; r_produces := [];
               r_conds := []; r_noct := []; r_enc := None |} in
  let w := {| s_root := L "/a"; s_routes := [r1] |} in
  let rq := {| rq_method := L "GET"; rq_path := L "/a/x"; rq_headers := []; rq_clen := 0%Z |} in
  let ths := [TReq rq QStart; TMut None [OSetRoutes (L "/a") []; ORemove (L "/a")]; TReq rq QStart] in
  let final := srun O Curly [0; 0; 0; 1; 1; 0; 1; 1; 2; 2; 2; 2]%nat ({| g_svcs := [w]; g_cw := false; g_cr := 0 |}, ths) in
  match snd final with
  | [TReq _ (QDone (inl (w1, r)) lin1); TMut None []; TReq _ (QDone (inr E404) [])] => lin1 = [w] /\ r = r1 /\ w1 = w
  | _ => False
  end.
Proof. vm_compute. repeat split; reflexivity. Qed.

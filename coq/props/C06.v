(* C06 — filters run container, service, route, in order, each once, per request. *)
From Model Require Import Str Sexp Http Template Table Curly DetectRoute Jsr311 Router Dispatch.
From Spec Require Import DispatchSpec.
From Proofs Require Import DispatchProofs ServeProofs WrapperProofs.

(* The chain (filter.go ProcessFilter), for ANY list of filter scripts that pass control on
   at most once and any target: it terminates, and the structural events it appends are
   exactly [chain_events]: pre f1 .. pre fk [target iff none stopped] post fk .. post f1,
   each filter at most once, nothing after a filter that does not pass on. *)
Definition C06_chain_statement : Prop :=
  forall (fs : list fscript) (target : rstate -> res) (tgt : list str) (s : rstate),
    forallb fscript_panic_free fs = true ->
    (forall s0, exists s1, target s0 = Done s1 /\ slog s1 = slog s0 ++ tgt) ->
    exists s', run_chain fs target s = Done s' /\ slog s' = slog s ++ chain_events fs tgt.
Theorem C06_chain : C06_chain_statement.
Proof. exact run_chain_events. Qed.
Print Assumptions C06_chain.

(* A whole request, through Dispatch and through ServeHTTP, for both routers, every table,
   every number of filters at each level and every choice of which filter stops: the
   structural events are the container filters, then the selected service's, then the
   selected route's, then the route function ("H:<id>"), then the posts in reverse; for a
   request that fails routing, exactly the container filters around the error writer and no
   service or route filter ([expected_events]).  The chain is built inside dispatch from
   the configuration: the statement holds from ANY starting state [s], so nothing an
   earlier request left behind can change it.  ([routed_request]: the path is not one a plain handler was
   registered on with Handle / HandleWithFilter; those are C06_plain.) *)
Definition C06_request_statement : Prop :=
  forall (O : oracles) (cfg : dcfg) (en : entry) (req : request) (s : rstate),
    routed_request cfg req -> cfg_has_panic cfg = false ->
    route_request O (d_table cfg) req <> RPanic ->
    exists s', serve O cfg en req s = Done s' /\ slog s' = slog s ++ expected_events O cfg req.
Theorem C06_request : C06_request_statement.
Proof. exact serve_events. Qed.
Print Assumptions C06_request.

(* HandleWithFilter: exactly the container filters, once, in order, around the plain http.Handler (Handle: none) *)
Definition C06_plain_statement : Prop :=
  forall (cfg : dcfg) (wf : bool) (script : list action) (req : request) (s : rstate),
    forallb fscript_panic_free (d_cfilters cfg) = true -> panic_free script = true ->
    exists s', handle_plain cfg wf script req s = Done s' /\
               slog s' = slog s ++ (if wf then chain_events (d_cfilters cfg) [] else []).
Theorem C06_plain : C06_plain_statement.
Proof. exact plain_events. Qed.
Print Assumptions C06_plain.

(* Attributes (and, under two reserved keys, the path parameters and the selected route) are ONE map threaded
   through container filters, service filters, route filters, the route function and back: what a stage sets is
   what every later stage sees — for filters that pass on the wrapper they were given. *)
Definition C06_attributes_statement : Prop :=
  forall (O : oracles) (cfg : dcfg) (req : request) (already : bool) (s : rstate),
    cfg_has_panic cfg = false -> cfg_has_fresh cfg = false ->
    route_request O (d_table cfg) req <> RPanic ->
    (match route_request O (d_table cfg) req with RError _ => st_attrs s = [] | _ => True end) ->
    exists s', dispatch O cfg req already s = Done s' /\ vlog s' = vlog s ++ expected_sees O cfg req.
Theorem C06_attributes : C06_attributes_statement.
Proof. exact dispatch_sees. Qed.
Print Assumptions C06_attributes.

Example C06_example :
  let f (id : string) pass := {| f_id := L id; f_pre := []; f_pass := pass; f_post := []; f_fresh := false; f_mw := 0; f_wrap := false |} in
  chain_events [f "c0"%string true; f "s0"%string true; f "r0"%string false; f "r1"%string true] [L "H:1"]
  = [L "pre:c0"; L "pre:s0"; L "pre:r0"; L "post:r0"; L "post:s0"; L "post:c0"]
  /\ chain_events [f "c0"%string true; f "s0"%string true] [L "H:1"]
  = [L "pre:c0"; L "pre:s0"; L "H:1"; L "post:s0"; L "post:c0"].
Proof. split; reflexivity. Qed.

(* the response a filter passes on is the one later stages write to (model): a filter that passes on a Response around an
   upper-casing writer — the route function's bytes and its entity come out upper-cased and indented (a new wrapper
   starts with the pretty-print default, whatever the outer one was switched to), the wrapping filter's own later bytes
   do not, and the outer switch is still off afterwards *)
Example C06_wrapped_response_example :
  let wrapf := {| f_id := L "w"; f_pre := [APretty false]; f_pass := true; f_post := [AWrite (L "<tail>"); AEntity (L "c") (L "p")];
                  f_fresh := false; f_mw := 0; f_wrap := true |} in
  let r := run_chain [wrapf] (run_actions [AWrite (L "<body>"); AEntity (L "compact") (L "pretty")]) (st0 []) in
  st_raw (state_of r) = [L "<BODY>"; L "PRETTY"; L "<tail>"; L "c"] /\ st_upper (state_of r) = 0 /\ st_pretty (state_of r) = false.
Proof. vm_compute. repeat split; reflexivity. Qed.

(* "the request/response pair a filter passes on are the ones later filters and the handler receive", the response
   half: a filter may pass on a Response around a writer of its own (the model's wrapping filters put an upper-casing
   writer in between).  That wrapper is in force for exactly what follows in the chain: whatever wrapping filters a
   chain contains, when it returns normally the stack of wrappers is the one it was entered with — every filter
   finishes on its own response. *)
Definition C06_wrapper_scope_statement : Prop :=
  forall (fs : list fscript) (target : rstate -> res) (s s' : rstate),
    (forall s0 s1, target s0 = Done s1 -> st_upper s1 = st_upper s0) ->
    run_chain fs target s = Done s' -> st_upper s' = st_upper s.
Theorem C06_wrapper_scope : C06_wrapper_scope_statement.
Proof. exact chain_restores_wrapper. Qed.
Print Assumptions C06_wrapper_scope.

(* C01 — a route function runs only for requests its declaration admits.
   Statement, theorem (closed by [exact]), Print Assumptions, non-vacuity. *)
From Model Require Import Str Sexp Http Template Table Curly DetectRoute Jsr311 Router.
From Spec Require Import RouteSpec.
From Proofs Require Import RouterProofs JsrProofs.

(* CurlyRouter (the default router).  For every regex oracle, table, request:
   if dispatch invokes the function of route r of service w, then w and r are
   registered, and — r's template being one of the documented forms — the
   request is admitted by r's declaration: method equal, path admitted by the
   full template (literals equal, regex variables satisfied, suffixes present,
   custom verb equal, same number of segments unless a tail wildcard ends the
   template), Content-Type admitted by Consumes, Accept satisfiable from
   Produces, all conditions true.  [RInvoke w r ps] carries the selected route
   that filters and handler see: it is r itself. *)
Definition C01_curly_statement : Prop :=
  forall (O : oracles) (t : table) (req : request) (w : service) (r : route) (ps : list (str * str)),
    t_router t = Curly ->
    route_request O t req = RInvoke w r ps ->
    In w (t_services t) /\ In r (s_routes w) /\
    (wf_route w r = true -> admits O w r req = true).

Theorem C01_curly : C01_curly_statement.
Proof. exact curly_invoked_admits. Qed.
Print Assumptions C01_curly.

(* the matcher decides exactly the structural admission — soundness AND completeness *)
Definition C01_matcher_statement : Prop :=
  forall (O : oracles) (hcv : bool) (template_tokens path_tokens : list str),
    wf_template hcv template_tokens = true ->
    CurlyProofs.is_some (matches_route_by_path_tokens O template_tokens path_tokens hcv)
    = admits_path O (map (parse_tok hcv) template_tokens) path_tokens.
Theorem C01_matcher : C01_matcher_statement.
Proof. exact CurlyProofs.matches_route_iff_admits. Qed.
Print Assumptions C01_matcher.

(* non-vacuity: a well-formed table with overlapping templates, an admitted and
   a refused request *)
Example C01_example :
  let O := {| o_lower := lower_ascii; o_rx := fun re s => str_eqb re (L "[0-9]+") && forallb (fun c => N.leb 48 (N_of_ascii c) && N.leb (N_of_ascii c) 57) s && negb (str_eqb s []);
              o_rxfull := fun _ _ => false |} in
  let mk id (m rel : string) := {| r_id := id; r_method := L m; r_rel := L rel; r_consumes := []; r_produces := [];
                        r_conds := []; r_noct := []; r_enc := None |} in
  let w := {| s_root := L "/users"%string; s_routes := [mk 1%Z "GET"%string "/{id:[0-9]+}"%string; mk 2%Z "GET"%string "/{name}.json/meta"%string; mk 3%Z "GET"%string "/files/{rest:*}"%string] |} in
  let t := {| t_router := Curly; t_services := [w] |} in
  let rq (p : string) := {| rq_method := L "GET"%string; rq_path := L p; rq_headers := []; rq_clen := 0 |} in
  forallb (wf_route w) (s_routes w) = true
  /\ (match route_request O t (rq "/users/42"%string) with RInvoke _ r _ => r_id r | _ => 0%Z end) = 1%Z
  /\ (match route_request O t (rq "/users/bob.json/meta"%string) with RInvoke _ r _ => r_id r | _ => 0%Z end) = 2%Z
  /\ (match route_request O t (rq "/users/files/a/b"%string) with RInvoke _ r ps => r_id r | _ => 0%Z end) = 3%Z
  /\ (match route_request O t (rq "/users/bob"%string) with RError E404 => true | _ => false end) = true.
Proof. vm_compute. repeat split; reflexivity. Qed.

(* RouterJSR311.  For every regex oracle, table and request: if SelectRoute returns route r of service w then
   both are registered and the request is admitted by r's declaration in RouterJSR311's reading (method, every
   segment of root + route template: literal equal, plain variable non-empty, regex variable matched entirely,
   tail wildcard last; one trailing slash tolerated; Consumes, Produces, conditions) — provided the expressions
   compiled from the two templates are their structural reading token by token ([jsr_tokens_agree], a boolean that
   holds for the documented forms and is evaluated on every generated case). *)
Definition C01_jsr_statement : Prop :=
  forall (O : oracles) (t : table) (req : request) (w : service) (r : route),
    t_router t = Jsr311 -> select_route O t req = inl (w, r) -> jsr_tokens_agree w r = true ->
    In w (t_services t) /\ In r (s_routes w) /\ jsr_admits O w r req = true.
Theorem C01_jsr : C01_jsr_statement.
Proof. exact jsr_select_route_sound. Qed.
Print Assumptions C01_jsr.

Example C01_jsr_example :
  let w := {| s_root := L "/users/{id:[0-9]+}"; s_routes := [] |} in
  let r := {| r_id := 1; r_method := L "GET"; r_rel := L "/files/{rest:*}"; r_consumes := []; r_produces := [];
              r_conds := []; r_noct := []; r_enc := None |} in
  jsr_tokens_agree w r = true.
Proof. reflexivity. Qed.

(* C09 — CORS preflight is answered by the filter alone and grants only what is allowed. *)
From Model Require Import Str Sexp Http Cors.
From Spec Require Import CorsSpec.
From Proofs Require Import CorsProofs OptionsProofs.

(* For every ToLower oracle, configuration, list of methods routable at the URL
   ([computed] = Container.computeAllowedMethods) and request from an ALLOWED origin:
   - a preflight (OPTIONS with Access-Control-Request-Method) is answered by the
     filter: control is not passed on, whatever the rest of the chain is; it gets
     Allow-Methods, Allow-Headers (the requested list, verbatim) and the origin /
     credentials / expose / max-age headers exactly when it is granted, and no
     header at all otherwise;
   - any other request passes down the chain with exactly the actual-request
     headers added (each header name at most once, see C09_once). *)
Definition C09_statement : Prop :=
  forall (O : oracles) (c : cors_cfg) (computed : list str) (req : request),
    let origin := hget req H_Origin in
    allowed O c origin ->
    let d := cors_decide O c computed req in
    if is_preflight req then
      snd d = false /\
      (forall (resp : Type) (add : headers -> resp -> resp) (r : resp) next next',
          cors_filter O add c computed req r next = cors_filter O add c computed req r next') /\
      fst d = if preflight_grantedb O c computed req
              then [(H_ACAllowMethods, join [comma] (match c_methods c with [] => computed | m => m end));
                    (H_ACAllowHeaders, hget req H_ACRequestHeaders)] ++ opts_suffix O c origin
              else []
    else
      snd d = true /\ fst d = opts_suffix O c origin /\
      (forall (resp : Type) (add : headers -> resp -> resp) (r : resp) next,
          cors_filter O add c computed req r next = next req (add (opts_suffix O c origin) r)).

Theorem C09 : C09_statement.
Proof. exact C09_proof. Qed.
Print Assumptions C09.

(* "granted" is the property's condition: requested method among the allowed methods
   (configured, or else those routable at the URL) and every requested header (split on
   ',', spaces trimmed) among the allowed headers ignoring case, or the wildcard configured *)
Definition C09_granted_statement : Prop :=
  forall (O : oracles) c computed req,
  preflight_grantedb O c computed req = true <->
  In (hget req H_ACRequestMethod) (match c_methods c with [] => computed | m => m end) /\
  (forall hd, In hd (requested_headers req) ->
     In (L "*") (c_headers c) \/ exists e, In e (c_headers c) /\ o_lower O e = o_lower O hd).
Theorem C09_granted : C09_granted_statement.
Proof. exact preflight_granted_spec. Qed.
Print Assumptions C09_granted.

Definition C09_once_statement : Prop :=
  forall (O : oracles) c origin, NoDup (map fst (opts_suffix O c origin)).
Theorem C09_once : C09_once_statement.
Proof. exact opts_suffix_keys_nodup. Qed.
Print Assumptions C09_once.

Example C09_example :
  let O := {| o_lower := lower_ascii; o_rx := fun _ _ => false; o_rxfull := fun _ _ => false |} in
  let c := {| c_expose := []; c_headers := [L "Content-Type"]; c_domains := [];
              c_func := None; c_methods := []; c_maxage := 0; c_cookies := false |} in
  let rq (m h : string) := {| rq_method := L "OPTIONS"; rq_path := L "/r";
                 rq_headers := [(H_Origin, L "http://a"); (H_ACRequestMethod, L m); (H_ACRequestHeaders, L h)]; rq_clen := 0 |} in
  cors_decide O c [L "GET"; L "PUT"] (rq "PUT"%string " content-TYPE "%string)
    = ([(H_ACAllowMethods, L "GET,PUT"); (H_ACAllowHeaders, L " content-TYPE "); (H_ACAllowOrigin, L "http://a")], false)
  /\ cors_decide O c [L "GET"; L "PUT"] (rq "POST"%string ""%string) = ([], false)
  /\ cors_decide O c [L "GET"; L "PUT"] (rq "PUT"%string "X-Other"%string) = ([], false).
Proof. vm_compute. repeat split; reflexivity. Qed.

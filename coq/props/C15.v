(* C15 — Response status and length bookkeeping match what was actually sent. *)
From Model Require Import Str Sexp Response.
From Proofs Require Import ResponseProofs.

(* For every behaviour of the underlying writer (any script of partial / failing Write
   calls), with or without a compressing writer in between, either pretty-print setting,
   and every history of Write, WriteHeader, WriteErrorString / WriteError, WriteEntity /
   WriteHeaderAndEntity / WriteServiceError / WriteAsJson / WriteAsXml and PrettyPrint calls
   (whatever the marshaller produces, in whatever chunks, or its failure) in which the status
   is set at most once and before any Write call ([wf_ops]):
   StatusCode() is the status the underlying writer received (200 if none was set), and
   ContentLength() is the number of body bytes accepted — by the underlying writer, or by
   the compressor (i.e. counted before coding) when one sits in between. *)
Definition C15_statement : Prop :=
  forall (script : list (N * bool)) (comp pretty : bool) (ops : list rop) (r : resp) (es : list bool),
    wf_ops false pretty ops = true ->
    resp_run (resp_init script comp pretty) ops = (r, es) ->
    status_code r = uw_seen (p_u r) /\
    content_length r = Z.of_N (if comp then p_cbytes r else u_bytes (p_u r)).
Theorem C15 : C15_statement.
Proof. exact response_bookkeeping. Qed.
Print Assumptions C15.

(* the length half needs no premise at all: it is an invariant of every call *)
Definition C15_length_invariant_statement : Prop :=
  forall r o r' e, resp_step r o = (r', e) -> len_inv r -> len_inv r'.
Theorem C15_length_invariant : C15_length_invariant_statement.
Proof. exact len_step. Qed.
Print Assumptions C15_length_invariant.

(* whenever an underlying Write call fails during a call of the Response, that call returns
   an error — at every position of every history, from every state (with a compressor in
   between no underlying failure is visible to the model: [p_u] is not written to) *)
Definition C15_errors_statement : Prop :=
  forall (ops : list rop) (r : resp),
    Forall2 (fun (e : bool) (ab : nat * nat) => fst ab < snd ab -> e = true)
            (snd (resp_run r ops)) (fails_trace r ops).
Theorem C15_errors : C15_errors_statement.
Proof. exact errors_reported. Qed.
Print Assumptions C15_errors.

(* the premise is needed (the code records the LAST status, the writer keeps the FIRST) *)
Example C15_premise_needed :
  let r := fst (resp_run (resp_init [] false true) [OWriteHeader 201; OWriteHeader 404]) in
  status_code r = 404%Z /\ uw_seen (p_u r) = 201%Z.
Proof. split; reflexivity. Qed.

Example C15_example :
  let ops := [OPretty false; OEntity 201 true false (Some [L "{""id"":1}"; L "tail"]); OWrite (L "more")] in
  wf_ops false true ops = true /\
  let '(r, es) := resp_run (resp_init [(1000%N, false); (2%N, false)] false true) ops in
  es = [false; true; false] /\ status_code r = 201%Z /\ content_length r = 14%Z /\ u_bytes (p_u r) = 14%N.
Proof. vm_compute. repeat split; reflexivity. Qed.

(* C11 — registration state equals what a fresh container with the same content has. *)
From Model Require Import Str Sexp Http Template Table Curly DetectRoute Jsr311 Router Registry.
From Proofs Require Import RegistryProofs.

(* For both routers, every oracle and every history of Container.Add / Remove /
   WebService.Route / RemoveRoute / Container.Handle in which a root is never added while it
   is registered (roots pairwise different) and plain-handler patterns are registered once and
   do not collide with what a service puts on the mux ([universe_ok], [ops_ok]):
   no operation panics or exits, building a fresh container with the same final services (in
   order, with their final routes) and plain handlers does not fail either, and the two
   answer EVERY request identically, through ServeHTTP (mux lookup incl. redirects, plain
   handlers, the mux's own 404, dispatch) and through Dispatch. *)
Definition C11_statement : Prop :=
  forall (O : oracles) (rt : router) (roots plainU : list str) (ops : list regop),
    universe_ok roots plainU = true -> (forall p, In p (handled ops) -> In p plainU) ->
    ops_ok roots plainU cs_init ops = true ->
    exists s sf,
      cs_run cs_init ops 0 = (s, None) /\ cs_fresh s = (sf, None) /\
      forall req, serve_http O rt s req = serve_http O rt sf req /\
                  serve_dispatch O rt s req = serve_dispatch O rt sf req.
Theorem C11 : C11_statement.
Proof. exact registration_equals_fresh. Qed.
Print Assumptions C11.

(* adding WebServices with pairwise different root paths never panics or exits, whatever
   their templates have in common (same fixed prefix, /a and /a/, variables, "/") *)
Definition C11_adds_statement : Prop :=
  forall (roots : list str) (routes : str -> list route),
    NoDup (map norm_root roots) ->
    exists s, cs_run cs_init (map (fun r => RAdd r (routes r)) roots) 0 = (s, None) /\
              cs_reg s = map norm_root roots.
Theorem C11_adds : C11_adds_statement.
Proof. exact adds_never_fail. Qed.
Print Assumptions C11_adds.

(* the mux answers depend only on which (pattern, target) pairs are registered, not on the
   order of registration *)
Definition C11_mux_order_statement : Prop :=
  forall m1 m2 url, mux_equiv m1 m2 -> keys_unique m1 -> keys_unique m2 -> mux_serve m1 url = mux_serve m2 url.
Theorem C11_mux_order : C11_mux_order_statement.
Proof. exact mux_serve_equiv. Qed.
Print Assumptions C11_mux_order.

Example C11_example :
  let ops := [RAdd (L "/users/{id}/a") []; RAdd (L "/users/{id}/b") []; RAdd (L "/a") []; RAdd (L "/a/") [];
              RHandle (L "/static/") 7; RRemove (L "/a")] in
  universe_ok [L "/users/{id}/a"; L "/users/{id}/b"; L "/a"; L "/a/"] [L "/static/"] = true /\
  ops_ok [L "/users/{id}/a"; L "/users/{id}/b"; L "/a"; L "/a/"] [L "/static/"] cs_init ops = true /\
  map fst (cs_mux (fst (cs_run cs_init ops 0))) = [L "/users/"; L "/a/"; L "/static/"].
Proof. vm_compute. repeat split; reflexivity. Qed.

(* histories in which the caller recovered from refused calls (a Handle on a pattern that is taken panics in the mux)
   and went on using the container: the registration state is that of the history WITHOUT the refused calls, and it
   fails iff that history fails — so C11 above speaks about these histories too *)
Definition C11_refused_calls_statement : Prop :=
  forall ops s k anom,
    fst (fst (cs_run_skip s ops k anom)) = fst (cs_run s (accepted_ops ops) 0) /\
    (snd (fst (cs_run_skip s ops k anom)) = None <-> snd (cs_run s (accepted_ops ops) 0) = None).
Theorem C11_refused_calls : C11_refused_calls_statement.
Proof. exact run_skip_is_run_of_accepted. Qed.
Print Assumptions C11_refused_calls.

Example C11_refused_example :
  let ops := [(false, RAdd (L "/a") []); (false, RHandle (L "/static/") 7); (true, RHandle (L "/static/") 8);
              (false, RRemove (L "/a"))] in
  cs_run_skip cs_init ops 0 0 = (fst (cs_run cs_init (accepted_ops ops) 0), None, 0) /\
  map fst (cs_mux (fst (cs_run cs_init (accepted_ops ops) 0))) = [L "/static/"].
Proof. vm_compute. split; reflexivity. Qed.

(* C14 — by default a trailing slash on the request path changes nothing. *)
From Model Require Import Str Sexp Http Template Table Curly DetectRoute Jsr311 Router Registry.
From Spec Require Import RouteSpec.
From Proofs Require Import TemplateFacts RouterProofs JsrProofs SlashJsrProofs SlashServeProofs SlashOptionsProofs.
From Model Require Import Options.

(* CurlyRouter, all templates (well-formed or not), every table and request:
   for a path p with at least one non-slash byte, p and p ++ "/" have the same
   outcome in everything routing decides — the route invoked, its parameter
   values, or the error status with its Allow list.  ([route_request] returns
   exactly these.)  Conditions are functions of the request other than the
   trailing slash: the same boolean table serves both requests. *)
Definition C14_curly_statement : Prop :=
  forall (O : oracles) (t : table) (req : request) (p : str),
    t_router t = Curly ->
    existsb (fun x => negb (Ascii.eqb x slash)) p = true ->
    route_request O t (with_path req (p ++ [slash])) = route_request O t (with_path req p).

Theorem C14_curly : C14_curly_statement.
Proof. exact curly_trailing_slash. Qed.
Print Assumptions C14_curly.

(* the underlying fact about tokenizePath *)
Definition C14_tokenize_statement : Prop :=
  forall p, existsb (fun x => negb (Ascii.eqb x slash)) p = true -> tokenize (p ++ [slash]) = tokenize p.
Theorem C14_tokenize : C14_tokenize_statement.
Proof. exact tokenize_trailing_slash. Qed.
Print Assumptions C14_tokenize.

Example C14_example :
  tokenize (L "/a/b/") = tokenize (L "/a/b") /\ tokenize (L "/a/b") = [L "a"; L "b"]
  /\ tokenize (L "") <> tokenize (L "/").   (* why the path needs a non-slash byte *)
Proof. vm_compute. repeat split; discriminate. Qed.

(* RouterJSR311, on the tables the property names for it: no tail wildcard, regex variables that do not match the
   empty string ([table_plain], evaluated on every generated case): for every path p that is not empty and does not
   end in a slash, routing p and p + "/" gives the same outcome — the same route function with the same parameters,
   or the same error with the same Allow list. *)
Definition C14_jsr_statement : Prop :=
  forall (O : oracles) (t : table) (req : request) (p : str),
    t_router t = Jsr311 -> table_plain O t = true -> ends_slash p = false -> p <> [] ->
    route_request O t (with_path req (p ++ [slash])) = route_request O t (with_path req p).
Theorem C14_jsr : C14_jsr_statement.
Proof. exact jsr_trailing_slash. Qed.
Print Assumptions C14_jsr.

(* Through Container.ServeHTTP, for the container state reached by ANY registration history (the Registry model of
   C11: Add / Remove / Route / RemoveRoute / Handle in any order): whenever the mux hands both p and p/ to the
   container's dispatch, the two answers are the same.  (Which patterns the container registers is what decides
   that premise; the check evaluates it with the same model and demands equal answers from the implementation.) *)
Definition C14_servehttp_statement : Prop :=
  forall (O : oracles) (s : cstate) (req : request) (p : str),
    existsb (fun x => negb (Ascii.eqb x slash)) p = true ->
    mux_serve (cs_mux s) p = MTarget TDispatch ->
    mux_serve (cs_mux s) (p ++ [slash]) = MTarget TDispatch ->
    serve_http O Curly s (with_path req (p ++ [slash])) = serve_http O Curly s (with_path req p).
Theorem C14_servehttp : C14_servehttp_statement.
Proof. exact curly_slash_servehttp. Qed.
Print Assumptions C14_servehttp.

Definition C14_servehttp_jsr_statement : Prop :=
  forall (O : oracles) (s : cstate) (req : request) (p : str),
    table_plain O (cs_table Jsr311 s) = true -> ends_slash p = false -> p <> [] ->
    mux_serve (cs_mux s) p = MTarget TDispatch ->
    mux_serve (cs_mux s) (p ++ [slash]) = MTarget TDispatch ->
    serve_http O Jsr311 s (with_path req (p ++ [slash])) = serve_http O Jsr311 s (with_path req p).
Theorem C14_servehttp_jsr : C14_servehttp_jsr_statement.
Proof. exact jsr_slash_servehttp. Qed.
Print Assumptions C14_servehttp_jsr.

(* "the same Allow header", for the list the OPTIONS filter (and a CORS preflight without configured methods) computes:
   on tables in which no token may match the empty string — no tail wildcard, no regular expression admitting ""
   ([table_plain], evaluated on every generated case) — computeAllowedMethods gives the same list for p and p + "/". *)
Definition C14_options_list_statement : Prop :=
  forall (O : oracles) (t : table) (p : str),
    table_plain O t = true -> ends_slash p = false -> p <> [] ->
    compute_allowed_methods O t (p ++ [slash]) = compute_allowed_methods O t p.
Theorem C14_options_list : C14_options_list_statement.
Proof. exact allowed_methods_trailing_slash. Qed.
Print Assumptions C14_options_list.

(* without that premise it is FALSE of the faithful model and of the code (known finding K-C14-1): the compiled
   expression of /users/{w:*} accepts "/users/" with an empty tail and not "/users", while CurlyRouter answers both 404 *)
Definition C14_options_list_all_tables_statement : Prop :=
  forall (O : oracles) (t : table) (p : str),
    ends_slash p = false -> p <> [] ->
    compute_allowed_methods O t (p ++ [slash]) = compute_allowed_methods O t p.
Theorem C14_refuted_options_list_tail : ~ C14_options_list_all_tables_statement.
Proof.
  intros H.
  specialize (H {| o_lower := lower_ascii; o_rx := fun _ _ => false; o_rxfull := fun _ _ => false |}
                {| t_router := Curly; t_services := [ {| s_root := L "/"; s_routes :=
                     [ {| r_id := 1; r_method := L "GET"; r_rel := L "/users/{w:*}"; r_consumes := []; r_produces := [];
                          r_conds := []; r_noct := []; r_enc := None |} ] |} ] |}
                (L "/users") eq_refl).
  assert (Hne : L "/users" <> []) by discriminate. specialize (H Hne). vm_compute in H. discriminate H.
Qed.
Print Assumptions C14_refuted_options_list_tail.

(* C16 — entities survive write then read, also compressed, whatever came before.
   (partial: encoding/json, encoding/xml, compress/gzip and compress/zlib are section variables;
   their round-trip contracts are premises) *)
From Model Require Import Str Sexp Entity.
From Proofs Require Import EntityProofs.

(* For every value type, every codec / compressor satisfying the round-trip contracts, every
   registry and default request content type, every pooled reader state, every Content-Type
   spelling that resolves to the codec the value was written with, and every declared encoding
   (gzip, deflate, none): reading what was written gives the value back. *)
Definition C16_round_trip_statement : Prop :=
  forall (V : Type) (decode : codec -> str -> option V) (gunzip inflate : str -> option str) (inflate_open : str -> bool)
         (marshal : codec -> V -> str) (gzip deflate : str -> str),
    (forall c v, decode c (marshal c v) = Some v) ->
    (forall b, gunzip (gzip b) = Some b) ->
    (forall b, inflate (deflate b) = Some b /\ inflate_open (deflate b) = true) ->
    forall reg dflt ct ce c v pooled pick,
      pick (accessor_at reg ct) = Some c ->
      fst (read_entity V decode gunzip inflate inflate_open reg dflt ct ce
                       (encode_body gzip deflate ce (marshal c v)) pooled pick) = ROk v.
Theorem C16_round_trip : C16_round_trip_statement.
Proof. unfold C16_round_trip_statement. intros V decode gunzip inflate inflate_open marshal gzip deflate H1 H2 H3. now apply round_trip. Qed.
Print Assumptions C16_round_trip.

(* a broken declared encoding or syntax yields an error value — the panic outcome is
   unreachable — and the gzip reader is acquired exactly for the label "gzip" *)
Definition C16_never_panics_statement : Prop :=
  forall V decode gunzip inflate inflate_open reg dflt ct ce body pooled pick,
    fst (read_entity V decode gunzip inflate inflate_open reg dflt ct ce body pooled pick) <> RPanicked /\
    snd (read_entity V decode gunzip inflate inflate_open reg dflt ct ce body pooled pick) = str_eqb ce (L "gzip").
Theorem C16_never_panics : C16_never_panics_statement.
Proof. unfold C16_never_panics_statement. intros. apply never_panics. Qed.
Print Assumptions C16_never_panics.

(* what an earlier request left in the pooled reader never matters (Reset replaces every piece
   of its state): so over any history each body is decoded as it would be alone *)
Definition C16_history_statement : Prop :=
  forall V decode gunzip inflate inflate_open reg dflt ct ce body p1 p2 pick,
    read_entity V decode gunzip inflate inflate_open reg dflt ct ce body p1 pick =
    read_entity V decode gunzip inflate inflate_open reg dflt ct ce body p2 pick.
Theorem C16_history : C16_history_statement.
Proof. unfold C16_history_statement. intros. apply pooled_state_irrelevant. Qed.
Print Assumptions C16_history.

(* a Content-Type with parameters resolves, whatever the map iteration order, to the one
   registered key it contains *)
Theorem C16_parameters :
  forall (reg : registry) k c params,
    assoc (k ++ params) reg = None ->
    (forall k' c', In (k', c') reg -> contains (k ++ params) k' = true -> k' = k) ->
    In (k, c) reg -> (forall c', In (k, c') reg -> c' = c) ->
    forall x, In x (accessor_at reg (k ++ params)) -> x = c.
Proof. exact accessor_with_parameters. Qed.
Print Assumptions C16_parameters.

Example C16_example :
  accessor_at [(L "application/json", CJson); (L "application/xml", CXml)] (L "application/json; charset=utf-8") = [CJson].
Proof. reflexivity. Qed.

(* C18 — CurlyRouter and RouterJSR311 agree wherever both are specified. *)
From Model Require Import Str Sexp Http Template Table Curly DetectRoute Jsr311 Router.
From Spec Require Import RouteSpec RankSpec.
From Proofs Require Import RouterProofs.

(* The full statement: on the common fragment every request has the same outcome under
   both routers. *)
Definition C18_statement : Prop :=
  forall (O : oracles) (wss : list service) (req : request),
    c18_fragment {| t_router := Curly; t_services := wss |} = true ->
    route_request O {| t_router := Curly; t_services := wss |} req
    = route_request O {| t_router := Jsr311; t_services := wss |} req.

(* It is FALSE of the faithful model and of the code, in two ways (known findings): *)
Definition O0 : oracles := {| o_lower := lower_ascii; o_rx := fun _ _ => false; o_rxfull := fun _ _ => false |}.
Definition mk (id : Z) (m rel : string) : route :=
  {| r_id := id; r_method := L m; r_rel := L rel; r_consumes := []; r_produces := [];
     r_conds := []; r_noct := []; r_enc := None |}.
Definition get (p : string) : request := {| rq_method := L "GET"; rq_path := L p; rq_headers := []; rq_clen := 0 |}.

(* K-C18-1: incomparable templates are ranked differently (static segment count, then
   path string, vs. literal character count): GET /cc/b runs /{a}/b under CurlyRouter
   and /cc/{d} under RouterJSR311 *)
Theorem C18_refuted_ranking : ~ C18_statement.
Proof.
  intros H.
  specialize (H O0 [ {| s_root := L "/"; s_routes := [mk 1 "GET" "/{a}/b"; mk 2 "GET" "/cc/{d}"] |} ]
                (get "/cc/b") eq_refl).
  vm_compute in H. discriminate H.
Qed.
Print Assumptions C18_refuted_ranking.

(* K-C18-2: an empty segment binds the empty string under CurlyRouter, 404 under RouterJSR311 *)
Theorem C18_refuted_empty_segment : ~ C18_statement.
Proof.
  intros H.
  specialize (H O0 [ {| s_root := L "/a"; s_routes := [mk 1 "GET" "/{v}/b"] |} ] (get "/a//b") eq_refl).
  vm_compute in H. discriminate H.
Qed.
Print Assumptions C18_refuted_empty_segment.

(* What IS proved about the shared part: both routers hand their candidates to the same
   detectRoute, whose result depends on the candidate list only (the request's path plays
   no role), so once the candidate lists agree the outcomes agree. *)
Definition C18_shared_stage_statement : Prop :=
  forall routes req p, detect_route routes (with_path req p) = detect_route routes req.
Theorem C18_shared_stage : C18_shared_stage_statement.
Proof. exact detect_route_with_path. Qed.
Print Assumptions C18_shared_stage.

(* C18 — CurlyRouter and RouterJSR311 agree wherever both are specified. *)
From Model Require Import Str Sexp Http Template Table Curly DetectRoute Jsr311 Router.
From Spec Require Import RouteSpec RankSpec.
From Proofs Require Import RouterProofs JsrOutcomeProofs AgreeProofs SameServiceProofs TwinProofs.

(* The full statement: on the common fragment every request has the same outcome under
   both routers. *)
Definition C18_statement : Prop :=
  forall (O : oracles) (wss : list service) (req : request),
    c18_fragment {| t_router := Curly; t_services := wss |} = true ->
    route_request O {| t_router := Curly; t_services := wss |} req
    = route_request O {| t_router := Jsr311; t_services := wss |} req.

(* It is FALSE of the faithful model and of the code, in two ways (known findings): *)
Definition O0 : oracles := {| o_lower := lower_ascii; o_rx := fun _ _ => false; o_rxfull := fun _ _ => false |}.
Definition mk (id : Z) (m rel : string) : route :=
  {| r_id := id; r_method := L m; r_rel := L rel; r_consumes := []; r_produces := [];
     r_conds := []; r_noct := []; r_enc := None |}.
Definition get (p : string) : request := {| rq_method := L "GET"; rq_path := L p; rq_headers := []; rq_clen := 0 |}.

(* K-C18-1: incomparable templates are ranked differently (static segment count, then
   path string, vs. literal character count): GET /cc/b runs /{a}/b under CurlyRouter
   and /cc/{d} under RouterJSR311 *)
Theorem C18_refuted_ranking : ~ C18_statement.
Proof.
  intros H.
  specialize (H O0 [ {| s_root := L "/"; s_routes := [mk 1 "GET" "/{a}/b"; mk 2 "GET" "/cc/{d}"] |} ]
                (get "/cc/b") eq_refl).
  vm_compute in H. discriminate H.
Qed.
Print Assumptions C18_refuted_ranking.

(* K-C18-2: an empty segment binds the empty string under CurlyRouter, 404 under RouterJSR311 *)
Theorem C18_refuted_empty_segment : ~ C18_statement.
Proof.
  intros H.
  specialize (H O0 [ {| s_root := L "/a"; s_routes := [mk 1 "GET" "/{v}/b"] |} ] (get "/a//b") eq_refl).
  vm_compute in H. discriminate H.
Qed.
Print Assumptions C18_refuted_empty_segment.

(* What IS proved about the shared part: both routers hand their candidates to the same
   detectRoute, whose result depends on the candidate list only (the request's path plays
   no role), so once the candidate lists agree the outcomes agree. *)
Definition C18_shared_stage_statement : Prop :=
  forall routes req p, detect_route routes (with_path req p) = detect_route routes req.
Theorem C18_shared_stage : C18_shared_stage_statement.
Proof. exact detect_route_with_path. Qed.
Print Assumptions C18_shared_stage.

(* The positive half.  Whenever both routers hand the request to the same service w (or to
   none), w's templates read the same under both routers token by token and consist of
   non-empty literals and plain variables (c18_service_ok; jsr_all_agree / jsr_names_agree:
   the expression compiled by path_expression.go is that reading), the path is cut into the
   same non-empty segments by both (c18_clean: leading slash, no empty segment, at most one
   trailing slash — the complement is K-C18-2), and the routes eligible for the request are
   strictly ordered by literal-over-variable (c18_chain — the complement is K-C18-1 plus
   same-shape twins, which are compared on the implementation only): the two routers return
   the same route of the same service with the same parameter map, or the same error with the
   same Allow set.  All premises are booleans evaluated on every generated case. *)
Definition C18_agree_statement : Prop :=
  forall (O : oracles) (wss : list service) (req : request) (w : service) (fin : str),
    detect_web_service O (tokenize (rq_path req)) wss = Some w ->
    detect_dispatcher O (rq_path req) wss = Some (w, fin) ->
    forallb (wf_route w) (s_routes w) = true ->
    jsr_all_agree w = true -> forallb (jsr_names_agree w) (s_routes w) = true ->
    c18_service_ok w = true -> c18_clean (rq_path req) = true -> c18_chain O w req = true ->
    routed_equiv (route_request O {| t_router := Curly; t_services := wss |} req)
                 (route_request O {| t_router := Jsr311; t_services := wss |} req).
Theorem C18_agree : C18_agree_statement.
Proof. exact routers_agree. Qed.
Print Assumptions C18_agree.

Definition C18_agree_unclaimed_statement : Prop :=
  forall (O : oracles) (wss : list service) (req : request),
    detect_web_service O (tokenize (rq_path req)) wss = None ->
    detect_dispatcher O (rq_path req) wss = None ->
    route_request O {| t_router := Curly; t_services := wss |} req = RError E404 /\
    route_request O {| t_router := Jsr311; t_services := wss |} req = RError E404.
Theorem C18_agree_unclaimed : C18_agree_unclaimed_statement.
Proof. exact routers_agree_unclaimed. Qed.
Print Assumptions C18_agree_unclaimed.

(* ... and for literal root paths both routers DO hand the request to the same service (the one
   with the longest root that is a segment prefix of the URL: greatest score under CurlyRouter,
   most literal characters under RouterJSR311), so that premise goes: for tables whose roots
   consist of non-empty literal tokens and are pairwise different (roots_literal,
   roots_distinct), a cleanly segmented path, and the service CurlyRouter finds (if any)
   satisfying the per-service premises above, the two routers agree. *)
Definition C18_agree_literal_roots_statement : Prop :=
  forall (O : oracles) (wss : list service) (req : request),
    roots_literal wss = true -> roots_distinct wss = true -> c18_clean (rq_path req) = true ->
    (forall w, detect_web_service O (tokenize (rq_path req)) wss = Some w ->
       forallb (wf_route w) (s_routes w) = true /\ jsr_all_agree w = true
       /\ forallb (jsr_names_agree w) (s_routes w) = true /\ c18_service_ok w = true /\ c18_chain O w req = true) ->
    routed_equiv (route_request O {| t_router := Curly; t_services := wss |} req)
                 (route_request O {| t_router := Jsr311; t_services := wss |} req).
Theorem C18_agree_literal_roots : C18_agree_literal_roots_statement.
Proof. exact routers_agree_literal_roots. Qed.
Print Assumptions C18_agree_literal_roots.

(* The strongest form: twins allowed.  Eligible routes need only be pairwise comparable under
   literal-over-variable (c18_chain_weak: for any two, one is at least as specific as the other —
   the complement is exactly K-C18-1's class of incomparable templates); routes of the same shape
   tie on every count of either Less and are separated by the same comparison of their path
   strings in both routers, which differ when (method, path) pairs are distinct. *)
Definition C18_agree_final_statement : Prop :=
  forall (O : oracles) (wss : list service) (req : request),
    roots_literal wss = true -> roots_distinct wss = true -> c18_clean (rq_path req) = true ->
    (forall w, detect_web_service O (tokenize (rq_path req)) wss = Some w ->
       forallb (wf_route w) (s_routes w) = true /\ jsr_all_agree w = true
       /\ forallb (jsr_names_agree w) (s_routes w) = true /\ c18_service_ok w = true
       /\ distinct (map (route_key w) (s_routes w)) = true /\ c18_chain_weak O w req = true) ->
    routed_equiv (route_request O {| t_router := Curly; t_services := wss |} req)
                 (route_request O {| t_router := Jsr311; t_services := wss |} req).
Theorem C18_agree_final : C18_agree_final_statement.
Proof. exact routers_agree_final. Qed.
Print Assumptions C18_agree_final.

Definition C18_same_service_statement : Prop :=
  forall (O : oracles) (wss : list service) (p : str),
    roots_literal wss = true -> roots_distinct wss = true -> c18_clean p = true ->
    match detect_web_service O (tokenize p) wss, detect_dispatcher O p wss with
    | Some w, Some (w', _) => w = w'
    | None, None => True
    | _, _ => False
    end.
Theorem C18_same_service : C18_same_service_statement.
Proof. exact same_service. Qed.
Print Assumptions C18_same_service.

(* the premises hold on a concrete table with overlapping routes, for a request that is
   served (/u/me beats /u/{id}), one that binds a parameter, and one answered 405 *)
Example C18_agree_example :
  let w := {| s_root := L "/u"; s_routes := [mk 1 "GET" "/{id}"; mk 2 "GET" "/me"; mk 3 "POST" "/{id}/files"] |} in
  let w2 := {| s_root := L "/u/x/y"; s_routes := [mk 4 "GET" "/"] |} in
  forall p, In p ["/u/me"; "/u/42/"; "/u/42/files"]%string ->
  let req := get p in
  detect_web_service O0 (tokenize (rq_path req)) [w; w2] = Some w
  /\ (exists fin, detect_dispatcher O0 (rq_path req) [w; w2] = Some (w, fin))
  /\ forallb (wf_route w) (s_routes w) = true
  /\ jsr_all_agree w = true /\ forallb (jsr_names_agree w) (s_routes w) = true
  /\ c18_service_ok w = true /\ c18_clean (rq_path req) = true /\ c18_chain O0 w req = true
  /\ roots_literal [w; w2] = true /\ roots_distinct [w; w2] = true.
Proof.
  intros w w2 p Hp. cbn in Hp. destruct Hp as [<-|[<-|[<-|[]]]]; vm_compute; repeat split; eexists; reflexivity.
Qed.

(* twins: /u/{a}/x and /u/{b}/x of one method differ only in the variable name; both routers run
   the one with the greater path string *)
Example C18_twins_example :
  let w := {| s_root := L "/u"; s_routes := [mk 1 "GET" "/{a}/x"; mk 2 "GET" "/{b}/x"] |} in
  let req := get "/u/7/x" in
  roots_literal [w] = true /\ roots_distinct [w] = true /\ c18_clean (rq_path req) = true
  /\ detect_web_service O0 (tokenize (rq_path req)) [w] = Some w
  /\ forallb (wf_route w) (s_routes w) = true /\ jsr_all_agree w = true
  /\ forallb (jsr_names_agree w) (s_routes w) = true /\ c18_service_ok w = true
  /\ distinct (map (route_key w) (s_routes w)) = true /\ c18_chain_weak O0 w req = true
  /\ c18_chain O0 w req = false
  /\ (exists ps, route_request O0 {| t_router := Curly; t_services := [w] |} req = RInvoke w (mk 2 "GET" "/{b}/x") ps).
Proof. vm_compute. repeat split; eexists; reflexivity. Qed.

(* C03 — best match: literals beat variables, independent of registration order. *)
From Model Require Import Str Sexp Http Template Table Curly DetectRoute Jsr311 Router.
From Spec Require Import RouteSpec RankSpec.
From Proofs Require Import RankProofs RankRouteProofs JsrOutcomeProofs OrderProofs.
From Coq Require Import Permutation.
From Model Require Import Registry.

(* Service level, CurlyRouter: the service SelectRoute works with has the greatest score
   among the services that claim the URL, so a service is never chosen when another
   claiming service scores strictly higher; and the score rewards literals:
   - two claiming roots of the same length that agree except that one has a literal
     where the other has a plain variable: the literal one scores strictly higher;
   - a claiming root that extends another claiming root scores strictly higher.
   Together: a literal root beats a variable root, a longer matching root beats its
   own prefix, whatever the registration order. *)
Definition C03_best_service_statement : Prop :=
  forall (O : oracles) (qts : list str) (wss : list service) (w : service),
    detect_web_service O qts wss = Some w ->
    In w wss /\ fst (compute_webservice_score O qts (tokenize (s_root w))) = true /\
    forall w', In w' wss -> fst (compute_webservice_score O qts (tokenize (s_root w'))) = true ->
               snd (compute_webservice_score O qts (tokenize (s_root w'))) <=
               snd (compute_webservice_score O qts (tokenize (s_root w))).
Theorem C03_best_service : C03_best_service_statement.
Proof. exact detect_web_service_max. Qed.
Print Assumptions C03_best_service.

Definition C03_literal_beats_variable_statement : Prop :=
  forall (O : oracles) (qts pre post : list str) (lit var : str),
    has_prefix var [lbrace] = true -> index_char var colon = None ->
    has_prefix lit [lbrace] = false ->
    fst (compute_webservice_score O qts (pre ++ lit :: post)) = true ->
    fst (compute_webservice_score O qts (pre ++ var :: post)) = true ->
    snd (compute_webservice_score O qts (pre ++ var :: post)) <
    snd (compute_webservice_score O qts (pre ++ lit :: post)).
Theorem C03_literal_beats_variable : C03_literal_beats_variable_statement.
Proof. exact score_literal_beats_variable. Qed.
Print Assumptions C03_literal_beats_variable.

Definition C03_longer_root_beats_prefix_statement : Prop :=
  forall (O : oracles) (qts root ext : list str),
    ext <> [] ->
    fst (compute_webservice_score O qts root) = true ->
    fst (compute_webservice_score O qts (root ++ ext)) = true ->
    snd (compute_webservice_score O qts root) < snd (compute_webservice_score O qts (root ++ ext)).
Theorem C03_longer_root_beats_prefix : C03_longer_root_beats_prefix_statement.
Proof. exact score_longer_root_beats_prefix. Qed.
Print Assumptions C03_longer_root_beats_prefix.

(* Route level, both routers: the invoked route is never one that another eligible route of
   the same service dominates (a literal segment where the invoked one has a variable, the
   same shape otherwise) — whatever the registration order of the routes, and for every
   method / Content-Type / Accept / condition combination, since eligibility (admits) covers
   all four of detectRoute's filters.
   CurlyRouter: for well-formed templates without a custom verb (with one, the verb counts as
   a static segment and the claim is compared, not proved). *)
Definition C03_curly_route_statement : Prop :=
  forall (O : oracles) (t : table) (req : request) (w : service) (r2 : route) (ps : list (str * str)),
    t_router t = Curly ->
    route_request O t req = RInvoke w r2 ps ->
    forall r1, In r1 (s_routes w) ->
      wf_route w r1 = true -> wf_route w r2 = true ->
      no_verbs (route_tpl w r1) = true -> no_verbs (route_tpl w r2) = true ->
      admits O w r1 req = true ->
      dominates (route_tpl w r1) (route_tpl w r2) = false.
Theorem C03_curly_route : C03_curly_route_statement.
Proof. exact curly_invoked_not_dominated. Qed.
Print Assumptions C03_curly_route.

(* RouterJSR311: under the measured premise that path_expression.go's tokens are the
   documented reading of the service's templates (jsr_all_agree). *)
Definition C03_jsr_route_statement : Prop :=
  forall (O : oracles) (t : table) (req : request) (w : service) (r2 : route) (ps : list (str * str)),
    t_router t = Jsr311 ->
    route_request O t req = RInvoke w r2 ps ->
    jsr_all_agree w = true ->
    forall r1, In r1 (s_routes w) ->
      jsr_admits O w r1 req = true ->
      dominates (jsr_tpl (r_rel r1)) (jsr_tpl (r_rel r2)) = false.
Theorem C03_jsr_route : C03_jsr_route_statement.
Proof. exact jsr_invoked_not_dominated. Qed.
Print Assumptions C03_jsr_route.

(* Order independence, proved outside the tie class.  [tbl_perm t t']: t' is t with its services
   registered in another order and, inside each service, its routes registered in another order.
   When no two routes of one method in a service have the same path (keys_distinct: distinct
   (method, template) pairs) and no two claiming services tie (CurlyRouter, top_unique: one
   service has the greatest score — the complement is the class of K-C03-1; RouterJSR311,
   jsr_keys_unique: distinct roots, and no two matching roots with equal (groups, literal
   characters, variables) — never the case for different literal roots matching one URL), every
   request gets the same outcome from t and t': the same
   route function with the same parameter map from the same service, or the same error with the
   same Allow set.  The proofs do not depend on Go's sort algorithm beyond "insertion by Less":
   both Less relations are strict orders (byte-wise string "<" included), an insertion sort by
   a strict order is sorted for every input order, and the first candidate passing detectRoute's
   filters is then the greatest passing one. *)
Definition C03_order_curly_statement : Prop :=
  forall (O : oracles) (t t' : table) (req : request),
    t_router t = Curly -> t_router t' = Curly ->
    tbl_perm t t' ->
    keys_distinct t = true ->
    top_unique O (tokenize (rq_path req)) (t_services t) = true ->
    routed_equiv_perm (route_request O t req) (route_request O t' req).
Theorem C03_order_curly : C03_order_curly_statement.
Proof. exact curly_order_independent_b. Qed.
Print Assumptions C03_order_curly.

Definition C03_order_jsr_statement : Prop :=
  forall (O : oracles) (t t' : table) (req : request),
    t_router t = Jsr311 -> t_router t' = Jsr311 ->
    tbl_perm t t' ->
    keys_distinct t = true ->
    jsr_keys_unique O (rq_path req) (t_services t) = true ->
    routed_equiv_perm (route_request O t req) (route_request O t' req).
Theorem C03_order_jsr : C03_order_jsr_statement.
Proof. exact jsr_order_independent_b. Qed.
Print Assumptions C03_order_jsr.

(* The order-independence half at full strength — "for tables with distinct (method,
   template) pairs and roots of pairwise different shape, every permutation of the
   registration order gives every request the same outcome" — is FALSE of the faithful
   model and of the code (known finding K-C03-1): omitted literal positions of equal
   total weight tie, and the strict '>' keeps the first registered service. *)
Definition C03_order_statement : Prop :=
  forall (O : oracles) (t t' : table) (req : request),
    t_router t = Curly -> t_router t' = Curly ->
    Permutation (t_services t) (t_services t') ->
    c03_in_scope t = true ->
    route_request O t req = route_request O t' req.

Definition O0 : oracles := {| o_lower := lower_ascii; o_rx := fun _ _ => false; o_rxfull := fun _ _ => false |}.
Definition mk (id : Z) (m rel : string) : route :=
  {| r_id := id; r_method := L m; r_rel := L rel; r_consumes := []; r_produces := [];
     r_conds := []; r_noct := []; r_enc := None |}.
Definition w1 : service := {| s_root := L "/{a}/x/y/{b}"; s_routes := [mk 1 "GET" "/"] |}.
Definition w2 : service := {| s_root := L "/p/{c}/{d}/q"; s_routes := [mk 2 "GET" "/"] |}.

Theorem C03_refuted_score_tie : ~ C03_order_statement.
Proof.
  intros H.
  specialize (H O0 {| t_router := Curly; t_services := [w1; w2] |} {| t_router := Curly; t_services := [w2; w1] |}
                {| rq_method := L "GET"; rq_path := L "/p/x/y/q"; rq_headers := []; rq_clen := 0 |}
                eq_refl eq_refl (perm_swap _ _ _) eq_refl).
  vm_compute in H. discriminate H.
Qed.
Print Assumptions C03_refuted_score_tie.

(* the premises of the route-level theorems hold on a concrete table, in both registration
   orders: /u/me beats /u/{id} *)
Example C03_route_example :
  let me := mk 1 "GET" "/me" in let id := mk 2 "GET" "/{id}" in
  let rq := {| rq_method := L "GET"; rq_path := L "/u/me"; rq_headers := []; rq_clen := 0 |} in
  forall router, In router [Curly; Jsr311] ->
  forall rs, In rs [[me; id]; [id; me]] ->
  let w := {| s_root := L "/u"; s_routes := rs |} in
  let t := {| t_router := router; t_services := [w] |} in
  (exists ps, route_request O0 t rq = RInvoke w me ps)
  /\ wf_route w me = true /\ wf_route w id = true
  /\ no_verbs (route_tpl w me) = true /\ no_verbs (route_tpl w id) = true
  /\ admits O0 w id rq = true /\ jsr_admits O0 w id rq = true /\ jsr_all_agree w = true
  /\ dominates (route_tpl w me) (route_tpl w id) = true
  /\ dominates (jsr_tpl (r_rel me)) (jsr_tpl (r_rel id)) = true.
Proof.
  intros me id rq router Hr rs Hrs. cbn in Hr, Hrs.
  destruct Hr as [<-|[<-|[]]]; destruct Hrs as [<-|[<-|[]]]; vm_compute; repeat split; eexists; reflexivity.
Qed.

(* the premises of the order theorems hold on a concrete table with crossed shapes (/a/{x} and
   /{y}/b, the routes of seed C03-c), two services, and a request both routes match *)
Example C03_order_example :
  let ra := mk 1 "GET" "/a/{x}" in let rb := mk 2 "GET" "/{y}/b" in let rc := mk 3 "POST" "/a/{x}" in
  let w := {| s_root := L "/s"; s_routes := [ra; rb; rc] |} in
  let w' := {| s_root := L "/s"; s_routes := [rc; rb; ra] |} in
  let v := {| s_root := L "/s/q"; s_routes := [mk 4 "GET" "/"] |} in
  let rq := {| rq_method := L "GET"; rq_path := L "/s/a/b"; rq_headers := []; rq_clen := 0 |} in
  forall router, In router [Curly; Jsr311] ->
  let t := {| t_router := router; t_services := [w; v] |} in
  let t' := {| t_router := router; t_services := [v; w'] |} in
  tbl_perm t t'
  /\ keys_distinct t = true
  /\ top_unique O0 (tokenize (rq_path rq)) (t_services t) = true
  /\ jsr_keys_unique O0 (rq_path rq) (t_services t) = true
  /\ (exists x r ps, route_request O0 t rq = RInvoke x r ps).
Proof.
  intros ra rb rc w w' v rq router Hr t t'.
  split.
  { exists [w'; v]. split.
    - constructor; [|constructor; [|constructor]].
      + split; [reflexivity|]. apply Permutation_rev.
      + split; reflexivity.
    - apply perm_swap. }
  destruct Hr as [<-|[<-|[]]]; vm_compute; repeat split; eexists; eexists; eexists; reflexivity.
Qed.

(* Without the restriction to templates without custom verb the route-level claim is FALSE of the faithful model
   and of the code (known finding K-C03-2, found by the thorough tier): the verb of {v}:x counts as a static
   segment, so it ties with the literal "A:x" on the static count, and Less then prefers MORE parameters. *)
Definition C03_curly_route_all_templates_statement : Prop :=
  forall (O : oracles) (t : table) (req : request) (w : service) (r2 : route) (ps : list (str * str)),
    t_router t = Curly ->
    route_request O t req = RInvoke w r2 ps ->
    forall r1, In r1 (s_routes w) ->
      wf_route w r1 = true -> wf_route w r2 = true ->
      admits O w r1 req = true ->
      dominates (route_tpl w r1) (route_tpl w r2) = false.

Theorem C03_refuted_custom_verb : ~ C03_curly_route_all_templates_statement.
Proof.
  intros H.
  pose (rl := mk 2 "PATCH" "/A:x/"). pose (rv := mk 4 "PATCH" "/{v}:x").
  pose (w := {| s_root := L "/{name}/{k}"; s_routes := [rl; rv] |}).
  pose (rq := {| rq_method := L "PATCH"; rq_path := L "/ab/a.b/A:x"; rq_headers := []; rq_clen := 0 |}).
  assert (E : exists ps, route_request O0 {| t_router := Curly; t_services := [w] |} rq = RInvoke w rv ps)
    by (vm_compute; eexists; reflexivity).
  destruct E as (ps & E).
  specialize (H O0 {| t_router := Curly; t_services := [w] |} rq w rv ps eq_refl E rl (or_introl eq_refl) eq_refl eq_refl eq_refl).
  vm_compute in H. discriminate H.
Qed.
Print Assumptions C03_refuted_custom_verb.

(* Through ServeHTTP the ServeMux stands in front of the routers, and what it knows depends on the ORDER of the Add
   calls: once a service whose pattern is "/" is registered, later services get no pattern of their own.  The
   order-independence clause, stated for ServeHTTP over the registration model (Registry.v), is FALSE of the faithful
   model and of the code (known finding K-C03-3; Dispatch is not affected, see C03_order_curly / C03_order_jsr): *)
Definition C03_order_servehttp_statement : Prop :=
  forall (O : oracles) (rt : router) (adds adds' : list regop) (s s' : cstate) (req : request),
    Permutation adds adds' ->
    (forall o, In o adds -> exists root routes, o = RAdd root routes) ->
    cs_run cs_init adds 0 = (s, None) -> cs_run cs_init adds' 0 = (s', None) ->
    serve_http O rt s req = serve_http O rt s' req.

Theorem C03_refuted_root_service_position : ~ C03_order_servehttp_statement.
Proof.
  intros H.
  pose (O := {| o_lower := lower_ascii; o_rx := fun _ _ => false; o_rxfull := fun _ _ => false |}).
  pose (r2 := {| r_id := 2; r_method := L "POST"; r_rel := L "/"; r_consumes := []; r_produces := [];
                 r_conds := []; r_noct := []; r_enc := None |}).
  pose (a1 := RAdd (L "/") []). pose (a2 := RAdd (L "/a/") [r2]).
  pose (req := {| rq_method := L "POST"; rq_path := L "/a"; rq_headers := []; rq_clen := 0 |}).
  specialize (H O Jsr311 [a1; a2] [a2; a1] (fst (cs_run cs_init [a1; a2] 0)) (fst (cs_run cs_init [a2; a1] 0)) req
                (perm_swap a2 a1 [])).
  assert (Hadds : forall o, In o [a1; a2] -> exists root routes, o = RAdd root routes).
  { intros o [<-|[<-|[]]]; eexists; eexists; reflexivity. }
  specialize (H Hadds eq_refl eq_refl). vm_compute in H. discriminate H.
Qed.
Print Assumptions C03_refuted_root_service_position.

(* C07 — encoded responses decode to exactly what was written, and are labelled so.
   (partial: the codec contract — dec (enc b) = b, one frame per Close — is compress/gzip's) *)
From Model Require Import Str Sexp Http Template Table Curly DetectRoute Jsr311 Router Dispatch.
From Spec Require Import DispatchSpec.
From Proofs Require Import DispatchProofs ServeProofs LabelProofs.

(* Compressor discipline of a whole request, for both entry points, both routers and EVERY
   outcome (handler success, routing error, panic before/after output, with and without
   recovery): starting with no compressor installed,
   - at most one compressor is acquired (never encoded twice),
   - whatever was acquired has been released exactly once and its stream closed (one frame),
   - a compressor is installed only if [wants_compressed] chose its coding (the request's
     Accept-Encoding mentions it and the writer carried no Content-Encoding on arrival), and
     only if encoding was enabled: through Dispatch for the selected route (route setting
     over container setting); through ServeHTTP for the container or the route. *)
Definition C07_discipline_statement : Prop :=
  forall (O : oracles) (cfg : dcfg) (en : entry) (req : request) (s : rstate),
    clean s ->
    let r := serve O cfg en req s in
    balanced (state_of r) /\
    st_acq (state_of r) <= S (st_acq s) /\
    (comp_shape (state_of r) = None -> st_acq (state_of r) = st_acq s) /\
    (forall c cl, comp_shape (state_of r) = Some (c, cl) ->
       cl = true /\ st_acq (state_of r) = S (st_acq s) /\ wants_compressed req s = Some c /\
       match en with
       | EDispatch => exists w r0, select_route O (d_table cfg) req = inl (w, r0) /\ enabled_for cfg r0 = true
       | EServeHTTP => d_encoding cfg = true \/
                       exists w r0, select_route O (d_table cfg) req = inl (w, r0) /\ enabled_for cfg r0 = true
       end).
Theorem C07_discipline : C07_discipline_statement.
Proof. exact serve_books. Qed.
Print Assumptions C07_discipline.

(* the coding is one the request asked for, and nothing is encoded when the writer already
   carried a (non-empty) Content-Encoding *)
Definition C07_wanted_statement : Prop :=
  forall req s c, wants_compressed req s = Some c ->
    accepts req (coding_name c) = true /\
    (hvalues H_ContentEncoding (st_hdr s) = [] \/ exists rest, hvalues H_ContentEncoding (st_hdr s) = [] :: rest).
Theorem C07_wanted : C07_wanted_statement.
Proof.
  intros req s c H. destruct (wants_compressed_sound req s c H) as [[A B]|[A (v & rest & B & ->)]]; split; eauto.
Qed.
Print Assumptions C07_wanted.

(* while a compressor is installed nothing reaches the underlying writer directly, whatever
   filters and handler do (every write between acquisition and close goes through it) *)
Definition C07_no_bypass_statement : Prop :=
  forall fs target s,
    raw_guard s <> None ->
    (forall s0, raw_guard s0 <> None -> raw_guard (state_of (target s0)) = raw_guard s0) ->
    raw_guard (state_of (run_chain fs target s)) = raw_guard s.
Theorem C07_no_bypass : C07_no_bypass_statement.
Proof. exact guard_run_chain. Qed.
Print Assumptions C07_no_bypass.

(* The FULL statement — "encoding was enabled for that request, the route's own setting
   overriding the container's" through every entry point — is FALSE of the faithful model
   and of the code: ServeHTTP installs the compressor before the route is known
   (known finding K-C07-1). *)
Definition C07_full_enabled_statement : Prop :=
  forall (O : oracles) (cfg : dcfg) (en : entry) (req : request) (s : rstate) c cl,
    clean s -> comp_shape (state_of (serve O cfg en req s)) = Some (c, cl) ->
    encoding_enabled O cfg req = true.

Definition O0 : oracles := {| o_lower := lower_ascii; o_rx := fun _ _ => false; o_rxfull := fun _ _ => false |}.
Definition cfg_off : dcfg :=
  {| d_table := {| t_router := Curly;
                   t_services := [ {| s_root := L "/"; s_routes :=
                      [ {| r_id := 1; r_method := L "GET"; r_rel := L "/a"; r_consumes := []; r_produces := [];
                           r_conds := []; r_noct := []; r_enc := Some false |} ] |} ] |};
     d_cfilters := []; d_sfilters := []; d_rfilters := []; d_handlers := [(1%Z, [AWrite (L "x")])];
     d_encoding := true; d_recover := false; d_recover_script := []; d_condpanic := []; d_plain := [] |}.
Definition req_gz : request :=
  {| rq_method := L "GET"; rq_path := L "/a"; rq_headers := [(H_AcceptEncoding, L "gzip")]; rq_clen := 0 |}.

Theorem C07_refuted_servehttp_route_off : ~ C07_full_enabled_statement.
Proof.
  intros H. specialize (H O0 cfg_off EServeHTTP req_gz (st0 []) Gzip true (conj eq_refl eq_refl) eq_refl).
  vm_compute in H. discriminate H.
Qed.
Print Assumptions C07_refuted_servehttp_route_off.

(* the same request through Dispatch is not encoded *)
Example C07_dispatch_respects_route :
  comp_shape (state_of (serve O0 cfg_off EDispatch req_gz (st0 []))) = None.
Proof. reflexivity. Qed.

(* The label.  For every configuration whose scripts leave the Content-Encoding header alone ([cfg_keeps_ce]: no
   AddHeader / Header().Del on that name in any filter, route function, recover handler or plain handler), through both
   entry points, both routers and every outcome (success, routing error, panic with and without recovery): when the
   response leaves with a compressor installed, its Content-Encoding header is exactly that coding's name, once; when
   none is installed, the header is what the writer carried on arrival — the container adds no Content-Encoding. *)
Definition C07_label_statement : Prop :=
  forall (O : oracles) (ce0 : list str) (cfg : dcfg) (en : entry) (req : request) (s : rstate),
    cfg_keeps_ce cfg = true -> st_comp s = None -> hvalues H_ContentEncoding (st_hdr s) = ce0 ->
    match st_comp (state_of (serve O cfg en req s)) with
    | Some (c, _, _) => hvalues H_ContentEncoding (st_hdr (state_of (serve O cfg en req s))) = [coding_name c]
    | None => hvalues H_ContentEncoding (st_hdr (state_of (serve O cfg en req s))) = ce0
    end.
Theorem C07_label : C07_label_statement.
Proof. exact serve_label. Qed.
Print Assumptions C07_label.

(* not vacuous: an encoded answer to a routing error (405 with Allow) written around by a filter that adds headers *)
Example C07_label_example :
  let cfg := {| d_table := {| t_router := Curly; t_services := [ {| s_root := L "/"; s_routes :=
                   [ {| r_id := 1; r_method := L "GET"; r_rel := L "/a"; r_consumes := []; r_produces := [];
                        r_conds := []; r_noct := []; r_enc := None |} ] |} ] |};
                d_cfilters := [ {| f_id := L "c0"; f_pre := [AHeader (L "X-A") (L "1"); ADelHeader (L "X-B")]; f_pass := true;
                                   f_post := [AWrite (L "<tail>")]; f_fresh := false; f_mw := 0; f_wrap := false |} ];
                d_sfilters := []; d_rfilters := []; d_handlers := [(1%Z, [AWrite (L "<body>")])];
                d_encoding := true; d_recover := true; d_recover_script := [AStatus 500]; d_condpanic := []; d_plain := [] |} in
  let req := {| rq_method := L "POST"; rq_path := L "/a"; rq_headers := [(H_AcceptEncoding, L "deflate")]; rq_clen := 0 |} in
  let s := state_of (serve O0 cfg EServeHTTP req (st0 [])) in
  cfg_keeps_ce cfg = true /\ st_status s = Some 405%Z /\
  st_comp s = Some (Deflate, [[]; L "<tail>"], true) /\
  hvalues H_ContentEncoding (st_hdr s) = [L "deflate"] /\ hvalues H_Allow (st_hdr s) = [L "GET"].
Proof. vm_compute. repeat split; reflexivity. Qed.

(* C02 — every request gets exactly one outcome; 404/405/415/406 are exact. *)
From Model Require Import Str Sexp Http Template Table Curly DetectRoute Jsr311 Router.
From Spec Require Import RouteSpec.
From Proofs Require Import OutcomeProofs JsrProofs JsrOutcomeProofs.

(* CurlyRouter.  For every regex oracle, table and request such that the routes
   of the service the URL belongs to use the documented template forms:
   routing never panics, and the observable outcome (a route function ran /
   error response, status, Allow, which function) meets the declarative cascade
   [spec_cascade] computed over the SET of routes of that service whose template
   admits the path: nothing admits or passes its conditions -> 404; no method
   match -> 405 with exactly the methods of those routes; no Consumes match and a
   body is sent -> 415; nothing left after Accept and a bodiless POST/PUT/PATCH
   -> 415; else 406; otherwise exactly one function of the surviving routes runs.
   The model value [routed] has exactly one of the shapes invoke / error / panic,
   and an invoke runs one function once. *)
Definition C02_curly_statement : Prop :=
  forall (O : oracles) (t : table) (req : request),
    t_router t = Curly -> best_wf O t req = true ->
    route_request O t req <> RPanic /\
    meets (curly_expected O t req) (routed_view (route_request O t req)) = true.

Theorem C02_curly : C02_curly_statement.
Proof. exact curly_outcome_exact. Qed.
Print Assumptions C02_curly.

(* detectRoute (shared by both routers) is the cascade on any candidate list, and the
   cascade does not depend on the order of the candidates *)
Definition C02_detect_statement : Prop :=
  (forall l req, meets (spec_cascade l req) (detect_view (detect_route l req)) = true) /\
  (forall l l' req v, Permutation.Permutation l l' ->
       meets (spec_cascade l req) v = meets (spec_cascade l' req) v).
Theorem C02_detect : C02_detect_statement.
Proof. exact (conj detect_route_meets spec_cascade_perm). Qed.
Print Assumptions C02_detect.

(* RouterJSR311: a selected route can always be given its parameters (the nil-slice index of ExtractParameters is
   unreachable): routing never panics under the second router either. *)
Definition C02_jsr_no_panic_statement : Prop :=
  forall (O : oracles) (t : table) (req : request) (w : service) (r : route),
    t_router t = Jsr311 -> select_route O t req = inl (w, r) -> route_request O t req <> RPanic.
Theorem C02_jsr_no_panic : C02_jsr_no_panic_statement.
Proof. exact jsr_selected_never_panics. Qed.
Print Assumptions C02_jsr_no_panic.

(* RouterJSR311, the full cascade.  For every oracle, table and request such that the templates of the service the
   URL belongs to are read structurally by path_expression.go ([jsr_best_agree]): routing never panics and the
   observable outcome meets the declarative cascade computed over the SET of routes of that service whose
   template admits the path in RouterJSR311's reading (the matcher is sound AND complete for that reading). *)
Definition C02_jsr_statement : Prop :=
  forall (O : oracles) (t : table) (req : request),
    t_router t = Jsr311 -> jsr_best_agree O t req = true ->
    route_request O t req <> RPanic /\
    meets (jsr_expected O t req) (routed_view (route_request O t req)) = true.
Theorem C02_jsr : C02_jsr_statement.
Proof. exact jsr_outcome_exact. Qed.
Print Assumptions C02_jsr.

Example C02_example :
  let O := {| o_lower := lower_ascii; o_rx := fun _ _ => true; o_rxfull := fun _ _ => false |} in
  let mk id (m rel : string) cons := {| r_id := id; r_method := L m; r_rel := L rel; r_consumes := cons; r_produces := [L "application/json"];
                        r_conds := []; r_noct := []; r_enc := None |} in
  let w := {| s_root := L "/a"; s_routes := [mk 1%Z "GET"%string "/{v}"%string []; mk 2%Z "POST"%string "/{v}"%string [L "application/json"]] |} in
  let t := {| t_router := Curly; t_services := [w] |} in
  let rq (m p : string) hs cl := {| rq_method := L m; rq_path := L p; rq_headers := hs; rq_clen := cl |} in
  best_wf O t (rq "GET"%string "/a/x"%string [] 0%Z) = true
  /\ routed_view (route_request O t (rq "PUT"%string "/a/x"%string [] 0%Z)) = (1, 405, [L "GET"; L "POST"], [])%Z
  /\ routed_view (route_request O t (rq "POST"%string "/a/x"%string [(H_ContentType, L "text/plain"); (H_ContentLength, L "3")] 3%Z)) = (1, 415, [], [])%Z
  /\ routed_view (route_request O t (rq "GET"%string "/a/x"%string [(H_Accept, L "text/html")] 0%Z)) = (1, 406, [], [])%Z
  /\ routed_view (route_request O t (rq "GET"%string "/a/x/y"%string [] 0%Z)) = (1, 404, [], [])%Z
  /\ routed_view (route_request O t (rq "GET"%string "/a/x"%string [] 0%Z)) = (0, 200, [], [1])%Z.
Proof. vm_compute. repeat split; reflexivity. Qed.

(* C04 — path parameters are bound to exactly the URL text they stand for. *)
From Model Require Import Str Sexp Http Template Table Curly DetectRoute Jsr311 Router.
From Spec Require Import RouteSpec.
From Proofs Require Import ParamProofs OutcomeProofs JsrProofs.

(* CurlyRouter.  For the route that is invoked (template of the documented
   forms), the parameter map the handler sees is exactly the map built from the
   structural bindings of the full template (root + route) on the path tokens:
   each plain / regex variable -> the segment at its position minus custom
   verb, {v}suffix -> that minus the suffix, tail wildcard -> the remaining
   segments joined by "/"; literals bind nothing, so no other name is bound. *)
Definition C04_curly_statement : Prop :=
  forall (O : oracles) (t : table) (req : request) (w : service) (r : route) (ps : list (str * str)),
    t_router t = Curly ->
    route_request O t req = RInvoke w r ps ->
    wf_route w r = true ->
    ps = pset_all (bindings (route_tpl w r) (tokenize (rq_path req))) [].

Theorem C04_curly : C04_curly_statement.
Proof. exact curly_invoked_params. Qed.
Print Assumptions C04_curly.

(* RouterJSR311.  The parameter map of an invoked route is the map of the structural bindings of root + route
   template on the path's segments (plain / regex variable -> its segment; tail wildcard -> the remaining text,
   a trailing slash included; literals bind nothing) — provided the compiled expressions and their VarNames are the
   structural reading of the two templates ([jsr_tokens_agree], [jsr_names_agree]: booleans that hold for the
   documented forms and are evaluated on every generated case). *)
Definition C04_jsr_statement : Prop :=
  forall (O : oracles) (t : table) (req : request) (w : service) (r : route) (ps : list (str * str)),
    t_router t = Jsr311 -> route_request O t req = RInvoke w r ps ->
    jsr_tokens_agree w r = true -> jsr_names_agree w r = true ->
    ps = fold_left (fun m kv => pset (fst kv) (snd kv) m) (jsr_route_bindings w r (rq_path req)) [].
Theorem C04_jsr : C04_jsr_statement.
Proof. exact jsr_invoked_params. Qed.
Print Assumptions C04_jsr.

Example C04_example :
  let O := {| o_lower := lower_ascii; o_rx := fun _ _ => true; o_rxfull := fun _ _ => false |} in
  let mk id (m rel : string) := {| r_id := id; r_method := L m; r_rel := L rel; r_consumes := []; r_produces := [];
                        r_conds := []; r_noct := []; r_enc := None |} in
  let w := {| s_root := L "/u/{uid}"; s_routes := [mk 1%Z "GET"%string "/{name}.json/{rest:*}"%string; mk 2%Z "GET"%string "/{id:[0-9]+}:cancel"%string] |} in
  let t := {| t_router := Curly; t_services := [w] |} in
  let rq (p : string) := {| rq_method := L "GET"; rq_path := L p; rq_headers := []; rq_clen := 0 |} in
  forallb (wf_route w) (s_routes w) = true
  /\ (match route_request O t (rq "/u/7/bob.json/x/y/"%string) with RInvoke _ _ ps => ps | _ => [] end)
     = [(L "uid", L "7"); (L "name", L "bob"); (L "rest", L "x/y")]
  /\ (match route_request O t (rq "/u/7/42:cancel"%string) with RInvoke _ _ ps => ps | _ => [] end)
     = [(L "uid", L "7"); (L "id", L "42")].
Proof. vm_compute. repeat split; reflexivity. Qed.

(* C08 — CORS headers are granted only to allowed origins, echoing the origin.
   This file holds only the statement, the theorem (closed by [exact]) and a
   non-vacuity example. *)
From Model Require Import Str Sexp Http Cors.
From Spec Require Import CorsSpec.
From Proofs Require Import StrFacts CorsProofs C08Proof.

(* For every oracle (i.e. whatever strings.ToLower does), configuration,
   container method table and request: *)
Definition C08_statement : Prop :=
  forall (O : oracles) (c : cors_cfg) (computed : list str) (req : request),
    let origin := hget req H_Origin in
    let hs := fst (cors_decide O c computed req) in
    (* the filter adds nothing but Access-Control-* headers ... *)
    (forall k v, In (k, v) hs -> is_grant_name k = true) /\
    (* ... and only for an origin the configuration allows *)
    (hs <> [] -> allowed O c origin) /\
    (* when it grants, Allow-Origin appears exactly once and is the origin verbatim *)
    (hs <> [] -> count_key H_ACAllowOrigin hs = 1) /\
    (forall v, In (H_ACAllowOrigin, v) hs -> v = origin) /\
    (* credentials only if configured *)
    (forall v, In (H_ACAllowCredentials, v) hs -> c_cookies c = true) /\
    (* no Origin, or a disallowed one: the request is processed exactly as if the
       filter were absent, whatever the rest of the chain does *)
    (~ allowed O c origin ->
     forall (resp : Type) (add : headers -> resp -> resp) (r : resp)
            (next : request -> resp -> resp),
       (forall r0, add [] r0 = r0) ->
       cors_filter O add c computed req r next = next req r).

Theorem C08 : C08_statement.
Proof. exact C08_proof. Qed.
Print Assumptions C08.

(* non-vacuity: a configuration with a list, an allowed and a refused origin *)
Example C08_example :
  let O := {| o_lower := lower_ascii; o_rx := fun _ _ => false; o_rxfull := fun _ _ => false |} in
  let c := {| c_expose := []; c_headers := []; c_domains := [L "http://a.example"];
              c_func := None; c_methods := [L "GET"]; c_maxage := 0; c_cookies := true |} in
  let rq (o : string) := {| rq_method := L "GET"; rq_path := L "/"; rq_headers := [(H_Origin, L o)]; rq_clen := 0 |} in
  fst (cors_decide O c [] (rq "HTTP://A.example"%string))
    = [(H_ACAllowOrigin, L "HTTP://A.example"); (H_ACAllowCredentials, L "true")]
  /\ fst (cors_decide O c [] (rq "http://a.example.evil"%string)) = [].
Proof. vm_compute. split; reflexivity. Qed.

(* C13 — pooled compressors are never shared, lost twice, or a reason to block.
   (partial: the step structure of the provider methods comes from the translator; the
   framework's "release exactly once" is C07_discipline; sync.Pool / channel semantics are
   written out in Model.Pool) *)
From Model Require Import Pool.
From Proofs Require Import PoolProofs.
From Coq Require Import List. Import ListNotations.

(* Exclusivity: for every capacity (0 and 1 included), every number of clients, every
   client program (even blocking ones) and every schedule: in every reachable state no object
   is idle twice, idle and held, or held by two clients. *)
Definition C13_exclusive_statement : Prop :=
  forall (cap : nat) (progs : list (list pstep)) (sched : list nat),
    let s := prun (pinit cap progs) sched in NoDup (ps_chan s ++ held_list s).
Theorem C13_exclusive : C13_exclusive_statement.
Proof. exact exclusivity. Qed.
Print Assumptions C13_exclusive.

(* Non-blocking: if every provider method consists of always-enabled steps (non-blocking
   receive-or-new, try-send, sync.Pool Get/Put, length checks) then for every capacity, every
   number of clients, every number of rounds and every schedule no client is ever blocked. *)
Definition C13_nonblocking_statement : Prop :=
  forall (cap : nat) (progs : list (list pstep)) (sched : list nat) (i : nat),
    Forall (fun p => nb_prog p = true) progs -> blocked (prun (pinit cap progs) sched) i = false.
Theorem C13_nonblocking : C13_nonblocking_statement.
Proof. exact nonblocking. Qed.
Print Assumptions C13_nonblocking.

(* A release written as "check the length, then send" is NOT non-blocking: two clients,
   capacity 1, and the schedule acquire / acquire / check / check / send leaves the second
   sender blocked with nobody left to receive (the defect F1 of the unrepaired tree). *)
Theorem C13_check_then_send_refuted :
  exists sched,
    deadlocked (prun (pinit 1 [rounds_prog acq_prog rel_check_then_send 1; rounds_prog acq_prog rel_check_then_send 1]) sched) = true.
Proof. exact check_then_send_deadlocks. Qed.
Print Assumptions C13_check_then_send_refuted.

Example C13_example :
  let s := prun (pinit 1 [rounds_prog [PTryRecvElseNew] [PTrySend] 2; rounds_prog [PTryRecvElseNew] [PTrySend] 2]) [0; 1; 0; 1; 1; 0; 1; 0] in
  ps_chan s = [0] /\ forallb (fun c => negb (unfinished c)) (ps_clients s) = true /\ deadlocked s = false.
Proof. vm_compute. repeat split; reflexivity. Qed.

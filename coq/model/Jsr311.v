(* Jsr311.v — mirrors jsr311.go (detectDispatcher, selectRoutes, both Less,
   ExtractParameters).  The compiled regular expression of a template is
   matched segment-wise (DESIGN 3.3): literal = equal segment, ([^/]+?) = one
   non-empty segment, (re) = one segment fully matching re (oracle rxfull),
   a trailing dot-star group takes everything; the final optional group is the rest.
   The expression is compiled with (?s) (repair F8), so '.' matches every byte.
   A dot-star group that is not the last token is outside the modelled fragment
   ([jsr_match] answers None for it). Definitions only. *)
From Model Require Import Str Sexp Http Template Table Curly.

Section WithOracles.
Variable O : oracles.

(* the maximal run of non-'/' bytes and what follows *)
Fixpoint span_seg (p : str) : str * str :=
  match p with
  | [] => ([], [])
  | c :: p' => if Ascii.eqb c slash then ([], p) else let '(a, b) := span_seg p' in (c :: a, b)
  end.

(* FindStringSubmatch of the template expression on p: Some (captures, final group) *)
Fixpoint jsr_match (toks : list etok) (p : str) : option (list str * str) :=
  match toks with
  | [] =>
      match p with
      | [] => Some ([], [])
      | c :: _ => if Ascii.eqb c slash then Some ([], p) else None
      end
  | t :: toks' =>
      match p with
      | c :: p1 =>
        if negb (Ascii.eqb c slash) then None
        else
          match t with
          | EAll =>
              match toks' with
              | [] => Some ([p1], [])
              | _ => None       (* wildcard in the middle: not modelled *)
              end
          | _ =>
            let '(seg, rest) := span_seg p1 in
            let ok := match t with
                      | ELit s => str_eqb seg s
                      | EVar => negb (str_eqb seg [])
                      | ERx re => o_rxfull O re seg
                      | EAll => false
                      end in
            if negb ok then None
            else match jsr_match toks' rest with
                 | Some (caps, fin) =>
                     Some (match t with ELit _ => caps | _ => seg :: caps end, fin)
                 | None => None
                 end
          end
      | [] => None
      end
  end.

(* jsr311.go:214 detectDispatcher. Candidates ordered by (matchesCount,
   literalCount, nonDefaultCount := VarCount) descending, stable. *)
Record disp_cand := { dc_ws : service; dc_final : str; dc_matches : nat; dc_literal : nat; dc_nondef : nat }.
Definition dc_lt (a b : disp_cand) : bool :=
  if Nat.ltb (dc_matches a) (dc_matches b) then true
  else if Nat.ltb (dc_matches b) (dc_matches a) then false
  else if Nat.ltb (dc_literal a) (dc_literal b) then true
  else if Nat.ltb (dc_literal b) (dc_literal a) then false
  else Nat.ltb (dc_nondef a) (dc_nondef b).

Definition dispatcher_cands (path : str) (wss : list service) : list disp_cand :=
  flat_map (fun w =>
      let pe := path_expression (s_root w) in
      match jsr_match (pe_toks pe) path with
      | Some (caps, fin) =>
          [{| dc_ws := w; dc_final := fin; dc_matches := S (S (List.length caps)) + pe_groups pe;
              dc_literal := pe_literal pe; dc_nondef := pe_vars pe |}]
      | None => []
      end) wss.

Definition detect_dispatcher (path : str) (wss : list service) : option (service * str) :=
  match sort_desc dc_lt (dispatcher_cands path wss) with
  | c :: _ => Some (dc_ws c, dc_final c)
  | [] => None
  end.

(* jsr311.go:181 selectRoutes. Ordered by (literalCount, matchesCount,
   nonDefaultCount := VarCount, Path) descending, stable. *)
Record route_cand := { rc_route : route; rc_matches : nat; rc_literal : nat; rc_nondef : nat; rc_path : str }.
Definition rc_lt (a b : route_cand) : bool :=
  if Nat.ltb (rc_literal a) (rc_literal b) then true
  else if Nat.ltb (rc_literal b) (rc_literal a) then false
  else if Nat.ltb (rc_matches a) (rc_matches b) then true
  else if Nat.ltb (rc_matches b) (rc_matches a) then false
  else if Nat.ltb (rc_nondef a) (rc_nondef b) then true
  else if Nat.ltb (rc_nondef b) (rc_nondef a) then false
  else str_ltb (rc_path a) (rc_path b).

Definition final_ok (fin : str) : bool := str_eqb fin [] || str_eqb fin [slash].

Definition jsr_select_routes (w : service) (remainder : str) : list route_cand :=
  let cands := flat_map (fun r =>
      let pe := path_expression (r_rel r) in
      match jsr_match (pe_toks pe) remainder with
      | Some (caps, fin) =>
          if final_ok fin then
            [{| rc_route := r; rc_matches := S (List.length caps) + pe_groups pe; rc_literal := pe_literal pe;
                rc_nondef := pe_vars pe; rc_path := route_path w r |}]
          else []
      | None => []
      end) (s_routes w) in
  sort_desc rc_lt cands.

(* jsr311.go:58 extractParams: VarNames[i-1] -> matches[i] for the groups that have a name *)
Fixpoint zip_params (names caps : list str) : list (str * str) :=
  match names, caps with
  | n :: names', c :: caps' => (n, c) :: zip_params names' caps'
  | _, _ => []
  end.

(* jsr311.go:45 ExtractParameters; None = the nil-slice index panic *)
Definition jsr_extract_parameters (w : service) (r : route) (path : str) : option (list (str * str)) :=
  let we := path_expression (s_root w) in
  match jsr_match (pe_toks we) path with
  | None => None
  | Some (wcaps, wfin) =>
    let re := path_expression (r_rel r) in
    let rparams := match jsr_match (pe_toks re) wfin with
                   | Some (rcaps, _) => zip_params (pe_names re) rcaps
                   | None => []
                   end in
    Some (zip_params (pe_names we) wcaps ++ rparams)
  end.

End WithOracles.

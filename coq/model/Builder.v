(* WebService.Produces / Consumes / Route and RouteBuilder.copyDefaults (web_service.go, route_builder.go):
   the set-up calls of one WebService as a history, and the routes they leave behind.
     ws.Produces(l)  stores l as the service's list            (w.produces = contentTypes)
     ws.Consumes(l)  likewise
     ws.Route(b)     copies the lists IN FORCE AT THAT MOMENT into a builder that declared none of its own
                     (copyDefaults: if len(b.produces) == 0 { b.produces = rootProduces }, same for consumes),
                     builds the route and appends it. *)
From Coq Require Import List ZArith.
From Model Require Import Str Table.
Import ListNotations.

Inductive bop :=
| BProduces (l : list str)
| BConsumes (l : list str)
| BRoute (r : route).           (* r_produces / r_consumes: what the builder declared itself, [] = nothing *)

Record ws_state := { w_prod : list str; w_cons : list str; w_routes : list route }.
Definition ws_init : ws_state := {| w_prod := []; w_cons := []; w_routes := [] |}.

Definition inherit (dflt own : list str) : list str := match own with [] => dflt | _ => own end.

Definition copy_defaults (s : ws_state) (r : route) : route :=
  {| r_id := r_id r; r_method := r_method r; r_rel := r_rel r;
     r_consumes := inherit (w_cons s) (r_consumes r);
     r_produces := inherit (w_prod s) (r_produces r);
     r_conds := r_conds r; r_noct := r_noct r; r_enc := r_enc r |}.

Definition ws_step (s : ws_state) (op : bop) : ws_state :=
  match op with
  | BProduces l => {| w_prod := l; w_cons := w_cons s; w_routes := w_routes s |}
  | BConsumes l => {| w_prod := w_prod s; w_cons := l; w_routes := w_routes s |}
  | BRoute r => {| w_prod := w_prod s; w_cons := w_cons s; w_routes := w_routes s ++ [copy_defaults s r] |}
  end.

Definition ws_run (s : ws_state) (ops : list bop) : ws_state := fold_left ws_step ops s.
Definition ws_build (ops : list bop) : ws_state := ws_run ws_init ops.

(* the list a history has in force at its end: the last one declared *)
Fixpoint last_produces (ops : list bop) (acc : list str) : list str :=
  match ops with
  | [] => acc
  | BProduces l :: rest => last_produces rest l
  | _ :: rest => last_produces rest acc
  end.
Fixpoint last_consumes (ops : list bop) (acc : list str) : list str :=
  match ops with
  | [] => acc
  | BConsumes l :: rest => last_consumes rest l
  | _ :: rest => last_consumes rest acc
  end.

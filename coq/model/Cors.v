(* Cors.v — mirrors cors_filter.go.  The filter is split into a decision
   ([cors_decide]: which headers it adds, whether it passes control on) and
   the generic wiring [cors_filter]; the decision is what the code computes
   before/without touching the chain. *)
From Model Require Import Str Sexp Http.

Record cors_cfg := {
  c_expose : list str;              (* ExposeHeaders *)
  c_headers : list str;             (* AllowedHeaders *)
  c_domains : list str;             (* AllowedDomains *)
  c_func : option (str -> bool);    (* AllowedDomainFunc *)
  c_methods : list str;             (* AllowedMethods *)
  c_maxage : Z;                     (* MaxAge *)
  c_cookies : bool                  (* CookiesAllowed *)
}.

Section WithOracles.
Variable O : oracles.

(* cors_filter.go:131 isOriginAllowed *)
Definition is_origin_allowed (c : cors_cfg) (origin : str) : bool :=
  match origin with
  | [] => false
  | _ =>
    let lo := o_lower O origin in
    match c_domains c with
    | [] => match c_func c with Some f => f lo | None => true end
    | ds =>
      if existsb (fun d => str_eqb d (L ".*") || str_eqb (o_lower O d) lo) ds then true
      else match c_func c with Some f => f origin | None => false end
    end
  end.

(* cors_filter.go:122 setOptionsHeaders (expose, origin, credentials, max-age) *)
Definition set_options_headers (c : cors_cfg) (origin : str) (h : headers) : headers :=
  let h := match c_expose c with
           | [] => h
           | e => hadd h H_ACExposeHeaders (join [comma] e)
           end in
  let h := if is_origin_allowed c origin then hadd h H_ACAllowOrigin origin else h in
  let h := if c_cookies c then hadd h H_ACAllowCredentials (L "true") else h in
  if Z.ltb 0 (c_maxage c) then hadd h H_ACMaxAge (itoa (c_maxage c)) else h.

(* cors_filter.go:183 isValidAccessControlRequestHeader *)
Definition valid_request_header (c : cors_cfg) (hd : str) : bool :=
  existsb (fun each => str_eqb (o_lower O each) (o_lower O hd) || str_eqb each (L "*"))
          (c_headers c).

(* cors_filter.go:82 doPreflightRequest; [computed] is what
   Container.computeAllowedMethods returns for this request *)
Definition do_preflight (c : cors_cfg) (computed : list str) (req : request) : headers :=
  let methods := match c_methods c with [] => computed | m => m end in
  let acrm := hget req H_ACRequestMethod in
  if negb (mem acrm methods) then []
  else
    let acrhs := hget req H_ACRequestHeaders in
    let ok := match acrhs with
              | [] => true
              | _ => forallb (fun each => valid_request_header c (trim space each))
                             (split comma acrhs)
              end in
    if negb ok then []
    else
      let h := hadd [] H_ACAllowMethods (join [comma] methods) in
      let h := hadd h H_ACAllowHeaders acrhs in
      set_options_headers c (hget req H_Origin) h.

(* cors_filter.go:47 Filter: (headers added, passes control on) *)
Definition cors_decide (c : cors_cfg) (computed : list str) (req : request)
  : headers * bool :=
  let origin := hget req H_Origin in
  match origin with
  | [] => ([], true)
  | _ =>
    if negb (is_origin_allowed c origin) then ([], true)
    else if negb (str_eqb (rq_method req) (L "OPTIONS")) then
      (set_options_headers c origin [], true)
    else match hget req H_ACRequestMethod with
         | [] => (set_options_headers c origin [], true)
         | _ => (do_preflight c computed req, false)
         end
  end.

(* The filter inside a chain: ['resp] is any response-under-construction,
   [add] appends header values to it, [next] is the rest of the chain. *)
Definition cors_filter {resp : Type} (add : headers -> resp -> resp)
           (c : cors_cfg) (computed : list str) (req : request) (r : resp)
           (next : request -> resp -> resp) : resp :=
  let '(hs, pass) := cors_decide c computed req in
  if pass then next req (add hs r) else add hs r.

End WithOracles.

(* decoding: (expose headers domains func methods maxage cookies)
   func: () = nil func, or ((accepted ...)) = the predicate "argument is one of these" *)
Definition sx_func (x : sexp) : option (str -> bool) :=
  match sx_list x with
  | [] => None
  | acc :: _ => Some (fun s => mem s (sx_strs acc))
  end.
Definition sx_cors (x : sexp) : cors_cfg :=
  {| c_expose := sx_strs (sx_nth 0 x);
     c_headers := sx_strs (sx_nth 1 x);
     c_domains := sx_strs (sx_nth 2 x);
     c_func := sx_func (sx_nth 3 x);
     c_methods := sx_strs (sx_nth 4 x);
     c_maxage := sx_int (sx_nth 5 x);
     c_cookies := sx_bool (sx_nth 6 x) |}.

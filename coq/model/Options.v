(* Options.v — mirrors container.go:421 computeAllowedMethods and
   options_filter.go:13 Container.OPTIONSFilter. Definitions only. *)
From Model Require Import Str Sexp Http Template Table Curly DetectRoute Jsr311.

Section WithOracles.
Variable O : oracles.

(* regex walk over ALL services whose root expression matches the URL, and all
   their routes whose expression matches the remainder (conditions, method and
   the router in use play no role) *)
Definition compute_allowed_methods (t : table) (path : str) : list str :=
  flat_map (fun w =>
    match jsr_match O (pe_toks (path_expression (s_root w))) path with
    | Some (_, fin) =>
        flat_map (fun r =>
          match jsr_match O (pe_toks (path_expression (r_rel r))) fin with
          | Some (_, f) => if final_ok f then [r_method r] else []
          | None => []
          end) (s_routes w)
    | None => []
    end) (t_services t).

(* OPTIONSFilter: (headers added, passes control on) *)
Definition options_decide (t : table) (req : request) : headers * bool :=
  if negb (str_eqb (rq_method req) (L "OPTIONS")) then ([], true)
  else
    let methods := join [comma] (compute_allowed_methods t (rq_path req)) in
    let h := hadd [] H_Allow methods in
    let h := hadd h H_ACAllowOrigin (hget req H_Origin) in
    let h := hadd h H_ACAllowHeaders (hget req H_ACRequestHeaders) in
    let h := hadd h H_ACAllowMethods methods in
    (h, false).

End WithOracles.

(* Pool.v — the compressor providers (compressor_cache.go: buffered channels;
   compressor_pools.go: sync.Pool) as a transition system of N clients that
   each acquire an object, use it and release it, under ANY interleaving.
   The step structure of the provider methods ([pstep] programs) is produced by
   the translator (gen/Generated_Pool.v).  Definitions only. *)
From Coq Require Import List Arith Bool.
Import ListNotations.

Inductive pstep :=
| PTryRecvElseNew                 (* select { case x = <-ch: default: x = new() } *)
| PIfLenLtCap (body : list pstep) (* if len(ch) < capacity { body } *)
| PSend                           (* ch <- x : BLOCKS while the channel is full *)
| PTrySend                        (* select { case ch <- x: default: } *)
| PPoolGet                        (* sync.Pool.Get *)
| PPoolPut                        (* sync.Pool.Put *)
| PUnknown.                       (* anything the translator does not recognise *)

(* a client: the object it holds (if any) and the steps it still has to run *)
Record client := { c_held : option nat; c_prog : list pstep }.

Record pstate := {
  ps_chan : list nat;      (* idle objects, oldest first (channel buffer / pool) *)
  ps_cap : nat;            (* channel capacity *)
  ps_next : nat;           (* next fresh object identity *)
  ps_clients : list client
}.

(* one step of client [c] against channel [ch]; None = the step is not enabled (blocked) *)
Definition client_step (cap : nat) (ch : list nat) (next : nat) (c : client)
  : option (list nat * nat * client) :=
  match c_prog c with
  | [] => None
  | PTryRecvElseNew :: k | PPoolGet :: k =>
      match ch with
      | x :: ch' => Some (ch', next, {| c_held := Some x; c_prog := k |})
      | [] => Some ([], S next, {| c_held := Some next; c_prog := k |})
      end
  | PIfLenLtCap body :: k =>
      if Nat.ltb (length ch) cap then Some (ch, next, {| c_held := c_held c; c_prog := body ++ k |})
      else Some (ch, next, {| c_held := None; c_prog := k |})      (* the object is forgotten *)
  | PSend :: k =>
      if Nat.ltb (length ch) cap then
        Some (match c_held c with Some x => ch ++ [x] | None => ch end, next, {| c_held := None; c_prog := k |})
      else None
  | PTrySend :: k =>
      if Nat.ltb (length ch) cap then
        Some (match c_held c with Some x => ch ++ [x] | None => ch end, next, {| c_held := None; c_prog := k |})
      else Some (ch, next, {| c_held := None; c_prog := k |})
  | PPoolPut :: k =>
      Some (match c_held c with Some x => ch ++ [x] | None => ch end, next, {| c_held := None; c_prog := k |})
  | PUnknown :: _ => None
  end.

Fixpoint set_nth {A} (n : nat) (x : A) (l : list A) : list A :=
  match l, n with
  | [], _ => []
  | _ :: l', 0 => x :: l'
  | y :: l', S n' => y :: set_nth n' x l'
  end.

(* the scheduler picks client [i] *)
Definition pstep_at (s : pstate) (i : nat) : option pstate :=
  match nth_error (ps_clients s) i with
  | None => None
  | Some c =>
      match client_step (ps_cap s) (ps_chan s) (ps_next s) c with
      | None => None
      | Some (ch, next, c') =>
          Some {| ps_chan := ch; ps_cap := ps_cap s; ps_next := next; ps_clients := set_nth i c' (ps_clients s) |}
      end
  end.

(* a schedule: picks that are not enabled are skipped (the client stays blocked) *)
Fixpoint prun (s : pstate) (sched : list nat) : pstate :=
  match sched with
  | [] => s
  | i :: rest => match pstep_at s i with Some s' => prun s' rest | None => prun s rest end
  end.

(* programs whose every step is always enabled *)
Fixpoint nb_step (p : pstep) : bool :=
  match p with
  | PSend | PUnknown => false
  | PIfLenLtCap body => forallb nb_step body
  | _ => true
  end.
Definition nb_prog (p : list pstep) : bool := forallb nb_step p.

(* the shapes the exclusivity argument is stated for *)
Definition is_acquire (p : list pstep) : bool :=
  match p with [PTryRecvElseNew] | [PPoolGet] => true | _ => false end.
Definition is_release (p : list pstep) : bool :=
  match p with [PTrySend] | [PPoolPut] | [PIfLenLtCap [PSend]] => true | _ => false end.

(* initial state: the cache is created full (NewBoundedCachedCompressors) *)
Definition pinit (cap : nat) (progs : list (list pstep)) : pstate :=
  {| ps_chan := seq 0 cap; ps_cap := cap; ps_next := cap;
     ps_clients := map (fun p => {| c_held := None; c_prog := p |}) progs |}.

(* a client that runs [rounds] times: acquire, (use), release *)
Fixpoint rounds_prog (acq rel : list pstep) (rounds : nat) : list pstep :=
  match rounds with 0 => [] | S n => acq ++ rel ++ rounds_prog acq rel n end.

Definition unfinished (c : client) : bool := match c_prog c with [] => false | _ => true end.
Definition blocked (s : pstate) (i : nat) : bool :=
  match nth_error (ps_clients s) i with
  | Some c => unfinished c && match pstep_at s i with None => true | Some _ => false end
  | None => false
  end.
Definition deadlocked (s : pstate) : bool :=
  existsb unfinished (ps_clients s) &&
  forallb (fun i => match pstep_at s i with None => true | Some _ => false end) (seq 0 (length (ps_clients s))).

Definition held_list (s : pstate) : list nat :=
  flat_map (fun c => match c_held c with Some x => [x] | None => [] end) (ps_clients s).

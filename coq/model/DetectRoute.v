(* DetectRoute.v — mirrors jsr311.go:69 detectRoute (shared by both routers)
   and route.go matchesAccept / matchesContentType. Definitions only. *)
From Model Require Import Str Sexp Http Template Table.

(* one comma-separated element: cut at ';', trim spaces *)
Definition media_of (elem : str) : str :=
  trim space (match index_char elem semi with Some q => firstn q elem | None => elem end).

(* The Go loop cuts [remaining] at commas and stops when the remainder is empty:
   a trailing comma does not produce a final empty element.  [split] yields that
   final empty element, so it is dropped when there is more than one element. *)
Fixpoint drop_last_empty (l : list str) : list str :=
  match l with
  | [] => []
  | [x] => match x with [] => [] | _ => [x] end
  | x :: l' => x :: drop_last_empty l'
  end.
Definition header_elems (v : str) : list str :=
  match split comma v with
  | [x] => [x]
  | l => drop_last_empty l
  end.

(* route.go:86 matchesAccept *)
Definition matches_accept (r : route) (accept : str) : bool :=
  existsb (fun e =>
             let m := media_of e in
             str_eqb m (L "*/*")
             || existsb (fun p => str_eqb p (L "*/*") || str_eqb p m) (r_produces r))
          (header_elems accept).

(* route.go:114 matchesContentType *)
Definition matches_content_type (r : route) (ct : str) : bool :=
  match r_consumes r with
  | [] => true
  | _ =>
    let go (v : str) :=
      existsb (fun e => let m := media_of e in
                        existsb (fun c => str_eqb c (L "*/*") || str_eqb c m) (r_consumes r))
              (header_elems v) in
    match ct with
    | [] =>
        let m := r_method r in
        let ok := match r_noct r with
                  | [] => mem m [L "GET"; L "HEAD"; L "OPTIONS"; L "DELETE"; L "TRACE"]
                  | l => mem m l
                  end in
        if ok then true else go (L "application/octet-stream")
    | _ => go ct
    end
  end.

Inductive rerr :=
| E404
| E405 (allow : list str)
| E415
| E406.

Fixpoint dedup (l : list str) (seen : list str) : list str :=
  match l with
  | [] => []
  | x :: l' => if mem x seen then dedup l' seen else x :: dedup l' (x :: seen)
  end.

(* jsr311.go:69 detectRoute: the candidates are already ordered *)
Definition detect_route (routes : list route) (req : request) : route + rerr :=
  let c0 := filter (fun r => forallb (fun b => b) (r_conds r)) routes in
  match c0 with
  | [] => inr E404
  | _ =>
    let c1 := filter (fun r => str_eqb (rq_method req) (r_method r)) c0 in
    match c1 with
    | [] => inr (E405 (dedup (map r_method c0) []))
    | _ =>
      let ct := hget req H_ContentType in
      let c2 := filter (fun r => matches_content_type r ct) c1 in
      match c2, Z.ltb 0 (rq_clen req) with
      | [], true => inr E415
      | _, _ =>
        let accept := match hget req H_Accept with [] => L "*/*" | a => a end in
        let c3 := filter (fun r => matches_accept r accept) c2 in
        match c3 with
        | r :: _ => inl r
        | [] =>
          let m := rq_method req in
          let len := hget req H_ContentLength in
          if (str_eqb m (L "POST") || str_eqb m (L "PUT") || str_eqb m (L "PATCH"))
             && (str_eqb len [] || str_eqb len (L "0"))
          then inr E415 else inr E406
        end
      end
    end
  end.

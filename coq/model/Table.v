(* Table.v — route tables as data: what Container.Add / WebService.Route /
   RouteBuilder.Build leave behind (web_service.go, route_builder.go, route.go
   postBuild).  User code (handlers, conditions) is data. Definitions only. *)
From Model Require Import Str Sexp Http Template.

Record route := {
  r_id : Z;                      (* identity of the route function (observation only) *)
  r_method : str;
  r_rel : str;                   (* path given to RouteBuilder.Path *)
  r_consumes : list str;
  r_produces : list str;
  r_conds : list bool;           (* value of each If-condition on the request at hand *)
  r_noct : list str;             (* allowedMethodsWithoutContentType *)
  r_enc : option bool            (* ContentEncodingEnabled override *)
}.

Record service := {
  s_root : str;                  (* rootPath (never empty: Path("") stores "/") *)
  s_routes : list route
}.

Inductive router := Curly | Jsr311.

Record table := {
  t_router : router;
  t_services : list service
}.

(* Route.Path / pathParts / hasCustomVerb as built by RouteBuilder.Build + postBuild *)
Definition route_path (s : service) (r : route) : str := concat_path (s_root s) (r_rel r).
Definition route_parts (s : service) (r : route) : list str := tokenize (route_path s r).
Definition route_hcv (s : service) (r : route) : bool := has_custom_verb (route_path s r).

(* decoding *)
Definition sx_opt_bool (x : sexp) : option bool :=
  match sx_list x with [] => None | b :: _ => Some (sx_bool b) end.
Definition sx_route (x : sexp) : route :=
  {| r_id := sx_int (sx_nth 0 x);
     r_method := sx_str (sx_nth 1 x);
     r_rel := sx_str (sx_nth 2 x);
     r_consumes := sx_strs (sx_nth 3 x);
     r_produces := sx_strs (sx_nth 4 x);
     r_conds := map sx_bool (sx_list (sx_nth 5 x));
     r_noct := sx_strs (sx_nth 6 x);
     r_enc := sx_opt_bool (sx_nth 7 x) |}.
(* web_service.go:80 Path: an empty root is stored as "/" *)
Definition ws_path (root : str) : str := match root with [] => [slash] | _ => root end.
Definition sx_service (x : sexp) : service :=
  {| s_root := ws_path (sx_str (sx_nth 0 x)); s_routes := map sx_route (sx_list (sx_nth 1 x)) |}.
Definition sx_table (x : sexp) : table :=
  {| t_router := if Z.eqb (sx_int (sx_nth 0 x)) 0 then Curly else Jsr311;
     t_services := map sx_service (sx_list (sx_nth 1 x)) |}.

(* Linear.v — the registration protocol of container.go as interleaved steps (C12,
   "every request is answered according to a registration state that existed at some
   moment during that request").

   Request (Container.dispatch):  c.webServicesLock.RLock()            QStart -> QHeld
                                  read c.webServices                   QHeld  -> QSnap
                                  router: claiming service, then its
                                  routes through ws.Routes()           QSnap  -> QView
                                  c.webServicesLock.RUnlock()          QView  -> QDone
   Add / Remove:                  c.webServicesLock.Lock(); change; Unlock()
   Route / RemoveRoute:           replace one service's route slice (ws.routesLock makes the
                                  replacement and ws.Routes() atomic w.r.t. each other; that
                                  they are is the lockset theorem C12_no_race, here they are
                                  single steps)
   Every step of every thread is atomic, the scheduler is arbitrary.
   The ghost field [lin] records the global service list at the step where the request read
   the claiming service's routes: a state that existed during that request.
   Definitions only. *)
From Model Require Import Str Sexp Http Template Table Curly DetectRoute Jsr311 Router.

Section WithOracles.
Variable O : oracles.
Variable rtr : router.

Record gs := { g_svcs : list service; g_cw : bool; g_cr : nat }.

Inductive qphase :=
| QStart
| QHeld
| QSnap (snap : list service)
| QView (view lin : list service)
| QDone (ans : (service * route) + rerr) (lin : list service).

Inductive mop :=
| OAdd (w : service)
| ORemove (root : str)
| OSetRoutes (root : str) (rs : list route).      (* Route / RemoveRoute on the service(s) of that root *)

Inductive thread :=
| TReq (req : request) (ph : qphase)
| TMut (held : option mop) (ops : list mop).

(* the root of the service that claims the request, under the configured router *)
Definition claim_root (req : request) (wss : list service) : option str :=
  match rtr with
  | Curly => option_map s_root (detect_web_service O (tokenize (rq_path req)) wss)
  | Jsr311 => option_map (fun wf => s_root (fst wf)) (detect_dispatcher O (rq_path req) wss)
  end.

(* the snapshot, with the claiming service read again from the current list (ws.Routes()) *)
Fixpoint reread (rt : option str) (snap cur : list service) : list service :=
  match snap, cur with
  | s :: snap', c :: cur' =>
      (match rt with Some r => if str_eqb (s_root s) r then c else s | None => s end) :: reread rt snap' cur'
  | _, _ => snap
  end.

Definition apply_op (op : mop) (wss : list service) : list service :=
  match op with
  | OAdd w => wss ++ [w]
  | ORemove root => filter (fun w => negb (str_eqb (s_root w) root)) wss
  | OSetRoutes root rs =>
      map (fun w => if str_eqb (s_root w) root then {| s_root := s_root w; s_routes := rs |} else w) wss
  end.

Definition needs_lock (op : mop) : bool := match op with OSetRoutes _ _ => false | _ => true end.

(* one step of one thread; None = blocked or finished *)
Definition tstep (g : gs) (t : thread) : option (gs * thread) :=
  match t with
  | TReq req QStart =>
      if g_cw g then None
      else Some ({| g_svcs := g_svcs g; g_cw := false; g_cr := S (g_cr g) |}, TReq req QHeld)
  | TReq req QHeld => Some (g, TReq req (QSnap (g_svcs g)))
  | TReq req (QSnap snap) =>
      Some (g, TReq req (QView (reread (claim_root req snap) snap (g_svcs g)) (g_svcs g)))
  | TReq req (QView view lin) =>
      Some ({| g_svcs := g_svcs g; g_cw := g_cw g; g_cr := pred (g_cr g) |},
            TReq req (QDone (select_route O {| t_router := rtr; t_services := view |} req) lin))
  | TReq _ (QDone _ _) => None
  | TMut None [] => None
  | TMut None (op :: ops) =>
      if needs_lock op then
        if g_cw g || negb (Nat.eqb (g_cr g) 0) then None
        else Some ({| g_svcs := g_svcs g; g_cw := true; g_cr := g_cr g |}, TMut (Some op) ops)
      else Some ({| g_svcs := apply_op op (g_svcs g); g_cw := g_cw g; g_cr := g_cr g |}, TMut None ops)
  | TMut (Some op) ops =>
      Some ({| g_svcs := apply_op op (g_svcs g); g_cw := false; g_cr := g_cr g |}, TMut None ops)
  end.

Fixpoint upd {A} (i : nat) (x : A) (l : list A) : list A :=
  match l, i with
  | [], _ => []
  | _ :: l', 0 => x :: l'
  | y :: l', S i' => y :: upd i' x l'
  end.

(* the scheduler picks thread i; a blocked or finished thread leaves everything as it is *)
Definition sstep (st : gs * list thread) (i : nat) : gs * list thread :=
  match nth_error (snd st) i with
  | Some t => match tstep (fst st) t with
              | Some (g', t') => (g', upd i t' (snd st))
              | None => st
              end
  | None => st
  end.

Definition srun (sched : list nat) (st : gs * list thread) : gs * list thread := fold_left sstep sched st.

Definition fresh_thread (t : thread) : bool :=
  match t with TReq _ QStart => true | TMut None _ => true | _ => false end.

End WithOracles.

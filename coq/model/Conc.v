(* Conc.v — lock discipline of the registration state (container.go,
   web_service.go, curly.go, jsr311.go): threads are event lists produced by
   the translator (gen/Generated_Locks.v); the semantics is an interleaving of
   those events under two readers-writer locks.  Definitions only. *)
From Coq Require Import List Arith Bool String.
Import ListNotations.

Inductive lk := WS | RT.          (* Container.webServicesLock, WebService.routesLock *)
Inductive md := R | W.
Inductive loc := LWebServices | LServeMux | LIsRoot | LRoutes.

Inductive ev :=
| Acq (l : lk) (m : md)
| Rel (l : lk) (m : md)
| Rd (x : loc) (pos : string)
| Wr (x : loc) (pos : string)
| User (pos : string).            (* a call into user code: filter, route function, handler, recover / error handler *)

Definition lk_eqb (a b : lk) : bool := match a, b with WS, WS | RT, RT => true | _, _ => false end.
Definition md_eqb (a b : md) : bool := match a, b with R, R | W, W => true | _, _ => false end.
Definition loc_eqb (a b : loc) : bool :=
  match a, b with
  | LWebServices, LWebServices | LServeMux, LServeMux | LIsRoot, LIsRoot | LRoutes, LRoutes => true
  | _, _ => false
  end.

(* which lock guards which location *)
Definition guard (x : loc) : lk := match x with LRoutes => RT | _ => WS end.

(* the locks a thread holds: (webServicesLock, routesLock) *)
Definition held := (option md * option md)%type.
Definition hget (h : held) (l : lk) : option md := match l with WS => fst h | RT => snd h end.
Definition hset (h : held) (l : lk) (v : option md) : held :=
  match l with WS => (v, snd h) | RT => (fst h, v) end.
Definition hempty : held := (None, None).

(* the per-path check: every write holds its guard exclusively, every read holds it at least
   shared, no lock is re-acquired while held (sync.RWMutex is not reentrant), the container
   lock is never acquired while a routes lock is held (lock order), everything is released *)
Fixpoint check_path (h : held) (p : list ev) : bool :=
  match p with
  | [] => match h with (None, None) => true | _ => false end
  | Acq l m :: p' =>
      match hget h l with
      | Some _ => false
      | None => (match l with WS => match hget h RT with None => true | Some _ => false end | RT => true end)
                && check_path (hset h l (Some m)) p'
      end
  | Rel l m :: p' =>
      match hget h l with
      | Some m' => md_eqb m m' && check_path (hset h l None) p'
      | None => false
      end
  | Rd x _ :: p' => match hget h (guard x) with Some _ => check_path h p' | None => false end
  | Wr x _ :: p' => match hget h (guard x) with Some W => check_path h p' | _ => false end
  (* user code may call back into the container (RegisteredWebServices, the OPTIONS / CORS filters) and may run
     for long: no registration lock may be held across it *)
  | User _ :: p' => match h with (None, None) => check_path h p' | _ => false end
  end.

Definition lockset_ok (t : list (string * list ev)) : bool :=
  forallb (fun e => check_path hempty (snd e)) t.

(* the first offending access of a path (for the counter-example report) *)
Fixpoint first_bad (h : held) (p : list ev) : option ev :=
  match p with
  | [] => None
  | Acq l m :: p' => match hget h l with Some _ => Some (Acq l m) | None => first_bad (hset h l (Some m)) p' end
  | Rel l m :: p' => match hget h l with Some _ => first_bad (hset h l None) p' | None => Some (Rel l m) end
  | Rd x s :: p' => match hget h (guard x) with Some _ => first_bad h p' | None => Some (Rd x s) end
  | Wr x s :: p' => match hget h (guard x) with Some W => first_bad h p' | _ => Some (Wr x s) end
  | User s :: p' => match h with (None, None) => first_bad h p' | _ => Some (User s) end
  end.
Definition offenders (t : list (string * list ev)) : list (string * ev) :=
  flat_map (fun e => match first_bad hempty (snd e) with Some x => [(fst e, x)] | None => [] end) t.

(* ---- interleaving semantics ---- *)
Notation thread := (held * list ev)%type.

(* may thread [i] acquire [l] in mode [m], given what the others hold ([k]: index of the head) *)
Definition compat (h : held) (l : lk) (m : md) : bool :=
  match hget h l, m with
  | None, _ => true
  | Some R, R => true
  | _, _ => false
  end.
Fixpoint others_allow_from (k : nat) (ts : list (held * list ev)) (i : nat) (l : lk) (m : md) : bool :=
  match ts with
  | [] => true
  | t :: ts' => (Nat.eqb i k || compat (fst t) l m) && others_allow_from (S k) ts' i l m
  end.
Definition others_allow (ts : list (held * list ev)) (i : nat) (l : lk) (m : md) : bool :=
  others_allow_from 0 ts i l m.

Fixpoint set_nth {A} (n : nat) (x : A) (l : list A) : list A :=
  match l, n with
  | [], _ => []
  | _ :: l', 0 => x :: l'
  | y :: l', S n' => y :: set_nth n' x l'
  end.

(* thread [i] executes its next event; None = not enabled / finished *)
Definition cstep (ts : list thread) (i : nat) : option (list thread) :=
  match nth_error ts i with
  | Some (h, e :: p) =>
      match e with
      | Acq l m => if others_allow ts i l m then Some (set_nth i (hset h l (Some m), p) ts) else None
      | Rel l _ => Some (set_nth i (hset h l None, p) ts)
      | Rd _ _ | Wr _ _ | User _ => Some (set_nth i (h, p) ts)
      end
  | _ => None
  end.

Fixpoint crun (ts : list thread) (sched : list nat) : list thread :=
  match sched with
  | [] => ts
  | i :: rest => match cstep ts i with Some ts' => crun ts' rest | None => crun ts rest end
  end.

Definition conflicting (a b : ev) : bool :=
  match a, b with
  | Wr x _, Wr y _ | Wr x _, Rd y _ | Rd x _, Wr y _ => loc_eqb x y
  | _, _ => false
  end.

Definition next_ev (t : thread) : option ev := match snd t with e :: _ => Some e | [] => None end.

(* ---- the step structure model/Linear.v assumes of a request (C12_linearisation) ----
   one critical section of the container's read lock that contains every read of the service
   list and of a route slice, the service list first; nothing of the registration state is
   read after it was left *)
Definition reads_registration (e : ev) : bool :=
  match e with Rd LWebServices _ | Rd LRoutes _ => true | _ => false end.
Fixpoint split_at_rel_ws (p : list ev) : list ev * list ev :=
  match p with
  | [] => ([], [])
  | Rel WS R :: rest => ([], rest)
  | e :: rest => let (a, b) := split_at_rel_ws rest in (e :: a, b)
  end.
Definition selection_shape (p : list ev) : bool :=
  match p with
  | Acq WS R :: rest =>
      let (inside, after) := split_at_rel_ws rest in
      match filter reads_registration inside with
      | Rd LWebServices _ :: _ => negb (existsb reads_registration after)
      | _ => false
      end
  | _ => false
  end.
Definition is_dispatch_path (name : string) : bool :=
  orb (String.prefix "Container.dispatch[" name) (String.prefix "Container.Dispatch[" name).
Definition selection_shapes_ok (t : list (string * list ev)) : bool :=
  existsb (fun np => is_dispatch_path (fst np)) t
  && forallb (fun np => if is_dispatch_path (fst np) then selection_shape (snd np) else true) t.

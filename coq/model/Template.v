(* Template.v — path tokenisation, custom verbs, path concatenation and the
   token view of templateToRegularExpression.
   Mirrors route.go (tokenizePath), route_builder.go (concatPath),
   custom_verb.go, path_expression.go.  Default path strategy only
   (TrimRightSlashEnabled = true). Definitions only. *)
From Model Require Import Str.

(* route.go:164 tokenizePath *)
Definition tokenize (path : str) : list str :=
  if str_eqb path [slash] then [] else split slash (trim slash path).

(* route_builder.go:362 concatPath *)
Definition concat_path (root rel : str) : str :=
  trim_right slash root ++ [slash] ++ trim_left slash rel.

(* custom_verb.go: customVerbReg = ":([A-Za-z]+)$" — the text after the last
   colon is a non-empty run of ASCII letters reaching the end *)
Fixpoint span_letters (s : str) : str * str :=
  match s with
  | [] => ([], [])
  | c :: s' => if is_letter c then let '(a, b) := span_letters s' in (c :: a, b) else ([], s)
  end.

(* Some (before, verb) when s = before ++ ":" ++ verb, verb letters, non-empty *)
Definition verb_split (s : str) : option (str * str) :=
  let '(ls, rest) := span_letters (rev s) in
  match ls, rest with
  | _ :: _, c :: before_rev => if Ascii.eqb c colon then Some (rev before_rev, rev ls) else None
  | _, _ => None
  end.

Definition has_custom_verb (s : str) : bool :=
  match verb_split s with Some _ => true | None => false end.

(* removeCustomVerb: ReplaceAllString(customVerbReg, "") *)
Definition remove_custom_verb (s : str) : str :=
  match verb_split s with Some (b, _) => b | None => s end.

(* isMatchCustomVerb(routeToken, pathToken): pathToken ends with ":" ++ verb *)
Definition is_match_custom_verb (rt pt : str) : bool :=
  match verb_split rt with
  | Some (_, v) => has_suffix pt (colon :: v)
  | None => false
  end.

(* path_processor.go:64 untokenizePath *)
Definition untokenize (offset : nat) (parts : list str) : str :=
  join [slash] (skipn offset parts).

(* --- token view of path_expression.go templateToRegularExpression --- *)
Inductive etok :=
| ELit (s : str)            (* regexp.QuoteMeta(literal) *)
| EVar                      (* one non-empty segment *)
| ERx (re : str)            (* (re) *)
| EAll.                     (* the dot-star group of a tail wildcard *)

Definition is_space_char (c : ascii) : bool :=
  let n := N_of_ascii c in
  (N.eqb n 32) || (N.leb 9 n && N.leb n 13).
Fixpoint trim_left_space (s : str) : str :=
  match s with
  | [] => []
  | c :: s' => if is_space_char c then trim_left_space s' else s
  end.
(* strings.TrimSpace on ASCII white space *)
Definition trim_space (s : str) : str := rev (trim_left_space (rev (trim_left_space s))).

Record pexpr := {
  pe_toks : list etok;       (* non-empty template tokens, in order *)
  pe_names : list str;       (* VarNames *)
  pe_literal : nat;          (* LiteralCount *)
  pe_vars : nat;             (* VarCount *)
  pe_tokens : list str;      (* tokens = tokenizePath(template) *)
  pe_groups : nat            (* capture groups INSIDE the variables' own expressions (they count in len(matches)) *)
}.

(* capture groups inside a variable's expression: a '(' that is not escaped and not followed by '?'.  Exact for
   the expressions the generators use (the harness checks the count against regexp.NumSubexp for every
   expression of a case); '(' inside a character class is outside what is modelled *)
Definition backslash : ascii := ascii_of_nat 92.
Definition lparen : ascii := ascii_of_nat 40.
Definition qmark : ascii := ascii_of_nat 63.
Fixpoint re_groups (re : str) : nat :=
  match re with
  | [] => 0
  | c :: re' =>
      if Ascii.eqb c backslash then match re' with _ :: re'' => re_groups re'' | [] => 0 end
      else if Ascii.eqb c lparen then
        match re' with
        | q :: _ => if Ascii.eqb q qmark then re_groups re' else S (re_groups re')
        | [] => 1
        end
      else re_groups re'
  end.

Definition etok_of (t : str) : etok * option str :=
  if has_prefix t [lbrace] then
    match index_char t colon with
    | Some c =>
        let name := trim_space (slice t 1 c) in
        let re := trim_space (slice t (c + 1) (List.length t - 1)) in
        (if str_eqb re (L "*") then EAll else ERx re, Some name)
    | None => (EVar, Some (trim_space (slice t 1 (List.length t - 1))))
    end
  else (ELit t, None).

Definition path_expression (template : str) : pexpr :=
  let tokens := tokenize template in
  let ne := filter (fun t => negb (str_eqb t [])) tokens in
  let ets := map etok_of ne in
  {| pe_toks := map fst ets;
     pe_names := flat_map (fun e => match snd e with Some n => [n] | None => [] end) ets;
     pe_literal := fold_left (fun a e => match fst e with ELit s => a + List.length s | _ => a end) ets 0;
     pe_vars := List.length (filter (fun e => match snd e with Some _ => true | None => false end) ets);
     pe_tokens := tokens;
     pe_groups := fold_right (fun e a => match fst e with ERx re => re_groups re + a | _ => a end) 0 ets |}.

(* Dispatch.v — mirrors container.go (dispatch, Dispatch, ServeHTTP,
   writeServiceError), filter.go (FilterChain.ProcessFilter), compress.go
   (wantsCompressedResponse, NewCompressingResponseWriter, Close) and the
   provider bookkeeping of compressors.go.
   User code (filters, route functions, recover handler) is data: behaviour
   scripts.  Go's panic/defer/recover is an explicit result ([Done]/[Panicked])
   with the defers written out in the order the code registers them.
   Definitions only. *)
From Model Require Import Str Sexp Http Template Table Curly DetectRoute Jsr311 Router.

Inductive coding := Gzip | Deflate.
Definition coding_name (c : coding) : str := match c with Gzip => L "gzip" | Deflate => L "deflate" end.

(* ---- behaviour scripts ---- *)
Inductive action :=
| AHeader (k v : str)        (* resp.AddHeader(k, v) *)
| AStatus (n : Z)            (* resp.WriteHeader(n) *)
| AWrite (b : str)           (* resp.Write(b) *)
| AAttr (k v : str)          (* req.SetAttribute(k, v) *)
| ASee (k : str)             (* append the value of attribute k, as seen here, to the event log *)
| APanic (msg : str)         (* panic(msg) *)
| ADelHeader (k : str)       (* resp.Header().Del(k): user code may drop a header the framework set (net/http does it
                                for Content-Encoding when answering 304) *)
| APretty (b : bool)         (* resp.PrettyPrint(b): state of the *Response wrapper the script holds *)
| AEntity (compact pretty : str). (* resp.WriteAsJson(v) for a fixed value: status 200, then the indented or the compact
                                rendering (both computed with encoding/json by the harness), as the wrapper's switch says *)

Record fscript := {
  f_id : str;
  f_pre : list action;        (* before chain.ProcessFilter *)
  f_pass : bool;              (* calls chain.ProcessFilter (once) *)
  f_post : list action;       (* after it returned *)
  f_fresh : bool;             (* passes on a NEW *Request wrapper (attributes start empty) *)
  f_mw : nat                  (* 0: a FilterFunction; 1 / 2: an http middleware adapted with HttpMiddlewareHandlerToFilter
                                 that passes on the same / a derived *http.Request: the adapter rebinds the SAME
                                 *Request wrapper, so parameters and attributes flow through (filter_adapter.go:11) *);
  f_wrap : bool               (* passes on restful.NewResponse(w) where w upper-cases every byte written through it:
                                 what follows in the chain - later filters, the route function or plain handler, the
                                 error writer - must write through that wrapper; a new wrapper starts with the
                                 package's pretty-print default *)
}.

(* ---- the state one request works on ---- *)
Record rstate := {
  st_status : option Z;                       (* status the underlying writer received *)
  st_hdr : headers;                           (* its header map, in Add order *)
  st_raw : list str;                          (* chunks that reached it directly *)
  st_comp : option (coding * list str * bool);(* installed compressor: coding, chunks written through it, closed *)
  st_log : list str;                          (* event log appended to by scripts *)
  st_attrs : list (str * str);                (* attributes of the current *Request wrapper *)
  st_acq : nat;                               (* compressors acquired from the provider *)
  st_rel : nat;                               (* compressors released to the provider *)
  st_recovered : nat;                         (* calls of the recover handler *)
  st_pretty : bool;                           (* prettyPrint of the current *Response wrapper *)
  st_upper : nat                              (* upper-casing writers between the current wrapper and the container's writer *)
}.

Definition st0 (hdr : headers) : rstate :=
  {| st_status := None; st_hdr := hdr; st_raw := []; st_comp := None; st_log := [];
     st_attrs := []; st_acq := 0; st_rel := 0; st_recovered := 0; st_pretty := true; st_upper := 0 |}.

Definition upd_log (s : rstate) (e : str) : rstate :=
  {| st_status := st_status s; st_hdr := st_hdr s; st_raw := st_raw s; st_comp := st_comp s;
     st_log := st_log s ++ [e]; st_attrs := st_attrs s; st_acq := st_acq s; st_rel := st_rel s;
     st_recovered := st_recovered s; st_pretty := st_pretty s; st_upper := st_upper s |}.
Definition upd_attrs (s : rstate) (a : list (str * str)) : rstate :=
  {| st_status := st_status s; st_hdr := st_hdr s; st_raw := st_raw s; st_comp := st_comp s;
     st_log := st_log s; st_attrs := a; st_acq := st_acq s; st_rel := st_rel s;
     st_recovered := st_recovered s; st_pretty := st_pretty s; st_upper := st_upper s |}.
Definition upd_hdr (s : rstate) (h : headers) : rstate :=
  {| st_status := st_status s; st_hdr := h; st_raw := st_raw s; st_comp := st_comp s;
     st_log := st_log s; st_attrs := st_attrs s; st_acq := st_acq s; st_rel := st_rel s;
     st_recovered := st_recovered s; st_pretty := st_pretty s; st_upper := st_upper s |}.

(* http.ResponseWriter.WriteHeader: the first status wins *)
Definition write_header (s : rstate) (n : Z) : rstate :=
  match st_status s with
  | Some _ => s
  | None => {| st_status := Some n; st_hdr := st_hdr s; st_raw := st_raw s; st_comp := st_comp s;
               st_log := st_log s; st_attrs := st_attrs s; st_acq := st_acq s; st_rel := st_rel s;
               st_recovered := st_recovered s; st_pretty := st_pretty s; st_upper := st_upper s |}
  end.

(* Write through the active writer: the compressor if one is installed and open
   (compress.go:40), refused when it is closed, else the underlying writer
   (which sends 200 first when no status was written) *)
Definition upper_ascii_char (c : ascii) : ascii :=
  let n := N_of_ascii c in
  if N.leb 97 n && N.leb n 122 then ascii_of_N (n - 32) else c.
Definition upper_ascii (s : str) : str := map upper_ascii_char s.

Definition write_body (s : rstate) (b0 : str) : rstate :=
  (* the bytes pass the upper-casing writers first, if the current wrapper sits on any *)
  let b := if Nat.ltb 0 (st_upper s) then upper_ascii b0 else b0 in
  match st_comp s with
  | Some (c, chunks, false) =>
      (* the stream header reaches the underlying writer with the first Write, so a 200 is
         committed when no status was written before *)
      let s := write_header s 200 in
      {| st_status := st_status s; st_hdr := st_hdr s; st_raw := st_raw s;
         st_comp := Some (c, chunks ++ [b], false);
         st_log := st_log s; st_attrs := st_attrs s; st_acq := st_acq s; st_rel := st_rel s;
         st_recovered := st_recovered s; st_pretty := st_pretty s; st_upper := st_upper s |}
  | Some (_, _, true) => s
  | None =>
      let s := write_header s 200 in
      {| st_status := st_status s; st_hdr := st_hdr s; st_raw := st_raw s ++ [b]; st_comp := st_comp s;
         st_log := st_log s; st_attrs := st_attrs s; st_acq := st_acq s; st_rel := st_rel s;
         st_recovered := st_recovered s; st_pretty := st_pretty s; st_upper := st_upper s |}
  end.

(* the *Response wrapper in use: its pretty-print switch and how many upper-casing writers it sits on *)
Definition set_wrapper (s : rstate) (pretty : bool) (upper : nat) : rstate :=
  {| st_status := st_status s; st_hdr := st_hdr s; st_raw := st_raw s; st_comp := st_comp s;
     st_log := st_log s; st_attrs := st_attrs s; st_acq := st_acq s; st_rel := st_rel s;
     st_recovered := st_recovered s; st_pretty := pretty; st_upper := upper |}.

Inductive res := Done (s : rstate) | Panicked (msg : str) (s : rstate).
Definition state_of (r : res) : rstate := match r with Done s => s | Panicked _ s => s end.
Definition bind (r : res) (k : rstate -> res) : res :=
  match r with Done s => k s | Panicked m s => Panicked m s end.

Definition attr_get (k : str) (a : list (str * str)) : str :=
  match assoc k a with Some v => v | None => [] end.

Definition run_action (a : action) (s : rstate) : res :=
  match a with
  | AHeader k v => Done (upd_hdr s (hadd (st_hdr s) k v))
  | AStatus n => Done (write_header s n)
  | AWrite b => Done (write_body s b)
  | AAttr k v => Done (upd_attrs s (pset k v (st_attrs s)))
  | ASee k => Done (upd_log s (L "see:" ++ k ++ L "=" ++ attr_get k (st_attrs s)))
  | APanic m => Panicked m s
  | ADelHeader k => Done (upd_hdr s (filter (fun kv => negb (str_eqb (fst kv) k)) (st_hdr s)))
  | APretty b => Done (set_wrapper s b (st_upper s))
  | AEntity c p => Done (write_body (write_header s 200) (if st_pretty s then p else c))
  end.

Fixpoint run_actions (l : list action) (s : rstate) : res :=
  match l with
  | [] => Done s
  | a :: l' => bind (run_action a s) (run_actions l')
  end.

(* filter.go:18 ProcessFilter on scripts that pass control on at most once:
   Index advances by one per filter entered, the target runs after the last *)
Fixpoint run_chain (fs : list fscript) (target : rstate -> res) (s : rstate) : res :=
  match fs with
  | [] => target s
  | f :: rest =>
      bind (run_actions (f_pre f) (upd_log s (L "pre:" ++ f_id f))) (fun s1 =>
      if f_pass f then
        let outer := st_attrs s1 in
        let s1' := if f_fresh f then upd_attrs s1 [] else s1 in
        let s1'' := if f_wrap f then set_wrapper s1' true (S (st_upper s1')) else s1' in
        bind (run_chain rest target s1'') (fun s2 =>
        let s2' := if f_fresh f then upd_attrs s2 outer else s2 in
        (* back in this filter: its own wrapper again *)
        let s2'' := if f_wrap f then set_wrapper s2' (st_pretty s1) (st_upper s1) else s2' in
        bind (run_actions (f_post f) s2'') (fun s3 => Done (upd_log s3 (L "post:" ++ f_id f))))
      else
        bind (run_actions (f_post f) s1) (fun s3 => Done (upd_log s3 (L "post:" ++ f_id f))))
  end.

(* ---- compression ---- *)
(* compress.go:97 wantsCompressedResponse *)
Definition wants_compressed (req : request) (s : rstate) : option coding :=
  let ce := match hvalues H_ContentEncoding (st_hdr s) with v :: _ => v | [] => [] end in
  match ce with
  | _ :: _ => None                       (* the writer already carries a Content-Encoding *)
  | [] =>
      let header := hget req H_AcceptEncoding in
      match index header (L "gzip"), index header (L "deflate") with
      | None, None => None
      | None, Some _ => Some Deflate
      | Some _, None => Some Gzip
      | Some g, Some z => if Nat.ltb g z then Some Gzip else Some Deflate   (* order of appearance *)
      end
  end.

(* Header().Set(k, v): replaces all values of k *)
Definition hset (h : headers) (k v : str) : headers :=
  filter (fun kv => negb (str_eqb (fst kv) k)) h ++ [(k, v)].

(* compress.go:118 NewCompressingResponseWriter: header, acquire, Reset *)
Definition install (c : coding) (s : rstate) : rstate :=
  {| st_status := st_status s; st_hdr := hset (st_hdr s) H_ContentEncoding (coding_name c);
     st_raw := st_raw s; st_comp := Some (c, [], false);
     st_log := st_log s; st_attrs := st_attrs s; st_acq := S (st_acq s); st_rel := st_rel s;
     st_recovered := st_recovered s; st_pretty := st_pretty s; st_upper := st_upper s |}.

(* compress.go:63 Close: refused when already closed; else close the stream (the frame
   goes to the underlying writer), release, nil the field *)
Definition close_comp (s : rstate) : rstate :=
  match st_comp s with
  | Some (c, chunks, false) =>
      let s1 := write_header s 200 in
      {| st_status := st_status s1; st_hdr := st_hdr s1; st_raw := st_raw s1;
         st_comp := Some (c, chunks, true);
         st_log := st_log s1; st_attrs := st_attrs s1; st_acq := st_acq s1; st_rel := S (st_rel s1);
         st_recovered := st_recovered s1; st_pretty := st_pretty s1; st_upper := st_upper s1 |}
  | _ => s
  end.

(* ---- configuration ---- *)
Record dcfg := {
  d_table : table;
  d_cfilters : list fscript;                  (* Container.Filter *)
  d_sfilters : list (str * list fscript);     (* WebService.Filter, keyed by root path *)
  d_rfilters : list (Z * list fscript);       (* RouteBuilder.Filter, keyed by route id *)
  d_handlers : list (Z * list action);        (* route functions, keyed by route id *)
  d_encoding : bool;                          (* Container.EnableContentEncoding *)
  d_recover : bool;                           (* !doNotRecover *)
  d_recover_script : list action;             (* the RecoverHandler *)
  d_condpanic : list Z;                       (* routes whose last If-condition panics on requests marked X-Cond-Panic: 1 *)
  d_plain : list (str * (bool * list action)) (* Container.Handle / HandleWithFilter: pattern -> (with filters, what the handler does) *)
}.

Fixpoint zassoc {A} (k : Z) (l : list (Z * A)) : option A :=
  match l with [] => None | (k', v) :: l' => if Z.eqb k k' then Some v else zassoc k l' end.
Definition sfilters_of (cfg : dcfg) (w : service) : list fscript :=
  match assoc (s_root w) (d_sfilters cfg) with Some l => l | None => [] end.
Definition rfilters_of (cfg : dcfg) (r : route) : list fscript :=
  match zassoc (r_id r) (d_rfilters cfg) with Some l => l | None => [] end.
Definition handler_of (cfg : dcfg) (r : route) : list action :=
  match zassoc (r_id r) (d_handlers cfg) with Some l => l | None => [] end.

Inductive entry := EDispatch | EServeHTTP.

Section WithOracles.
Variable O : oracles.

(* path parameters and the selected route live on the *Request wrapper, like the
   attributes: a filter that passes on a NEW wrapper hides all three from what follows.
   They are kept under two reserved keys of the wrapper state. *)
Definition K_params : str := [zero] ++ L "params".
Definition K_sel : str := [zero] ++ L "sel".

(* the parameter map as the handler of the harness renders it: sorted by name *)
Definition of_params_log (ps : list (str * str)) : str :=
  join [semi] (map (fun k => k ++ L "=" ++ match assoc k ps with Some v => v | None => [] end)
                   (sort_strs (map fst ps))).

(* container.go:187 writeServiceError + response.go WriteErrorString *)
Definition write_service_error (e : rerr) (s : rstate) : res :=
  let '(code, allow) :=
    match e with
    | E404 => (404, None)
    | E405 a => (405, Some (join (L ", ") a))
    | E415 => (415, None)
    | E406 => (406, None)
    end%Z in
  let s := match allow with Some v => upd_hdr s (hadd (st_hdr s) H_Allow v) | None => s end in
  (* the message text is not modelled: observations drop it (an empty chunk stands for it) *)
  Done (write_body (write_header s code) []).

(* container.go:229-300: the body of dispatch after the defers are registered.
   [already]: the writer handed to dispatch is a CompressingResponseWriter *)
(* the routes whose conditions detectRoute evaluates: the path candidates of the detected service *)
Definition path_candidates (t : table) (req : request) : list route :=
  match t_router t with
  | Curly =>
      match detect_web_service O (tokenize (rq_path req)) (t_services t) with
      | None => []
      | Some w => map cc_route (curly_select_routes O w (tokenize (rq_path req)))
      end
  | Jsr311 =>
      match detect_dispatcher O (rq_path req) (t_services t) with
      | None => []
      | Some (w, fin) => map rc_route (jsr_select_routes O w fin)
      end
  end.

Definition H_CondPanic := L "X-Cond-Panic".
(* a condition function panics inside route selection (the panicking condition is the last one of its route:
   it is reached when the route is a candidate and its other conditions hold) *)
Definition cond_panic_hit (cfg : dcfg) (req : request) : bool :=
  str_eqb (hget req H_CondPanic) (L "1") &&
  existsb (fun r => existsb (Z.eqb (r_id r)) (d_condpanic cfg) && forallb (fun b => b) (r_conds r))
          (path_candidates (d_table cfg) req).

Definition dispatch_body (cfg : dcfg) (req : request) (already : bool) (s : rstate) : res :=
  (* container.go:233-239: selection runs inside a closure whose deferred RUnlock always runs *)
  if cond_panic_hit cfg req then Panicked (L "cond") s else
  match select_route O (d_table cfg) req with
  | inr e =>
      run_chain (d_cfilters cfg) (write_service_error e) s
  | inl (w, r) =>
      let enabled := match r_enc r with Some b => b | None => d_encoding cfg end in
      let s := if already then s
               else if enabled then
                      match wants_compressed req s with Some c => install c s | None => s end
                    else s in
      match extract_parameters O (d_table cfg) w r (rq_path req) with
      | None => Panicked (L "runtime error: slice bounds out of range") s
      | Some ps =>
          run_chain (d_cfilters cfg ++ sfilters_of cfg w ++ rfilters_of cfg r)
                    (fun s => run_actions (handler_of cfg r)
                                (upd_log (upd_log s (L "H:" ++ itoa (r_id r)))
                                         (L "saw:" ++ attr_get K_sel (st_attrs s)
                                            ++ L " " ++ attr_get K_params (st_attrs s))))
                    (upd_attrs s [(K_sel, route_path w r); (K_params, of_params_log ps)])
      end
  end.

(* container.go:208 dispatch with its two defers: recover (registered second, runs first)
   then close (registered first, runs last) *)
Definition dispatch (cfg : dcfg) (req : request) (already : bool) (s : rstate) : res :=
  let r1 := dispatch_body cfg req already s in
  let r2 := match r1 with
            | Done s' => Done s'
            | Panicked m s' =>
                if d_recover cfg then
                  (* recoverHandleFunc(r, writer): a panic inside it propagates *)
                  run_actions (d_recover_script cfg)
                    {| st_status := st_status s'; st_hdr := st_hdr s'; st_raw := st_raw s'; st_comp := st_comp s';
                       st_log := st_log s' ++ [L "recover:" ++ m]; st_attrs := st_attrs s';
                       st_acq := st_acq s'; st_rel := st_rel s'; st_recovered := S (st_recovered s');
                       (* the recover handler is handed the container's own writer: no wrapper of the chain is in between *)
                       st_pretty := true; st_upper := 0 |}
                else Panicked m s'
            end in
  match r2 with
  | Done s' => Done (close_comp s')
  | Panicked m s' => Panicked m (close_comp s')
  end.

(* container.go:372 Handle (and :415 HandleWithFilter): what the mux runs for a plain handler.
   No recovery here by construction: a panic propagates, the deferred Close still runs. *)
Definition handle_plain (cfg : dcfg) (with_filters : bool) (script : list action) (req : request) (s : rstate) : res :=
  let already := match st_comp s with Some _ => true | None => false end in
  let s1 := if already then s
            else if d_encoding cfg then match wants_compressed req s with Some c => install c s | None => s end
            else s in
  let r := match with_filters, d_cfilters cfg with
           | true, _ :: _ => run_chain (d_cfilters cfg) (run_actions script) s1
           | _, _ => run_actions script s1
           end in
  match r with
  | Done s' => Done (close_comp s')
  | Panicked m s' => Panicked m (close_comp s')
  end.

(* what the ServeMux hands the request to: a plain handler registered on exactly this path, else dispatch
   (every table of this domain has a service on "/"; registration and the mux itself are the subject of C11) *)
Definition mux_target (cfg : dcfg) (req : request) (already : bool) (s : rstate) : res :=
  match assoc (rq_path req) (d_plain cfg) with
  | Some (wf, script) => handle_plain cfg wf script req s
  | None => dispatch cfg req already s
  end.

(* container.go:328 ServeHTTP *)
Definition serve (cfg : dcfg) (en : entry) (req : request) (s : rstate) : res :=
  match en with
  | EDispatch => dispatch cfg req false s
  | EServeHTTP =>
      if negb (d_encoding cfg) then mux_target cfg req false s
      else
        let s1 := match wants_compressed req s with Some c => install c s | None => s end in
        let already := match st_comp s1 with Some _ => true | None => false end in
        (* deferred Close of ServeHTTP: a second Close is refused *)
        match mux_target cfg req already s1 with
        | Done s' => Done (close_comp s')
        | Panicked m s' => Panicked m (close_comp s')
        end
  end.

End WithOracles.
